//go:build test

// Long outage. With a stale last-sync stamp and every configured server
// failing (reset / EOF / bad signature / refused mix) the client's own loop
// launches one background round after the other. For at least 220 report-loop
// ticks the client must stay alive (process death is reported by the parent),
// keep emitting the energy rows that keep arriving, and keep launching rounds:
// the distance between two observed dials never exceeds the ceiling of the
// tick logic (60 ticks between launches + one tick sleep before each of at
// most 5 attempts, + 10 slack). When the servers recover, a round must
// succeed within the same bound (last-sync.txt is rewritten on success).
package main

import (
	"fmt"
	"math/rand"
	"os"
	"path/filepath"
	"strings"
	"sync/atomic"
	"time"

	"github.com/glowlabs-org/gca-backend/client"

	"verifharness/lib/drv"
	"verifharness/lib/ev"
	"verifharness/lib/refenc"
	"verifharness/lib/run"
)

const outageTicks = 230

func outageCase(i int, seed int64) *caseCfg {
	cc := &caseCfg{Kind: "outage", Index: i, Seed: seed*1000003 + 800000 + int64(i)}
	mixes := [][]string{{"wrongkey", "reset"}, {"badsig", "refused", "wrongkey"}, {"reset", "badsig"}, {"wrongkey"}, {"short", "reset", "refused", "badsig"}, {"badsig"}}
	for _, o := range mixes[i%len(mixes)] {
		cc.Servers = append(cc.Servers, srvCfg{Outcome: o})
	}
	if i%2 == 1 {
		cc.Servers = append(cc.Servers, srvCfg{Outcome: "success", Banned: true})
	}
	return cc
}

func runOutage(cc *caseCfg, b run.Batch, r *ev.Result) (abort bool) {
	x := &ctx{r: r, cc: cc, rng: rand.New(rand.NewSource(cc.Seed)), dir: filepath.Join(b.Dir, fmt.Sprintf("outage%d", cc.Index))}
	defer x.teardown()
	run.Op("case outage/%d seed=%d servers=%v", cc.Index, cc.Seed, cc.Servers)
	if err := x.setup(); err != nil {
		x.inconc("setup: %v", err)
		return false
	}
	x.prevMem, x.prevFile = copySet(x.told), copySet(x.told)
	syncFile := filepath.Join(x.cdir, client.LastSyncFile)
	os.WriteFile(syncFile, []byte(*drv.StaleSyncStamp()), 0644)
	var watched []int // non-banned listening servers: their dials are the launches we can see
	for j, s := range cc.Servers {
		if !s.Banned && x.rogues[j].ln != nil {
			watched = append(watched, j)
		}
	}
	total := func() int {
		n := 0
		for _, j := range watched {
			n += x.rogues[j].acceptCount()
		}
		return n
	}
	const fresh0 = false // stale stamp: a background round may rewrite the file at any moment: no file read
	x.T0 = client.VerifTicks()
	x.trace("start client with a stale stamp; every server fails for %d ticks", outageTicks)
	c, err := drv.StartClient(x.cdir)
	if err != nil {
		x.inconc("client start: %v", err)
		return false
	}
	x.c = c
	x.clientStarted()
	r.Count("cases", 1)
	r.Count("cases_outage", 1)
	x.checkState("start", true, fresh0)

	// ---- sampler: largest distance (in report-loop ticks) between two observed dials
	var maxGap, lastDialTick, dials atomic.Int64
	lastDialTick.Store(int64(x.T0))
	stop := make(chan struct{})
	sampled := make(chan struct{})
	go func() {
		defer close(sampled)
		seen := total()
		for {
			select {
			case <-stop:
				return
			default:
			}
			n, t := total(), int64(client.VerifTicks())
			if n > seen {
				seen = n
				dials.Store(int64(n))
				if g := t - lastDialTick.Load(); g > maxGap.Load() {
					maxGap.Store(g)
				}
				lastDialTick.Store(t)
			} else if g := t - lastDialTick.Load(); g > maxGap.Load() {
				maxGap.Store(g) // an open gap counts as well
			}
			time.Sleep(time.Millisecond)
		}
	}()
	stopSampler := func() { close(stop); <-sampled }

	// ---- the outage: rows keep arriving, reports must keep leaving
	for client.VerifTicks() < x.T0+outageTicks {
		st := x.c.VerifState()
		_, hasPrimary := st.Servers[st.PrimaryServer]
		if x.emission(fmt.Sprintf("outage tick %d", client.VerifTicks()-x.T0), hasPrimary) {
			stopSampler()
			return true
		}
		if r.NumViolations() > 0 {
			break
		}
		next := client.VerifTicks() + 22
		for dl := time.Now().Add(30 * time.Second); client.VerifTicks() < next && client.VerifTicks() < x.T0+outageTicks; time.Sleep(2 * time.Millisecond) {
			if time.Now().After(dl) {
				break // a stalled loop is diagnosed by the next emission step
			}
		}
	}
	r.Eval(1)
	r.Nontrivial(fmt.Sprintf("outage|%v", cc.Servers))
	r.Max("max.outage_ticks_survived", int64(client.VerifTicks()-x.T0))
	r.Count("outage_dials_observed", dials.Load())
	if len(watched) > 0 && len(cc.Servers)-len(watched) <= 4 {
		r.Max("max.ticks_between_background_dials_in_outage", maxGap.Load())
		if g := maxGap.Load(); g > stallBoundTicks {
			r.Violationf("no-later-sync-attempt", x.replay(map[string]interface{}{"label": "outage", "max_gap_ticks": g, "dials": dials.Load()}),
				"outage: %d report-loop ticks passed without any sync attempt reaching a non-banned listening server (ceiling of the tick logic: %d)", g, stallBoundTicks)
		} else {
			r.Count("outage_rounds_kept_coming", 1)
		}
	}
	// ---- recovery
	x.trace("servers recover at tick %d", client.VerifTicks()-x.T0)
	for _, j := range watched {
		j := j
		rep := refenc.SyncReply{DevKey: x.dev.Pub, Unix: uint64(time.Now().Unix())}
		for i := range rep.Bitfield {
			rep.Bitfield[i] = 0xff
		}
		raw := refenc.BuildSyncReply(rep, x.rogues[j].Key.Priv)
		tag := x.addReply(raw, nil, j, false, false)
		x.rogues[j].setBehave(func(int) action { return action{Kind: "reply", Reply: raw, CloseAfter: -1, Tag: tag} })
	}
	tR := client.VerifTicks()
	recovered := false
	if len(watched) > 0 && len(cc.Servers)-len(watched) <= 4 {
		start := time.Now()
		last, lastChange := tR, time.Now()
		for {
			if raw, err := os.ReadFile(syncFile); err == nil && strings.TrimSpace(string(raw)) != "0" && len(raw) > 0 {
				recovered = true
				r.Count("outage_recovered_sync_succeeded", 1)
				r.Max("max.ticks_until_successful_sync_after_recovery", int64(client.VerifTicks()-tR))
				break
			}
			t := client.VerifTicks()
			if t != last {
				last, lastChange = t, time.Now()
			}
			if t >= tR+stallBoundTicks {
				r.Violationf("no-successful-sync-after-recovery", x.replay(map[string]interface{}{"label": "outage", "ticks": t - tR}),
					"outage: the servers answer correctly again since %d report-loop ticks and no sync round has succeeded (last-sync.txt still stale)", t-tR)
				break
			}
			if time.Since(lastChange) > 700*time.Millisecond {
				if w, why := wedged(); w {
					r.Violationf("report-loop-wedged", x.replay(map[string]interface{}{"label": "outage recovery", "goroutines": why}), "outage: the report loop stopped ticking: %s", why)
					stopSampler()
					x.closed = true
					go x.c.Close()
					return true
				}
				lastChange = time.Now()
			}
			if time.Since(start) > 40*time.Second {
				x.inconc("outage recovery: undecided after 40s")
				stopSampler()
				return true
			}
			time.Sleep(time.Millisecond)
		}
	}
	stopSampler()
	_ = recovered
	for j, s := range cc.Servers {
		if s.Banned {
			r.Count("banned_listeners_watched", 1)
			if d := x.rogues[j].acceptCount(); d > 0 {
				r.Violationf("dialed-banned-server", x.replay(map[string]interface{}{"label": "outage", "server_index": j}), "outage: %d dial(s) reached the initially banned server #%d", d, j)
			}
		}
	}
	free, leaked, detail := probeLock(x.c)
	if leaked {
		r.Violationf("client-lock-leaked-after-sync", x.replay(map[string]interface{}{"label": "outage"}), "outage: the client mutex is still held: %s", detail)
		x.closed = true
		go x.c.Close()
		return true
	}
	if !free {
		x.closed = true
		x.inconc("outage: lock probe undecided: %s", detail)
		return true
	}
	r.Count("lock_probes_free", 1)
	st := x.checkState("after outage", false, false)
	_, hasPrimary := st.Servers[st.PrimaryServer]
	if x.emission("after outage", hasPrimary) {
		return true
	}
	if !x.closeClient() {
		x.inconc("client.Close did not return within 15s although the mutex was free")
		return true
	}
	x.checkFile("outage: after close")
	return false
}
