//go:build test

// Parent-side judgement: positive controls, and the block coverage of the
// client's locking functions measured in the coverage-instrumented child
// (reporting only: which paths of the locking code were driven).
package main

import (
	"bufio"
	"fmt"
	"go/ast"
	"go/parser"
	"go/token"
	"os"
	"os/exec"
	"path/filepath"
	"sort"
	"strconv"
	"strings"

	"verifharness/lib/ev"
	"verifharness/lib/run"
)

func post(c *ev.Check, outs []*run.Outcome) {
	min := int64(1)
	if c.Tier == "thorough" {
		min = 10
	}
	c.Require("cases", 100*min)
	c.Require("rounds", 200*min)
	c.Require("rounds_succeeded", 20*min)
	c.Require("rounds_failed", 20*min)
	c.Require("lock_probes_free", 200*min)
	c.Require("emission_ok", 50*min)
	c.Require("restarts", 100*min)
	c.Require("later_sync_attempt_observed", 5*min)
	c.Require("banned_listeners_watched", 20*min)
	c.Require("states_with_every_server_banned", 3)
	c.Require("shapes", 300*min)
	c.Require("shapes.accepted.genuine", 5)
	c.Require("shapes.accepted.valid-migration", 5)
	c.Require("shapes.accepted.many-servers", 5)
	c.Require("shapes.rejected.signed-random", 5)
	c.Require("shapes.rejected.trunc-field", 5)
	c.Require("migrations_adopted", 1)
	c.Require("primary_checks_weak", 1)
	c.Require("overlap_bans_adopted_mid_round", 10*min)
	c.Require("overlap_attempts_after_ban", 8*min)
	c.Require("overlap_banned_holder_answered_late", 3*min)
	c.Require("ban_records_with_shorter_location", 10*min)
	c.Require("state_equals_file_checks", 200*min)
	c.Require("outage_rounds_kept_coming", 2)
	c.Require("outage_recovered_sync_succeeded", 2)
	c.Require("max.outage_ticks_survived", 220)
	c.Require("cases_iofault", 3)
	c.Require("stall_rounds_stuck", 5)
	c.Require("lock_probes_free_while_a_round_waits_for_a_silent_server", 10)
	c.Require("stall_later_round_observed", 5)
	c.Require("banned_udp_ports_watched", 20*min)
	if c.Tier == "thorough" {
		c.SetExtra("exhaustive_subspaces", []map[string]interface{}{{
			"what":       "every assignment of {refused, reset, short, badsig, success} to n configured servers, n = 1..5 (plus the all-banned configurations)",
			"size":       nOutcomeCases + nAllBanned,
			"judged":     c.Counter("enumerated_outcome_cases"),
			"exhaustive": c.Counter("enumerated_outcome_cases") == nOutcomeCases+nAllBanned,
		}})
	}
	slow := map[string]float64{}
	for _, o := range outs {
		k := o.Batch.Kind
		if o.WallS > slow[k] {
			slow[k] = o.WallS
		}
	}
	c.SetExtra("slowest_batch_wall_s", slow)
	c.Require("first_tick_sync_observed", 5*min)
	c.Require("retry_after_failed_sync_observed", 2*min)
	for _, o := range outs {
		if o.Batch.Variant == "cover" {
			if err := coverReport(c, filepath.Join(o.Dir, "cov")); err != nil {
				c.Inconc("coverage of the locking code could not be measured: " + err.Error())
			}
		}
	}
}

type fnRange struct {
	file       string
	name       string
	start, end int
	total, hit int
	missed     []string
}

func repoDir() string {
	if d := os.Getenv("VERIF_REPO"); d != "" {
		return d
	}
	return "/repo"
}

// lockingFunctions lists the functions of client/reports.go and client/client.go
// whose body takes the client mutex.
func lockingFunctions() ([]*fnRange, error) {
	var out []*fnRange
	for _, f := range []string{"client/reports.go", "client/client.go"} {
		path := filepath.Join(repoDir(), f)
		src, err := os.ReadFile(path)
		if err != nil {
			return nil, err
		}
		fset := token.NewFileSet()
		af, err := parser.ParseFile(fset, path, src, 0)
		if err != nil {
			return nil, err
		}
		for _, d := range af.Decls {
			fd, ok := d.(*ast.FuncDecl)
			if !ok || fd.Body == nil {
				continue
			}
			body := string(src[fset.Position(fd.Body.Pos()).Offset:fset.Position(fd.Body.End()).Offset])
			if !strings.Contains(body, ".mu.Lock()") {
				continue
			}
			out = append(out, &fnRange{file: f, name: fd.Name.Name, start: fset.Position(fd.Pos()).Line, end: fset.Position(fd.End()).Line})
		}
	}
	return out, nil
}

func coverReport(c *ev.Check, covDir string) error {
	fns, err := lockingFunctions()
	if err != nil {
		return err
	}
	txt := filepath.Join(covDir, "cover.txt")
	cmd := exec.Command("go", "tool", "covdata", "textfmt", "-i="+covDir, "-o="+txt)
	cmd.Env = append(os.Environ(), "GOFLAGS=-mod=mod", "GOPROXY=off", "GOSUMDB=off", "GOTOOLCHAIN=local")
	if b, err := cmd.CombinedOutput(); err != nil {
		return fmt.Errorf("covdata textfmt: %v %s", err, b)
	}
	f, err := os.Open(txt)
	if err != nil {
		return err
	}
	defer f.Close()
	type blk struct{ hit bool }
	seen := map[string]*blk{} // a block may appear once per counter file
	sc := bufio.NewScanner(f)
	sc.Buffer(make([]byte, 1<<20), 1<<24)
	for sc.Scan() {
		ln := sc.Text()
		// github.com/.../client/reports.go:35.59,42.2 5 1
		i := strings.LastIndex(ln, ":")
		if i < 0 || !strings.Contains(ln, "gca-backend/client/") {
			continue
		}
		fields := strings.Fields(ln[i+1:])
		if len(fields) != 3 {
			continue
		}
		cnt, _ := strconv.Atoi(fields[2])
		key := ln[:i] + ":" + fields[0]
		b := seen[key]
		if b == nil {
			b = &blk{}
			seen[key] = b
		}
		if cnt > 0 {
			b.hit = true
		}
	}
	total, hit := 0, 0
	for key, b := range seen {
		i := strings.LastIndex(key, ":")
		file := key[:i]
		file = file[strings.Index(file, "client/"):]
		var l1, c1, l2, c2 int
		if _, err := fmt.Sscanf(key[i+1:], "%d.%d,%d.%d", &l1, &c1, &l2, &c2); err != nil {
			continue
		}
		for _, fn := range fns {
			if fn.file == file && l1 >= fn.start && l2 <= fn.end {
				fn.total++
				total++
				if b.hit {
					fn.hit++
					hit++
				} else {
					fn.missed = append(fn.missed, fmt.Sprintf("%s:%d.%d-%d.%d", file, l1, c1, l2, c2))
				}
			}
		}
	}
	if total == 0 {
		return fmt.Errorf("no coverage blocks found for the locking functions in %s", txt)
	}
	var rep []map[string]interface{}
	for _, fn := range fns {
		sort.Strings(fn.missed)
		rep = append(rep, map[string]interface{}{"function": fn.file + ":" + fn.name, "blocks_total": fn.total, "blocks_executed": fn.hit,
			"blocks_not_driven": fn.missed})
	}
	c.SetExtra("locking_code_coverage", map[string]interface{}{
		"note":            "blocks not driven are paths this run did not decide (not failures)",
		"blocks_total":    total,
		"blocks_executed": hit,
		"functions":       rep,
	})
	c.AddCounter("cover.locking_blocks_total", int64(total))
	c.AddCounter("cover.locking_blocks_executed", int64(hit))
	return nil
}
