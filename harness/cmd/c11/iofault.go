//go:build test

// I/O fault at the save that follows adopting a new ban, then a restart.
//
// The client runs in a GRANDCHILD process (this binary re-executed in the
// role "victim"), because dying on that failed write is an acceptable answer:
// the unchanged client panics there. The rogues, sinks and all judging stay in
// the child. Fault: for exactly the round that learns the ban, gcaServers.dat
// is moved aside and replaced by a directory of the same name, and
// gcaServers.dat.tmp is a directory too, so neither a direct write nor a
// write-to-temp-and-rename can succeed. Afterwards the file is put back.
//
// Accepted outcomes:
//
//	(a) the victim died with the write panic: a fresh client on the restored
//	    directory must know every ban the FILE holds and not dial those servers;
//	(b) the victim survived: every ban VerifState showed after the round that
//	    the file does not hold must still be known after a restart, else
//	    ban-knowledge-lost (a memory-only ban was lost).
package main

import (
	"encoding/hex"
	"encoding/json"
	"fmt"
	"math/rand"
	"os"
	"os/exec"
	"path/filepath"
	"strconv"
	"strings"
	"sync"
	"time"

	"github.com/glowlabs-org/gca-backend/client"
	"github.com/glowlabs-org/gca-backend/glow"

	"verifharness/lib/drv"
	"verifharness/lib/ev"
	"verifharness/lib/refenc"
	"verifharness/lib/run"
)

type victimResult struct {
	StartErr string   `json:"start_err,omitempty"`
	RoundOK  bool     `json:"round_ok"`
	LockHeld bool     `json:"lock_held,omitempty"`
	Banned   []string `json:"banned"`
	Servers  []string `json:"servers"`
}

func exists(p string) bool { _, err := os.Stat(p); return err == nil }

// victimMain: args = victim <client dir> <latest slot> <control dir>
func victimMain() {
	cdir, ctl := os.Args[2], os.Args[4]
	latest, _ := strconv.ParseUint(os.Args[3], 10, 32)
	var res victimResult
	save := func() {
		b, _ := json.Marshal(res)
		os.WriteFile(filepath.Join(ctl, "result.tmp"), b, 0644)
		os.Rename(filepath.Join(ctl, "result.tmp"), filepath.Join(ctl, "result.json"))
	}
	c, err := client.NewClient(cdir)
	if err != nil {
		res.StartErr = err.Error()
		save()
		os.Exit(4)
	}
	if os.Getenv("C11_VICTIM_MODE") == "startonly" {
		// torn-list probe: report the state the client came up with, nothing else
		st := c.VerifState()
		for k, s := range st.Servers {
			res.Servers = append(res.Servers, hex.EncodeToString(k[:]))
			if s.Banned {
				res.Banned = append(res.Banned, hex.EncodeToString(k[:]))
			}
		}
		save()
		done := make(chan struct{})
		go func() { c.Close(); close(done) }()
		select {
		case <-done:
		case <-time.After(10 * time.Second):
		}
		os.Exit(0)
	}
	os.WriteFile(filepath.Join(ctl, "ready"), nil, 0644)
	for dl := time.Now().Add(40 * time.Second); !exists(filepath.Join(ctl, "go")); time.Sleep(time.Millisecond) {
		if time.Now().After(dl) {
			os.Exit(5)
		}
	}
	res.RoundOK = c.VerifSyncOnce(uint32(latest)) // the unchanged client panics in here
	free := false
	for dl := time.Now().Add(3 * time.Second); time.Now().Before(dl); time.Sleep(time.Millisecond) {
		if c.VerifTryLock() {
			free = true
			break
		}
	}
	if !free {
		res.LockHeld = true
		save()
		os.Exit(0)
	}
	st := c.VerifState()
	for k, s := range st.Servers {
		res.Servers = append(res.Servers, hex.EncodeToString(k[:]))
		if s.Banned {
			res.Banned = append(res.Banned, hex.EncodeToString(k[:]))
		}
	}
	save()
	done := make(chan struct{})
	go func() { c.Close(); close(done) }()
	select {
	case <-done:
	case <-time.After(10 * time.Second):
	}
	os.Exit(0)
}

func ioFaultCase(i int, seed int64) *caseCfg {
	cc := &caseCfg{Kind: "iofault", Index: i, Seed: seed*1000003 + 900000 + int64(i)}
	cc.Servers = []srvCfg{{Outcome: "role"}, {Outcome: "role"}}
	if i%2 == 1 {
		cc.Servers = append(cc.Servers, srvCfg{Outcome: "success", Banned: true})
	}
	return cc
}

func runIOFault(cc *caseCfg, b run.Batch, r *ev.Result) (abort bool) {
	x := &ctx{r: r, cc: cc, rng: rand.New(rand.NewSource(cc.Seed)), dir: filepath.Join(b.Dir, fmt.Sprintf("iofault%d", cc.Index))}
	defer x.teardown()
	run.Op("case iofault/%d seed=%d servers=%v", cc.Index, cc.Seed, cc.Servers)
	if err := x.setup(); err != nil {
		x.inconc("setup: %v", err)
		return false
	}
	// roles: the first server that is dialled answers (always) with a genuine reply that
	// bans the other one; the other one closes every connection
	var mu sync.Mutex
	a, o, tag := -1, -1, -1
	var raw []byte
	for j := 0; j < 2; j++ {
		j := j
		x.rogues[j].setBehave(func(int) action {
			mu.Lock()
			defer mu.Unlock()
			if a == -1 {
				a, o = j, 1-j
				list := []refenc.AuthServer{x.entryFor(o, true)}
				rep := refenc.SyncReply{DevKey: x.dev.Pub, Servers: list, Unix: uint64(time.Now().Unix())}
				for i := range rep.Bitfield {
					rep.Bitfield[i] = 0xff
				}
				raw = refenc.BuildSyncReply(rep, x.rogues[j].Key.Priv)
				tag = x.addReply(raw, list, j, false, false)
			}
			if j == a {
				return action{Kind: "reply", Reply: raw, CloseAfter: -1, Tag: tag}
			}
			return action{Kind: "eof"}
		})
	}
	mapPath := filepath.Join(x.cdir, client.GCAServerMapFile)
	saved, tmp := mapPath+".aside", mapPath+".tmp"
	ctl := filepath.Join(x.dir, "ctl")
	os.MkdirAll(ctl, 0755)
	self, err := os.Executable()
	if err != nil {
		x.inconc("%v", err)
		return false
	}
	x.trace("victim process starts the client")
	cmd := exec.Command(self, "victim", x.cdir, fmt.Sprint(x.latest), ctl)
	so, _ := os.Create(filepath.Join(x.dir, "victim.stdout"))
	se, _ := os.Create(filepath.Join(x.dir, "victim.stderr"))
	defer so.Close()
	defer se.Close()
	cmd.Stdout, cmd.Stderr = so, se
	cmd.Env = append(os.Environ(), "GOTRACEBACK=single")
	if err := cmd.Start(); err != nil {
		x.inconc("victim: %v", err)
		return false
	}
	exited := make(chan error, 1)
	go func() { exited <- cmd.Wait() }()
	kill := func() { cmd.Process.Kill(); <-exited }
	restore := func() {
		if fi, err := os.Stat(mapPath); err == nil && fi.IsDir() {
			os.RemoveAll(mapPath)
		}
		if fi, err := os.Stat(tmp); err == nil && fi.IsDir() {
			os.RemoveAll(tmp)
		}
		if exists(saved) {
			os.Rename(saved, mapPath)
		}
	}
	for dl := time.Now().Add(40 * time.Second); !exists(filepath.Join(ctl, "ready")); time.Sleep(time.Millisecond) {
		select {
		case <-exited:
			x.inconc("victim ended before its client was up: %s", firstLines(filepath.Join(x.dir, "victim.stderr")))
			return false
		default:
		}
		if time.Now().After(dl) {
			kill()
			x.inconc("victim did not start its client within 40s")
			return false
		}
	}
	x.trace("fault: gcaServers.dat and gcaServers.dat.tmp are directories during the round that learns the ban")
	if err := os.Rename(mapPath, saved); err != nil {
		kill()
		x.inconc("fault: %v", err)
		return false
	}
	os.Mkdir(mapPath, 0755)
	os.Mkdir(tmp, 0755)
	os.WriteFile(filepath.Join(ctl, "go"), nil, 0644)
	select {
	case <-exited:
	case <-time.After(60 * time.Second):
		kill()
		restore()
		x.inconc("victim did not finish within 60s")
		return false
	}
	restore()
	r.Eval(1)
	r.Count("cases", 1)
	r.Count("cases_iofault", 1)
	r.Nontrivial(fmt.Sprintf("iofault|%v", cc.Servers))
	mu.Lock()
	aIdx, oIdx := a, o
	mu.Unlock()
	if aIdx < 0 {
		x.inconc("the victim's round never reached a server: %s", firstLines(filepath.Join(x.dir, "victim.stderr")))
		return false
	}
	fraw, err := os.ReadFile(mapPath)
	if err != nil {
		x.inconc("restored map file: %v", err)
		return false
	}
	fmap, err := refenc.ParseServerMap(fraw)
	if err != nil {
		r.Violationf("server-map-file-unreadable", x.replay(nil), "iofault: gcaServers.dat does not parse after the fault was removed: %v", err)
		return false
	}
	F := map[[32]byte]bool{}
	for k, e := range fmap {
		if e.Banned {
			F[k] = true
		}
	}
	memOnly := map[[32]byte]bool{}
	var res victimResult
	code := cmd.ProcessState.ExitCode()
	if rb, err := os.ReadFile(filepath.Join(ctl, "result.json")); err == nil && code == 0 {
		json.Unmarshal(rb, &res)
		if res.LockHeld {
			r.Violationf("client-lock-leaked-after-sync", x.replay(map[string]interface{}{"label": "iofault"}), "iofault: the round returned %v after the failed save and the client mutex stayed held for 3 s", res.RoundOK)
			return false
		}
		r.Count("iofault_client_survived_failed_save", 1)
		for _, h := range res.Banned {
			var k [32]byte
			kb, _ := hex.DecodeString(h)
			copy(k[:], kb)
			if !F[k] {
				memOnly[k] = true
			}
		}
		if len(memOnly) > 0 {
			r.Count("iofault_memory_only_bans_after_round", 1)
		}
	} else {
		line := run.CrashLine(firstLines(filepath.Join(x.dir, "victim.stderr")))
		if strings.Contains(line, client.GCAServerMapFile) && (strings.Contains(line, "is a directory") || strings.Contains(line, "directory")) {
			r.Count("iofault_client_died_on_failed_save", 1) // acceptable: nothing unsaved can be relied upon later
		} else {
			r.Violationf("crash:"+run.Normalize(line), x.replay(map[string]interface{}{"label": "iofault victim", "stderr": firstLines(filepath.Join(x.dir, "victim.stderr"))}),
				"iofault: the client process died (exit %d) with something other than the failed-save panic: %s", code, line)
			return false
		}
	}
	// ---- restart on the restored directory (a new process image as far as the client is concerned)
	x.told = copySet(F)
	x.prevMem, x.prevFile = copySet(F), copySet(F)
	os.WriteFile(filepath.Join(x.cdir, client.LastSyncFile), []byte(*drv.FreshSyncStamp()), 0644)
	x.T0 = client.VerifTicks()
	x.trace("restart on the restored directory (file holds %d bans, memory-only bans of the dead/closed client: %d)", len(F), len(memOnly))
	c, err := drv.StartClient(x.cdir)
	if err != nil {
		r.Violationf("client-does-not-restart", x.replay(nil), "iofault: the client no longer starts on its directory: %v", err)
		return false
	}
	x.c, x.closed = c, false
	x.clientStarted()
	r.Count("restarts", 1)
	st := x.checkState("restart after failed save", true, true)
	for k := range memOnly {
		if s, ok := st.Servers[glow.PublicKey(k)]; !ok || !s.Banned {
			r.Violationf("ban-knowledge-lost", x.replay(map[string]interface{}{"label": "iofault", "server": hex.EncodeToString(k[:]), "A": aIdx, "O": oIdx}),
				"iofault: the round adopted a ban of server %x in memory (VerifState showed it) although saving gcaServers.dat failed; after a restart the server is %s", k[:6],
				map[bool]string{true: "listed as not banned", false: "not listed"}[ok])
		}
	}
	if _, abort = x.round("round after restart"); abort {
		return true
	}
	if !x.closeClient() {
		x.inconc("client.Close did not return within 15s although the mutex was free")
		return true
	}
	x.checkFile("iofault: after close")
	return false
}

func firstLines(path string) string {
	b, _ := os.ReadFile(path)
	if len(b) > 1500 {
		b = b[:1500]
	}
	return string(b)
}

// tornListRestart: after the rounds (client closed, bans learned and saved): the saved server list is damaged
// (cut inside an entry, so that it is no well-formed list any more) and a client is started on the
// directory in a process of its own (a refused start must not leave a test-mode watchdog in this one).
// A client that refuses to start is fine; one that starts must still know every ban it had learned.
func (x *ctx) tornListRestart() {
	if len(x.prevMem) == 0 || x.migrated {
		return
	}
	mapPath := filepath.Join(x.cdir, client.GCAServerMapFile)
	orig, err := os.ReadFile(mapPath)
	if err != nil || len(orig) < 40 {
		return
	}
	// the cut falls INSIDE an entry: what remains is not a well-formed list (a prefix that ends on an entry
	// boundary is a valid shorter list; a crash of the device in the middle of a rewrite is not server
	// behaviour and not judged here)
	cut := 1 + int(x.cc.Seed%int64(len(orig)-1))
	for tries := 0; tries < len(orig); tries++ {
		if _, err := refenc.ParseServerMap(orig[:cut]); err != nil {
			break
		}
		cut = 1 + (cut % (len(orig) - 1))
	}
	if _, err := refenc.ParseServerMap(orig[:cut]); err == nil {
		return
	}
	ctl := filepath.Join(x.dir, "ctl-torn")
	os.MkdirAll(ctl, 0755)
	self, err := os.Executable()
	if err != nil {
		return
	}
	x.trace("saved server list cut to %d of %d bytes; a fresh process starts the client", cut, len(orig))
	os.WriteFile(mapPath, orig[:cut], 0644)
	defer os.WriteFile(mapPath, orig, 0644)
	cmd := exec.Command(self, "victim", x.cdir, fmt.Sprint(x.latest), ctl)
	cmd.Env = append(os.Environ(), "GOTRACEBACK=single", "C11_VICTIM_MODE=startonly")
	se, _ := os.Create(filepath.Join(x.dir, "torn.stderr"))
	defer se.Close()
	cmd.Stderr = se
	done := make(chan error, 1)
	if cmd.Start() != nil {
		return
	}
	go func() { done <- cmd.Wait() }()
	select {
	case <-done:
	case <-time.After(60 * time.Second):
		cmd.Process.Kill()
		<-done
		x.r.Count("tornlist.probe_timed_out", 1)
		return
	}
	raw, err := os.ReadFile(filepath.Join(ctl, "result.json"))
	var res victimResult
	if err != nil || json.Unmarshal(raw, &res) != nil {
		x.r.Count("tornlist.no_result", 1) // e.g. the client panicked on the damaged file: a refusal as well
		return
	}
	x.r.Eval(1)
	if res.StartErr != "" {
		x.r.Count("tornlist.start_refused", 1)
		return
	}
	x.r.Count("tornlist.started", 1)
	banned := map[string]bool{}
	for _, k := range res.Banned {
		banned[k] = true
	}
	for k := range x.prevMem {
		if !banned[hex.EncodeToString(k[:])] {
			x.r.Violationf("ban-knowledge-lost", x.replay(map[string]interface{}{"label": "torn-list restart", "server": hex.EncodeToString(k[:]), "cut": cut, "of": len(orig)}),
				"restart on a server list cut to %d of %d bytes: the client started, and server %x, which it knew to be banned (learned and saved before), is %s", cut, len(orig), k[:6],
				map[bool]string{true: "listed as not banned", false: "no longer listed"}[contains(res.Servers, hex.EncodeToString(k[:]))])
			return
		}
	}
}

func contains(l []string, s string) bool {
	for _, x := range l {
		if x == s {
			return true
		}
	}
	return false
}
