// c20prod is the PRODUCTION-constants probe of check C20. It is built WITHOUT
// the `test` build tag (only `verif`, for the VerifConsts accessors), so the
// files glow/timeslot.go, server/consts_p.go and client/consts_p.go - which no
// -tags test build ever compiles - are the code that runs here.
//
// It prints one JSON object on stdout; the c20 check (cmd/c20) judges it.
// The expected values are computed here from the documented genesis
// (2023-11-19 00:00:00 UTC = 1700352000) in int64 arithmetic and never from
// glow.GenesisTime, so a changed constant shows up as a disagreement.
//
// usage:
//
//	c20prod consts <repeat>
//	c20prod conv quick <seed>
//	c20prod conv exhaustive <slice> <of>
package main

import (
	"encoding/json"
	"fmt"
	"math"
	"math/rand"
	"os"
	"strconv"
	"time"
	_ "time/tzdata" // embedded zone database: $TZ resolves even on hosts without /usr/share/zoneinfo

	"github.com/glowlabs-org/gca-backend/client"
	"github.com/glowlabs-org/gca-backend/glow"
	"github.com/glowlabs-org/gca-backend/server"
)

const (
	docGenesis = int64(1700352000)           // documented: Sunday 2023-11-19 00:00:00 UTC
	span       = int64(1) << 32              // t ranges over [G, G+2^32-1]
	slotBound  = int64(math.MaxUint32) / 300 // no-overflow bound for timeslot*300 in uint32
)

type mismatch struct {
	Class string `json:"class"`
	T     int64  `json:"t"`
	Slot  int64  `json:"slot"`
	Got   int64  `json:"got"`
	Want  int64  `json:"want"`
	Note  string `json:"note,omitempty"`
}

type convOut struct {
	Mode          string           `json:"mode"`
	Lo            int64            `json:"lo"` // offsets from genesis covered [Lo, Hi]
	Hi            int64            `json:"hi"`
	Stride        int64            `json:"stride"`
	UnixCalls     int64            `json:"unix_calls"`
	BackCalls     int64            `json:"back_calls"`
	PreGenesis    int64            `json:"pre_genesis_calls"`
	Boundaries    int64            `json:"boundaries"`
	MaxSlot       int64            `json:"max_slot"`
	SlotBound     int64            `json:"slot_bound"`
	MismatchCount map[string]int64 `json:"mismatch_count"`
	Mismatches    []mismatch       `json:"mismatches"`
	BeyondDomain  map[string]int64 `json:"beyond_domain_observation"`
}

func (o *convOut) bad(class string, t, slot, got, want int64, note string) {
	o.MismatchCount[class]++
	if o.MismatchCount[class] <= 3 {
		o.Mismatches = append(o.Mismatches, mismatch{class, t, slot, got, want, note})
	}
}

// floorDiv300 is the mathematical floor((t-G)/300) for any int64 t-G.
func floorDiv300(d int64) int64 {
	q := d / 300
	if d%300 < 0 {
		q--
	}
	return q
}

// checkT judges one unix time at or after the documented genesis and inside
// the property's domain.
func (o *convOut) checkT(t int64) int64 {
	o.UnixCalls++
	s, err := glow.UnixToTimeslot(t)
	want := floorDiv300(t - docGenesis)
	if err != nil {
		o.bad("unix-to-timeslot-refuses-valid-time", t, -1, -1, want, err.Error())
		return -1
	}
	if int64(s) != want {
		o.bad("unix-to-timeslot-wrong", t, int64(s), int64(s), want, "")
	}
	if int64(s) <= slotBound {
		o.BackCalls++
		u := glow.TimeslotToUnix(s)
		if !(u <= t && t < u+300) {
			o.bad("round-trip-not-same-slot", t, int64(s), u, docGenesis+300*want, "TimeslotToUnix(UnixToTimeslot(t)) must satisfy u <= t < u+300")
		}
		if u != docGenesis+300*int64(s) {
			o.bad("timeslot-to-unix-not-slot-start", t, int64(s), u, docGenesis+300*int64(s), "")
		}
	}
	if int64(s) > o.MaxSlot {
		o.MaxSlot = int64(s)
	}
	return int64(s)
}

// scan walks offsets lo..hi (from genesis) with the given stride and checks
// monotonicity between consecutive visited times.
func (o *convOut) scan(lo, hi, stride int64) {
	prevS, prevT := int64(-1), int64(-1)
	for d := lo; d <= hi; d += stride {
		t := docGenesis + d
		s := o.checkT(t)
		if s < 0 {
			continue
		}
		if prevS >= 0 {
			// monotone, and never faster than one slot per 300 s
			maxStep := (t-prevT)/300 + 1
			if s < prevS || s-prevS > maxStep {
				o.bad("not-monotone", t, s, s, prevS, fmt.Sprintf("previous time %d gave slot %d", prevT, prevS))
			}
		}
		prevS, prevT = s, t
	}
}

func (o *convOut) preGenesis(rng *rand.Rand, n int) {
	ts := []int64{docGenesis - 1, docGenesis - 2, docGenesis - 299, docGenesis - 300, docGenesis - 301, docGenesis - 600, 0, 1, -1, -299, -300, -301,
		-docGenesis, math.MinInt64, math.MinInt64 + 1, math.MinInt64 + 300, -(1 << 32), -(1 << 32) - 1, docGenesis - (1 << 32), docGenesis - (1 << 32) - 1, docGenesis - (1 << 31)}
	for i := 0; i < n; i++ {
		switch i % 3 {
		case 0:
			ts = append(ts, rng.Int63n(docGenesis))
		case 1:
			ts = append(ts, -rng.Int63())
		default:
			ts = append(ts, docGenesis-1-rng.Int63n(1<<33))
		}
	}
	for _, t := range ts {
		o.PreGenesis++
		s, err := glow.UnixToTimeslot(t)
		if err == nil {
			o.bad("pre-genesis-time-accepted", t, int64(s), int64(s), -1, "a time before genesis must be refused")
		}
	}
}

// boundaries visits, for every slot in [sLo, sHi], the last second of the
// previous slot, the first and the last second of the slot, and checks the
// inverse conversion of the slot itself.
func (o *convOut) boundaries(sLo, sHi int64) {
	for s := sLo; s <= sHi; s++ {
		o.Boundaries++
		start := docGenesis + 300*s
		o.BackCalls++
		if u := glow.TimeslotToUnix(uint32(s)); u != start {
			o.bad("timeslot-to-unix-not-slot-start", start, s, u, start, "")
		}
		for _, t := range [3]int64{start - 1, start, start + 299} {
			if t < docGenesis || t-docGenesis >= span {
				continue
			}
			o.checkT(t)
		}
	}
}

func conv(args []string) {
	o := &convOut{MismatchCount: map[string]int64{}, BeyondDomain: map[string]int64{}, SlotBound: slotBound, Mode: args[0]}
	switch args[0] {
	case "quick":
		seed, _ := strconv.ParseInt(args[1], 10, 64)
		rng := rand.New(rand.NewSource(seed))
		o.preGenesis(rng, 3000)
		// stride 1 over the first and the last 10^6 seconds
		o.scan(0, 1000000, 1)
		o.scan(span-1000000, span-1, 1)
		// every slot boundary of the whole domain
		o.boundaries(0, slotBound)
		// stride 7 elsewhere, phase chosen by the seed
		o.Stride = 7
		o.scan(1000000+rng.Int63n(7), span-1000001, 7)
		// random times inside slots
		for i := 0; i < 2000000; i++ {
			o.checkT(docGenesis + rng.Int63n(span))
		}
		o.Lo, o.Hi = 0, span-1
	case "exhaustive":
		slice, _ := strconv.ParseInt(args[1], 10, 64)
		of, _ := strconv.ParseInt(args[2], 10, 64)
		lo := span / of * slice
		hi := span/of*(slice+1) - 1
		if slice == of-1 {
			hi = span - 1
		}
		if slice == 0 {
			o.preGenesis(rand.New(rand.NewSource(1)), 3000)
		}
		// one second of overlap to the left so that monotonicity is also
		// judged across slice borders
		from := lo
		if from > 0 {
			from--
		}
		o.Stride = 1
		o.scan(from, hi, 1)
		// inverse conversion for the slots that start in this slice
		sLo := (lo + 299) / 300
		sHi := hi / 300
		for s := sLo; s <= sHi && s <= slotBound; s++ {
			o.Boundaries++
			o.BackCalls++
			if u := glow.TimeslotToUnix(uint32(s)); u != docGenesis+300*s {
				o.bad("timeslot-to-unix-not-slot-start", docGenesis+300*s, s, u, docGenesis+300*s, "")
			}
		}
		o.Lo, o.Hi = lo, hi
	default:
		fmt.Fprintln(os.Stderr, "unknown conv mode")
		os.Exit(2)
	}
	// Outside the property's domain (recorded, never judged): the first second
	// after the domain and the first slot above the no-overflow bound.
	if s, err := glow.UnixToTimeslot(docGenesis + span); err == nil {
		o.BeyondDomain["UnixToTimeslot(G+2^32)"] = int64(s)
	} else {
		o.BeyondDomain["UnixToTimeslot(G+2^32)"] = -1
	}
	o.BeyondDomain["TimeslotToUnix(bound+1)-G"] = glow.TimeslotToUnix(uint32(slotBound+1)) - docGenesis
	json.NewEncoder(os.Stdout).Encode(o)
}

type bracket struct {
	T0, T1 int64
	Got    int64
}

type constsOut struct {
	GenesisTime    int64                 `json:"genesis_time"`
	DateUnix       int64                 `json:"date_unix"` // time.Date(2023,11,19,0,0,0,0,UTC).Unix()
	GenesisWeekday string                `json:"genesis_weekday"`
	TZ             string                `json:"tz"`            // $TZ as seen by the probe
	ZoneName       string                `json:"zone_name"`     // local zone resolved by the Go runtime
	ZoneOffsetS    int                   `json:"zone_offset_s"` // its UTC offset now
	ZoneOffsetGenS int                   `json:"zone_offset_at_genesis_s"`
	Brackets       int                   `json:"brackets"`
	BracketsSkew   int                   `json:"brackets_clock_went_backwards"`
	BracketBad     []bracket             `json:"bracket_bad"`
	BracketSample  bracket               `json:"bracket_sample"`
	Server         server.VerifConstants `json:"server"`
	Client         client.VerifConstants `json:"client"`
}

func consts(args []string) {
	n, _ := strconv.Atoi(args[0])
	o := constsOut{
		GenesisTime:    int64(glow.GenesisTime),
		DateUnix:       time.Date(2023, 11, 19, 0, 0, 0, 0, time.UTC).Unix(),
		GenesisWeekday: time.Unix(int64(glow.GenesisTime), 0).UTC().Weekday().String(),
		Server:         server.VerifConsts(),
		Client:         client.VerifConsts(),
	}
	o.TZ = os.Getenv("TZ")
	o.ZoneName, o.ZoneOffsetS = time.Now().Zone()
	_, o.ZoneOffsetGenS = time.Unix(docGenesis, 0).In(time.Local).Zone()
	for i := 0; i < n; i++ {
		t0 := time.Now().Unix()
		c := glow.CurrentTimeslot()
		t1 := time.Now().Unix()
		if t1 < t0 {
			o.BracketsSkew++ // the system clock was stepped backwards between the reads: no conclusion
			continue
		}
		o.Brackets++
		b := bracket{t0, t1, int64(c)}
		o.BracketSample = b
		if int64(c) < floorDiv300(t0-docGenesis) || int64(c) > floorDiv300(t1-docGenesis) {
			if len(o.BracketBad) < 3 {
				o.BracketBad = append(o.BracketBad, b)
			}
		}
		if i%64 == 0 {
			time.Sleep(time.Millisecond)
		}
	}
	json.NewEncoder(os.Stdout).Encode(o)
}

func main() {
	if len(os.Args) < 3 {
		fmt.Fprintln(os.Stderr, "usage: c20prod consts <repeat> | conv quick <seed> | conv exhaustive <slice> <of>")
		os.Exit(2)
	}
	switch os.Args[1] {
	case "consts":
		consts(os.Args[2:])
	case "conv":
		conv(os.Args[2:])
	default:
		os.Exit(2)
	}
}
