// c12prod is the PRODUCTION-build episode of checks C12/C13 (built with the tag
// `verif` only, never `test`): see lib/prodwt.
package main

import "verifharness/lib/prodwt"

func main() { prodwt.Main() }
