//go:build test

// C02 — One report per device-timeslot; equivocation or over-capacity bans the slot.
//
// Monitor: a live server (child process, rotation and impact jobs gated). Every
// sequence of acceptable reports is played on a FRESH (device, slot) cell; after
// every single delivery the stored record of the cell is read back and compared
// with a reference model that is a function of the SET of reports delivered so
// far (none -> 0; one distinct report, not over capacity -> that report; two
// distinct 80-byte reports – the same content under a second valid signature
// counts as distinct – or any over-capacity report -> 1; banned stays banned). After
// every sequence the whole state is compared with the state before it: nothing
// but the cell (and the internal recent list) may differ. The published surfaces
// (all-device-stats, recent-reports, sync bitfield) are compared with model and
// snapshot on a sample of sequences. Further parts: random interleaved sequences
// over 3 devices x 6 slots, back-to-back bursts through the real socket while the
// server mutex is kept busy (with and without foreign noise datagrams), and one
// concurrent stress batch built with -race.
package main

import (
	"bytes"
	"encoding/hex"
	"encoding/json"
	"fmt"
	"math/big"
	"math/rand"
	"net"
	"os"
	"path/filepath"
	"sort"
	"strings"
	"sync"
	"sync/atomic"
	"syscall"
	"time"

	"github.com/glowlabs-org/gca-backend/glow"
	"github.com/glowlabs-org/gca-backend/server"

	"verifharness/lib/drv"
	"verifharness/lib/ev"
	"verifharness/lib/refenc"
	"verifharness/lib/run"
)

// ---------------------------------------------------------------- alphabet

type letter int

const (
	Lv     letter = iota // within capacity
	Lvp                  // same content as v, different valid signature
	Lw                   // different value within capacity
	Llim                 // floor(cap*135/100)
	Llim1                // limit + 1
	Lmax63               // 2^63-1, largest non-negative
	Lneg63               // 2^63 (= -2^63)
	Lneg5                // 2^64-5 (= -5)
	L2                   // smallest non-sentinel value
	L3
	nLetters
)

var letterNames = []string{"v", "v'", "w", "lim", "lim+1", "2^63-1", "2^63", "2^64-5", "2", "3"}

func (l letter) String() string { return letterNames[l] }

var (
	sigma6  = []letter{Lv, Lvp, Lw, Llim, Llim1, Lmax63}
	sigma7  = []letter{Lv, Lvp, Lw, Llim, Llim1, Lmax63, Lneg63}
	sigma10 = []letter{Lv, Lvp, Lw, Llim, Llim1, Lmax63, Lneg63, Lneg5, L2, L3}
)

func seqString(s []letter) string {
	p := make([]string, len(s))
	for i, l := range s {
		p[i] = l.String()
	}
	return strings.Join(p, " ")
}

// multisets enumerates all multisets (as non-decreasing index tuples) of size
// 1..maxLen over an alphabet of k letters.
func multisets(k, maxLen int) [][]int {
	var out [][]int
	var rec func(cur []int, start, left int)
	rec = func(cur []int, start, left int) {
		if left == 0 {
			out = append(out, append([]int(nil), cur...))
			return
		}
		for i := start; i < k; i++ {
			rec(append(cur, i), i, left-1)
		}
	}
	for n := 1; n <= maxLen; n++ {
		rec(nil, 0, n)
	}
	return out
}

// permutations returns all distinct orderings of a sorted tuple.
func permutations(ms []int) [][]int {
	a := append([]int(nil), ms...)
	sort.Ints(a)
	var out [][]int
	for {
		out = append(out, append([]int(nil), a...))
		i := len(a) - 2
		for i >= 0 && a[i] >= a[i+1] {
			i--
		}
		if i < 0 {
			return out
		}
		j := len(a) - 1
		for a[j] <= a[i] {
			j--
		}
		a[i], a[j] = a[j], a[i]
		for l, r := i+1, len(a)-1; l < r; l, r = l+1, r-1 {
			a[l], a[r] = a[r], a[l]
		}
	}
}

func spaceSize(k, maxLen int) int64 {
	var n, p int64 = 0, 1
	for i := 1; i <= maxLen; i++ {
		p *= int64(k)
		n += p
	}
	return n
}

// ---------------------------------------------------------------- main / plan

func exhParams(tier string) (alpha []letter, maxLen int) {
	if tier == "thorough" {
		return sigma7, 5
	}
	return sigma6, 4
}

func main() {
	run.Main(run.Spec{
		ID:    "C02",
		Level: "exploration",
		Pkg:   "./cmd/c02",
		Rule: "every sequence consists of acceptable reports (valid signature of an authorized device, inside both windows, power not 0/1) for fresh (device, slot) cells; letters: v, v' (same content re-signed), w, lim=floor(cap*135/100), lim+1, 2^63-1, 2^63, 2^64-5, 2, 3. " +
			"Non-trivial = a sequence that delivers at least two acceptable reports to one cell; distinct by (kind, letter sequence) for the enumerated parts and by the delivered datagram history for the random part.",
		Assumptions: []string{
			"device capacities range over the whole uint64 domain, including those above 2^64/135 whose 135 % does not fit 64 bits (the reference compares in big integers; until fix 79f2a8c such capacities were excluded, which hid a defect)",
			"rotation and impact jobs are gated at their loop heads while sequences are judged",
			"a report is the 80-byte datagram including its signature: the same content under a second valid signature (v') is a second distinct report, so {v, v'} must ban in either order",
			"bulk delivery goes through VerifInject (the function the UDP listener calls); a sample of sequences goes through the real socket",
			"fault sequences: one delivery per sequence happens while equipment-reports.dat cannot be opened (ENOENT); the published value must still follow the set of reports received; what a restart reconstructs after a lost append is not judged here",
			"restart sequences: the server is restarted (clock unchanged, now-offset <= 3200 so that neither the shutdown nor the start-up rotates the window) in the middle of an interleaved sequence; the set rule is judged for the reports re-read from the log and for those received afterwards",
			"inflight sequences: K datagrams for one cell are handled while the report log is a named pipe (appends park until the harness reads); the 100 ms pause after all handlers entered only widens the window",
			"clock sequences: a packet delivered while its slot is more than 432 slots ahead of the clock is not a valid report (must change nothing); the identical packet delivered again after the clock advanced is",
			"the race-variant stress batch judges only the final values (function of the delivered set); race reports are recorded, not judged, because the property does not claim race freedom",
		},
		Plan:          plan,
		Child:         child,
		Post:          post,
		ClassifyDeath: classifyDeath,
	})
}

// classifyDeath: a child that hung after an HTTP handler panicked (net/http
// swallows the panic, a mutex taken by the handler stays locked for ever) is
// not a mere watchdog expiry: the panic line on stderr is the witness.
func classifyDeath(c *ev.Check, o *run.Outcome) bool {
	line := run.CrashLine(o.Stderr)
	if o.TimedOut && strings.Contains(line, "http: panic serving") {
		msg := line
		if i := strings.Index(msg, "panic serving"); i >= 0 {
			msg = msg[i:]
			if j := strings.Index(msg, ": "); j >= 0 {
				msg = msg[j+2:]
			}
		}
		c.Violation("handler-panic-then-hang:"+run.Normalize(msg), "an HTTP handler panicked and the server stopped answering (lock left held): "+line,
			map[string]interface{}{"batch": o.Batch, "oplog_tail": o.OplogTail})
		return true
	}
	return false
}

func planBase(tier string, seed int64) []run.Batch {
	var bs []run.Batch
	add := func(kind string, n, of int, variant string) {
		for i := 0; i < of; i++ {
			bs = append(bs, run.Batch{Kind: kind, Seed: seed*100003 + int64(len(bs)), N: n, TimeoutS: 300, Variant: variant, // server instances are recycled after 40 s, far below the 120 s test-mode limit
				Params: map[string]string{"slice": fmt.Sprint(i), "of": fmt.Sprint(of)}})
		}
	}
	if tier == "thorough" {
		add("exh", 0, 64, "")
		add("perm", 0, 48, "")
		add("rand", 250, 80, "") // 20 000 random interleaved sequences
		add("burst", 60, 6, "")
		add("fault", 400, 8, "")
		add("restart", 100, 8, "")
		add("inflight", 60, 6, "")
		add("clock", 300, 4, "")
		add("stress", 400, 1, "race")
	} else {
		add("exh", 0, 8, "")
		add("perm", 150, 8, "") // all multisets of size <= 3 plus 150 sampled multisets of size 4
		add("rand", 100, 4, "")
		add("burst", 30, 2, "")
		add("fault", 150, 2, "")
		add("restart", 25, 2, "")
		add("inflight", 30, 2, "")
		add("clock", 100, 2, "")
		add("stress", 120, 1, "race")
	}
	return bs
}

func post(c *ev.Check, outs []*run.Outcome) {
	if os.Getenv("VERIF_REPLAY") != "" {
		return // a replay re-runs one batch: completeness requirements do not apply
	}
	alpha, maxLen := exhParams(c.Tier)
	want := spaceSize(len(alpha), maxLen)
	got := c.Counter("exh.sequences")
	complete := got == want
	for _, o := range outs {
		if o.Batch.Kind == "exh" && (o.Result == nil || o.TimedOut || o.ExitCode != 0) {
			complete = false
		}
	}
	names := make([]string, len(alpha))
	for i, l := range alpha {
		names[i] = l.String()
	}
	space := fmt.Sprintf("all %d sequences of length 1..%d over the letters {%s}, each on a fresh cell", want, maxLen, strings.Join(names, ", "))
	if complete {
		c.Exhaustive = true
		c.SetExtra("exhaustive_space", space)
	} else {
		c.Inconc(fmt.Sprintf("the declared exhaustive space (%s) was not fully enumerated: %d of %d", space, got, want))
	}
	c.SetExtra("final_state_histogram", map[string]int64{"empty": c.Counter("final.empty"), "value": c.Counter("final.value"), "banned": c.Counter("final.banned")})
	c.SetExtra("permutation_classes_compared", c.Counter("perm.classes_compared"))
	walls := map[string]float64{}
	for _, o := range outs {
		if o.WallS > walls[o.Batch.Kind] {
			walls[o.Batch.Kind] = o.WallS
		}
	}
	c.SetExtra("max_batch_wall_s_by_kind", walls)
	if os.Getenv("VERIF_REPLAY") != "" {
		return
	}
	// positive controls: the monitor must have seen every kind of transition
	for _, k := range []string{"obs.single_value", "obs.replay_kept", "obs.equivocation_ban", "obs.overcapacity_ban", "obs.banned_stays", "obs.negative_published", "obs.limit_published", "obs.resigned_ban", "burst.judged", "fault.on_banning_report", "restart.sequences", "restart.overcapacity_after_restart", "inflight.identical", "clock.early_deliveries", "capacity.above_2^64/135",
		"via_socket", "via_hook", "surface.stats", "surface.sync", "surface.recent", "perm.classes_compared", "rand.sequences", "stress.cells"} {
		c.Require(k, 1)
	}
}

// ---------------------------------------------------------------- reference model

func overCapacity(power, capacity uint64) bool {
	if int64(power) < 0 {
		return false
	}
	l := new(big.Int).Mul(new(big.Int).SetUint64(power), big.NewInt(100))
	r := new(big.Int).Mul(new(big.Int).SetUint64(capacity), big.NewInt(135))
	return l.Cmp(r) > 0
}

// cellModel is the property's function of the set of acceptable reports received.
type cellModel struct {
	capacity   uint64
	contents   map[uint64]struct{}
	reps       map[refenc.Report]struct{}
	over       bool
	deliveries int
	sawBan     bool
}

func (m *cellModel) add(r refenc.Report) {
	if m.contents == nil {
		m.contents = map[uint64]struct{}{}
		m.reps = map[refenc.Report]struct{}{}
	}
	m.contents[r.Power] = struct{}{}
	m.reps[r] = struct{}{}
	if overCapacity(r.Power, m.capacity) {
		m.over = true
	}
	m.deliveries++
}

// mustBan: a report is the 80-byte datagram including its signature, so the same
// content under a second valid signature is a second distinct report.
func (m *cellModel) mustBan() bool { return m.over || len(m.reps) >= 2 }

// resignedOnly: the ban is owed to re-signed variants of one content alone.
func (m *cellModel) resignedOnly() bool {
	return !m.over && len(m.contents) == 1 && len(m.reps) >= 2
}

// allowed reports whether a published value is admissible for this model state.
func (m *cellModel) allowed(v uint64) bool {
	switch {
	case len(m.reps) == 0:
		return v == 0
	case m.mustBan():
		return v == 1
	case m.sawBan:
		return v == 1
	default:
		_, ok := m.contents[v]
		return ok
	}
}

// ---------------------------------------------------------------- environment

type devInfo struct {
	*drv.Dev
	cap, lim, pv, pw uint64
	free             []int // free slot indices (relative to the window offset)
}

type cell struct {
	d     *devInfo
	idx   int
	slot  uint32
	m     cellModel
	vp    *refenc.Report
	sent  []string
	names []string
}

type env struct {
	b         run.Batch
	r         *ev.Result
	rng       *rand.Rand
	w         *drv.World
	devs      []*devInfo
	ndev      int
	rot       int
	offset    uint32
	snap      *server.VerifSnap
	born      time.Time
	worldN    int
	seqN      int
	blocks    []int // free 6-slot blocks (rand part)
	dead      bool
	udp       *drv.StrictUDP
	fullBans  int
	faultNext bool // the next delivery happens while equipment-reports.dat is unavailable
	savedViol int
}

// The socket path uses drv.StrictUDP: its completion barrier subtracts the
// datagrams the server refused (the harness sends acceptable reports only, so a
// refused datagram stems from another process that still sends to a reused
// ephemeral port) from the udp.done count.

// transport retries an operation that failed below the protocol (connection
// reset / timeout under CPU starvation). A persistent failure is inconclusive,
// never a verdict: a server that really stopped answering is found by the
// parent (crash, handler panic) or by the watchdog.
func (e *env) transport(what string, f func() error) bool {
	var err error
	for try := 0; try < 3; try++ {
		if err = f(); err == nil {
			return true
		}
		e.r.Count("transport_retries", 1)
	}
	e.r.Inconc(what + ": transport failure (3 attempts): " + err.Error())
	return false
}

func (e *env) close() {
	if e.udp != nil {
		e.r.Count("foreign_datagrams_seen", int64(e.udp.Foreign))
		e.udp.Close()
		e.udp = nil
	}
	if e.w != nil {
		e.w.Close()
		os.RemoveAll(e.w.Dir)
		e.w = nil
	}
}

// newWorld starts a fresh server with ndev devices of different capacities.
func (e *env) newWorld() bool {
	e.close()
	drv.SetClock(0)
	e.worldN++
	w, err := drv.NewWorld(filepath.Join(e.b.Dir, fmt.Sprintf("srv%d", e.worldN)), e.rng)
	if err != nil {
		e.r.Inconc("cannot start world: " + err.Error())
		e.dead = true
		return false
	}
	e.w = w
	e.born = time.Now()
	e.devs = nil
	if e.udp, err = w.NewStrictUDP(); err != nil {
		e.r.Inconc("cannot open UDP socket: " + err.Error())
		e.dead = true
		return false
	}
	maxCap := new(big.Int).Div(new(big.Int).Lsh(big.NewInt(1), 64), big.NewInt(135)).Uint64() // floor(2^64/135)
	usedID := map[uint32]bool{}
	for i := 0; i < e.ndev; i++ {
		var capacity uint64
		switch i {
		case 0:
			capacity = 100 + uint64(e.rng.Intn(1000000))
			if e.rng.Intn(4) == 0 {
				capacity = 416666
			}
		case 1:
			capacity = 1000000000000 + uint64(e.rng.Int63n(int64(maxCap-1000000000000)))
		default:
			capacity = 100 + uint64(e.rng.Int63n(int64(maxCap-100)))
			if e.rng.Intn(4) == 0 {
				capacity = maxCap - 1 - uint64(e.rng.Intn(1000))
			}
			// capacities whose 135 % no longer fits 64 bits (the limit is then judged in big
			// integers; a limit above 2^63-1 means no non-negative report can exceed it)
			if e.rng.Intn(3) == 0 || i == 2 { // the third device of every world always (the floor must not depend on the seed)
				switch e.rng.Intn(6) {
				case 0:
					capacity = maxCap
				case 1:
					capacity = maxCap + 1 + uint64(e.rng.Intn(1000))
				case 2:
					capacity = 1 << 63
				case 3:
					capacity = 1<<64 - 1 - uint64(e.rng.Intn(1000))
				default:
					capacity = maxCap + uint64(e.rng.Int63())
				}
				e.r.Count("capacity.above_2^64/135", 1)
			}
		}
		if capacity%100 == 0 { // capacities that are no multiples of 100 separate floor(cap*135/100) from (cap/100)*135
			capacity += 1 + uint64(e.rng.Intn(99))
		}
		id := uint32(e.rng.Intn(1 << 16))
		if e.rng.Intn(3) == 0 {
			id = e.rng.Uint32()
		}
		for usedID[id] {
			id++
		}
		usedID[id] = true
		d, err := w.AddDevice(id, capacity)
		if err != nil {
			e.r.Inconc(err.Error())
			e.dead = true
			return false
		}
		di := &devInfo{Dev: d, cap: capacity}
		if bl := new(big.Int).Div(new(big.Int).Mul(new(big.Int).SetUint64(capacity), big.NewInt(135)), big.NewInt(100)); bl.IsUint64() && bl.Uint64() <= 1<<63-2 {
			di.lim = bl.Uint64()
		} else {
			di.lim = 1<<63 - 2 // every non-negative power is within such a capacity; the letters stay usable
		}
		for {
			di.pv = 4 + uint64(e.rng.Int63n(int64(di.lim-4)))
			di.pw = 4 + uint64(e.rng.Int63n(int64(di.lim-4)))
			if di.pv != di.pw {
				break
			}
		}
		di.free = e.rng.Perm(4032)
		e.devs = append(e.devs, di)
	}
	e.blocks = e.rng.Perm(4032 / 6)
	// reach the window offset by real rotations
	for k := 0; k < e.rot; k++ {
		s := w.S.VerifSnapshot(false)
		drv.SetClock(s.Offset + 3201)
		if n := drv.StepRotation(); n != 1 {
			e.r.Inconc(fmt.Sprintf("rotation did not happen when expected (now-offset=3201): %d", n))
			e.dead = true
			return false
		}
	}
	e.snap = w.S.VerifSnapshot(true)
	e.offset = e.snap.Offset
	if e.offset != uint32(e.rot)*2016 {
		e.r.Inconc(fmt.Sprintf("unexpected window offset %d after %d rotations", e.offset, e.rot))
		e.dead = true
		return false
	}
	return true
}

// setClockFor picks a clock value under which all the given slots are inside the
// acceptance window (|slot-now| <= 432) and now >= offset.
func (e *env) setClockFor(lo, hi uint32) uint32 {
	nlo := int64(hi) - 432
	if nlo < int64(e.offset) {
		nlo = int64(e.offset)
	}
	nhi := int64(lo) + 432
	now := uint32(nlo + e.rng.Int63n(nhi-nlo+1))
	switch e.rng.Intn(8) { // boundaries of the acceptance window are part of the domain
	case 0:
		now = uint32(nlo)
	case 1:
		now = uint32(nhi)
	}
	drv.SetClock(now)
	return now
}

func (e *env) freshCell(d *devInfo) *cell {
	idx := d.free[len(d.free)-1]
	d.free = d.free[:len(d.free)-1]
	return &cell{d: d, idx: idx, slot: e.offset + uint32(idx), m: cellModel{capacity: d.cap}}
}

func (e *env) needWorld(minFree int) bool {
	if e.dead {
		return false
	}
	ok := e.w != nil && time.Since(e.born) < 40*time.Second
	if ok {
		for _, d := range e.devs {
			if len(d.free) < minFree {
				ok = false
			}
		}
	}
	if !ok {
		return e.newWorld()
	}
	return true
}

func powerOf(l letter, d *devInfo) uint64 {
	switch l {
	case Lv, Lvp:
		return d.pv
	case Lw:
		return d.pw
	case Llim:
		return d.lim
	case Llim1:
		return d.lim + 1
	case Lmax63:
		return 1<<63 - 1
	case Lneg63:
		return 1 << 63
	case Lneg5:
		return 1<<64 - 5
	case L2:
		return 2
	default:
		return 3
	}
}

func (e *env) mk(c *cell, l letter) refenc.Report {
	r := refenc.Report{ID: c.d.ID, Slot: c.slot, Power: powerOf(l, c.d)}
	if l == Lvp {
		if c.vp == nil {
			det := r.Signed(c.d.Key.Priv)
			for {
				r.Sig = refenc.SignRand(c.d.Key.Priv, r.SigningBytes())
				if r.Sig != det.Sig {
					break
				}
			}
			c.vp = &r
		}
		return *c.vp
	}
	return r.Signed(c.d.Key.Priv)
}

func (c *cell) replay(now uint32, offset uint32) map[string]interface{} {
	return map[string]interface{}{"device": c.d.ID, "capacity": c.d.cap, "limit": c.d.lim, "slot": c.slot, "offset": offset, "now": now,
		"letters": strings.Join(c.names, " "), "datagrams": c.sent}
}

// symbol maps a published value to a device independent outcome name.
func symbol(v uint64, d *devInfo) string {
	switch v {
	case 0:
		return "0"
	case 1:
		return "1"
	}
	for _, l := range sigma10 {
		if l != Lvp && powerOf(l, d) == v {
			return "value(" + l.String() + ")"
		}
	}
	return fmt.Sprintf("value?%d", v)
}

// deliver sends one report to a cell and judges the stored record afterwards.
func (e *env) deliver(c *cell, rep refenc.Report, name string, socket bool, now uint32) bool {
	b := rep.Bytes()
	c.sent = append(c.sent, hex.EncodeToString(b))
	c.names = append(c.names, name)
	run.Op("deliver dev=%d slot=%d now=%d offset=%d socket=%v fault=%v letter=%s bytes=%x", c.d.ID, c.slot, now, e.offset, socket, e.faultNext, name, b)
	if e.faultNext {
		// the report log cannot be opened while this one report is processed (the server opens it without O_CREATE)
		e.faultNext = false
		name += "!"
		c.names[len(c.names)-1] = name
		logPath := filepath.Join(e.w.Dir, "equipment-reports.dat")
		if err := os.Rename(logPath, logPath+".away"); err != nil {
			e.r.Inconc("fault injection: " + err.Error())
			return false
		}
		defer func() {
			if _, err := os.Stat(logPath); err == nil { // the server created a new log: keep its records behind the old ones
				old, _ := os.ReadFile(logPath + ".away")
				created, _ := os.ReadFile(logPath)
				os.WriteFile(logPath, append(old, created...), 0644)
				os.Remove(logPath + ".away")
			} else {
				os.Rename(logPath+".away", logPath)
			}
		}()
		e.r.Count("fault.deliveries", 1)
	}
	if socket {
		if !e.udp.Send(b) {
			e.r.Inconc("socket delivery: the datagram was not processed within 10s (lost on loopback?)")
			return false
		}
		e.r.Count("via_socket", 1)
	} else {
		e.w.Inject(b)
		e.r.Count("via_hook", 1)
	}
	prevBan := c.m.sawBan
	prevReps := len(c.m.reps)
	_, isReplay := c.m.reps[rep]
	c.m.add(rep)
	got, _, off, present := e.w.S.VerifSlot(c.d.ID, c.idx)
	if !present || off != e.offset {
		e.r.Violationf("slot-unavailable", c.replay(now, e.offset), "slot record of device %d index %d not available (present=%v offset=%d want %d)", c.d.ID, c.idx, present, off, e.offset)
		return false
	}
	e.judge(c, got, now, "after delivery")
	// what the monitor saw
	v := got.PowerOutput
	switch {
	case prevBan && v == 1:
		e.r.Count("obs.banned_stays", 1)
	case v == 1 && c.m.over:
		e.r.Count("obs.overcapacity_ban", 1)
	case v == 1 && len(c.m.reps) >= 2:
		e.r.Count("obs.equivocation_ban", 1)
	case v != 1 && v != 0 && isReplay:
		e.r.Count("obs.replay_kept", 1)
	case v != 1 && v != 0 && prevReps == 0:
		e.r.Count("obs.single_value", 1)
		if int64(v) < 0 {
			e.r.Count("obs.negative_published", 1)
		}
		if v == c.d.lim {
			e.r.Count("obs.limit_published", 1)
		}
	}
	return true
}

// judge compares a stored record with the model of its cell.
func (e *env) judge(c *cell, got glow.EquipmentReport, now uint32, where string) {
	m := &c.m
	v := got.PowerOutput
	rp := c.replay(now, e.offset)
	switch {
	case len(m.reps) == 0:
		if v != 0 || drv.RefReport(got) != (refenc.Report{}) {
			e.r.Violationf("untouched-slot-not-empty", rp, "%s: cell that received no report holds %+v", where, drv.RefReport(got))
		}
	case m.sawBan && v != 1:
		e.r.Violationf("ban-lifted", rp, "%s: slot was banned (value 1) and now publishes %d after [%s]", where, v, strings.Join(c.names, " "))
	case m.mustBan():
		if v != 1 {
			key := "equivocation-not-banned"
			if m.resignedOnly() {
				key = "resigned-same-content-not-banned"
			}
			if m.over {
				key = "overcapacity-not-banned"
			}
			e.r.Violationf(key, rp, "%s: after [%s] (capacity %d, limit %d) the slot publishes %d (%s), want the ban sentinel 1", where, strings.Join(c.names, " "), c.d.cap, c.d.lim, v, symbol(v, c.d))
		}
	case len(m.reps) == 1:
		var want refenc.Report
		for k := range m.reps {
			want = k
		}
		switch {
		case v == 1:
			key := "within-capacity-report-banned"
			if int64(want.Power) < 0 {
				key = "negative-report-banned"
			}
			if m.deliveries > 1 {
				key = "replay-banned"
			}
			e.r.Violationf(key, rp, "%s: one distinct report (power %d, capacity %d, limit %d) delivered %d time(s) and the slot is banned", where, want.Power, c.d.cap, c.d.lim, m.deliveries)
		case drv.RefReport(got) != want:
			key := "single-report-not-published-as-sent"
			if v == 0 {
				key = "acceptable-report-not-recorded"
			}
			e.r.Violationf(key, rp, "%s: one distinct report (power %d) delivered %d time(s) but the slot holds %+v", where, want.Power, m.deliveries, drv.RefReport(got))
		}
	}
	if v == 1 {
		m.sawBan = true
	}
}

// checkpoint writes the result file as soon as new violations exist, so that a
// later hang or crash of the child does not lose them.
func (e *env) checkpoint() {
	if n := e.r.NumViolations(); n != e.savedViol {
		e.savedViol = n
		e.r.Save(filepath.Join(run.ScratchDir(), "result.json"))
	}
}

// finish counts the final state of a cell.
func (e *env) finish(c *cell, v uint64) {
	e.checkpoint()
	switch v {
	case 0:
		e.r.Count("final.empty", 1)
	case 1:
		e.r.Count("final.banned", 1)
	default:
		e.r.Count("final.value", 1)
	}
	if c.m.resignedOnly() && v == 1 {
		e.r.Count("obs.resigned_ban", 1)
	}
}

// compareWhole checks that two snapshots differ in nothing but the given cells
// (and the internal list of recent reports).
func (e *env) compareWhole(before, after *server.VerifSnap, cells []*cell, now uint32, what string) {
	diff := drv.DiffSnap(before, after)
	touchedDev := map[uint32]bool{}
	touched := map[[2]int]bool{}
	for _, c := range cells {
		touchedDev[c.d.ID] = true
		touched[[2]int{int(c.d.ID), c.idx}] = true
	}
	var rp interface{}
	if len(cells) == 1 {
		rp = cells[0].replay(now, e.offset)
	} else {
		var all []interface{}
		for _, c := range cells {
			if len(c.sent) > 0 {
				all = append(all, c.replay(now, e.offset))
			}
		}
		rp = all
	}
	for _, s := range diff.Sections {
		if s == "recentlist" {
			continue
		}
		ok := false
		for id := range touchedDev {
			if s == fmt.Sprintf("reports[%d]", id) {
				ok = true
			}
		}
		if !ok {
			e.r.Violationf("cross-effect:"+sectionClass(s), rp, "%s changed state outside its own cells: %s", what, diff)
		}
	}
	for id := range touchedDev {
		ra, rb := before.Reports[id], after.Reports[id]
		if ra == nil || rb == nil {
			e.r.Violationf("device-reports-missing", rp, "report array of device %d missing in snapshot", id)
			continue
		}
		for i := range ra {
			if ra[i] != rb[i] && !touched[[2]int{int(id), i}] {
				e.r.Violationf("cross-effect:other-slot", rp, "%s changed slot index %d of device %d which received no report (%+v -> %+v)", what, i, id, drv.RefReport(ra[i]), drv.RefReport(rb[i]))
				break
			}
		}
	}
	e.r.Count("whole_state_comparisons", 1)
}

// parseRecent decodes a recent-reports body into reference structs.
func parseRecent(body []byte) ([]refenc.Report, error) {
	var raw struct {
		Reports []struct {
			ShortID     uint32
			Timeslot    uint32
			PowerOutput uint64
			Signature   []int
		}
	}
	if err := json.Unmarshal(body, &raw); err != nil {
		return nil, err
	}
	out := make([]refenc.Report, len(raw.Reports))
	for i, r := range raw.Reports {
		out[i] = refenc.Report{ID: r.ShortID, Slot: r.Timeslot, Power: r.PowerOutput}
		if len(r.Signature) != 64 {
			return nil, fmt.Errorf("signature of entry %d has %d elements", i, len(r.Signature))
		}
		for k, x := range r.Signature {
			out[i].Sig[k] = byte(x)
		}
	}
	return out, nil
}

func sectionClass(s string) string {
	if i := strings.IndexByte(s, '['); i >= 0 {
		return s[:i] + "[other]"
	}
	return s
}

// surfaces compares the public endpoints with the model (touched cells) and
// with the snapshot (every slot).
func (e *env) surfaces(after *server.VerifSnap, cells []*cell, full bool, now uint32) {
	t0 := time.Now()
	defer func() {
		if full {
			e.r.Count("t_us.surfaces_full", time.Since(t0).Microseconds())
		} else {
			e.r.Count("t_us.surfaces_light", time.Since(t0).Microseconds())
		}
	}()
	byDev := map[uint32][]*cell{}
	weeks := map[uint32]bool{}
	for _, c := range cells {
		byDev[c.d.ID] = append(byDev[c.d.ID], c)
		weeks[e.offset+uint32(c.idx/2016)*2016] = true
	}
	var ids []uint32
	for id := range byDev {
		ids = append(ids, id)
	}
	sort.Slice(ids, func(i, j int) bool { return ids[i] < ids[j] })
	keyToDev := map[[32]byte]*devInfo{}
	for _, d := range e.devs {
		keyToDev[d.Key.Pub] = d
	}
	// (iii) sync bitfield
	for _, id := range ids {
		cs := byDev[id]
		run.Op("sync dev=%d", id)
		var raw []byte
		var rep refenc.SyncReply
		var refused bool
		var err error
		for try := 0; try < 3; try++ { // the sync handler works against a 2.5 s connection deadline: under CPU starvation a reply can be cut short; a reply that stays unparsable is a finding
			if !e.transport("sync", func() (err error) {
				raw, err = e.w.SyncRaw([]byte{byte(id), byte(id >> 8), byte(id >> 16), byte(id >> 24)})
				return
			}) {
				break
			}
			if rep, refused, err = refenc.ParseSyncReply(raw); err == nil {
				break
			}
			e.r.Count("sync_reply_retries", 1)
		}
		if raw == nil {
			continue
		}
		if err != nil || refused {
			e.r.Violationf("sync-surface-unavailable", cs[0].replay(now, e.offset), "sync for authorized device %d failed: refused=%v err=%v (%d bytes)", id, refused, err, len(raw))
			continue
		}
		if rep.Offset != e.offset || rep.DevKey != cs[0].d.Key.Pub {
			e.r.Violationf("sync-header-wrong", cs[0].replay(now, e.offset), "sync reply for device %d carries offset %d / key %x", id, rep.Offset, rep.DevKey[:4])
		}
		for _, c := range cs {
			bit := rep.Bit(c.idx)
			if bit != (len(c.m.reps) > 0) { // every admissible published value of a cell that received a report is non-zero
				e.r.Violationf("sync-bit-disagrees-with-model", c.replay(now, e.offset), "sync bit of slot %d device %d is %v after [%s]", c.slot, id, bit, strings.Join(c.names, " "))
			}
		}
		for i := 0; i < 4032; i++ {
			if rep.Bit(i) != (after.Reports[id][i].PowerOutput != 0) {
				e.r.Violationf("sync-bitfield-disagrees-with-state", map[string]interface{}{"dev": id, "index": i}, "sync bit %d of device %d is %v but stored power is %d", i, id, rep.Bit(i), after.Reports[id][i].PowerOutput)
				break
			}
		}
		e.r.Count("surface.sync", 1)
	}
	// (i) statistics of the live week(s)
	for wk := range weeks {
		run.Op("stats week=%d", wk)
		var st int
		var stats *refenc.Stats
		var perr error
		if !e.transport("all-device-stats", func() error {
			var body []byte
			var err error
			st, stats, body, err = e.w.GetStats(fmt.Sprintf("timeslot_offset=%d", wk))
			if err != nil && body != nil { // the body arrived but does not decode: not a transport matter
				perr, err = err, nil
			}
			return err
		}) {
			continue
		}
		if perr != nil || st != 200 {
			e.r.Violationf("live-stats-unavailable", nil, "stats for live week %d: status %d err %v", wk, st, perr)
			continue
		}
		base := int(wk - e.offset)
		seen := map[uint32]bool{}
		for _, ds := range stats.Devices {
			d, ok := keyToDev[ds.Pub]
			if !ok {
				e.r.Violationf("stats-unknown-device", nil, "live stats list a device key that was never authorized")
				continue
			}
			seen[d.ID] = true
			for i := 0; i < 2016; i++ {
				if ds.Power[i] != after.Reports[d.ID][base+i].PowerOutput {
					e.r.Violationf("stats-disagree-with-state", map[string]interface{}{"dev": d.ID, "index": base + i}, "live stats slot %d of device %d is %d but stored power is %d", base+i, d.ID, ds.Power[i], after.Reports[d.ID][base+i].PowerOutput)
					break
				}
			}
			for _, c := range byDev[d.ID] {
				if c.idx >= base && c.idx < base+2016 {
					if v := ds.Power[c.idx-base]; !c.m.allowed(v) {
						e.r.Violationf("stats-disagree-with-model", c.replay(now, e.offset), "all-device-stats publishes %d (%s) for slot %d of device %d after [%s]", v, symbol(v, c.d), c.slot, d.ID, strings.Join(c.names, " "))
					}
				}
			}
		}
		for _, d := range e.devs {
			if !seen[d.ID] {
				e.r.Violationf("stats-device-missing", nil, "authorized device %d is missing from the live statistics of week %d", d.ID, wk)
			}
		}
		e.r.Count("surface.stats", 1)
	}
	if !full {
		return
	}
	// (ii) recent-reports
	for _, id := range ids {
		cs := byDev[id]
		run.Op("recent-reports dev=%d", id)
		var st int
		var body []byte
		if !e.transport("recent-reports", func() (err error) {
			st, body, err = e.w.Get("/api/v1/recent-reports?publicKey=" + hex.EncodeToString(cs[0].d.Key.Pub[:]))
			return
		}) {
			continue
		}
		rr, err := parseRecent(body)
		if err != nil || st != 200 || len(rr) != 4032 {
			e.r.Violationf("recent-reports-unavailable", cs[0].replay(now, e.offset), "recent-reports for device %d: status %d err %v n=%d", id, st, err, len(rr))
			continue
		}
		for i := 0; i < 4032; i++ {
			if rr[i] != drv.RefReport(after.Reports[id][i]) {
				e.r.Violationf("recent-reports-disagree-with-state", map[string]interface{}{"dev": id, "index": i}, "recent-reports entry %d of device %d differs from stored record", i, id)
				break
			}
		}
		for _, c := range cs {
			if v := rr[c.idx].Power; !c.m.allowed(v) {
				e.r.Violationf("recent-reports-disagree-with-model", c.replay(now, e.offset), "recent-reports publishes %d for slot %d of device %d after [%s]", v, c.slot, id, strings.Join(c.names, " "))
			}
		}
		e.r.Count("surface.recent", 1)
	}
}

// ---------------------------------------------------------------- single-cell sequences

// runSeq plays one letter sequence on a fresh cell and returns the symbolic
// final outcome.
func (e *env) runSeq(kind string, seq []letter) (string, bool) {
	if !e.needWorld(1) {
		return "", false
	}
	e.seqN++
	d := e.devs[e.rng.Intn(len(e.devs))]
	c := e.freshCell(d)
	now := e.setClockFor(c.slot, c.slot)
	socket := e.seqN%9 == 4
	before := e.snap
	for _, l := range seq {
		if !e.deliver(c, e.mk(c, l), l.String(), socket, now) {
			return "", false
		}
	}
	t0 := time.Now()
	after := e.w.S.VerifSnapshot(true)
	e.snap = after
	got := after.Reports[d.ID][c.idx]
	e.judge(c, got, now, "in the snapshot after the sequence")
	e.compareWhole(before, after, []*cell{c}, now, "sequence ["+seqString(seq)+"]")
	e.r.Count("t_us.snapshot_diff", time.Since(t0).Microseconds())
	v := got.PowerOutput
	e.finish(c, v)
	// recent-reports bodies are big: full surface checks on every 16th sequence, on the first bans a child sees and on a 1/12 sample of the later bans
	full := e.seqN%16 == 0
	if v == 1 && (e.fullBans < 6 || e.seqN%24 == 1) {
		e.fullBans++
		full = true
	}
	if full || v == 1 || e.seqN%4 == 0 {
		e.surfaces(after, []*cell{c}, full, now)
	}
	e.r.Eval(1)
	if len(seq) >= 2 {
		e.r.Nontrivial(kind + ":" + seqString(seq))
	}
	if e.seqN%97 == 5 {
		e.r.Sample(map[string]interface{}{"kind": kind, "letters": seqString(seq), "device": d.ID, "capacity": d.cap, "slot": c.slot, "now": now, "offset": e.offset, "socket": socket, "published": symbol(v, d)})
	}
	return symbol(v, d), true
}

// runGroups plays every distinct permutation of every multiset handed to this
// child; all permutations of one multiset must end in the same outcome.
func (e *env) runGroups(kind string, alpha []letter, groups [][]int) {
	for _, ms := range groups {
		first, firstSeq := "", ""
		n := 0
		for _, p := range permutations(ms) {
			seq := make([]letter, len(p))
			for i, x := range p {
				seq[i] = alpha[x]
			}
			out, ok := e.runSeq(kind, seq)
			if !ok {
				return
			}
			e.r.Count(kind+".sequences", 1)
			if n == 0 {
				first, firstSeq = out, seqString(seq)
			} else if out != first {
				e.r.Violationf("order-dependence", map[string]interface{}{"a": firstSeq, "a_outcome": first, "b": seqString(seq), "b_outcome": out},
					"two orders of the same multiset of reports end differently: [%s] -> %s, [%s] -> %s", firstSeq, first, seqString(seq), out)
			}
			n++
			if e.r.NumViolations() > 20 {
				return
			}
		}
		if n >= 2 {
			e.r.Count("perm.classes_compared", 1)
			e.r.Count("perm.orders_compared", int64(n))
		}
	}
}

// ---------------------------------------------------------------- random interleaved sequences

// restartServer restarts the server in the middle of a sequence. The clock is set between Close and Start (it stays
// where it was: the caller keeps now-offset below the start-up catch-up threshold of 4000).
func (e *env) restartServer(now uint32) bool {
	run.Op("restart now=%d offset=%d", now, e.offset)
	if e.udp != nil {
		e.r.Count("foreign_datagrams_seen", int64(e.udp.Foreign))
		e.udp.Close()
		e.udp = nil
	}
	if err := e.w.Close(); err != nil {
		e.r.Violationf("restart-failed", nil, "server did not close: %v", err)
		e.dead = true
		return false
	}
	drv.SetClock(now)
	if err := e.w.Start(); err != nil {
		e.r.Violationf("restart-failed", nil, "the server does not start again: %v", err)
		e.dead = true
		return false
	}
	var err error
	if e.udp, err = e.w.NewStrictUDP(); err != nil {
		e.r.Inconc("cannot open UDP socket: " + err.Error())
		e.dead = true
		return false
	}
	if off := e.w.S.VerifSnapshot(false).Offset; off != e.offset {
		e.r.Inconc(fmt.Sprintf("window offset moved across the restart: %d -> %d", e.offset, off))
		e.dead = true
		return false
	}
	e.r.Count("restarts", 1)
	return true
}

// runRandom plays one interleaved sequence over 3 devices x 6 slots. With restartMid the server is restarted in
// the middle: the capacity and ban rules keep applying to the devices authorized before the restart, for the
// reports received before it (re-read from the log) and for those received after it.
func (e *env) runRandom(restartMid bool) bool {
	if e.dead {
		return false
	}
	if e.w == nil || len(e.blocks) == 0 || time.Since(e.born) > 40*time.Second {
		if !e.newWorld() {
			return false
		}
	}
	e.seqN++
	bi := len(e.blocks) - 1
	if restartMid {
		// keep now-offset <= 3200: above it the rotation loop, released from its gate by Close, would still
		// rotate once while shutting down (and from 4000 on the start-up catch-up rotates)
		for bi >= 0 && e.blocks[bi]*6+5+432 > 3200 {
			bi--
		}
		if bi < 0 {
			if !e.newWorld() {
				return false
			}
			return e.runRandom(restartMid)
		}
	}
	blk := e.blocks[bi]
	e.blocks = append(e.blocks[:bi], e.blocks[bi+1:]...)
	var cells []*cell
	for _, d := range e.devs {
		for k := 0; k < 6; k++ {
			idx := blk*6 + k
			cells = append(cells, &cell{d: d, idx: idx, slot: e.offset + uint32(idx), m: cellModel{capacity: d.cap}})
		}
	}
	now := e.setClockFor(e.offset+uint32(blk*6), e.offset+uint32(blk*6+5))
	before := e.snap
	steps := 5 + e.rng.Intn(36)
	hist := ""
	type sentRep struct {
		rep  refenc.Report
		name string
	}
	sentBy := map[*cell][]sentRep{}
	// forced deliveries of the restart variant: over-capacity and at-limit reports before AND after the restart,
	// on empty and on filled slots
	type forcedStep struct {
		cell int
		l    letter
	}
	var forced map[int]forcedStep
	restartAt := -1
	if restartMid {
		// (cells 9, 10: the same content under two valid signatures is two reports - the ban must survive the restart)
		pre := []forcedStep{{0, Llim1}, {1, Lv}, {2, Llim}, {6, Lmax63}, {7, Lw}, {12, Llim1}, {13, Llim}, {9, Lv}, {9, Lvp}, {10, Lvp}, {10, Lv}}
		post := []forcedStep{{1, Llim1}, {3, Llim1}, {4, Llim}, {2, Llim}, {0, Lv}, {8, Lmax63}, {7, Llim1}, {13, Llim1}, {14, Llim}, {12, Lw}, {9, Lw}, {15, Lv}, {15, Lvp}}
		steps = len(pre) + len(post) + 6 + e.rng.Intn(20)
		restartAt = len(pre) + e.rng.Intn(steps-len(pre)-len(post))
		forced = map[int]forcedStep{}
		for i, f := range pre {
			forced[i] = f
		}
		for i, f := range post {
			forced[restartAt+i] = f
		}
	}
	for s := 0; s < steps; s++ {
		if s == restartAt {
			if !e.restartServer(now) {
				return false
			}
			snap := e.w.S.VerifSnapshot(true)
			for _, c := range cells {
				e.judge(c, snap.Reports[c.d.ID][c.idx], now, "after the restart")
			}
			hist += "RESTART;"
		}
		if s > 0 && e.rng.Intn(12) == 0 {
			// the GCA submits a device's authorization once more (an exact duplicate changes nothing):
			// every cell keeps its record
			d := e.devs[e.rng.Intn(len(e.devs))]
			run.Op("resubmit the identical authorization of device %d", d.ID)
			if st, body, err := e.w.Authorize(d.Auth); err != nil || st != 200 {
				if err != nil {
					e.r.Inconc("resubmitted authorization: " + err.Error())
					e.dead = true
					return false
				}
				e.r.Violationf("identical-authorization-refused", map[string]interface{}{"history": hist}, "resubmitting the identical authorization of device %d was answered %d (%.80s)", d.ID, st, body)
			}
			snap := e.w.S.VerifSnapshot(true)
			for _, c := range cells {
				if snap.Reports[c.d.ID] == nil {
					e.r.Violationf("cross-effect:duplicate-authorization", map[string]interface{}{"history": hist}, "after the identical authorization of device %d was resubmitted, device %d has no report window", d.ID, c.d.ID)
					e.dead = true
					return false
				}
				e.judge(c, snap.Reports[c.d.ID][c.idx], now, "after an identical authorization was resubmitted")
			}
			e.r.Count("random.duplicate_authorizations", 1)
			hist += fmt.Sprintf("DUPAUTH %d;", d.ID)
		}
		c := cells[e.rng.Intn(len(cells))]
		if e.rng.Intn(3) == 0 { // concentrate on few cells so that long histories per cell occur
			c = cells[e.rng.Intn(3)*6+e.rng.Intn(2)]
		}
		var rep refenc.Report
		var name string
		if f, ok := forced[s]; ok {
			c = cells[f.cell]
			rep, name = e.mk(c, f.l), f.l.String()
			if s >= restartAt && overCapacity(rep.Power, c.d.cap) {
				e.r.Count("restart.overcapacity_after_restart", 1)
			}
		} else if prev := sentBy[c]; len(prev) > 0 && e.rng.Intn(10) < 3 {
			p := prev[e.rng.Intn(len(prev))]
			rep, name = p.rep, p.name // exact replay of an earlier datagram
		} else {
			l := sigma10[e.rng.Intn(len(sigma10))]
			rep, name = e.mk(c, l), l.String()
			if e.rng.Intn(12) == 0 { // arbitrary other value, arbitrary fresh signature
				rep = refenc.Report{ID: c.d.ID, Slot: c.slot, Power: 2 + uint64(e.rng.Int63())}
				if e.rng.Intn(2) == 0 {
					rep.Power = ^uint64(0) - uint64(e.rng.Int63n(1<<40))
				}
				rep.Sig = refenc.SignRand(c.d.Key.Priv, rep.SigningBytes())
				name = fmt.Sprintf("p%d", rep.Power)
			}
		}
		sentBy[c] = append(sentBy[c], sentRep{rep, name})
		if !e.deliver(c, rep, name, e.rng.Intn(8) == 0, now) {
			return false
		}
		hist += fmt.Sprintf("%d/%d:%s;", c.d.ID, c.idx, name)
		// a cell that was not addressed keeps its record
		o := cells[e.rng.Intn(len(cells))]
		if o != c {
			got, _, _, present := e.w.S.VerifSlot(o.d.ID, o.idx)
			if !present {
				e.r.Violationf("slot-unavailable", o.replay(now, e.offset), "slot record of device %d index %d not available", o.d.ID, o.idx)
			} else {
				e.judge(o, got, now, fmt.Sprintf("after a delivery to another cell (device %d slot %d)", c.d.ID, c.slot))
			}
		}
	}
	after := e.w.S.VerifSnapshot(true)
	e.snap = after
	multi := false
	for _, c := range cells {
		got := after.Reports[c.d.ID][c.idx]
		e.judge(c, got, now, "in the snapshot after the interleaved sequence")
		e.finish(c, got.PowerOutput)
		if c.m.deliveries >= 2 {
			multi = true
		}
	}
	e.compareWhole(before, after, cells, now, "interleaved sequence")
	if e.seqN%4 == 0 {
		e.surfaces(after, cells, e.seqN%16 == 0, now)
	}
	e.r.Eval(1)
	if restartMid {
		e.r.Count("restart.sequences", 1)
	} else {
		e.r.Count("rand.sequences", 1)
	}
	e.r.Count("rand.deliveries", int64(steps))
	if multi {
		e.r.Nontrivial("rand:" + hist)
	}
	if e.seqN%61 == 7 {
		e.r.Sample(map[string]interface{}{"kind": "rand", "history(dev/index:letter)": hist, "now": now, "offset": e.offset})
	}
	return e.r.NumViolations() <= 20
}

// ---------------------------------------------------------------- several copies in flight while the log append is slow

var inflightArrived atomic.Int64
var inflightHookOnce sync.Once

// runInflight: K datagrams for one fresh cell are handled at the same time while the append to
// equipment-reports.dat cannot complete (the log is a named pipe until the harness opens its reading end, so every
// handler runs as far as the server's locking lets it before any append returns). The published value is the
// function of the SET received: K identical copies publish the report's value (and are logged once), different
// reports ban the slot.
func (e *env) runInflight() bool {
	if !e.needWorld(1) {
		return false
	}
	inflightHookOnce.Do(func() {
		server.VerifSetHook("udp.ready", func(*server.GCAServer) { inflightArrived.Add(1) })
	})
	e.seqN++
	d := e.devs[e.rng.Intn(len(e.devs))]
	c := e.freshCell(d)
	now := e.setClockFor(c.slot, c.slot)
	// the multiset: mostly identical copies of one within-capacity report
	first := []letter{Lv, Lw, Llim, Lneg63, Lneg5, L2, L3}[e.rng.Intn(7)]
	k := 2 + e.rng.Intn(3)
	letters := make([]letter, k)
	identical := e.rng.Intn(4) != 0
	for i := range letters {
		letters[i] = first
		if !identical && i > 0 {
			letters[i] = sigma10[e.rng.Intn(len(sigma10))]
		}
	}
	var dgs [][]byte
	var reps []refenc.Report
	for _, l := range letters {
		rp := e.mk(c, l)
		reps = append(reps, rp)
		dgs = append(dgs, rp.Bytes())
		c.names = append(c.names, l.String())
		c.sent = append(c.sent, hex.EncodeToString(rp.Bytes()))
	}
	socket := e.seqN%3 == 0
	path := filepath.Join(e.w.Dir, "equipment-reports.dat")
	old, err := os.ReadFile(path)
	if err != nil {
		e.r.Inconc("inflight: " + err.Error())
		return false
	}
	before := e.snap
	run.Op("inflight: %d datagrams [%s] for dev=%d slot=%d now=%d socket=%v while the report log is a pipe", k, strings.Join(c.names, " "), d.ID, c.slot, now, socket)
	os.Remove(path)
	if err := syscall.Mkfifo(path, 0644); err != nil {
		os.WriteFile(path, old, 0644)
		e.r.Inconc("inflight: mkfifo: " + err.Error())
		return false
	}
	arrivedBefore := inflightArrived.Load()
	done := make(chan struct{})
	var start uint64
	if socket {
		start = e.udp.Begin()
		for _, b := range dgs {
			e.udp.Write(b)
		}
	} else {
		var wg sync.WaitGroup
		for _, b := range dgs {
			wg.Add(1)
			go func(b []byte) { defer wg.Done(); e.w.Inject(b) }(b)
		}
		go func() { wg.Wait(); close(done) }()
	}
	// all K handlers entered (logical), then a pause that only widens the window
	for i := 0; i < 5000 && inflightArrived.Load() < arrivedBefore+int64(k); i++ {
		time.Sleep(time.Millisecond)
	}
	time.Sleep(100 * time.Millisecond)
	fd, err := syscall.Open(path, syscall.O_RDONLY|syscall.O_NONBLOCK, 0)
	if err != nil {
		e.r.Inconc("inflight: open pipe: " + err.Error())
		e.dead = true
		return false
	}
	if socket {
		go func() {
			if e.udp.Barrier(start, k) {
				close(done)
			}
		}()
	}
	var drained []byte
	buf := make([]byte, 1<<16)
	finished, lost := false, false
	deadline := time.Now().Add(15 * time.Second)
	for {
		n, _ := syscall.Read(fd, buf)
		if n > 0 {
			drained = append(drained, buf[:n]...)
			continue
		}
		if finished {
			break
		}
		select {
		case <-done:
			finished = true
		default:
			if time.Now().After(deadline) {
				finished, lost = true, true
			}
			time.Sleep(300 * time.Microsecond)
		}
	}
	syscall.Close(fd)
	os.Remove(path)
	os.WriteFile(path, append(append([]byte(nil), old...), drained...), 0644)
	if lost {
		e.r.Count("inflight.unjudged", 1)
		e.dead = !socket // injected handlers that never return: do not go on with this server
		e.snap = e.w.S.VerifSnapshot(true)
		return !e.dead
	}
	for _, rp := range reps {
		c.m.add(rp)
	}
	if socket {
		e.r.Count("via_socket", int64(k))
	} else {
		e.r.Count("via_hook", int64(k))
	}
	after := e.w.S.VerifSnapshot(true)
	e.snap = after
	got := after.Reports[d.ID][c.idx]
	e.judge(c, got, now, fmt.Sprintf("after %d datagrams handled at the same time", k))
	if identical {
		if len(drained) != 80 || !bytes.Equal(drained, dgs[0]) {
			e.r.Violationf("inflight:replay-logged-more-than-once", c.replay(now, e.offset), "%d identical copies in flight: the report log grew by %d bytes (one accepted report is one 80-byte record)", k, len(drained))
		}
		e.r.Count("inflight.identical", 1)
	}
	e.compareWhole(before, after, []*cell{c}, now, "datagrams handled at the same time")
	e.finish(c, got.PowerOutput)
	// a later replay changes nothing
	if !e.deliver(c, reps[0], letters[0].String(), false, now) {
		return false
	}
	e.snap = e.w.S.VerifSnapshot(true)
	e.r.Eval(1)
	e.r.Count("inflight.sequences", 1)
	e.r.Nontrivial("inflight:" + strings.Join(c.names, " "))
	return e.r.NumViolations() <= 20
}

// ---------------------------------------------------------------- early delivery, clock advance, redelivery

// runClockSeq: some deliveries of a sequence happen while the slot is still more than 432 slots ahead of the
// clock (not acceptable: nothing may change); later the clock has advanced and the SAME packets arrive again:
// now they are valid reports received, and the set rule applies to them.
func (e *env) runClockSeq() bool {
	if !e.needWorld(1) {
		return false
	}
	e.seqN++
	d := e.devs[e.rng.Intn(len(e.devs))]
	var c *cell
	for tries := 0; tries < 50; tries++ { // a slot that can be "too early" with a clock >= offset
		if len(d.free) == 0 {
			return e.newWorld()
		}
		c = e.freshCell(d)
		if c.idx >= 440 {
			break
		}
		c = nil
	}
	if c == nil {
		return true
	}
	now := e.setClockFor(c.slot, c.slot)
	earlyNow := c.slot - 433 - uint32(e.rng.Intn(3))
	if earlyNow < e.offset {
		earlyNow = e.offset
	}
	n := 1 + e.rng.Intn(3)
	type step struct {
		l     letter
		early bool
	}
	var steps []step
	for i := 0; i < n; i++ {
		steps = append(steps, step{sigma10[e.rng.Intn(len(sigma10))], e.rng.Intn(2) == 0})
	}
	steps[0].early = true
	for i := 0; i < n; i++ { // every packet that came too early comes again in time
		if steps[i].early {
			steps = append(steps, step{steps[i].l, false})
		}
	}
	if e.rng.Intn(2) == 0 {
		steps = append(steps, step{steps[0].l, false}) // and once more as a replay
	}
	before := e.snap
	for _, st := range steps {
		rp := e.mk(c, st.l)
		if !st.early {
			drv.SetClock(now)
			if !e.deliver(c, rp, st.l.String(), e.rng.Intn(6) == 0, now) {
				return false
			}
			continue
		}
		drv.SetClock(earlyNow)
		prev, _, _, _ := e.w.S.VerifSlot(d.ID, c.idx)
		run.Op("deliver EARLY dev=%d slot=%d now=%d offset=%d letter=%s bytes=%x", d.ID, c.slot, earlyNow, e.offset, st.l, rp.Bytes())
		e.w.Inject(rp.Bytes())
		c.names = append(c.names, st.l.String()+"(early)")
		cur, _, _, _ := e.w.S.VerifSlot(d.ID, c.idx)
		if cur != prev {
			e.r.Violationf("early-report-changed-state", c.replay(earlyNow, e.offset), "a report for slot %d delivered at clock %d (more than 432 slots ahead) changed the slot", c.slot, earlyNow)
		}
		e.r.Count("clock.early_deliveries", 1)
	}
	drv.SetClock(now)
	after := e.w.S.VerifSnapshot(true)
	e.snap = after
	got := after.Reports[d.ID][c.idx]
	e.judge(c, got, now, "in the snapshot after early deliveries, a clock advance and redeliveries")
	e.compareWhole(before, after, []*cell{c}, now, "sequence with early deliveries")
	e.finish(c, got.PowerOutput)
	e.surfaces(after, []*cell{c}, e.seqN%8 == 0, now)
	e.r.Eval(1)
	e.r.Count("clock.sequences", 1)
	e.r.Nontrivial("clock:" + strings.Join(c.names, " "))
	return e.r.NumViolations() <= 20
}

// ---------------------------------------------------------------- report log unavailable for one delivery

// runFaultSeq plays a sequence in which one delivery (preferably the one that
// bans the slot) happens while equipment-reports.dat cannot be opened. The
// published value is a function of the reports RECEIVED, whatever becomes of
// the log: the set rule keeps holding, during the rest of the sequence too
// (replays of earlier reports, further letters). No restart in such a sequence.
func (e *env) runFaultSeq() bool {
	if !e.needWorld(1) {
		return false
	}
	e.seqN++
	d := e.devs[e.rng.Intn(len(e.devs))]
	c := e.freshCell(d)
	now := e.setClockFor(c.slot, c.slot)
	n := 2 + e.rng.Intn(3)
	seq := make([]letter, n)
	for i := range seq {
		seq[i] = sigma10[e.rng.Intn(len(sigma10))]
	}
	if e.rng.Intn(3) != 0 { // start with a report that does not ban by itself
		seq[0] = []letter{Lv, Lw, Llim, Lneg63, Lneg5, L2, L3}[e.rng.Intn(7)]
	}
	// index of the delivery that makes the model ban
	banAt := -1
	pm := cellModel{capacity: d.cap}
	for i, l := range seq {
		pm.add(e.mk(c, l))
		if pm.mustBan() {
			banAt = i
			break
		}
	}
	faultAt := banAt
	if faultAt < 0 || e.rng.Intn(4) == 0 {
		faultAt = e.rng.Intn(n)
	}
	// afterwards: replays of what was sent and one more letter
	tail := []letter{seq[0], seq[e.rng.Intn(n)], sigma10[e.rng.Intn(len(sigma10))]}
	socket := e.seqN%5 == 2
	before := e.snap
	for i, l := range append(seq, tail...) {
		e.faultNext = i == faultAt
		if !e.deliver(c, e.mk(c, l), l.String(), socket, now) {
			return false
		}
		if i == faultAt && i == banAt {
			e.r.Count("fault.on_banning_report", 1)
		}
	}
	after := e.w.S.VerifSnapshot(true)
	e.snap = after
	got := after.Reports[d.ID][c.idx]
	e.judge(c, got, now, "in the snapshot after the sequence with an unavailable report log")
	e.compareWhole(before, after, []*cell{c}, now, "sequence with an unavailable report log")
	e.finish(c, got.PowerOutput)
	e.surfaces(after, []*cell{c}, e.seqN%8 == 0, now)
	e.r.Eval(1)
	e.r.Count("fault.sequences", 1)
	e.r.Nontrivial("fault:" + strings.Join(c.names, " "))
	return e.r.NumViolations() <= 20
}

// ---------------------------------------------------------------- back-to-back bursts through the real socket

// runBursts sends bursts of distinct reports for distinct fresh cells through the
// real UDP socket without waiting in between, while concurrent heavy GETs keep
// the server mutex busy (so handlers queue up behind it); after the barrier every
// report of the burst must be present with its value.
func (e *env) runBursts(nBursts, k int) {
	if !e.newWorld() {
		return
	}
	stop := make(chan struct{})
	var rg sync.WaitGroup
	for g := 0; g < 3; g++ {
		rg.Add(1)
		go func(g int) {
			defer rg.Done()
			d := e.devs[g%len(e.devs)]
			for {
				select {
				case <-stop:
					return
				default:
				}
				e.w.Get("/api/v1/recent-reports?publicKey=" + hex.EncodeToString(d.Key.Pub[:])) // holds the server mutex while 4032 records are marshalled
			}
		}(g)
	}
	defer func() {
		close(stop)
		rg.Wait()
	}()
	per := k / len(e.devs)
	base := e.rng.Intn(300)
	letters := []letter{Lv, Lw, Llim, Llim1, Lmax63, Lneg63, Lneg5, L2, L3}
	judged := 0
	for b := 0; b < nBursts; b++ {
		lo := base + b*per
		now := e.setClockFor(e.offset+uint32(lo), e.offset+uint32(lo+per-1))
		var cells []*cell
		var dgs [][]byte
		for s := 0; s < per; s++ {
			for _, d := range e.devs {
				c := &cell{d: d, idx: lo + s, slot: e.offset + uint32(lo+s), m: cellModel{capacity: d.cap}}
				l := letters[e.rng.Intn(len(letters))]
				rep := e.mk(c, l)
				c.m.add(rep)
				c.names = append(c.names, l.String())
				c.sent = append(c.sent, hex.EncodeToString(rep.Bytes()))
				cells = append(cells, c)
				dgs = append(dgs, rep.Bytes())
			}
		}
		e.rng.Shuffle(len(dgs), func(i, j int) { dgs[i], dgs[j] = dgs[j], dgs[i] })
		before := e.snap
		run.Op("burst %d: %d datagrams back to back through the socket, now=%d offset=%d first index %d", b, len(dgs), now, e.offset, lo)
		// every third burst is accompanied by unacceptable datagrams from a second socket ("another process
		// that still sends to this port"): they must change nothing, and the completion barrier must not
		// mistake them for the burst's own datagrams
		noise := 0
		var ng sync.WaitGroup
		start := e.udp.Begin()
		if b%3 == 2 {
			noise = 12
			junk := make([][]byte, noise)
			for i := range junk {
				junk[i] = make([]byte, 80)
				e.rng.Read(junk[i])
				if i%2 == 0 { // names a real device and slot, garbage signature
					copy(junk[i], cells[i%len(cells)].sent0()[:16])
				}
			}
			ng.Add(1)
			go func() {
				defer ng.Done()
				c, err := net.Dial("udp", fmt.Sprintf("127.0.0.1:%d", e.w.UDP))
				if err != nil {
					return
				}
				defer c.Close()
				for _, j := range junk {
					c.Write(j)
				}
			}()
		}
		for _, d := range dgs {
			e.udp.Write(d)
		}
		ok := e.udp.Barrier(start, len(dgs))
		after := e.w.S.VerifSnapshot(true)
		if noise > 0 { // let the noise drain before the next burst starts counting
			ng.Wait()
			e.udp.Barrier(start, len(dgs)) // (re-reads the log; returns at once)
			deadline := time.Now().Add(3 * time.Second)
			for server.VerifUDPHandled() < start+uint64(len(dgs)+noise) && time.Now().Before(deadline) {
				time.Sleep(200 * time.Microsecond)
			}
			e.r.Count("burst.with_foreign_noise", 1)
		}
		e.snap = after
		if !ok {
			// fewer completions than datagrams: the kernel dropped some (UDP) – nothing certain can be said about this burst
			e.r.Count("burst.unjudged_lost_on_loopback", 1)
			continue
		}
		judged++
		e.r.Count("burst.judged", 1)
		e.r.Count("via_socket", int64(len(dgs)))
		for _, c := range cells {
			v := after.Reports[c.d.ID][c.idx].PowerOutput
			if !c.m.allowed(v) {
				key := "burst:wrong-value"
				if v == 0 {
					key = "burst:report-lost"
				}
				rp := c.replay(now, e.offset)
				rp["burst_size"] = len(dgs)
				e.r.Violationf(key, rp, "the listener completed all %d datagrams of a back-to-back burst, but slot %d of device %d publishes %d (%s) after [%s]", len(dgs), c.slot, c.d.ID, v, symbol(v, c.d), strings.Join(c.names, " "))
			} else if v != 0 && v != 1 && drv.RefReport(after.Reports[c.d.ID][c.idx]) != e.single(c) {
				e.r.Violationf("burst:record-differs-from-datagram", c.replay(now, e.offset), "slot %d of device %d holds a record that differs from the datagram sent for it", c.slot, c.d.ID)
			}
			e.finish(c, v)
		}
		e.compareWhole(before, after, cells, now, "burst through the socket")
		e.r.Eval(1)
		e.r.Nontrivial(fmt.Sprintf("burst:%x", dgs[0]))
		if e.r.NumViolations() > 20 {
			return
		}
	}
	if judged < (nBursts+1)/2 {
		e.r.Inconc(fmt.Sprintf("only %d of %d socket bursts could be judged (datagrams lost on loopback)", judged, nBursts))
	}
}

// sent0 returns the first datagram built for the cell.
func (c *cell) sent0() []byte {
	b, _ := hex.DecodeString(c.sent[0])
	return b
}

func (e *env) single(c *cell) refenc.Report {
	for k := range c.m.reps {
		return k
	}
	return refenc.Report{}
}

// ---------------------------------------------------------------- concurrent stress (race variant)

func (e *env) runStress(n int) {
	if !e.needWorld(n/e.ndev + 2) {
		return
	}
	// cells with consecutive indices so that one clock value serves them all
	base := 100 + e.rng.Intn(300)
	now := e.setClockFor(e.offset+uint32(base), e.offset+uint32(base+n))
	type item struct {
		c      *cell
		b      []byte
		socket bool
	}
	var cells []*cell
	var items []item
	for i := 0; i < n; i++ {
		d := e.devs[i%len(e.devs)]
		c := &cell{d: d, idx: base + i/len(e.devs), slot: e.offset + uint32(base+i/len(e.devs)), m: cellModel{capacity: d.cap}}
		cells = append(cells, c)
		k := 1 + e.rng.Intn(6)
		for j := 0; j < k; j++ {
			l := sigma10[e.rng.Intn(len(sigma10))]
			rep := e.mk(c, l)
			c.m.add(rep)
			c.names = append(c.names, l.String())
			c.sent = append(c.sent, hex.EncodeToString(rep.Bytes()))
			items = append(items, item{c, rep.Bytes(), e.rng.Intn(4) == 0})
		}
	}
	e.rng.Shuffle(len(items), func(i, j int) { items[i], items[j] = items[j], items[i] })
	before := e.snap
	run.Op("stress: %d cells, %d datagrams, concurrent delivery", len(cells), len(items))
	// readers keep the published surfaces busy while reports arrive
	stop := make(chan struct{})
	var rg sync.WaitGroup
	for g := 0; g < 2; g++ {
		rg.Add(1)
		go func(g int) {
			defer rg.Done()
			for {
				select {
				case <-stop:
					return
				default:
				}
				if g == 0 {
					e.w.GetStats(fmt.Sprintf("timeslot_offset=%d", e.offset))
				} else {
					e.w.Sync(e.devs[0].ID)
				}
			}
		}(g)
	}
	var hookItems, sockItems []item
	for _, it := range items {
		if it.socket {
			sockItems = append(sockItems, it)
		} else {
			hookItems = append(hookItems, it)
		}
	}
	var wg sync.WaitGroup
	const G = 8
	for g := 0; g < G; g++ {
		wg.Add(1)
		go func(g int) {
			defer wg.Done()
			for i := g; i < len(hookItems); i += G {
				e.w.Inject(hookItems[i].b)
			}
		}(g)
	}
	// the socket share: bursts without waiting in between, one barrier per burst
	lost := false
	for i := 0; i < len(sockItems) && !lost; i += 32 {
		j := i + 32
		if j > len(sockItems) {
			j = len(sockItems)
		}
		start := e.udp.Begin()
		for _, it := range sockItems[i:j] {
			e.udp.Write(it.b)
		}
		if !e.udp.Barrier(start, j-i) {
			lost = true
		}
	}
	wg.Wait()
	close(stop)
	rg.Wait()
	if lost {
		e.r.Inconc("stress: a datagram sent through the loopback socket was not processed within 10s (lost?); final values not judged")
		return
	}
	e.r.Count("via_hook", int64(len(hookItems)))
	e.r.Count("via_socket", int64(len(sockItems)))
	after := e.w.S.VerifSnapshot(true)
	e.snap = after
	for _, c := range cells {
		got := after.Reports[c.d.ID][c.idx]
		v := got.PowerOutput
		if !c.m.allowed(v) {
			key := "concurrent:value-not-function-of-set"
			if c.m.mustBan() {
				key = "concurrent:not-banned"
			}
			rp := c.replay(now, e.offset)
			rp["server_log_tail"] = logTail(e.w.ReadFile("server.log"), 30)
			e.r.Violationf(key, rp, "after concurrent delivery of the set [%s] the slot publishes %d (%s)", strings.Join(c.names, " "), v, symbol(v, c.d))
		}
		e.finish(c, v)
		e.r.Count("stress.cells", 1)
		e.r.Eval(1) // one judged execution per cell (each cell's final value is judged against its own set)
		if c.m.deliveries >= 2 {
			e.r.Nontrivial("stress:" + strings.Join(c.sent, ","))
		}
	}
	e.compareWhole(before, after, cells, now, "concurrent delivery")
	e.surfaces(after, cells[:len(e.devs)], true, now)
}

func logTail(b []byte, n int) []string {
	lines := strings.Split(strings.TrimSpace(string(b)), "\n")
	var keep []string
	for _, l := range lines {
		if !strings.Contains(l, "duplicate report") && !strings.Contains(l, "banned timeslot") && !strings.Contains(l, "second report") {
			keep = append(keep, l)
		}
	}
	if len(keep) > n {
		keep = keep[len(keep)-n:]
	}
	return keep
}

// ---------------------------------------------------------------- child

func childBase(b run.Batch, r *ev.Result) {
	rng := rand.New(rand.NewSource(b.Seed))
	drv.SetClock(0)
	drv.GateRotation(true)
	drv.GateImpact(true)
	var slice, of int
	fmt.Sscan(b.P("slice"), &slice)
	fmt.Sscan(b.P("of"), &of)
	e := &env{b: b, r: r, rng: rng, ndev: 2, rot: slice % 3}
	defer e.close()
	switch b.Kind {
	case "exh":
		alpha, maxLen := exhParams(b.Tier)
		all := multisets(len(alpha), maxLen)
		var mine [][]int
		for i, ms := range all {
			if i%of == slice {
				mine = append(mine, ms)
			}
		}
		e.runGroups("exh", alpha, mine)
	case "perm":
		// all multisets of size <= 3 over the ten letters; size 4: all (thorough) or a seeded sample
		all := multisets(len(sigma10), 4)
		var small, big [][]int
		for _, ms := range all {
			if len(ms) <= 3 {
				small = append(small, ms)
			} else {
				big = append(big, ms)
			}
		}
		if b.Tier != "thorough" {
			// the sample is a function of the run seed only (identical in every child)
			srng := rand.New(rand.NewSource(b.Seed/100003 + 77))
			srng.Shuffle(len(big), func(i, j int) { big[i], big[j] = big[j], big[i] })
			big = big[:b.N]
		}
		var mine [][]int
		for i, ms := range append(small, big...) {
			if i%of == slice {
				mine = append(mine, ms)
			}
		}
		e.runGroups("perm", sigma10, mine)
	case "rand":
		e.ndev = 3
		for i := 0; i < b.N; i++ {
			if !e.runRandom(false) {
				break
			}
		}
	case "inflight":
		for i := 0; i < b.N; i++ {
			if !e.runInflight() {
				break
			}
		}
	case "clock":
		for i := 0; i < b.N; i++ {
			if !e.runClockSeq() {
				break
			}
		}
	case "restart":
		e.ndev = 3
		for i := 0; i < b.N; i++ {
			if !e.runRandom(true) {
				break
			}
		}
	case "fault":
		for i := 0; i < b.N; i++ {
			if !e.runFaultSeq() {
				break
			}
		}
	case "burst":
		e.ndev = 3
		e.runBursts(b.N, 24)
	case "stress":
		e.ndev = 3
		e.rot = int(b.Seed % 2)
		e.runStress(b.N)
	}
	if e.w != nil && !e.dead {
		mf, sf := false, false
		for try := 0; try < 20 && !(mf && sf); try++ { // a transient false is legal; a leaked lock is held forever
			if try > 0 {
				time.Sleep(20 * time.Millisecond)
			}
			mf, sf = e.w.S.VerifTryLock()
		}
		if !mf || !sf {
			r.Violationf("lock-held-at-quiescence", nil, "a server mutex is still held after all reports were processed (main free=%v, servers free=%v)", mf, sf)
		}
	}
}
