//go:build test

package main

// prodconfig: the limiter in the configuration the production server uses for
// its archive endpoint (3 per 3 s; the grid's windows end at 200 ms). The
// schedule has quiet gaps that are long on the scale of the grid and still
// shorter than the window: a burst, 1.4 s of silence, a burst, 1.4 s of
// silence, a burst (all inside the window opened by the first admissions), and
// one more burst after the window has passed. Judged by the same interval
// arithmetic as every other run (only certain violations count).

import (
	"fmt"
	"time"

	"github.com/glowlabs-org/gca-backend/glow"

	"verifharness/lib/ev"
	"verifharness/lib/run"
)

func childProdConfig(b run.Batch, r *ev.Result) {
	limit, W := 3, 3*time.Second
	build := b.Variant
	if build == "" {
		build = "plain"
	}
	for rep := 0; rep < b.N; rep++ {
		run.Op("production configuration %d per %v with quiet gaps (%s build)", limit, W, build)
		lim := glow.NewRateLimiter(limit, W)
		s := &sched{allow: lim.Allow, out: make([][]call, 1)}
		s.start = time.Now()
		gap := time.Duration(1200+200*((int(b.Seed)+rep)%3)) * time.Millisecond
		for _, at := range []time.Duration{0, gap, 2 * gap, W + 300*time.Millisecond} {
			sleepUntil(s.start, at)
			for i := 0; i < 6; i++ {
				s.one(0)
			}
		}
		calls := s.merged()
		v := judge(calls, limit, int64(W))
		report(r, "prodconfig.", v)
		r.Count("calls", v.calls)
		r.Count("runs.prodconfig", 1)
		if v.certainAdmit > 0 && v.certainReject > 0 {
			r.Nontrivial(fmt.Sprintf("prodconfig/%s/%d/%d", build, b.Seed, rep))
		}
		desc := map[string]interface{}{"limit": limit, "window": W.String(), "pattern": "bursts with quiet gaps of " + gap.String(), "build": build, "calls": v.calls, "admitted": v.admitted}
		if rep == 0 {
			r.Sample(map[string]interface{}{"run": desc, "certain_admits": v.certainAdmit, "certain_rejects": v.certainReject, "undecidable": v.undecidable})
		}
		if v.nOver > 0 {
			r.Violationf("over-admission", map[string]interface{}{"batch": b, "run": desc, "witnesses": v.overAdmission},
				"production configuration, limit %d per %v, bursts separated by quiet gaps of %v (%s build): %d admitted calls certainly lie within one window; first witness: %s", limit, W, gap, build, limit+1, v.overText)
		}
		if v.nStarve > 0 {
			r.Violationf("starvation", map[string]interface{}{"batch": b, "run": desc, "witnesses": v.starvation},
				"production configuration, limit %d per %v, bursts separated by quiet gaps of %v (%s build): %d call(s) rejected although fewer than %d admitted calls can possibly lie in the preceding window; first witness: %s", limit, W, gap, build, v.nStarve, limit, v.starveText)
		}
	}
}
