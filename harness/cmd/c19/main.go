//go:build test

// C19 — Rate limiter never admits more than the limit per window and never
// starves.
//
// Monitor: the real glow.RateLimiter driven in child processes (race build and
// plain build) by 1..64 concurrent callers following several arrival
// patterns. Every call is bracketed by two reads of the process's monotonic
// clock: b before, e after; the limiter's own clock read lies in [b, e].
// The oracle uses interval arithmetic and raises only what is certain under
// every reading of "a window of the configured length" (open, closed or
// half-open):
//
//	over-admission: limit+1 admitted calls with max(e) − min(b) < window − ε;
//	starvation:     a rejected call [b,e] for which the admitted calls that
//	                could possibly lie in [t−window, t] for any t in [b,e]
//	                (e_i ≥ b − window − ε and b_i ≤ e + ε) number < limit.
//
// Everything else is counted as undecidable. The same oracle judges a handful
// of real GET /api/v1/archive requests (200 = admitted, 429 = rejected).
package main

import (
	"fmt"
	"math/rand"
	"os"
	"path/filepath"
	"runtime"
	"sort"
	"strings"
	"sync"
	"sync/atomic"
	"time"

	"github.com/glowlabs-org/gca-backend/glow"
	"github.com/glowlabs-org/gca-backend/server"

	"verifharness/lib/drv"
	"verifharness/lib/ev"
	"verifharness/lib/run"
)

// eps guards the interval arithmetic against clock skew between CPUs.
const eps = int64(2 * time.Microsecond)

var (
	limits   = []int{1, 2, 3, 5, 10, 50}
	windows  = []time.Duration{5 * time.Millisecond, 20 * time.Millisecond, 60 * time.Millisecond, 200 * time.Millisecond}
	patterns = []string{"tight", "burst", "paced0.8", "paced1.2", "idleburst", "edge"}
	callerCh = []int{1, 2, 3, 4, 8, 16, 32, 64}
)

func main() {
	run.Main(run.Spec{
		ID:    "C19",
		Level: "exploration",
		Pkg:   "./cmd/c19",
		Rule: "grid limit {1,2,3,5,10,50} x window {5,20,60,200 ms}; per configuration and repetition the patterns tight (chunks of back-to-back calls over ~4 windows), burst (10 synchronized bursts of >= limit+2 calls, gaps 0.3..2 windows), " +
			"paced0.8 / paced1.2 (aggregate spacing 0.8 / 1.2 x window/limit over ~4 windows), idleburst (3 bursts of 2*limit+2 calls separated by 1.05..1.55 idle windows), edge (limit calls, then one call aimed at window -/+ a small offset after the first); " +
			"callers per run drawn from {1,2,3,4,8,16,32,64}; race and plain builds. Long-lived limiters (limit 50 / 48 per 1 ms in quick; also 3, 5, 10, 49 in thorough): 2 spin-paced callers at 1.3x the admissible rate until the limiter has admitted 72000 (thorough: up to 140000) calls, i.e. > 65536 admissions on one instance under saturating load, same oracle. An evaluation is one judged call. Non-trivial = a run in which at least one admission and one rejection were forced by the property " +
			"(certain under interval arithmetic); distinct by (limit, window, pattern, callers, build, seed).",
		Assumptions: []string{
			"time.Since(start) and the limiter's time.Now() read the same monotonic clock, which does not run backwards by more than 2 us between CPUs; the limiter's clock read lies between the harness's reads before and after Allow()",
			"only certain violations count: decisions whose intervals leave either answer possible are reported as undecidable, so an error confined to a margin narrower than the call intervals (sub-microsecond boundary semantics, e.g. > versus >= at exactly one window) is not decided",
			"the schedule space is sampled by pattern, not enumerated; sleeps only shape the schedule and never decide a verdict",
			"the archive endpoint sub-check is a smoke test of the wiring (C14 owns the endpoint): 3 rounds of 12 concurrent requests",
		},
		RaceIsViolation: true,
		Plan:            plan,
		Child:           child,
		Post: func(c *ev.Check, outs []*run.Outcome) {
			if os.Getenv("VERIF_REPLAY") != "" {
				return // a replay runs one batch: the coverage floors below are for whole runs
			}
			c.Require("calls", 1000)
			c.Require("certain_admits", 200)
			c.Require("certain_rejects", 200)
			c.Require("overadmission_windows_examined", 200)
			c.Require("max.long.admissions_on_one_limiter", 66000)
			c.Require("long.certain_rejects", 50)
			c.Require("archive.200", 1)
			c.Require("archive.429", 1)
			c.Require("archive.certain_admits", 1)
			for _, p := range patterns {
				c.Require("runs."+p, 1)
			}
		},
	})
}

func plan(tier string, seed int64) []run.Batch {
	var bs []run.Batch
	groups := 1 // repetition groups per (configuration, build)
	reps := 1
	if tier == "thorough" {
		groups, reps = 4, 5
	}
	for wi := range windows {
		for li := range limits {
			for g := 0; g < groups; g++ {
				for _, variant := range []string{"race", ""} {
					bs = append(bs, run.Batch{Kind: "grid", Variant: variant, Seed: seed*1000003 + int64(len(bs)), N: reps, TimeoutS: 100,
						Params: map[string]string{"limit": fmt.Sprint(limits[li]), "window_ns": fmt.Sprint(int64(windows[wi])), "group": fmt.Sprint(g)}})
				}
			}
		}
	}
	// longest first, so the tail of the schedule is made of short children
	wn := func(b run.Batch) int64 {
		var n int64
		fmt.Sscan(b.P("window_ns"), &n)
		return n
	}
	sort.SliceStable(bs, func(i, j int) bool { return wn(bs[i]) > wn(bs[j]) })
	// long-lived limiters: more than 65536 admissions on one instance, paced at 1.3x the admissible rate
	type lr struct {
		limit   int
		w       time.Duration
		calls   int // admissions wanted
		variant string
	}
	longs := []lr{{50, time.Millisecond, 72000, ""}, {48, time.Millisecond, 72000, "race"}}
	if tier == "thorough" {
		longs = []lr{{50, time.Millisecond, 140000, ""}, {50, time.Millisecond, 140000, "race"}, {48, time.Millisecond, 72000, ""}, {3, 200 * time.Microsecond, 72000, ""},
			{5, 500 * time.Microsecond, 72000, "race"}, {10, time.Millisecond, 72000, ""}, {49, 2 * time.Millisecond, 72000, "race"}}
	}
	var front []run.Batch
	for i, l := range longs {
		front = append(front, run.Batch{Kind: "long", Variant: l.variant, Seed: seed*1000003 + 999900 + int64(i), N: l.calls, TimeoutS: 100,
			Params: map[string]string{"limit": fmt.Sprint(l.limit), "window_ns": fmt.Sprint(int64(l.w))}})
	}
	front = append(front, run.Batch{Kind: "prodconfig", Variant: "", Seed: seed*1000003 + 999990, N: 1, TimeoutS: 60},
		run.Batch{Kind: "prodconfig", Variant: "race", Seed: seed*1000003 + 999991, N: 1, TimeoutS: 60})
	front = append(front, run.Batch{Kind: "archive", Variant: "race", Seed: seed*1000003 + 999983, N: 3, TimeoutS: 60},
		run.Batch{Kind: "archive", Variant: "", Seed: seed*1000003 + 999984, N: 3, TimeoutS: 60})
	bs = append(front, bs...)
	return bs
}

func child(b run.Batch, r *ev.Result) {
	switch b.Kind {
	case "prodconfig":
		childProdConfig(b, r)
	case "grid":
		childGrid(b, r)
	case "archive":
		childArchive(b, r)
	case "long":
		childLong(b, r)
	}
}

// ---------------------------------------------------------------- calls and oracle

type call struct {
	B  int64 `json:"b_ns"` // monotonic clock before the call
	E  int64 `json:"e_ns"` // monotonic clock after the call
	OK bool  `json:"admitted"`
	G  int   `json:"caller"`
	ID int   `json:"seq"` // position in the merged list (identity)
}

type verdicts struct {
	calls, admitted, rejected                   int64
	certainAdmit, certainReject, undecidable    int64
	windowsExamined, maxInWindow, maxIntervalNs int64
	overAdmission, starvation                   []interface{}
	overText, starveText                        string
	nOver, nStarve                              int
}

func fmtCalls(cs []call) string {
	var sb strings.Builder
	sb.WriteString("[")
	for i, c := range cs {
		if i > 0 {
			sb.WriteString(" ")
		}
		fmt.Fprintf(&sb, "%v..%v", time.Duration(c.B), time.Duration(c.E))
	}
	sb.WriteString("]")
	return sb.String()
}

// judge applies the interval oracle to one run.
func judge(calls []call, limit int, window int64) *verdicts {
	v := &verdicts{}
	var adm []call
	for _, c := range calls {
		v.calls++
		if c.E-c.B > v.maxIntervalNs {
			v.maxIntervalNs = c.E - c.B
		}
		if c.OK {
			v.admitted++
			adm = append(adm, c)
		} else {
			v.rejected++
		}
	}
	sort.Slice(adm, func(i, j int) bool { return adm[i].B < adm[j].B })
	var maxDur int64
	for _, a := range adm {
		if a.E-a.B > maxDur {
			maxDur = a.E - a.B
		}
	}

	// over-admission: limit+1 admitted calls certainly inside one window
	for j := range adm {
		hi := adm[j].B + window - eps // every member must have ended before this instant
		n := 0
		var wit []call
		for i := j; i < len(adm) && adm[i].B < hi; i++ {
			if adm[i].E < hi {
				n++
				if len(wit) <= limit {
					wit = append(wit, adm[i])
				}
			}
		}
		v.windowsExamined++
		if int64(n) > v.maxInWindow {
			v.maxInWindow = int64(n)
		}
		if n >= limit+1 {
			v.nOver++
			if len(v.overAdmission) < 2 {
				span := int64(0)
				for _, w := range wit {
					if w.E-adm[j].B > span {
						span = w.E - adm[j].B
					}
				}
				v.overAdmission = append(v.overAdmission, map[string]interface{}{"admitted_calls": wit, "span_ns": span, "window_ns": window, "limit": limit, "count_in_span": n})
				if v.overText == "" {
					v.overText = fmt.Sprintf("%d admitted calls %s span %v from the earliest 'before' to the latest 'after' reading", len(wit), fmtCalls(wit), time.Duration(span))
				}
			}
		}
	}

	// per call: what does the property force?
	for _, c := range calls {
		// admitted calls other than c that could possibly / that certainly lie in the window preceding c's decision
		lo := sort.Search(len(adm), func(i int) bool { return adm[i].B >= c.B-window-eps-maxDur })
		possible, certain := 0, 0
		var poss []call
		for i := lo; i < len(adm) && adm[i].B <= c.E+eps; i++ {
			a := adm[i]
			if a.ID == c.ID {
				continue
			}
			if a.E >= c.B-window-eps {
				possible++
				if len(poss) < limit+2 {
					poss = append(poss, a)
				}
			}
			if a.E < c.B-eps && a.B > c.E-window+eps {
				certain++
			}
		}
		switch {
		case c.OK && possible < limit:
			v.certainAdmit++
		case !c.OK && certain >= limit:
			v.certainReject++
		case !c.OK && possible < limit:
			v.nStarve++
			if len(v.starvation) < 2 {
				v.starvation = append(v.starvation, map[string]interface{}{"rejected_call": c, "admitted_calls_possibly_in_preceding_window": poss, "possible": possible, "limit": limit, "window_ns": window})
				if v.starveText == "" {
					v.starveText = fmt.Sprintf("rejected call %s; admitted calls that can possibly lie in the window before it: %d %s", fmtCalls([]call{c}), possible, fmtCalls(poss))
				}
			}
		case c.OK && certain >= limit:
			// limit admitted calls certainly inside the preceding window plus this one: also found by the scan above
			v.undecidable++
		default:
			v.undecidable++
		}
	}
	return v
}

// ---------------------------------------------------------------- arrival patterns

type sched struct {
	allow func() bool
	start time.Time
	out   [][]call
}

func (s *sched) one(g int) {
	b := int64(time.Since(s.start))
	ok := s.allow()
	e := int64(time.Since(s.start))
	s.out[g] = append(s.out[g], call{B: b, E: e, OK: ok, G: g})
}

func (s *sched) merged() []call {
	var all []call
	for _, o := range s.out {
		all = append(all, o...)
	}
	for i := range all {
		all[i].ID = i
	}
	return all
}

func sleepUntil(start time.Time, at time.Duration) {
	if d := at - time.Since(start); d > 0 {
		time.Sleep(d)
	}
}

// rounds runs R synchronized rounds: in round k every caller g issues n(k,g)
// calls back to back; after all callers finished the round the coordinator
// sleeps gap(k). No harness synchronisation happens inside a round.
func (s *sched) rounds(G, R int, n func(k, g int) int, gap func(k int) time.Duration) {
	gates := make([]chan struct{}, R)
	dones := make([]*sync.WaitGroup, R)
	for k := range gates {
		gates[k] = make(chan struct{})
		dones[k] = &sync.WaitGroup{}
		dones[k].Add(G)
	}
	var wg sync.WaitGroup
	for g := 0; g < G; g++ {
		wg.Add(1)
		go func(g int) {
			defer wg.Done()
			for k := 0; k < R; k++ {
				<-gates[k]
				for i := n(k, g); i > 0; i-- {
					s.one(g)
				}
				dones[k].Done()
			}
		}(g)
	}
	for k := 0; k < R; k++ {
		close(gates[k])
		dones[k].Wait()
		if k+1 < R {
			time.Sleep(gap(k))
		}
	}
	wg.Wait()
}

func runPattern(p string, limit int, W time.Duration, G int, rng *rand.Rand, allow func() bool) ([]call, int) {
	s := &sched{allow: allow, out: make([][]call, G)}
	ceil := func(a, b int) int { return (a + b - 1) / b }
	switch p {
	case "tight":
		// 24 chunks of m back-to-back calls per caller, W/6 apart: ~4 windows, free running
		m := 96 / G
		if m < 2 {
			m = 2
		}
		var wg sync.WaitGroup
		gate := make(chan struct{})
		for g := 0; g < G; g++ {
			wg.Add(1)
			go func(g int) {
				defer wg.Done()
				<-gate
				for c := 0; c < 24; c++ {
					for i := 0; i < m; i++ {
						s.one(g)
						if i%4 == 3 {
							runtime.Gosched()
						}
					}
					time.Sleep(W / 6)
				}
			}(g)
		}
		s.start = time.Now()
		close(gate)
		wg.Wait()
	case "burst":
		gaps := []float64{0.3, 0.9, 1.1, 2.0, 0.5, 1.3, 0.7, 1.02, 0.98}
		off := rng.Intn(len(gaps))
		per := ceil(limit+2, G)
		s.start = time.Now()
		s.rounds(G, 10, func(k, g int) int { return per + (g+k)%2 }, func(k int) time.Duration {
			return time.Duration(gaps[(k+off)%len(gaps)] * float64(W))
		})
	case "paced0.8", "paced1.2":
		f := 0.8
		if p == "paced1.2" {
			f = 1.2
		}
		if G > 8 {
			G = 8
			s.out = make([][]call, G)
		}
		step := time.Duration(f * float64(W) / float64(limit))
		total := int(4*float64(limit)/f) + 2
		var wg sync.WaitGroup
		gate := make(chan struct{})
		for g := 0; g < G; g++ {
			wg.Add(1)
			go func(g int) {
				defer wg.Done()
				<-gate
				for k := g; k < total; k += G {
					sleepUntil(s.start, time.Duration(k)*step)
					s.one(g)
				}
			}(g)
		}
		s.start = time.Now()
		close(gate)
		wg.Wait()
	case "idleburst":
		per := ceil(2*limit+2, G)
		idle := []time.Duration{time.Duration((1.05 + rng.Float64()/2) * float64(W)), time.Duration((1.05 + rng.Float64()/2) * float64(W))}
		s.start = time.Now()
		s.rounds(G, 3, func(k, g int) int { return per }, func(k int) time.Duration { return idle[k] })
	case "edge":
		// limit quick calls by caller 0, then every caller aims one call at (first call + W + offset_g)
		offs := []time.Duration{-W / 10, -W / 50, -100 * time.Microsecond, -10 * time.Microsecond, 0, 10 * time.Microsecond, 100 * time.Microsecond, W / 50, W / 10}
		if G > len(offs) {
			G = len(offs)
			s.out = make([][]call, G)
		}
		sh := rng.Intn(len(offs))
		for rep := 0; rep < 3; rep++ {
			if rep > 0 {
				time.Sleep(W + W/4)
			}
			if rep == 0 {
				s.start = time.Now()
			}
			for i := 0; i < limit; i++ {
				s.one(0)
			}
			first := time.Duration(s.out[0][len(s.out[0])-limit].B)
			var wg sync.WaitGroup
			for g := 0; g < G; g++ {
				wg.Add(1)
				go func(g int) {
					defer wg.Done()
					sleepUntil(s.start, first+W+offs[(g+sh)%len(offs)])
					s.one(g)
				}(g)
			}
			wg.Wait()
		}
	}
	return s.merged(), G
}

// ---------------------------------------------------------------- children

func report(r *ev.Result, prefix string, v *verdicts) {
	r.Eval(int(v.calls))
	r.Count(prefix+"calls", v.calls)
	r.Count(prefix+"admitted", v.admitted)
	r.Count(prefix+"rejected", v.rejected)
	r.Count(prefix+"certain_admits", v.certainAdmit)
	r.Count(prefix+"certain_rejects", v.certainReject)
	r.Count(prefix+"undecidable", v.undecidable)
	r.Count(prefix+"overadmission_windows_examined", v.windowsExamined)
	r.Max("max."+prefix+"call_interval_ns", v.maxIntervalNs)
}

func childGrid(b run.Batch, r *ev.Result) {
	var limit, group int
	var wns int64
	fmt.Sscan(b.P("limit"), &limit)
	fmt.Sscan(b.P("window_ns"), &wns)
	fmt.Sscan(b.P("group"), &group)
	W := time.Duration(wns)
	rng := rand.New(rand.NewSource(b.Seed))
	build := b.Variant
	if build == "" {
		build = "plain"
	}
	for rep := 0; rep < b.N; rep++ {
		for pi, p := range patterns {
			G := callerCh[(int(b.Seed%8+8)+pi*3+rep*5+group)%len(callerCh)]
			run.Op("run limit=%d window=%v pattern=%s callers=%d rep=%d", limit, W, p, G, rep)
			lim := glow.NewRateLimiter(limit, W)
			calls, G := runPattern(p, limit, W, G, rng, lim.Allow)
			v := judge(calls, limit, wns)
			report(r, "", v)
			r.Count("runs."+p, 1)
			r.Count("runs."+build, 1)
			r.Count(fmt.Sprintf("runs.callers_%02d", G), 1)
			r.Max(fmt.Sprintf("max.admitted_certainly_in_one_window.limit_%d", limit), v.maxInWindow)
			r.Count("pattern."+p+".certain_admits", v.certainAdmit)
			r.Count("pattern."+p+".certain_rejects", v.certainReject)
			if v.certainAdmit > 0 && v.certainReject > 0 {
				r.Nontrivial(fmt.Sprintf("%d/%d/%s/%d/%s/%d", limit, wns, p, G, build, b.Seed))
			}
			desc := map[string]interface{}{"limit": limit, "window": W.String(), "pattern": p, "callers": G, "build": build, "calls": v.calls, "admitted": v.admitted}
			if v.nOver > 0 {
				r.Violationf("over-admission", map[string]interface{}{"batch": b, "run": desc, "witnesses": v.overAdmission},
					"limit %d per %v, pattern %s, %d callers (%s build): %d admitted calls certainly lie within one window (%d such windows found); first witness: %s", limit, W, p, G, build, limit+1, v.nOver, v.overText)
			}
			if v.nStarve > 0 {
				r.Violationf("starvation", map[string]interface{}{"batch": b, "run": desc, "witnesses": v.starvation},
					"limit %d per %v, pattern %s, %d callers (%s build): %d call(s) rejected although fewer than %d admitted calls can possibly lie in the preceding window; first witness: %s", limit, W, p, G, build, v.nStarve, limit, v.starveText)
			}
			if rep == 0 && pi == int(b.Seed%int64(len(patterns))) && len(calls) > 0 {
				k := len(calls)
				if k > 6 {
					k = 6
				}
				r.Sample(map[string]interface{}{"run": desc, "certain_admits": v.certainAdmit, "certain_rejects": v.certainReject, "undecidable": v.undecidable, "first_calls_of_caller_0": calls[:k]})
			}
			if r.NumViolations() >= 6 {
				return
			}
		}
	}
}

// childLong drives ONE limiter through b.N calls paced (by spinning on the
// clock, no sleeps) at 1.3x the admissible rate, so that it is saturated all
// the time and admits about b.N/1.3 calls.
func childLong(b run.Batch, r *ev.Result) {
	var limit int
	var wns int64
	fmt.Sscan(b.P("limit"), &limit)
	fmt.Sscan(b.P("window_ns"), &wns)
	W := time.Duration(wns)
	build := b.Variant
	if build == "" {
		build = "plain"
	}
	const G = 2
	target := int64(b.N) // admissions wanted on this limiter
	maxCalls := 4 * b.N / G
	step := time.Duration(float64(G) * float64(wns) / (1.3 * float64(limit))) // per caller
	run.Op("long run limit=%d window=%v admissions=%d callers=%d step=%v", limit, W, target, G, step)
	lim := glow.NewRateLimiter(limit, W)
	s := &sched{allow: lim.Allow, out: make([][]call, G)}
	for g := range s.out {
		s.out[g] = make([]call, 0, 2*b.N/G)
	}
	var admitted atomic.Int64
	var wg sync.WaitGroup
	gate := make(chan struct{})
	for g := 0; g < G; g++ {
		wg.Add(1)
		go func(g int) {
			defer wg.Done()
			<-gate
			// Paced against the caller's own previous call (no catching up after a
			// stall, which would only produce a burst of rejections); ends when the
			// limiter has admitted `target` calls: a count, not a time budget.
			next := time.Duration(g) * step / G
			for n := 0; n < maxCalls && admitted.Load() < target; n++ {
				for time.Since(s.start) < next {
				}
				s.one(g)
				if s.out[g][len(s.out[g])-1].OK {
					admitted.Add(1)
				}
				next = time.Duration(s.out[g][len(s.out[g])-1].B) + step
			}
		}(g)
	}
	s.start = time.Now()
	close(gate)
	wg.Wait()
	calls := s.merged()
	v := judge(calls, limit, wns)
	report(r, "long.", v)
	r.Count("calls", v.calls)
	r.Count("runs.long", 1)
	r.Max("max.long.admissions_on_one_limiter", v.admitted)
	if v.admitted >= 65537 {
		r.Count("long.limiters_past_65536_admissions", 1)
	}
	r.Max(fmt.Sprintf("max.admitted_certainly_in_one_window.limit_%d", limit), v.maxInWindow)
	if v.certainAdmit > 0 && v.certainReject > 0 {
		r.Nontrivial(fmt.Sprintf("long/%d/%d/%s/%d", limit, wns, build, b.Seed))
	}
	desc := map[string]interface{}{"limit": limit, "window": W.String(), "pattern": "long", "callers": G, "build": build, "calls": v.calls, "admitted": v.admitted,
		"duration": time.Duration(calls[len(calls)-1].E).String()}
	r.Sample(map[string]interface{}{"run": desc, "certain_admits": v.certainAdmit, "certain_rejects": v.certainReject, "undecidable": v.undecidable})
	admittedBefore := func(t int64) int {
		n := 0
		for _, c := range calls {
			if c.OK && c.E < t {
				n++
			}
		}
		return n
	}
	if v.nOver > 0 {
		r.Violationf("over-admission", map[string]interface{}{"batch": b, "run": desc, "witnesses": v.overAdmission},
			"long-lived limiter, limit %d per %v, %d calls (%s build): %d admitted calls certainly lie within one window (%d such windows found); first witness: %s", limit, W, v.calls, build, limit+1, v.nOver, v.overText)
	}
	if v.nStarve > 0 {
		var at int64
		if m, ok := v.starvation[0].(map[string]interface{}); ok {
			if c, ok := m["rejected_call"].(call); ok {
				at = c.B
			}
		}
		r.Violationf("starvation", map[string]interface{}{"batch": b, "run": desc, "witnesses": v.starvation, "admissions_before_first_witness": admittedBefore(at)},
			"long-lived limiter, limit %d per %v, %d calls (%s build): %d call(s) rejected although fewer than %d admitted calls can possibly lie in the preceding window; first witness after %d admissions on this limiter: %s",
			limit, W, v.calls, build, v.nStarve, limit, admittedBefore(at), v.starveText)
	}
}

func childArchive(b run.Batch, r *ev.Result) {
	rng := rand.New(rand.NewSource(b.Seed))
	drv.SetClock(0)
	drv.GateRotation(true)
	drv.GateImpact(true)
	w, err := drv.NewWorld(filepath.Join(b.Dir, "srv"), rng)
	if err != nil {
		r.Inconc("cannot start world: " + err.Error())
		return
	}
	defer os.RemoveAll(w.Dir)
	defer w.Close()
	k := server.VerifConsts()
	limit, W := k.ApiArchiveLimit, k.ApiArchiveRate
	r.Note("archive endpoint limiter: %d per %v", limit, W)
	// warm the connection pool with a harmless request so that dialing does not widen the first intervals
	w.Get("/api/v1/authorized-servers")
	const G = 4
	var nOther atomic.Int64
	s := &sched{out: make([][]call, G+1)}
	s.allow = func() bool {
		st, _, err := w.Get("/api/v1/archive")
		if err != nil || (st != 200 && st != 429) {
			nOther.Add(1)
			return false
		}
		return st == 200
	}
	run.Op("archive: %d rounds of one solo request, then %d callers x 3 GET /api/v1/archive", b.N, G)
	s.start = time.Now()
	for k := 0; k < b.N; k++ {
		s.one(G) // alone after an idle period: the property forces admission
		s.rounds(G, 1, func(k, g int) int { return 3 }, nil)
		time.Sleep(W + W/2)
	}
	calls := s.merged()
	if nOther := nOther.Load(); nOther > 0 {
		// a request that failed for another reason may or may not have consumed a slot: nothing certain can be said
		r.Count("archive.other_status", nOther)
		r.Inconc(fmt.Sprintf("archive sub-check: %d requests ended with neither 200 nor 429", nOther))
		return
	}
	v := judge(calls, limit, int64(W))
	report(r, "archive.", v)
	r.Count("archive.200", v.admitted)
	r.Count("archive.429", v.rejected)
	desc := map[string]interface{}{"limit": limit, "window": W.String(), "endpoint": "GET /api/v1/archive", "callers": G, "calls": v.calls, "status_200": v.admitted, "status_429": v.rejected}
	r.Sample(desc)
	r.SetExtra("archive_calls_"+b.Variant, calls)
	if v.nOver > 0 {
		r.Violationf("archive-over-admission", map[string]interface{}{"batch": b, "run": desc, "witnesses": v.overAdmission},
			"GET /api/v1/archive answered 200 to %d requests that certainly lie within one %v window (limit %d): %s", limit+1, W, limit, v.overText)
	}
	if v.nStarve > 0 {
		r.Violationf("archive-starvation", map[string]interface{}{"batch": b, "run": desc, "witnesses": v.starvation},
			"GET /api/v1/archive answered 429 although fewer than %d requests can possibly have been admitted in the preceding %v: %s", limit, W, v.starveText)
	}
}
