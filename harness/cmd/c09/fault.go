//go:build test

package main

// fault: transient I/O faults on the client's history file while the client
// keeps running. The client's open descriptor of history.dat is found in
// /proc/self/fd and replaced (dup3) by a descriptor of the same file that was
// opened write-only (every read fails with EBADF, writes work) or read-only
// (every write fails, reads work); the saved original is put back afterwards.
// During the window rows of stored slots are rewritten and new slots arrive
// and change their value; afterwards sync rounds (harness sync server with
// genuine replies) re-send what the history holds. Oracle: the wire oracle of
// main.go over all datagrams (originals and re-sends) plus the history.dat
// monitor. A reading offered while the history cannot be read or written
// cannot be accepted, so rows of versions published inside the window are
// possible first readings only; the content is observed again as a regular
// version when the window is closed.

import (
	"fmt"
	"math/rand"
	"os"
	"path/filepath"
	"strings"
	"syscall"
	"time"

	"github.com/glowlabs-org/gca-backend/client"
	"github.com/glowlabs-org/gca-backend/glow"

	"verifharness/lib/drv"
	"verifharness/lib/ev"
	"verifharness/lib/refenc"
	"verifharness/lib/run"
)

// findFD returns the descriptors of this process that refer to path.
func findFD(path string) []int {
	want, err := filepath.EvalSymlinks(path)
	if err != nil {
		want = path
	}
	ents, _ := os.ReadDir("/proc/self/fd")
	var out []int
	for _, e := range ents {
		l, err := os.Readlink("/proc/self/fd/" + e.Name())
		if err != nil || l != want {
			continue
		}
		var fd int
		if _, err := fmt.Sscan(e.Name(), &fd); err == nil {
			out = append(out, fd)
		}
	}
	return out
}

type faultInj struct {
	fd    int // the client's descriptor
	saved int // dup of the original
	bad   int // descriptor with the wrong access mode
}

func accMode(fd int) int {
	fl, _, e := syscall.Syscall(syscall.SYS_FCNTL, uintptr(fd), syscall.F_GETFL, 0)
	if e != 0 {
		return -1
	}
	return int(fl) & syscall.O_ACCMODE
}

// inject swaps the client's history descriptor. kind: "read" (reads fail) or "write" (writes fail).
func (s *scen) inject(kind string) (*faultInj, bool) {
	path := filepath.Join(s.env.Dir, client.HistoryFile)
	fds := findFD(path)
	if len(fds) != 1 {
		s.r.Inconc(fmt.Sprintf("expected exactly one open descriptor of history.dat, found %d", len(fds)))
		return nil, false
	}
	fi := &faultInj{fd: fds[0]}
	var err error
	if fi.saved, err = syscall.Dup(fi.fd); err != nil {
		s.r.Inconc("dup failed: " + err.Error())
		return nil, false
	}
	mode := syscall.O_WRONLY
	if kind == "write" {
		mode = syscall.O_RDONLY
	}
	if fi.bad, err = syscall.Open(path, mode|syscall.O_CLOEXEC, 0); err != nil {
		syscall.Close(fi.saved)
		s.r.Inconc("cannot open history.dat for the fault descriptor: " + err.Error())
		return nil, false
	}
	run.Op("scenario %d: inject %s fault (dup3 %d -> %d)", s.idx, kind, fi.bad, fi.fd)
	if err = syscall.Dup3(fi.bad, fi.fd, 0); err != nil || accMode(fi.fd) != mode {
		syscall.Dup3(fi.saved, fi.fd, 0)
		syscall.Close(fi.saved)
		syscall.Close(fi.bad)
		s.r.Inconc(fmt.Sprintf("fault injection not established: %v", err))
		return nil, false
	}
	s.faulty = true
	s.log = append(s.log, "history "+kind+" fault injected")
	s.r.Count("fault."+kind+"_fault_windows", 1)
	return fi, true
}

func (s *scen) lift(fi *faultInj) bool {
	run.Op("scenario %d: lift fault", s.idx)
	err := syscall.Dup3(fi.saved, fi.fd, 0)
	ok := err == nil && accMode(fi.fd) == syscall.O_RDWR
	syscall.Close(fi.saved)
	syscall.Close(fi.bad)
	s.faulty = false
	s.log = append(s.log, "fault lifted")
	if !ok {
		s.r.Inconc(fmt.Sprintf("could not restore the history descriptor: %v", err))
		s.dead = true
	}
	return ok
}

func (s *scen) appendNew(n int) []int {
	var idx []int
	for i := 0; i < n; i++ {
		s.nextSlot += int64(s.rng.Intn(2))
		s.lines = append(s.lines, line{slot: s.nextSlot, off: int64(s.rng.Intn(300)), val: s.cval()})
		idx = append(idx, len(s.lines)-1)
		s.nextSlot++
	}
	return idx
}

func (s *scen) rewriteSome(n int, among []int) int {
	done := 0
	for i := 0; i < n && len(among) > 0; i++ {
		k := among[s.rng.Intn(len(among))]
		s.lines[k].val = s.otherVal(s.lines[k].val)
		done++
	}
	return done
}

func (s *scen) runFault(kind string) {
	rng := s.rng
	s.header = true
	if !s.publish("start file") || !s.start() || !s.settle() {
		return
	}
	// baseline: stored and reported
	base := s.appendNew(4 + rng.Intn(8))
	if !s.publish("baseline rows") || !s.settle() {
		return
	}
	if rng.Intn(2) == 0 {
		base = append(base, s.appendNew(1+rng.Intn(4))...)
		if !s.publish("more baseline rows") || !s.settle() {
			return
		}
	}
	for w, windows := 0, 1+rng.Intn(2); w < windows && !s.dead; w++ {
		fi, ok := s.inject(kind)
		if !ok {
			s.dead = true
			return
		}
		// first version inside the window: stored rows rewritten, new slots arrive
		n := s.rewriteSome(1+rng.Intn(3), base)
		s.r.Count("fault.rewritten_stored_rows_under_fault", int64(n))
		fresh := s.appendNew(1 + rng.Intn(4))
		okp := s.publish(fmt.Sprintf("under %s fault: %d stored rows rewritten, %d new slots", kind, n, len(fresh)))
		if okp && waitTicks(2, s.r) {
			s.checkHistory()
			// second version inside the window: the new slots change their value
			m := s.rewriteSome(len(fresh), fresh)
			s.r.Count("fault.new_slots_changed_under_fault", int64(m))
			if rng.Intn(2) == 0 {
				s.rewriteSome(1, base)
			}
			if s.publish(fmt.Sprintf("under %s fault: %d new slots change their value", kind, m)) && waitTicks(2, s.r) {
				s.checkHistory()
			}
		} else {
			s.dead = true
		}
		if !s.lift(fi) {
			return
		}
		// the content in place is what the client can accept from now on
		s.log = append(s.log, "content observed again after the fault")
		s.observe(s.content())
		if !s.settle() {
			return
		}
		base = append(base, fresh...)
		// three rounds: the harness sync server's bitfield is empty in every third reply
		for i := 0; i < 3 && !s.dead; i++ {
			s.syncOnce("after fault")
			s.r.Count("fault.sync_rounds_after_fault", 1)
		}
		if !s.settle() {
			return
		}
		if rng.Intn(3) == 0 {
			s.stop()
			s.r.Count("wire.restarts", 1)
			s.log = append(s.log, "restart")
			if !s.start() || !s.settle() {
				return
			}
			s.syncOnce("after restart")
			if !s.settle() {
				return
			}
		}
		if rng.Intn(2) == 0 {
			var what []string
			for i, m := 0, 1+rng.Intn(2); i < m; i++ {
				what = append(what, s.edit())
			}
			if !s.publish(strings.Join(what, "; ")) || !s.settle() {
				return
			}
			base = s.realRows()
		}
	}
}

// runEmptyHistory: provisioning fault. history.dat exists but holds fewer than
// 4 bytes (no origin) at the first start, the protocol clock is past slot 0.
// Conditional scenario: a client that refuses to start is counted and nothing
// else happens; a client that starts is taken at its word (the origin it
// reports) and goes through rows -> reports -> restart -> rewritten rows ->
// sync rounds under the usual wire oracle and history monitor, and the origin
// it reports after the restart must be the one it used before.
func (s *scen) runEmptyHistory(size int, clock uint32) {
	rng := s.rng
	r := s.r
	os.MkdirAll(s.env.Dir, 0755)
	if err := os.WriteFile(filepath.Join(s.env.Dir, client.HistoryFile), make([]byte, size), 0644); err != nil {
		r.Inconc("cannot create history.dat: " + err.Error())
		return
	}
	if err := s.env.Write(); err != nil { // keeps the existing history.dat
		r.Inconc("cannot provision client: " + err.Error())
		return
	}
	drv.SetClock(clock)
	defer drv.SetClock(0)
	s.header = true
	s.log = append(s.log, fmt.Sprintf("history.dat of %d bytes at first start, protocol clock at slot %d", size, clock))
	content := s.content()
	if err := s.env.WriteEnergy(content); err != nil {
		r.Inconc("cannot write energy file: " + err.Error())
		return
	}
	run.Op("scenario %d: NewClient on a %d byte history.dat, clock %d", s.idx, size, clock)
	c, err := drv.StartClient(s.env.Dir)
	r.Count("emptyhist.scenarios", 1)
	if err != nil {
		r.Count("emptyhist.refused_to_start", 1)
		return
	}
	r.Count("emptyhist.started", 1)
	s.c = c
	s.origin = c.VerifState().HistoryOffset
	s.log = append(s.log, fmt.Sprintf("client started, reports history origin %d", s.origin))
	s.nextSlot = int64(s.origin) + 1
	s.observe(content)
	if !s.settle() {
		return
	}
	base := s.appendNew(4 + rng.Intn(6))
	if !s.publish("rows arrive") || !s.settle() {
		return
	}
	for round := 0; round < 2 && !s.dead; round++ {
		s.stop()
		s.r.Count("wire.restarts", 1)
		s.log = append(s.log, "restart")
		if !s.start() {
			return
		}
		if o := s.c.VerifState().HistoryOffset; o != s.origin {
			r.Violationf("history-origin-changed-across-restart", s.replay(), "the client used history origin %d before the restart and reports %d after it (history.dat had %d bytes at first start)", s.origin, o, size)
		}
		if !s.settle() {
			return
		}
		n := s.rewriteSome(2+rng.Intn(3), base)
		base = append(base, s.appendNew(1+rng.Intn(3))...)
		if !s.publish(fmt.Sprintf("%d stored rows rewritten, new slots", n)) || !s.settle() {
			return
		}
		for i := 0; i < 3 && !s.dead; i++ {
			s.syncOnce("after restart")
		}
		if !s.settle() {
			return
		}
	}
}

func faultChild(b run.Batch, r *ev.Result) {
	rng := rand.New(rand.NewSource(b.Seed))
	var n int
	fmt.Sscan(b.P("n"), &n)
	// the last two scenarios start a client on an empty history file; a refused start leaves
	// an unclosable test-mode client behind (process panics by design 120 s later), so they come last
	for i := 0; i < n+2 && r.NumViolations() < 30; i++ {
		kind := []string{"read", "write"}[i%2]
		if i >= n {
			kind = "emptyhist"
		}
		sink, err := drv.NewUDPSink()
		if err != nil {
			r.Inconc("cannot open UDP sink: " + err.Error())
			return
		}
		key := refenc.GenKey(rng)
		id := uint32(1 + rng.Intn(1<<30))
		origin := uint32(rng.Intn(3))
		rs, err := syncServer(rng, key, uint32(rng.Intn(int(origin)+1)), b.Seed*137+int64(i))
		if err != nil {
			r.Inconc("cannot open sync server: " + err.Error())
			sink.Close()
			return
		}
		s := &scen{r: r, rng: rng, b: b, idx: i, kind: "fault-" + kind, genesis: glow.GenesisTime, slots: map[uint32]*slotInfo{}, small: true,
			mult: client.EnergyMultiplierDefault, div: client.EnergyDividerDefault, origin: origin, nextSlot: int64(origin) + 1}
		var gca [32]byte
		rng.Read(gca[:])
		s.env = &drv.ClientEnv{Dir: filepath.Join(b.Dir, fmt.Sprintf("ft%03d", i)), Key: key, GCA: gca, ShortID: id,
			Servers: []refenc.MapEntry{rs.Entry(sink.Port, false)}, HistoryOrigin: origin, LastSync: drv.FreshSyncStamp()}
		if kind == "emptyhist" {
			s.kind = kind
			s.origin = 0
			s.runEmptyHistory((b.Index*2+i)%4, uint32(3+rng.Intn(40)))
		} else if err := s.env.Write(); err != nil {
			r.Inconc("cannot provision client: " + err.Error())
			sink.Close()
			rs.Close()
			return
		} else {
			s.runFault(kind)
		}
		if s.faulty {
			r.Inconc("scenario ended with the fault still injected")
		}
		if s.c != nil && !s.dead {
			s.checkHistory()
		}
		s.stop()
		rs.Close()
		for last, same := -1, 0; same < 5; {
			c := sink.Count()
			if c == last {
				same++
			} else {
				same = 0
			}
			last = c
			time.Sleep(2 * time.Millisecond)
		}
		pkts := sink.Packets()
		sink.Close()
		r.Count("fault.datagrams", int64(len(pkts)))
		s.judge(pkts, key, id)
		r.Count("wire.scenarios."+s.kind, 1)
		if i == 0 && len(s.versions) > 0 {
			r.Sample(map[string]interface{}{"scenario": s.log, "datagrams": len(pkts), "kind": s.kind})
		}
		os.RemoveAll(s.env.Dir)
	}
}
