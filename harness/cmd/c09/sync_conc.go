//go:build test

package main

// Two further sub-batches of C09.
//
// sync: the wire oracle of main.go (per slot: byte-identical datagrams that
// carry the first reading; history.dat immutable) applied to clients whose
// only server is a harness sync server answering with genuine signed replies.
// Originals (report loop) and re-sends (sync thread) are judged together.
//   young: the history origin lies 1..50 slots above the window offset of the
//          reply, more readings than that difference are stored, syncs with
//          empty / partial bitfields, edits and restarts in between.
//   big:   500 stored readings are re-sent (twice) while the report loop
//          keeps passing over the file and new rows keep arriving.
//
// conc: 2-8 goroutines on one real client run VerifSaveReading /
// VerifLoadReading in tight loops on disjoint slot sets. Every goroutine is
// the only writer of its slots and its calls are synchronous, so every load
// has exactly one legal answer (what that goroutine stored, 0 before).

import (
	"encoding/binary"
	"fmt"
	"math/rand"
	"os"
	"path/filepath"
	"strings"
	"sync"
	"sync/atomic"
	"time"

	"github.com/glowlabs-org/gca-backend/client"
	"github.com/glowlabs-org/gca-backend/glow"

	"verifharness/lib/drv"
	"verifharness/lib/ev"
	"verifharness/lib/refenc"
	"verifharness/lib/run"
)

// ================================================================ sync

// syncServer answers every sync request with a genuine reply: the device's
// key, the given window offset, a bitfield chosen by the accept counter.
func syncServer(rng *rand.Rand, dev refenc.Key, offset uint32, seed int64) (*drv.RogueSync, error) {
	var rs *drv.RogueSync
	rs, err := drv.NewRogueSync(rng, func(req []byte, n int) ([]byte, int) {
		rep := refenc.SyncReply{DevKey: dev.Pub, Offset: offset, Unix: uint64(time.Now().Unix())}
		// n-th reply: 1st and every third: server holds nothing; otherwise a pseudo random subset
		if n%3 != 1 {
			lr := rand.New(rand.NewSource(seed + int64(n)))
			dens := []int{0, 64, 128, 230}[lr.Intn(4)]
			for i := range rep.Bitfield {
				var bt byte
				for k := 0; k < 8; k++ {
					if lr.Intn(256) < dens {
						bt |= 1 << uint(k)
					}
				}
				rep.Bitfield[i] = bt
			}
		}
		return refenc.BuildSyncReply(rep, rs.Key.Priv), -1
	})
	return rs, err
}

func (s *scen) maxSlot() uint32 {
	m := int64(0)
	for _, l := range s.lines {
		if l.raw == "" && l.slot > m {
			m = l.slot
		}
	}
	return uint32(m)
}

func (s *scen) syncOnce(what string) bool {
	latest := s.maxSlot()
	s.log = append(s.log, fmt.Sprintf("sync (%s), latest reading %d", what, latest))
	run.Op("scenario %d: VerifSyncOnce(%d) %s", s.idx, latest, what)
	ok := s.c.VerifSyncOnce(latest)
	if ok {
		s.r.Count("sync.rounds_ok", 1)
	} else {
		s.r.Count("sync.rounds_failed", 1)
	}
	return ok
}

// runYoung: history origin inside the server's window.
func (s *scen) runYoung(offset uint32) {
	rng := s.rng
	k := int64(s.origin - offset)
	s.header = rng.Intn(5) != 0
	n := int(k) + 5 + rng.Intn(40)
	var rows []line
	// a few rows of the window before the history origin: refused by the history, never sent
	for sl := int64(offset); sl < int64(s.origin); sl++ {
		if rng.Intn(4) == 0 {
			rows = append(rows, line{slot: sl, off: int64(rng.Intn(300)), val: s.cval()})
		}
	}
	for i := 0; i < n; i++ {
		if rng.Intn(12) == 0 {
			continue // a slot without reading
		}
		rows = append(rows, line{slot: int64(s.origin) + int64(i), off: int64(rng.Intn(300)), val: s.cval()})
	}
	s.nextSlot = int64(s.origin) + int64(n)
	atStart := rng.Intn(2) == 0
	if atStart {
		s.lines = rows // stored at start-up, not sent: every datagram of these slots is a re-send
	}
	if !s.publish("start file") || !s.start() || !s.settle() {
		return
	}
	if !atStart {
		// arrive in two or three versions: originals are sent by the report loop
		for len(rows) > 0 && !s.dead {
			c := 1 + rng.Intn(len(rows))
			s.lines = append(s.lines, rows[:c]...)
			rows = rows[c:]
			if !s.publish("rows arrive") || !s.settle() {
				return
			}
		}
	}
	s.syncOnce("first")
	if !s.settle() {
		return
	}
	for st, steps := 0, 2+rng.Intn(4); st < steps && !s.dead; st++ {
		switch rng.Intn(4) {
		case 0:
			s.stop()
			s.r.Count("wire.restarts", 1)
			s.log = append(s.log, "restart")
			if !s.start() || !s.settle() {
				return
			}
		case 1:
			s.syncOnce("again")
		default:
			var what []string
			for i, m := 0, 1+rng.Intn(3); i < m; i++ {
				what = append(what, s.edit())
			}
			if !s.publish(strings.Join(what, "; ")) || !s.settle() {
				return
			}
		}
	}
	if !s.dead {
		s.syncOnce("last")
		s.settle()
	}
}

// runBig: many re-sends while the report loop passes over a long file and new rows arrive.
func (s *scen) runBig(rows int) {
	rng := s.rng
	s.header = true
	for i := 0; i < rows; i++ {
		s.lines = append(s.lines, line{slot: int64(s.origin) + int64(i), off: int64(rng.Intn(300)), val: s.cval()})
	}
	s.nextSlot = int64(s.origin) + int64(rows)
	if !s.publish("start file") || !s.start() || !s.settle() {
		return
	}
	done := make(chan struct{})
	latest := s.maxSlot()
	c := s.c
	var okRounds int64
	run.Op("scenario %d: two VerifSyncOnce(%d) rounds in the background", s.idx, latest)
	s.log = append(s.log, fmt.Sprintf("two sync rounds in the background, latest reading %d", latest))
	go func() {
		defer close(done)
		for i := 0; i < 2; i++ {
			if c.VerifSyncOnce(latest) {
				atomic.AddInt64(&okRounds, 1)
			}
		}
	}()
	running := true
	for v := 0; running && !s.dead; v++ {
		select {
		case <-done:
			running = false
			continue
		default:
		}
		if v < 25 {
			s.lines = append(s.lines, line{slot: s.nextSlot, off: int64(rng.Intn(300)), val: s.cval()})
			s.nextSlot++
			if rng.Intn(3) == 0 {
				i := rng.Intn(len(s.lines))
				s.lines[i].val = s.otherVal(s.lines[i].val) // a rewritten old row: must stay without effect
			}
			if !s.publish("row arrives during sync") {
				break
			}
		}
		if !waitTicks(2, s.r) {
			s.dead = true
		}
	}
	<-done // the client is closed only after the sync rounds returned
	s.r.Count("sync.rounds_ok", atomic.LoadInt64(&okRounds))
	s.r.Count("sync.rounds_failed", 2-atomic.LoadInt64(&okRounds))
	if !s.dead {
		s.settle()
	}
}

func syncChild(b run.Batch, r *ev.Result) {
	rng := rand.New(rand.NewSource(b.Seed))
	var n int
	fmt.Sscan(b.P("n"), &n)
	for i := 0; i <= n && r.NumViolations() < 30; i++ {
		kind := "sync-young"
		if i == 0 {
			kind = "sync-big"
		}
		sink, err := drv.NewUDPSink()
		if err != nil {
			r.Inconc("cannot open UDP sink: " + err.Error())
			return
		}
		key := refenc.GenKey(rng)
		id := uint32(1 + rng.Intn(1<<30))
		offset := uint32(rng.Intn(20))
		origin := offset + uint32(1+rng.Intn(50))
		if kind == "sync-big" && rng.Intn(2) == 0 {
			origin = offset
		}
		rs, err := syncServer(rng, key, offset, b.Seed*131+int64(i))
		if err != nil {
			r.Inconc("cannot open sync server: " + err.Error())
			sink.Close()
			return
		}
		s := &scen{r: r, rng: rng, b: b, idx: i, kind: kind, genesis: glow.GenesisTime, slots: map[uint32]*slotInfo{}, small: true,
			mult: client.EnergyMultiplierDefault, div: client.EnergyDividerDefault, origin: origin}
		var gca [32]byte
		rng.Read(gca[:])
		stamp := drv.FreshSyncStamp()
		if kind == "sync-young" && rng.Intn(2) == 0 {
			// the client's own sync thread runs from the first ticks on as well. Not for the
			// big scenario: while a sync that started with a stale stamp is still running the
			// client launches another one every 4 ticks, and 1200 re-sends take far longer than that.
			stamp = drv.StaleSyncStamp()
		}
		s.env = &drv.ClientEnv{Dir: filepath.Join(b.Dir, fmt.Sprintf("sy%03d", i)), Key: key, GCA: gca, ShortID: id,
			Servers: []refenc.MapEntry{rs.Entry(sink.Port, false)}, HistoryOrigin: origin, LastSync: stamp}
		if err := s.env.Write(); err != nil {
			r.Inconc("cannot provision client: " + err.Error())
			sink.Close()
			rs.Close()
			return
		}
		s.log = append(s.log, fmt.Sprintf("window offset of the sync server %d, history origin %d", offset, origin))
		if kind == "sync-big" {
			s.runBig(500)
			r.Count("sync.big_scenarios", 1)
		} else {
			s.runYoung(offset)
			r.Count("sync.young_scenarios", 1)
		}
		if s.c != nil && !s.dead {
			s.checkHistory()
		}
		s.stop()
		rs.Close()
		for last, same := -1, 0; same < 5; {
			c := sink.Count()
			if c == last {
				same++
			} else {
				same = 0
			}
			last = c
			time.Sleep(2 * time.Millisecond)
		}
		pkts := sink.Packets()
		sink.Close()
		per := map[uint32]int{}
		for _, p := range pkts {
			if len(p) == 80 {
				per[binary.LittleEndian.Uint32(p[4:])]++
			}
		}
		r.Count("sync.datagrams", int64(len(pkts)))
		r.Count("sync.accepts", int64(rs.AcceptCount()))
		for sl, c := range per {
			if c > 1 {
				r.Count("sync.slots_sent_more_than_once", 1)
			}
			if kind == "sync-young" && sl >= origin {
				r.Count("sync.young_resent_slots", 1)
			}
		}
		s.judge(pkts, key, id)
		r.Count("wire.scenarios."+kind, 1)
		if i == 1 && len(s.versions) > 0 {
			r.Sample(map[string]interface{}{"scenario": s.log, "datagrams": len(pkts), "kind": kind})
		}
		os.RemoveAll(s.env.Dir)
	}
}

// ================================================================ conc

func concChild(b run.Batch, r *ev.Result) {
	rng := rand.New(rand.NewSource(b.Seed))
	var rounds, G int
	fmt.Sscan(b.P("rounds"), &rounds)
	fmt.Sscan(b.P("g"), &G)
	rogue, err := drv.NewRogueSync(rng, nil)
	if err != nil {
		r.Inconc("cannot open TCP listener: " + err.Error())
		return
	}
	defer rogue.Close()
	sink, err := drv.NewUDPSink()
	if err != nil {
		r.Inconc("cannot open UDP sink: " + err.Error())
		return
	}
	defer sink.Close()
	origin := []uint32{0, uint32(1 + rng.Intn(5000)), 14000000 + uint32(rng.Intn(300000)), 0xffffffff - 50000}[rng.Intn(4)]
	var gca [32]byte
	rng.Read(gca[:])
	header := "timestamp,energy (mWh)\n"
	env := &drv.ClientEnv{Dir: filepath.Join(b.Dir, "cc"), Key: refenc.GenKey(rng), GCA: gca, ShortID: uint32(1 + rng.Intn(1<<30)),
		Servers: []refenc.MapEntry{rogue.Entry(sink.Port, false)}, HistoryOrigin: origin, Energy: &header, LastSync: drv.FreshSyncStamp()}
	if err := env.Write(); err != nil {
		r.Inconc("cannot provision client: " + err.Error())
		return
	}
	defer os.RemoveAll(env.Dir)
	run.Op("conc: NewClient origin=%d goroutines=%d rounds=%d", origin, G, rounds)
	c, err := drv.StartClient(env.Dir)
	if err != nil {
		r.Inconc("NewClient failed in a conc batch: " + err.Error())
		return
	}
	defer c.Close()
	const perG = 48 // slots owned by one goroutine: few cells, hit often
	models := make([]map[uint32]uint32, G)
	var wg sync.WaitGroup
	var stop int32
	replay := map[string]interface{}{"batch": b, "origin": origin, "goroutines": G}
	for g := 0; g < G; g++ {
		models[g] = map[uint32]uint32{}
		wg.Add(1)
		go func(g int) {
			defer wg.Done()
			lr := rand.New(rand.NewSource(b.Seed*977 + int64(g)))
			m := models[g]
			var loadsStored, loadsEmpty, accepted, refused, noop, firstRefused int64
			bad := 0
			for i := 0; i < rounds && bad < 3 && atomic.LoadInt32(&stop) == 0; i++ {
				ts := origin + uint32(g) + uint32(G)*uint32(lr.Intn(perG))
				cur := m[ts]
				if lr.Intn(100) < 40 {
					var v uint32
					switch k := lr.Intn(10); {
					case k < 2 && cur != 0:
						v = cur
					case k < 3:
						v = 0
					default:
						v = 1 + lr.Uint32()>>uint(lr.Intn(24))
					}
					err := c.VerifSaveReading(ts, v)
					switch {
					case cur == v:
						noop++
					case cur != 0:
						if err == nil {
							bad++
							r.Violationf("overwrite-accepted", replay, "goroutine %d of %d: save(%d,%d) was accepted although this goroutine stored %d there and nobody else writes that slot", g, G, ts, v, cur)
						} else {
							refused++
						}
					default:
						if err == nil {
							m[ts] = v
							accepted++
						} else {
							firstRefused++
						}
					}
					if i < 500 && cur != 0 {
						r.Nontrivial(fmt.Sprintf("conc/%d/%d/save(%d,%d)", origin, G, ts, v))
					}
					continue
				}
				got, err := c.VerifLoadReading(ts)
				if cur != 0 {
					loadsStored++
				} else {
					loadsEmpty++
				}
				if err != nil {
					if cur != 0 {
						bad++
						r.Violationf("stored-reading-not-returned", replay, "goroutine %d of %d: load(%d) fails (%v), stored value is %d", g, G, ts, err, cur)
					}
				} else if got != cur {
					bad++
					r.Violationf("concurrent-load-returned-foreign-value", replay, "goroutine %d of %d (operation %d): load(%d) returned %d; the only writer of that slot stored %d", g, G, i, ts, got, cur)
				}
			}
			if bad > 0 {
				atomic.StoreInt32(&stop, 1)
			}
			r.Count("conc.loads_on_stored", loadsStored)
			r.Count("conc.loads_on_empty", loadsEmpty)
			r.Count("conc.saves_accepted", accepted)
			r.Count("conc.saves_refused_occupied", refused)
			r.Count("conc.saves_noop", noop)
			r.Count("conc.first_save_refused", firstRefused)
			r.Count("conc.goroutines", 1)
			r.Eval(int(loadsStored + loadsEmpty + accepted + refused + noop + firstRefused))
		}(g)
	}
	wg.Wait()
	r.Max("max.conc.goroutines_on_one_client", int64(G))
	// quiescent: every cell directly from the file against the union of the models
	data, err := os.ReadFile(filepath.Join(env.Dir, client.HistoryFile))
	if err != nil {
		r.Inconc("cannot read history.dat: " + err.Error())
		return
	}
	if len(data) < 4 || binary.LittleEndian.Uint32(data) != origin {
		r.Violationf("history-header-changed", replay, "history.dat header is %x after the concurrent batch, origin was %d", data[:min(4, len(data))], origin)
		return
	}
	all := map[uint32]uint32{}
	for _, m := range models {
		for ts, v := range m {
			all[ts] = v
		}
	}
	for i := 0; 8+4*i <= len(data); i++ {
		v := binary.LittleEndian.Uint32(data[4+4*i:])
		ts := origin + uint32(i)
		if v != all[ts] {
			r.Violationf("stored-reading-changed", replay, "after the concurrent batch the cell of slot %d holds %d, its only writer stored %d", ts, v, all[ts])
			break
		}
	}
	for ts, v := range all {
		if off := offsetOf(ts, origin); v != 0 && off+4 > int64(len(data)) {
			r.Violationf("stored-reading-changed", replay, "after the concurrent batch stored slot %d (value %d) lies beyond the end of history.dat", ts, v)
			break
		}
	}
	if sink.Count() > 0 {
		r.Violationf("datagram-without-energy-row", replay, "%d datagrams were emitted although the energy file has no rows", sink.Count())
	}
}
