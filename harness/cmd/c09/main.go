//go:build test

// C09 — A device never signs two different reports for the same timeslot.
//
// (a) wire: a real client (child process, plain build) whose only server is a
// UDP sink is fed a sequence of energy-file versions (random edits of the
// previous one) and restarts. After every version the harness waits for two
// further iterations of the client's report loop (logical clock). Oracle: all
// datagrams captured for a slot whose power is neither 0 nor 1 are
// byte-identical, verify under the device key and carry the value the C16
// reference rule (lib/efref) derives from the first row for that slot in the
// first version that had a usable row for it; history.dat is read after every
// step: header unchanged, a non-zero cell never changes and always is the low
// 32 bits of a first reading.
// (b) store: VerifSaveReading / VerifLoadReading against a map model, with
// direct reads of history.dat at offsets computed here in 64 bits.
package main

import (
	"encoding/binary"
	"fmt"
	"io"
	"math/rand"
	"os"
	"path/filepath"
	"sort"
	"strings"
	"time"

	"github.com/glowlabs-org/gca-backend/client"
	"github.com/glowlabs-org/gca-backend/glow"

	"verifharness/lib/drv"
	"verifharness/lib/efref"
	"verifharness/lib/ev"
	"verifharness/lib/refenc"
	"verifharness/lib/run"
)

const (
	keyCongruent = "equivocation:readings-congruent-mod-2^32"
	keyZeroAlias = "equivocation:reading-multiple-of-2^32-stored-as-empty"
	keyResend    = "equivocation:resend-of-reading-outside-int32-range"
)

// sext32 is what a sync re-send carries for a stored reading: the 32-bit
// history cell, sign-extended.
func sext32(v uint64) uint64 { return uint64(int64(int32(uint32(v)))) }

func outsideInt32(v uint64) bool { return sext32(v) != v }

func main() {
	run.Main(run.Spec{
		ID:    "C09",
		Level: "exploration",
		Pkg:   "./cmd/c09",
		Rule: "wire: a scenario is a start file plus 8-14 versions, each 1-3 random edits of the previous one (append new slots, append a new slot twice with different values, rewrite a value, duplicate an old timestamp with another value, reorder, insert a malformed row, remove rows, toggle header) and restarts (with or without an edit while down); " +
			"targeted probes: two rows of one new slot whose scaled values are congruent mod 2^32, and a first row whose scaled value is a non-zero multiple of 2^32. store: random save/load over (timeslot, value) pairs (before origin, origin-1, origin, inside, hot cells, beyond the end, >= origin+2^30-1, 2^32-1; value 0, equal, different). " +
			"sync: the same wire oracle for clients whose server is a harness sync server that answers with genuine signed replies (window offset below the history origin, empty or partial bitfield), so that originals and re-sends are both judged; one large scenario re-sends 500 readings while rows keep arriving. " +
			"fault: while the client runs, its history descriptor is swapped (dup3) for a write-only or a read-only descriptor of the same file, so every history read or every history write fails; during the window stored rows are rewritten and new slots arrive and change; after the window sync rounds re-send what is stored. " +
			"emptyhist (conditional): first start on a history.dat of 0-3 bytes with the protocol clock past slot 0; a refused start is counted, a client that starts goes through rows, restart, rewritten rows and sync rounds. " +
			"conc: 2-8 goroutines on one client save/load disjoint slot sets (every load has exactly one legal answer). " +
			"Non-trivial = a version in which some slot has two usable rows with different values or a row whose value differs from the slot's first reading; a store operation on an occupied cell or outside the range; distinct by content.",
		Assumptions: []string{
			"wire scenarios: the client's background sync never succeeds (its only server answers no TCP request), so every datagram at the sink comes from the report loop",
			"sync, fault and emptyhist scenarios: about one reading in five lies outside the signed 32-bit range ([2^31,2^32), >= 2^32 or <= -2^31-1 with a low word of 2 or more); for such a first reading v a sync re-send carries the sign-extended history cell instead of v: reported under the known key " + keyResend + " only when the slot's datagrams are exactly v and/or that one value, every other anomaly on the slot keeps its own key; delivery/recovery of lost reports is C08's subject, here only identity and first-reading value of what is emitted",
			"datagrams are judged only if they were emitted: the client sends a slot only while it is newer than the newest slot it had seen, so rewritten old rows are observed through history.dat, not on the wire",
			"a row whose value is exactly 0 is not counted as a reading (the property itself calls value 0 indistinguishable from empty)",
			"rows behind a CSV-level error may or may not have been read (C16 allows both): their values are admissible, not required",
			"loopback UDP: a datagram that never reaches the sink is simply not judged (missing datagrams only lower the counters checked by the positive controls)",
		},
		Plan:  plan,
		Child: child,
		Post: func(c *ev.Check, outs []*run.Outcome) {
			for k, min := range map[string]int64{
				"wire.datagrams": 100, "wire.slots_with_acted_datagram": 50, "wire.restarts": 5, "wire.dup_new_slot_one_report": 3, "wire.versions_with_conflict": 10,
				"wire.probe_congruent": 1, "wire.probe_row_patterns": 1, "wire.probe_log_replaced": 1, "wire.probe_torn_tail": 1, "wire.wide_slots_resent": 5, "store.save_accepted_below_2^21": 100, "store.round_distance_ops": 10, "history.checks": 50, "history.cells_checked": 100, "history.conflicting_rewrite_kept_first": 3,
				"store.save_accepted": 100, "store.save_refused_occupied": 100, "store.save_refused_before_origin": 10, "store.save_noop_equal": 20, "store.zero_on_empty": 10,
				"store.load": 100, "store.far_saves": 10, "store.wrap_zone_ops": 10, "store.full_checks": 5, "store.restarts": 1, "store.origin_minus_one": 1,
				"conc.loads_on_stored": 10000, "conc.goroutines": 8, "conc.saves_accepted": 100, "conc.saves_refused_occupied": 1000,
				"fault.read_fault_windows": 2, "fault.write_fault_windows": 2, "fault.rewritten_stored_rows_under_fault": 4, "fault.new_slots_changed_under_fault": 4, "fault.sync_rounds_after_fault": 6, "fault.datagrams": 40, "emptyhist.scenarios": 4,
				"sync.rounds_ok": 8, "sync.datagrams": 500, "sync.young_scenarios": 4, "sync.young_resent_slots": 20, "sync.big_scenarios": 1, "sync.slots_sent_more_than_once": 20,
			} {
				c.Require(k, min)
			}
			if n := c.Counter("store.save_refused_below_2^21"); n > 0 {
				c.Inconc(fmt.Sprintf("%d saves to an empty cell less than 2^21 slots past the origin were refused (wholesale refusal or environment?)", n))
			}
		},
	})
}

func planBase(tier string, seed int64) []run.Batch {
	nw, ns, nst, ops, nfar, farops := 10, 4, 4, 5000, 2, 300
	if tier == "thorough" {
		nw, ns, nst, ops, nfar, farops = 128, 12, 32, 62500, 8, 2500
	}
	nsy, nyoung, ncc, rounds := 4, 5, 4, 40000
	if tier == "thorough" {
		nsy, nyoung, ncc, rounds = 32, 10, 16, 400000
	}
	nfb, nfs := 3, 4
	if tier == "thorough" {
		nfb, nfs = 24, 10
	}
	var bs []run.Batch
	for i := 0; i < nfb; i++ {
		bs = append(bs, run.Batch{Kind: "fault", Seed: seed*1000003 + 1100 + int64(i), N: nfs, TimeoutS: 100, Params: map[string]string{"n": fmt.Sprint(nfs)}})
	}
	for i := 0; i < nsy; i++ {
		bs = append(bs, run.Batch{Kind: "sync", Seed: seed*1000003 + 300 + int64(i), N: nyoung + 1, TimeoutS: 110, Params: map[string]string{"n": fmt.Sprint(nyoung)}})
	}
	for i := 0; i < ncc; i++ {
		bs = append(bs, run.Batch{Kind: "conc", Seed: seed*1000003 + 700 + int64(i), N: rounds, TimeoutS: 100, Params: map[string]string{"rounds": fmt.Sprint(rounds), "g": fmt.Sprint([]int{2, 8, 4, 3, 6, 2, 5, 7}[i%8])}})
	}
	for i := 0; i < nw; i++ {
		bs = append(bs, run.Batch{Kind: "wire", Seed: seed*1000003 + int64(i), N: ns, TimeoutS: 110, Params: map[string]string{"n": fmt.Sprint(ns)}})
	}
	for i := 0; i < nst; i++ {
		bs = append(bs, run.Batch{Kind: "store", Seed: seed*1000003 + 500 + int64(i), N: ops, TimeoutS: 100, Params: map[string]string{"ops": fmt.Sprint(ops), "i": fmt.Sprint(i)}})
	}
	for i := 0; i < nfar; i++ {
		bs = append(bs, run.Batch{Kind: "far", Seed: seed*1000003 + 900 + int64(i), N: farops, TimeoutS: 100, Params: map[string]string{"ops": fmt.Sprint(farops), "i": fmt.Sprint(i)}})
	}
	return bs
}

func childBase(b run.Batch, r *ev.Result) {
	switch b.Kind {
	case "wire":
		wireChild(b, r)
	case "store":
		storeChild(b, r, false)
	case "far":
		storeChild(b, r, true)
	case "sync":
		syncChild(b, r)
	case "conc":
		concChild(b, r)
	case "fault":
		faultChild(b, r)
	}
}

func waitTicks(n uint64, r *ev.Result) bool {
	t0 := client.VerifTicks()
	deadline := time.Now().Add(15 * time.Second)
	for client.VerifTicks() < t0+n {
		if time.Now().After(deadline) {
			r.Inconc("client report loop did not tick within 15 s (wall-clock watchdog)")
			return false
		}
		time.Sleep(3 * time.Millisecond)
	}
	return true
}

// ================================================================ (a) wire

type line struct {
	slot int64
	off  int64
	val  string
	raw  string // literal malformed line (slot/off/val unused)
}

type slotInfo struct {
	adm       map[uint64]bool // admissible first readings
	all       map[uint64]bool // every value any row ever had for the slot
	fixed     bool
	first     uint64
	zeroAlias bool // a first row whose value is a non-zero multiple of 2^32 (stored as "empty")
	free      bool // a row outside the value-rule domain: nothing asserted
	birth     int  // index of the version in which the slot first appeared
	dupBirth  bool // that version had two rows with different low 32 bits for it
}

type scen struct {
	r        *ev.Result
	rng      *rand.Rand
	b        run.Batch
	idx      int
	kind     string
	genesis  int64
	env      *drv.ClientEnv
	c        *client.Client
	origin   uint32
	mult     float64
	div      float64
	lines    []line
	header   bool
	nextSlot int64
	small    bool // sync-enabled scenario: no 1e10+ class; one reading in five outside the signed 32-bit range (wideVal)
	faulty   bool // a read or write fault is currently injected into the client's history descriptor
	versions []string
	slots    map[uint32]*slotInfo
	hist     []uint32
	log      []string // what was done, for the replay
	dead     bool

	tornByHarness bool
}

func (s *scen) content() string {
	var sb strings.Builder
	if s.header {
		sb.WriteString("timestamp,energy (mWh)\n")
	}
	for _, l := range s.lines {
		if l.raw != "" {
			sb.WriteString(l.raw)
		} else {
			fmt.Fprintf(&sb, "%d,%s", s.genesis+l.slot*300+l.off, l.val)
		}
		sb.WriteByte('\n')
	}
	return sb.String()
}

// cval: readings inside the value-rule domain.
// wideVal: readings whose scaled value does not fit the signed 32-bit range
// (the low word is neither 0 nor 1, so the history holds something a sync re-sends).
func (s *scen) wideVal() string {
	rng := s.rng
	low := 2 + rng.Int63n(1<<32-2)
	switch rng.Intn(4) {
	case 0:
		return fmt.Sprint(int64(1)<<31 + rng.Int63n(1<<31)) // [2^31, 2^32)
	case 1:
		return fmt.Sprint(int64(1+rng.Intn(200))<<32 + low) // >= 2^32, low word set
	case 2:
		return fmt.Sprint(-(int64(1)<<31 + 1 + rng.Int63n(1<<31-2))) // (-2^32, -2^31-1]
	}
	return fmt.Sprint(-(int64(1+rng.Intn(200))<<32 + low)) // <= -2^32, low word set
}

func (s *scen) cval() string {
	rng := s.rng
	if s.small && rng.Intn(5) == 0 {
		return s.wideVal()
	}
	switch k := rng.Intn(100); {
	case k < 50:
		return fmt.Sprintf("%.3f", 24+rng.Float64()*1e6)
	case k < 65:
		return fmt.Sprintf("%.3f", -(24 + rng.Float64()*1e6))
	case k < 75:
		return []string{"0", "5", "-7.5", "23.9", "0.001", "-0"}[rng.Intn(6)]
	case k < 83:
		return []string{"error", "n/a", "", "12abc", "--", "1.2.3"}[rng.Intn(6)]
	case k < 93:
		return fmt.Sprint(24 + rng.Int63n(2000000000))
	default:
		if s.small {
			return fmt.Sprint(-(24 + rng.Int63n(2000000000)))
		}
		return fmt.Sprint(10000000000 + rng.Int63n(1000000000000))
	}
}

func (s *scen) otherVal(v string) string {
	for {
		w := s.cval()
		a, _, _ := efref.Value(v, s.mult, s.div)
		b, _, _ := efref.Value(w, s.mult, s.div)
		if a != b {
			return w
		}
	}
}

func (s *scen) replay() map[string]interface{} {
	return map[string]interface{}{"batch": s.b, "scenario": s.idx, "kind": s.kind, "genesis": s.genesis, "origin": s.origin, "steps": s.log, "versions": s.versions}
}

// observe accounts for a version becoming visible to the client.
func (s *scen) observe(content string) {
	vi := len(s.versions)
	s.versions = append(s.versions, content)
	p := efref.Reference([]byte(content), s.genesis, s.mult, s.div)
	perSlot := map[uint32]map[uint32]bool{}
	conflict := false
	for _, e := range p.Exps {
		for _, a := range e.Alts {
			info := s.slots[a.Slot]
			if info == nil {
				info = &slotInfo{adm: map[uint64]bool{}, all: map[uint64]bool{}, birth: vi}
				s.slots[a.Slot] = info
			}
			if e.AnyValue {
				info.free = true
				continue
			}
			info.all[a.Value] = true
			// While a fault is injected into the history file the client cannot accept
			// (store) a reading: rows of such a version are possible first readings, not
			// certain ones. The content is observed again once the fault is lifted.
			must := e.Must && !s.faulty
			if must {
				if perSlot[a.Slot] == nil {
					perSlot[a.Slot] = map[uint32]bool{}
				}
				perSlot[a.Slot][uint32(a.Value)] = true
				if info.fixed && a.Value != info.first {
					conflict = true
				}
			}
			if info.fixed {
				continue
			}
			if !must {
				info.adm[a.Value] = true
				continue
			}
			if a.Value == 0 {
				continue
			}
			info.adm[a.Value] = true
			if uint32(a.Value) == 0 {
				info.zeroAlias = true
				continue
			}
			info.fixed = true
			info.first = a.Value
		}
	}
	for sl, vals := range perSlot {
		if len(vals) > 1 {
			conflict = true
			if s.slots[sl].birth == vi {
				s.slots[sl].dupBirth = true
			}
		}
	}
	if conflict {
		s.r.Count("wire.versions_with_conflict", 1)
		s.r.Nontrivial(fmt.Sprintf("%d|%s", s.origin, strings.ReplaceAll(content, fmt.Sprint(s.genesis/100000), "G")))
	}
	s.r.Count("wire.versions", 1)
	if p.CSVError != "" {
		s.r.Count("wire.versions_with_csv_error", 1)
	}
}

func (s *scen) start() bool {
	run.Op("scenario %d: NewClient", s.idx)
	c, err := drv.StartClient(s.env.Dir)
	if err != nil {
		s.r.Inconc("NewClient failed in a wire scenario: " + err.Error())
		s.dead = true
		return false
	}
	s.c = c
	return true
}

func (s *scen) stop() {
	if s.c != nil {
		run.Op("scenario %d: Close", s.idx)
		s.c.Close()
		s.c = nil
	}
}

// publish writes the current model as the next version.
func (s *scen) publish(what string) bool {
	content := s.content()
	s.log = append(s.log, what)
	run.Op("scenario %d: %s -> version %d %q", s.idx, what, len(s.versions), content)
	s.observe(content)
	if err := s.env.WriteEnergy(content); err != nil {
		s.r.Inconc("cannot write energy file: " + err.Error())
		s.dead = true
		return false
	}
	return true
}

// settle waits until the running client has certainly processed the file.
func (s *scen) settle() bool {
	if s.c == nil {
		return true
	}
	if !waitTicks(2, s.r) {
		s.dead = true
		return false
	}
	s.checkHistory()
	return true
}

func (s *scen) checkHistory() {
	r := s.r
	data, err := os.ReadFile(filepath.Join(s.env.Dir, client.HistoryFile))
	if err != nil {
		r.Violationf("history-file-unreadable", s.replay(), "history.dat cannot be read: %v", err)
		return
	}
	r.Count("history.checks", 1)
	r.Eval(1)
	if len(data) < 4 || binary.LittleEndian.Uint32(data) != s.origin {
		r.Violationf("history-header-changed", s.replay(), "history.dat header is %x, origin was %d", data[:min(4, len(data))], s.origin)
		return
	}
	if len(data)%4 != 0 && !s.tornByHarness { // the torn-tail probe left such a tail itself; whole cells are judged as always
		r.Violationf("history-file-unaligned", s.replay(), "history.dat has %d bytes", len(data))
	}
	n := (len(data) - 4) / 4
	cur := make([]uint32, n)
	for i := 0; i < n; i++ {
		cur[i] = binary.LittleEndian.Uint32(data[4+4*i:])
	}
	for i, prev := range s.hist {
		now := uint32(0)
		if i < n {
			now = cur[i]
		}
		if prev != 0 && now != prev {
			r.Violationf("history-cell-overwritten", s.replay(), "history cell of slot %d changed from %d to %d", int64(s.origin)+int64(i), prev, now)
		}
	}
	for i, v := range cur {
		if v == 0 {
			continue
		}
		r.Count("history.cells_checked", 1)
		info := s.slots[s.origin+uint32(i)]
		if info == nil {
			r.Violationf("history-cell-for-slot-without-reading", s.replay(), "history cell of slot %d holds %d but no row ever named that slot", int64(s.origin)+int64(i), v)
			continue
		}
		if info.free {
			continue
		}
		ok := false
		for a := range info.adm {
			if uint32(a) == v {
				ok = true
			}
		}
		if !ok {
			r.Violationf("history-cell-not-a-first-reading", s.replay(), "history cell of slot %d holds %d, which is not the low 32 bits of a first reading (first readings: %v, all values: %v)", int64(s.origin)+int64(i), v, keys(info.adm), keys(info.all))
		} else if info.fixed && len(info.all) > 1 && uint32(info.first) == v {
			r.Count("history.conflicting_rewrite_kept_first", 1)
		}
	}
	s.hist = cur
}

func keys(m map[uint64]bool) []uint64 {
	var out []uint64
	for k := range m {
		out = append(out, k)
	}
	sort.Slice(out, func(i, j int) bool { return out[i] < out[j] })
	return out
}

func (s *scen) realRows() []int {
	var idx []int
	for i, l := range s.lines {
		if l.raw == "" {
			idx = append(idx, i)
		}
	}
	return idx
}

func (s *scen) insertAt(pos int, l line) {
	s.lines = append(s.lines, line{})
	copy(s.lines[pos+1:], s.lines[pos:])
	s.lines[pos] = l
}

// edit applies one random edit and returns its description.
func (s *scen) edit() string {
	rng := s.rng
	real := s.realRows()
	pick := rng.Intn(100)
	if len(real) == 0 && pick >= 40 && pick < 75 {
		pick = 0
	}
	switch {
	case pick < 22: // append new slots
		n := 1 + rng.Intn(3)
		for i := 0; i < n; i++ {
			s.nextSlot += int64(rng.Intn(3))
			s.lines = append(s.lines, line{slot: s.nextSlot, off: int64(rng.Intn(300)), val: s.cval()})
			s.nextSlot++
		}
		return fmt.Sprintf("append %d new slots", n)
	case pick < 40: // a new slot reported twice (different values, sometimes equal), maybe with other new rows between
		s.nextSlot += int64(rng.Intn(2))
		v := s.cval()
		w := s.otherVal(v)
		what := "append new slot twice with different values"
		if rng.Intn(5) == 0 {
			w = v
			what = "append new slot twice with the same value"
		}
		a := line{slot: s.nextSlot, off: int64(rng.Intn(300)), val: v}
		b := line{slot: s.nextSlot, off: int64(rng.Intn(300)), val: w}
		s.nextSlot++
		if v != w && rng.Intn(3) == 0 {
			// adjacent rows of one new slot: a refused value followed by its exact copy
			pat := [][]line{{a, b, b}, {a, b, b, a}, {a, a, b, b}, {a, b, b, b}}[rng.Intn(4)]
			s.lines = append(s.lines, pat...)
			return fmt.Sprintf("append new slot %d with row pattern %d (A,B,B ...)", a.slot, len(pat))
		}
		s.lines = append(s.lines, a)
		if rng.Intn(2) == 0 {
			s.lines = append(s.lines, line{slot: s.nextSlot, off: int64(rng.Intn(300)), val: s.cval()})
			s.nextSlot++
		}
		s.lines = append(s.lines, b)
		if rng.Intn(4) == 0 {
			s.lines = append(s.lines, line{slot: a.slot, off: int64(rng.Intn(300)), val: s.otherVal(v)})
		}
		return what
	case pick < 50: // rewrite a value
		i := real[rng.Intn(len(real))]
		s.lines[i].val = s.otherVal(s.lines[i].val)
		return fmt.Sprintf("rewrite value of row %d (slot %d)", i, s.lines[i].slot)
	case pick < 60: // duplicate an old timestamp with another value
		i := real[rng.Intn(len(real))]
		d := line{slot: s.lines[i].slot, off: s.lines[i].off, val: s.otherVal(s.lines[i].val)}
		switch rng.Intn(3) {
		case 0:
			s.insertAt(i, d)
		case 1:
			s.insertAt(i+1, d)
		default:
			s.lines = append(s.lines, d)
		}
		return fmt.Sprintf("duplicate timestamp of slot %d with another value", d.slot)
	case pick < 68: // reorder
		switch rng.Intn(4) {
		case 0:
			rng.Shuffle(len(s.lines), func(i, j int) { s.lines[i], s.lines[j] = s.lines[j], s.lines[i] })
			return "shuffle rows"
		case 1:
			for i, j := 0, len(s.lines)-1; i < j; i, j = i+1, j-1 {
				s.lines[i], s.lines[j] = s.lines[j], s.lines[i]
			}
			return "reverse rows"
		case 2:
			i, j := rng.Intn(len(s.lines)), rng.Intn(len(s.lines))
			s.lines[i], s.lines[j] = s.lines[j], s.lines[i]
			return "swap two rows"
		}
		l := s.lines[len(s.lines)-1]
		s.lines = s.lines[:len(s.lines)-1]
		s.insertAt(0, l)
		return "move last row to the front"
	case pick < 75: // remove rows
		switch rng.Intn(4) {
		case 0:
			var keep []line
			for _, l := range s.lines {
				if l.raw == "" {
					keep = append(keep, l)
				}
			}
			s.lines = keep
			return "remove malformed rows"
		case 1:
			s.lines = nil
			return "truncate the file (log rotation)"
		}
		i := rng.Intn(len(s.lines))
		s.lines = append(s.lines[:i], s.lines[i+1:]...)
		return fmt.Sprintf("remove row %d", i)
	case pick < 88: // malformed row
		ts := fmt.Sprint(s.genesis + (s.nextSlot+int64(rng.Intn(3)))*300 + int64(rng.Intn(300)))
		raw := []string{"abc,100", ts, ts + `,12"3`, ts + ",100,7", `"` + ts + ",100", " ", ts + " ,100", ",", "timestamp,energy (mWh)", ts + ".5,100"}[rng.Intn(10)]
		s.insertAt(rng.Intn(len(s.lines)+1), line{raw: raw})
		return fmt.Sprintf("insert malformed row %q", raw)
	case pick < 92:
		s.header = !s.header
		return "toggle header"
	default: // late arrival: a row for an old or skipped slot appended at the end
		sl := rng.Int63n(s.nextSlot + 1)
		s.lines = append(s.lines, line{slot: sl, off: int64(rng.Intn(300)), val: s.cval()})
		return fmt.Sprintf("append a row for old slot %d", sl)
	}
}

func (s *scen) runRandom() {
	rng := s.rng
	// start file
	s.header = rng.Intn(4) != 0
	for i, n := 0, rng.Intn(5); i < n; i++ {
		s.edit()
	}
	if rng.Intn(5) == 0 {
		s.lines = nil
	}
	if !s.publish("start file") || !s.start() || !s.settle() {
		return
	}
	steps := 8 + rng.Intn(7)
	for st := 0; st < steps && !s.dead; st++ {
		if rng.Intn(6) == 0 {
			// restart, with or without an edit while the client is down
			s.stop()
			s.r.Count("wire.restarts", 1)
			if rng.Intn(2) == 0 {
				if !s.publish("while down: " + s.edit()) {
					return
				}
			} else {
				s.log = append(s.log, "restart")
			}
			if !s.start() || !s.settle() {
				return
			}
			continue
		}
		var what []string
		if rng.Intn(2) == 0 {
			// the meter's glitch goes away: rows hidden behind a CSV-level error become visible
			var keep []line
			for _, l := range s.lines {
				if l.raw == "" {
					keep = append(keep, l)
				}
			}
			if len(keep) != len(s.lines) {
				s.lines = keep
				what = append(what, "remove malformed rows")
			}
		}
		for i, n := 0, 1+rng.Intn(3); i < n; i++ {
			what = append(what, s.edit())
		}
		if !s.publish(strings.Join(what, "; ")) || !s.settle() {
			return
		}
	}
}

// runProbe: targeted input classes of the 32-bit history.
func (s *scen) runProbe(kind string) {
	rng := s.rng
	s.header = true
	s.lines = []line{{slot: 1, off: 5, val: "100"}}
	if !s.publish("start file") || !s.start() || !s.settle() {
		return
	}
	sl := int64(3 + rng.Intn(5))
	var a, b string
	switch kind {
	case "congruent":
		pairs := [][2]string{{"4294972296", "5000"}, {"5000", "4294972296"}, {"-5000", "4294962296"}, {"8589939592", "4294972296"}, {"4294967298", "5"}, {"4294967299", "error"}}
		p := pairs[rng.Intn(len(pairs))]
		a, b = p[0], p[1]
		s.r.Count("wire.probe_congruent", 1)
	case "zeroalias":
		pairs := [][2]string{{"4294967296", "5000"}, {"8589934592", "777"}, {"-4294967296", "100000"}}
		p := pairs[rng.Intn(len(pairs))]
		a, b = p[0], p[1]
		s.r.Count("wire.probe_zeroalias", 1)
	case "congruent-across-reads":
		// the same class, but the second value arrives in a later version: nothing may be re-sent
		a, b = "5000", ""
	case "log-replaced", "torn-tail":
		// Multi-life histories of the files around the history. Readings are reported, then
		//  log-replaced: while the device is down the meter's log is replaced by an older, much
		//    shorter one (its newest row lies 300-500 slots before the newest reported reading); in
		//    the next life the rows come back, the far ones with other values;
		//  torn-tail: while the device is down history.dat gets a torn tail (1-3 zero bytes, as an
		//    append cut by a power loss leaves them); the next life reports new readings; after an
		//    ordinary restart during which those rows changed their values nothing may be re-signed.
		for i := int64(0); i < 3; i++ {
			s.lines = append(s.lines, line{slot: sl + i, off: int64(rng.Intn(300)), val: fmt.Sprint(500 + rng.Intn(400))})
		}
		if !s.publish("probe "+kind+": first readings") || !s.settle() {
			return
		}
		far := sl + 300 + int64(rng.Intn(200))
		nearRows := len(s.lines)
		for i := int64(0); i < 3; i++ {
			s.lines = append(s.lines, line{slot: far + i, off: int64(rng.Intn(300)), val: fmt.Sprint(1500 + rng.Intn(400))})
		}
		if !s.publish("readings 300-500 slots later") || !s.settle() {
			return
		}
		s.stop()
		s.r.Count("wire.restarts", 1)
		if kind == "log-replaced" {
			s.r.Count("wire.probe_log_replaced", 1)
			saved := append([]line(nil), s.lines...)
			s.lines = s.lines[:nearRows]
			if !s.publish("while down: the log is replaced by an older, shorter one") || !s.start() || !s.settle() {
				return
			}
			s.lines = saved
			for i := nearRows; i < len(s.lines); i++ {
				s.lines[i].val = s.otherVal(s.lines[i].val)
			}
			if !s.publish("the later rows come back with other values") || !s.settle() {
				return
			}
			return
		}
		s.r.Count("wire.probe_torn_tail", 1)
		hp := filepath.Join(s.env.Dir, client.HistoryFile)
		if f, err := os.OpenFile(hp, os.O_WRONLY|os.O_APPEND, 0644); err == nil {
			f.Write(make([]byte, 1+rng.Intn(3)))
			f.Close()
		}
		s.tornByHarness = true
		s.log = append(s.log, "while down: history.dat gets a torn tail of zero bytes")
		if !s.start() || !s.settle() {
			return
		}
		life2 := len(s.lines)
		for i := int64(0); i < 3; i++ { // the slot of the torn cell (far+3) gets no row
			s.lines = append(s.lines, line{slot: far + 5 + i, off: int64(rng.Intn(300)), val: fmt.Sprint(2500 + rng.Intn(400))})
		}
		if !s.publish("new readings in the life that found the torn tail") || !s.settle() {
			return
		}
		s.stop()
		s.r.Count("wire.restarts", 1)
		for i := life2; i < len(s.lines); i++ {
			s.lines[i].val = s.otherVal(s.lines[i].val)
		}
		if !s.publish("while down: those rows change their values") || !s.start() || !s.settle() {
			return
		}
		return
	case "row-patterns":
		// one pass sees, for one new slot each, A,B,B / A,B,B,A / A,A,B,B
		s.r.Count("wire.probe_row_patterns", 1)
		for i, pat := range []string{"ABB", "ABBA", "AABB"} {
			va := fmt.Sprint(500 + rng.Intn(100))
			vb := fmt.Sprint(700 + rng.Intn(100))
			for _, ch := range pat {
				v := va
				if ch == 'B' {
					v = vb
				}
				s.lines = append(s.lines, line{slot: sl + int64(i), off: 9, val: v})
			}
		}
		s.lines = append(s.lines, line{slot: sl + 3, off: 0, val: "250"})
		if !s.publish("probe "+kind) || !s.settle() {
			return
		}
		// restart with the newest row rewritten and duplicated
		s.stop()
		s.r.Count("wire.restarts", 1)
		s.lines[len(s.lines)-1].val = "260"
		s.lines = append(s.lines, s.lines[len(s.lines)-1], line{slot: sl + 4, off: 0, val: "270"})
		if !s.publish("while down: newest row rewritten and duplicated, one new slot") || !s.start() || !s.settle() {
			return
		}
		return
	}
	s.lines = append(s.lines, line{slot: sl, off: 1, val: a})
	if b != "" {
		s.lines = append(s.lines, line{slot: sl, off: 2, val: b})
	}
	s.lines = append(s.lines, line{slot: sl + 1, off: 0, val: "250"})
	if !s.publish("probe "+kind) || !s.settle() {
		return
	}
	if kind == "congruent-across-reads" {
		for i := range s.lines {
			if s.lines[i].slot == sl {
				s.lines[i].val = "4294972296"
			}
		}
		s.lines = append(s.lines, line{slot: sl + 2, off: 0, val: "300"})
		if !s.publish("rewrite to a congruent value") || !s.settle() {
			return
		}
		s.stop()
		s.r.Count("wire.restarts", 1)
		s.lines = append(s.lines, line{slot: sl + 3, off: 0, val: "301"})
		if !s.start() || !s.publish("append after restart") || !s.settle() {
			return
		}
	}
}

// judge groups the captured datagrams by slot.
func (s *scen) judge(pkts [][]byte, key refenc.Key, id uint32) {
	r := s.r
	type grp struct {
		bytes  map[string]bool
		powers map[uint64]bool
		n      int
	}
	groups := map[uint32]*grp{}
	for _, pkt := range pkts {
		rp := s.replay()
		rp["datagram"] = fmt.Sprintf("%x", pkt)
		if len(pkt) != 80 {
			r.Violationf("datagram-length", rp, "datagram of %d bytes at the sink", len(pkt))
			continue
		}
		rep, _ := refenc.ParseReport(pkt)
		if rep.ID != id {
			if !refenc.Verify(key.Pub, rep.SigningBytes(), rep.Sig) {
				r.Inconc(fmt.Sprintf("foreign datagram (short id %d) at the sink", rep.ID))
			} else {
				r.Violationf("datagram-wrong-short-id", rp, "datagram signed by the device carries short id %d, want %d", rep.ID, id)
			}
			continue
		}
		r.Count("wire.datagrams", 1)
		if !refenc.Verify(key.Pub, rep.SigningBytes(), rep.Sig) {
			r.Violationf("datagram-signature-invalid", rp, "datagram (slot %d, power %d) does not verify under the device key", rep.Slot, rep.Power)
			continue
		}
		if rep.Power == 0 || rep.Power == 1 {
			r.Count("wire.datagrams_power_0_or_1", 1)
			continue
		}
		g := groups[rep.Slot]
		if g == nil {
			g = &grp{bytes: map[string]bool{}, powers: map[uint64]bool{}}
			groups[rep.Slot] = g
		}
		g.bytes[string(pkt)] = true
		g.powers[rep.Power] = true
		g.n++
	}
	var slots []uint32
	for sl := range groups {
		slots = append(slots, sl)
	}
	sort.Slice(slots, func(i, j int) bool { return slots[i] < slots[j] })
	var wideSlots []uint32
	defer func() {
		// one violation per scenario for the known class (a witness and the number of slots)
		if len(wideSlots) > 0 {
			sl := wideSlots[0]
			rp := s.replay()
			rp["slots"] = wideSlots
			v := s.slots[sl].first
			r.Violationf(keyResend, rp, "%d slot(s) whose first reading lies outside the signed 32-bit range were re-sent by a sync round with the sign-extended 32-bit history cell: e.g. slot %d, first reading %d (0x%x), datagram powers %v, re-send value %d", len(wideSlots), sl, int64(v), v, keys(groups[sl].powers), int64(sext32(v)))
		}
	}()
	for _, sl := range slots {
		g := groups[sl]
		r.Eval(1)
		r.Count("wire.slots_with_acted_datagram", 1)
		info := s.slots[sl]
		rp := s.replay()
		rp["slot"] = sl
		rp["powers"] = keys(g.powers)
		if info == nil {
			r.Violationf("report-for-slot-without-reading", rp, "datagrams for slot %d (powers %v) but no row of any version names that slot", sl, keys(g.powers))
			continue
		}
		if info.free {
			continue
		}
		rp["first_readings"] = keys(info.adm)
		rp["all_values"] = keys(info.all)
		if g.n > 1 {
			r.Count("wire.slots_with_repeated_datagram", 1)
		}
		equiv := len(g.bytes) > 1
		wrong := false
		fromRow := true
		for p := range g.powers {
			if !info.adm[p] {
				wrong = true
			}
			if !info.all[p] {
				fromRow = false
			}
		}
		if !equiv && !wrong {
			if info.dupBirth {
				r.Count("wire.dup_new_slot_one_report", 1)
			}
			continue
		}
		congruent := true
		var low uint32
		firstP := true
		zeroMul := false
		for p := range g.powers {
			if firstP {
				low, firstP = uint32(p), false
			} else if uint32(p) != low {
				congruent = false
			}
			if uint32(p) == 0 {
				zeroMul = true
			}
		}
		admLow := false
		for a := range info.adm {
			if uint32(a) == low {
				admLow = true
			}
		}
		desc := fmt.Sprintf("slot %d: %d datagrams, %d distinct, powers %v; first reading(s) %v; all row values %v", sl, g.n, len(g.bytes), keys(g.powers), keys(info.adm), keys(info.all))
		wideOnly := info.fixed && outsideInt32(info.first) && uint32(info.first) >= 2
		for p := range g.powers {
			if p != info.first && p != sext32(info.first) {
				wideOnly = false
			}
		}
		switch {
		case wideOnly:
			wideSlots = append(wideSlots, sl)
			r.Count("wire.wide_slots_resent", 1)
		case !fromRow:
			r.Violationf("report-value-not-from-any-row", rp, "%s", desc)
		case congruent && admLow && (len(g.powers) > 1 || wrong):
			r.Violationf(keyCongruent, rp, "rows of one slot whose values agree in the low 32 bits are all reported: %s", desc)
		case equiv && info.zeroAlias && zeroMul && len(g.powers) > 1:
			r.Violationf(keyZeroAlias, rp, "a first reading that is a non-zero multiple of 2^32 is reported but stored as empty, the next different reading is reported too: %s", desc)
		case equiv && len(g.powers) == 1:
			r.Violationf("same-report-two-signatures", rp, "datagrams with equal content but different bytes: %s", desc)
		case equiv:
			r.Violationf("equivocation:different-reports-for-one-slot", rp, "%s", desc)
		default:
			r.Violationf("report-value-not-first-reading", rp, "%s", desc)
		}
	}
}

func wireChild(b run.Batch, r *ev.Result) {
	rng := rand.New(rand.NewSource(b.Seed))
	var n int
	fmt.Sscan(b.P("n"), &n)
	rogue, err := drv.NewRogueSync(rng, nil)
	if err != nil {
		r.Inconc("cannot open TCP listener: " + err.Error())
		return
	}
	defer rogue.Close()
	kinds := []string{"congruent", "zeroalias", "congruent-across-reads", "row-patterns", "log-replaced", "torn-tail"}
	for i := 0; i < n+len(kinds) && r.NumViolations() < 30; i++ {
		kind := "random"
		if i < len(kinds) {
			kind = kinds[i]
		}
		sink, err := drv.NewUDPSink()
		if err != nil {
			r.Inconc("cannot open UDP sink: " + err.Error())
			return
		}
		key := refenc.GenKey(rng)
		id := uint32(1 + rng.Intn(1<<30))
		s := &scen{r: r, rng: rng, b: b, idx: i, kind: kind, genesis: glow.GenesisTime, slots: map[uint32]*slotInfo{},
			mult: client.EnergyMultiplierDefault, div: client.EnergyDividerDefault}
		if kind == "random" && rng.Intn(3) == 0 {
			s.origin = uint32(1 + rng.Intn(6))
		}
		var ct *string
		if kind == "random" && rng.Intn(4) == 0 {
			m, d := 1+rng.Intn(4000), 1+rng.Intn(4000)
			t := fmt.Sprintf("%d\n%d\n", m, d)
			ct = &t
			s.mult, s.div = float64(m), float64(d)
		}
		var gca [32]byte
		rng.Read(gca[:])
		s.env = &drv.ClientEnv{Dir: filepath.Join(b.Dir, fmt.Sprintf("cl%03d", i)), Key: key, GCA: gca, ShortID: id,
			Servers: []refenc.MapEntry{rogue.Entry(sink.Port, false)}, HistoryOrigin: s.origin, CTSettings: ct, LastSync: drv.FreshSyncStamp()}
		if err := s.env.Write(); err != nil {
			r.Inconc("cannot provision client: " + err.Error())
			sink.Close()
			return
		}
		if kind == "random" {
			s.runRandom()
		} else {
			s.runProbe(kind)
		}
		if s.c != nil && !s.dead {
			s.checkHistory()
		}
		s.stop()
		// the sender is closed: let the sink's reader drain what is queued
		for last, same := -1, 0; same < 5; {
			c := sink.Count()
			if c == last {
				same++
			} else {
				same = 0
			}
			last = c
			time.Sleep(2 * time.Millisecond)
		}
		pkts := sink.Packets()
		sink.Close()
		s.judge(pkts, key, id)
		r.Count("wire.scenarios."+kind, 1)
		if i == len(kinds) && len(s.versions) > 0 {
			r.Sample(map[string]interface{}{"scenario": s.log, "last_version": s.versions[len(s.versions)-1], "datagrams": len(pkts)})
		}
		os.RemoveAll(s.env.Dir)
	}
}

// ================================================================ (b) store

type store struct {
	r      *ev.Result
	rng    *rand.Rand
	b      run.Batch
	env    *drv.ClientEnv
	c      *client.Client
	f      *os.File
	origin uint32
	model  map[uint32]uint32
	far    bool
	ops    []string
	maxTS  uint32
}

func (st *store) replay() map[string]interface{} {
	t := st.ops
	if len(t) > 60 {
		t = t[len(t)-60:]
	}
	return map[string]interface{}{"batch": st.b, "origin": st.origin, "last_ops": t}
}

func (st *store) open() bool {
	run.Op("store: NewClient origin=%d", st.origin)
	c, err := drv.StartClient(st.env.Dir)
	if err != nil {
		st.r.Inconc("NewClient failed in a store batch: " + err.Error())
		return false
	}
	st.c = c
	f, err := os.Open(filepath.Join(st.env.Dir, client.HistoryFile))
	if err != nil {
		st.r.Inconc("cannot open history.dat: " + err.Error())
		return false
	}
	st.f = f
	return true
}

func (st *store) close() {
	if st.f != nil {
		st.f.Close()
		st.f = nil
	}
	if st.c != nil {
		st.c.Close()
		st.c = nil
	}
}

// cellAt reads 4 bytes at a byte offset of history.dat (zeros past the end).
func (st *store) cellAt(off int64) (uint32, bool) {
	var buf [4]byte
	n, err := st.f.ReadAt(buf[:], off)
	if err != nil && err != io.EOF {
		st.r.Inconc("direct read of history.dat failed: " + err.Error())
		return 0, false
	}
	if n != 0 && n != 4 {
		st.r.Violationf("history-file-unaligned", st.replay(), "history.dat ends %d bytes into the cell at offset %d", n, off)
		return 0, false
	}
	return binary.LittleEndian.Uint32(buf[:]), true
}

func offsetOf(ts, origin uint32) int64 { return 4 * (1 + int64(ts) - int64(origin)) }

func (st *store) checkHeader(what string) bool {
	h, ok := st.cellAt(0)
	if ok && h != st.origin {
		st.r.Violationf("history-header-changed", st.replay(), "after %s the header of history.dat is %d, origin was %d", what, h, st.origin)
		return false
	}
	return ok
}

// checkCell compares one in-range cell through the client and directly.
func (st *store) checkCell(ts uint32, what string) {
	want := st.model[ts]
	got, err := st.c.VerifLoadReading(ts)
	if err != nil {
		if want != 0 {
			st.r.Violationf("stored-reading-not-returned", st.replay(), "after %s: load(%d) fails (%v), stored value is %d", what, ts, err, want)
		}
	} else if got != want {
		key := "stored-reading-changed"
		if want == 0 {
			key = "reading-appeared-in-untouched-cell"
		}
		st.r.Violationf(key, st.replay(), "after %s: load(%d) returns %d, model holds %d", what, ts, got, want)
	}
	if d, ok := st.cellAt(offsetOf(ts, st.origin)); ok && d != want {
		st.r.Violationf("history-cell-misplaced", st.replay(), "after %s: history.dat holds %d at the cell of slot %d (byte offset %d), model holds %d", what, d, ts, offsetOf(ts, st.origin), want)
	}
}

// aliasCell checks the cell a 32-bit byte offset would have hit instead.
func (st *store) aliasCell(ts uint32, what string) {
	idx := 1 + int64(ts) - int64(st.origin) // cell index incl. header
	if idx < 1<<30 {
		return
	}
	st.r.Count("store.wrap_zone_ops", 1)
	a := idx % (1 << 30)
	if a == 0 {
		st.checkHeader(what + " (32-bit alias of this slot is the header)")
		return
	}
	ats := uint32(int64(st.origin) + a - 1)
	want := st.model[ats]
	if d, ok := st.cellAt(4 * a); ok && d != want {
		st.r.Violationf("history-cell-misplaced", st.replay(), "after %s: the cell of slot %d (where a 32-bit byte offset of slot %d lands) holds %d, model holds %d", what, ats, ts, d, want)
	}
}

func (st *store) fullCheck(what string) {
	r := st.r
	r.Count("store.full_checks", 1)
	if !st.checkHeader(what) {
		return
	}
	if !st.far {
		data, err := os.ReadFile(filepath.Join(st.env.Dir, client.HistoryFile))
		if err != nil {
			r.Inconc("cannot read history.dat: " + err.Error())
			return
		}
		if len(data)%4 != 0 {
			r.Violationf("history-file-unaligned", st.replay(), "history.dat has %d bytes", len(data))
			return
		}
		for i := 0; 4+4*i < len(data); i++ {
			v := binary.LittleEndian.Uint32(data[4+4*i:])
			ts := st.origin + uint32(i)
			if v != st.model[ts] {
				key := "stored-reading-changed"
				if st.model[ts] == 0 {
					key = "history-cell-misplaced"
				}
				r.Violationf(key, st.replay(), "%s: history.dat cell of slot %d holds %d, model holds %d", what, ts, v, st.model[ts])
				return
			}
		}
		for ts, v := range st.model {
			if v != 0 && offsetOf(ts, st.origin)+4 > int64(len(data)) {
				r.Violationf("stored-reading-changed", st.replay(), "%s: stored slot %d (value %d) lies beyond the end of history.dat (%d bytes)", what, ts, v, len(data))
				return
			}
		}
	}
	// through the client: every stored cell (sampled when there are many)
	var tss []uint32
	for ts := range st.model {
		tss = append(tss, ts)
	}
	sort.Slice(tss, func(i, j int) bool { return tss[i] < tss[j] })
	step := 1 + len(tss)/400
	for i := st.rng.Intn(step); i < len(tss); i += step {
		st.checkCell(tss[i], what)
	}
}

func (st *store) pickValue(cur uint32) uint32 {
	rng := st.rng
	switch k := rng.Intn(100); {
	case k < 10:
		return 0
	case k < 28 && cur != 0:
		return cur
	case k < 40 && cur != 0:
		return []uint32{cur + 1, cur - 1, cur ^ 0x80000000, ^cur, cur << 8, cur >> 8}[rng.Intn(6)]
	case k < 50:
		return []uint32{1, 2, 3, 0xffffffff, 0x80000000, 0xffffec78, 5000, 0x01000000, 0x00000100}[rng.Intn(9)]
	}
	return rng.Uint32()
}

func (st *store) pickSlot() (uint32, string) {
	rng := st.rng
	o := int64(st.origin)
	clamp := func(v int64) uint32 {
		if v < 0 {
			v = 0
		}
		if v > 0xffffffff {
			v = 0xffffffff
		}
		return uint32(v)
	}
	if st.far && rng.Intn(5) == 0 {
		// "round" distances past the origin, where a capacity limit could sit
		d := []int64{20 * 365 * 288, 20 * 365 * 288, 1 << 20, 1 << 21, 1 << 22, 365 * 288 * int64(1+rng.Intn(40)), 10 * 365 * 288, 1 << 24}[rng.Intn(8)]
		st.r.Count("store.round_distance_ops", 1)
		return clamp(o + d + []int64{-2, -1, 0, 0, 1, 2}[rng.Intn(6)]), "round distance past origin"
	}
	if st.far {
		switch k := rng.Intn(100); {
		case k < 12:
			return clamp(o + 1<<30 - 1), "origin+2^30-1"
		case k < 20:
			return clamp(o + 1<<30 - 2 + int64(rng.Intn(4))), "around origin+2^30-1"
		case k < 40:
			return clamp(o + 1<<30 - 1 + int64(rng.Intn(40))), "just past origin+2^30-1 (32-bit alias = first cells)"
		case k < 50:
			return clamp(o + int64(1+rng.Intn(3))<<30 - 1 + int64(rng.Intn(40))), "k*2^30 past origin"
		case k < 58:
			return 0xffffffff - uint32(rng.Intn(3)), "largest timeslot"
		case k < 64:
			return 14316557 - uint32(rng.Intn(2)), "largest timeslot of a unix time"
		case k < 80:
			return clamp(o + 1<<30 - 1 + rng.Int63n(1<<32-o-1<<30+1)), "random beyond origin+2^30-1"
		case k < 92:
			return clamp(o + int64(rng.Intn(40))), "first cells"
		default:
			return clamp(o - 1 - int64(rng.Intn(3))), "before origin"
		}
	}
	const span = 20000
	switch k := rng.Intn(100); {
	case k < 6:
		return clamp(o - 1), "origin-1"
	case k < 12:
		return clamp(o - 1 - rng.Int63n(o+1)), "before origin"
	case k < 16:
		return st.origin, "origin"
	case k < 50:
		return clamp(o + int64(rng.Intn(48))), "hot cells"
	case k < 85:
		return clamp(o + int64(rng.Intn(span))), "inside"
	case k < 93:
		return clamp(int64(st.maxTS) + 1 + int64(rng.Intn(3))), "just beyond the end"
	default:
		return clamp(o + span + int64(rng.Intn(span))), "beyond the end"
	}
}

func storeChild(b run.Batch, r *ev.Result, far bool) {
	rng := rand.New(rand.NewSource(b.Seed))
	var ops, bi int
	fmt.Sscan(b.P("ops"), &ops)
	fmt.Sscan(b.P("i"), &bi)
	rogue, err := drv.NewRogueSync(rng, nil)
	if err != nil {
		r.Inconc("cannot open TCP listener: " + err.Error())
		return
	}
	defer rogue.Close()
	sink, err := drv.NewUDPSink()
	if err != nil {
		r.Inconc("cannot open UDP sink: " + err.Error())
		return
	}
	defer sink.Close()
	// several clients per child: a client instance must stay well below its 120 s test-mode limit
	perClient := 20000
	if far {
		perClient = 400
	}
	for done, ci := 0, 0; done < ops && r.NumViolations() < 20; ci++ {
		n := perClient
		if ops-done < n {
			n = ops - done
		}
		st := &store{r: r, rng: rng, b: b, far: far, model: map[uint32]uint32{}}
		switch (bi + ci) % 4 {
		case 0:
			st.origin = 0
		case 1:
			st.origin = uint32(1 + rng.Intn(5000))
		case 2:
			st.origin = 14000000 + uint32(rng.Intn(300000))
		default:
			st.origin = 0xffffffff - 50000 - uint32(rng.Intn(1000))
			if far {
				st.origin = uint32(rng.Intn(50))
			}
		}
		st.maxTS = st.origin
		var gca [32]byte
		rng.Read(gca[:])
		header := "timestamp,energy (mWh)\n"
		st.env = &drv.ClientEnv{Dir: filepath.Join(b.Dir, fmt.Sprintf("st%03d", ci)), Key: refenc.GenKey(rng), GCA: gca, ShortID: uint32(1 + rng.Intn(1<<30)),
			Servers: []refenc.MapEntry{rogue.Entry(sink.Port, false)}, HistoryOrigin: st.origin, Energy: &header, LastSync: drv.FreshSyncStamp()}
		if err := st.env.Write(); err != nil {
			r.Inconc("cannot provision client: " + err.Error())
			return
		}
		st.run(n)
		st.close()
		os.RemoveAll(st.env.Dir) // sparse multi-GB apparent size in far batches: gone immediately
		done += n
	}
	if sink.Count() > 0 {
		r.Violationf("datagram-without-energy-row", map[string]interface{}{"batch": b}, "%d datagrams were emitted although the energy file has no rows (history store operations only)", sink.Count())
	}
}

func (st *store) run(n int) {
	r, rng := st.r, st.rng
	if !st.open() {
		return
	}
	restartAt := n / 2
	for i := 0; i < n && r.NumViolations() < 20; i++ {
		if i == restartAt {
			st.fullCheck("before restart")
			st.close()
			if !st.open() {
				return
			}
			r.Count("store.restarts", 1)
			st.fullCheck("after restart")
		}
		ts, class := st.pickSlot()
		r.Eval(1)
		inRange := ts >= st.origin
		if rng.Intn(100) < 28 {
			// load
			op := fmt.Sprintf("load(%d) [%s]", ts, class)
			st.ops = append(st.ops, op)
			run.Op("store: %s", op)
			v, err := st.c.VerifLoadReading(ts)
			r.Count("store.load", 1)
			switch {
			case !inRange:
				if err == nil && v != 0 {
					r.Violationf("reading-returned-for-slot-before-origin", st.replay(), "load(%d) returned %d, origin is %d", ts, v, st.origin)
				}
			case err != nil:
				if st.model[ts] != 0 {
					r.Violationf("stored-reading-not-returned", st.replay(), "load(%d) fails (%v), stored value is %d", ts, err, st.model[ts])
				} else {
					r.Count("store.load_error_on_empty", 1)
				}
			case v != st.model[ts]:
				r.Violationf("stored-reading-changed", st.replay(), "load(%d) returned %d, model holds %d", ts, v, st.model[ts])
			}
			if st.model[ts] != 0 {
				r.Nontrivial(fmt.Sprintf("%d/%s", st.origin, op))
			}
			st.checkHeader(op)
			continue
		}
		cur := st.model[ts]
		v := st.pickValue(cur)
		op := fmt.Sprintf("save(%d,%d) [%s]", ts, v, class)
		st.ops = append(st.ops, op)
		if len(st.ops) > 200 {
			st.ops = st.ops[100:]
		}
		run.Op("store: %s", op)
		err := st.c.VerifSaveReading(ts, v)
		if !inRange || cur != 0 {
			r.Nontrivial(fmt.Sprintf("%d/%s", st.origin, op))
		}
		switch {
		case !inRange:
			if err == nil {
				r.Violationf("save-before-origin-accepted", st.replay(), "%s was accepted, origin is %d", op, st.origin)
			} else {
				r.Count("store.save_refused_before_origin", 1)
				if ts == st.origin-1 {
					r.Count("store.origin_minus_one", 1)
				}
			}
		case cur == v:
			if err != nil {
				r.Count("store.save_error_on_equal", 1)
			} else if v == 0 {
				r.Count("store.zero_on_empty", 1)
			} else {
				r.Count("store.save_noop_equal", 1)
			}
		case cur != 0:
			if err == nil {
				r.Violationf("overwrite-accepted", st.replay(), "%s was accepted although the cell holds %d", op, cur)
				// keep the model on the first reading: later reads show the damage
			} else {
				r.Count("store.save_refused_occupied", 1)
			}
		default:
			near := int64(ts)-int64(st.origin) < 1<<21
			if err != nil {
				// a refused save is an allowed outcome: nothing is stored (checked below), nothing may be sent
				r.Count("store.save_refused", 1)
				if near {
					r.Count("store.save_refused_below_2^21", 1)
					r.Note("%s on an empty cell failed: %v", op, err)
				}
			} else {
				if near {
					r.Count("store.save_accepted_below_2^21", 1)
				}
				st.model[ts] = v
				r.Count("store.save_accepted", 1)
				if ts > st.maxTS {
					st.maxTS = ts
				}
				if st.far {
					r.Count("store.far_saves", 1)
				}
			}
		}
		st.checkHeader(op)
		if inRange {
			st.checkCell(ts, op)
			st.aliasCell(ts, op)
		}
		every := 250
		if st.far {
			every = 25
		}
		if i%every == every-1 {
			st.fullCheck(fmt.Sprintf("after %d operations", i+1))
		}
	}
	st.fullCheck("end of batch")
}
