//go:build test

package main

// prodclient: next to the -tags test batches, short lives of a PRODUCTION-build
// client (fixed energy file path, real clock, production constants) in a
// private mount + network namespace (lib/prodwt/clientlife.go); the problems
// that concern C09 are reported here.

import (
	"verifharness/lib/ev"
	"verifharness/lib/prodwt"
	"verifharness/lib/run"
)

func plan(tier string, seed int64) []run.Batch {
	bs := planBase(tier, seed)
	n := 1
	if tier == "thorough" {
		n = 4
	}
	return append(bs, run.Batch{Kind: "prodclient", Seed: seed*1000 + 991, N: n, TimeoutS: 400})
}

func child(b run.Batch, r *ev.Result) {
	if b.Kind == "prodclient" {
		prodwt.RunClientLife(r, b, b.Seed, "C09", b.N)
		return
	}
	childBase(b, r)
}
