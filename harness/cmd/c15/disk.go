//go:build test

package main

import (
	"bytes"
	"encoding/binary"
	"fmt"
	"io"
	"math/rand"
	"os"
	"path/filepath"
	"time"

	"github.com/glowlabs-org/gca-backend/server"

	"verifharness/lib/drv"
	"verifharness/lib/ev"
	"verifharness/lib/refenc"
	"verifharness/lib/run"
)

// ---------------------------------------------------------------- files of the wrong length at start-up

func copyDir(src, dst string) error {
	return filepath.Walk(src, func(p string, info os.FileInfo, err error) error {
		if err != nil {
			return err
		}
		rel, _ := filepath.Rel(src, p)
		if info.IsDir() {
			return os.MkdirAll(filepath.Join(dst, rel), 0755)
		}
		if rel == "server.log" {
			return nil
		}
		in, err := os.Open(p)
		if err != nil {
			return err
		}
		defer in.Close()
		out, err := os.Create(filepath.Join(dst, rel))
		if err != nil {
			return err
		}
		defer out.Close()
		_, err = io.Copy(out, in)
		return err
	})
}

// childDiskLen: a real server writes its files; copies of the directory get
// one file of a wrong length each and the real NewGCAServer must refuse them.
func childDiskLen(b run.Batch, r *ev.Result) {
	rng := rand.New(rand.NewSource(b.Seed))
	drv.SetClock(0)
	drv.GateRotation(true)
	drv.GateImpact(true)
	base := filepath.Join(b.Dir, "base")
	a, err := drv.NewWorld(base, rng)
	if err != nil {
		r.Inconc("cannot start world: " + err.Error())
		return
	}
	defer os.RemoveAll(base)
	closed := false
	defer func() {
		if !closed {
			a.Close()
		}
	}()
	nDev := 2 + rng.Intn(4)
	var devs []*drv.Dev
	for i := 0; i < nDev; i++ {
		d, err := a.AddDevice(uint32(100+i*7+rng.Intn(5)), 1<<40)
		if err != nil {
			r.Inconc(err.Error())
			return
		}
		devs = append(devs, d)
	}
	weeks := 1 + rng.Intn(2)
	for wk := 0; wk < weeks; wk++ {
		off := a.S.VerifSnapshot(false).Offset
		drv.SetClock(off + 100)
		for i := 0; i < 2+rng.Intn(4); i++ {
			a.Inject(devs[rng.Intn(nDev)].Report(off+uint32(10+i*3), uint64(5000+rng.Intn(1000))).Bytes())
		}
		drv.SetClock(off + 3201)
		if n := drv.StepRotation(); n != 1 {
			r.Inconc(fmt.Sprintf("expected one rotation, saw %d", n))
			return
		}
	}
	off := a.S.VerifSnapshot(false).Offset
	drv.SetClock(off + 50)
	for i := 0; i < 3; i++ {
		a.Inject(devs[rng.Intn(nDev)].Report(off+uint32(20+i), uint64(7000+rng.Intn(1000))).Bytes())
	}
	drv.SetClock(off) // the closing server's released rotation loop must find nothing to do
	if err := a.Close(); err != nil {
		r.Inconc("close: " + err.Error())
		return
	}
	closed = true
	auths, reports, stats := a.ReadFile("equipment-authorizations.dat"), a.ReadFile("equipment-reports.dat"), a.ReadFile("allDeviceStats.dat")
	recs, err := refenc.ParseStatsStream(stats)
	if len(auths) != nDev*148 || len(reports) == 0 || len(reports)%80 != 0 || err != nil || len(recs) != weeks {
		r.Inconc(fmt.Sprintf("base directory is not as expected: %d auth bytes for %d devices, %d report bytes, %d stats records (%v)", len(auths), nDev, len(reports), len(recs), err))
		return
	}
	// material for the partial trailing records: real, validly signed next records
	nextAuth := a.MkAuth(9000, refenc.GenKey(rng).Pub, 1<<40).Bytes()
	nextRep := devs[0].Report(off+40, 8000).Bytes()
	nextStats := refenc.Stats{Week: off, Devices: recs[len(recs)-1].Devices}
	nextStats.Sig = refenc.Sign(a.Key.Priv, nextStats.SigningBytes())

	n := 0
	// try starts the real server on a copy of the base directory in which one
	// file was replaced. Returns the started server (to be closed) or nil.
	try := func(file string, content []byte) (*drv.Srv, error) {
		n++
		dir := filepath.Join(b.Dir, fmt.Sprintf("v%02d", n))
		if err := copyDir(base, dir); err != nil {
			return nil, fmt.Errorf("harness: copy: %v", err)
		}
		if file != "" {
			if err := os.WriteFile(filepath.Join(dir, file), content, 0644); err != nil {
				return nil, fmt.Errorf("harness: write: %v", err)
			}
		}
		drv.SetClock(off)
		run.Op("start on copy with %s of %d bytes", file, len(content))
		e := &drv.Srv{Dir: dir}
		if err := e.Start(); err != nil {
			os.RemoveAll(dir)
			return nil, err
		}
		return e, nil
	}
	finish := func(e *drv.Srv) {
		drv.SetClock(e.S.VerifSnapshot(false).Offset)
		e.Close()
		os.RemoveAll(e.Dir)
	}

	// positive control: the unmodified copy starts and holds the same state
	e, err := try("", nil)
	r.Eval(1)
	if err != nil {
		r.Inconc("the unmodified copy of the server directory does not start: " + err.Error())
		return
	}
	snap := e.S.VerifSnapshot(true)
	if len(snap.Equipment) != nDev || snap.Offset != off || len(snap.History) != weeks {
		r.Inconc(fmt.Sprintf("the unmodified copy started with %d devices, offset %d, %d weeks (want %d, %d, %d)", len(snap.Equipment), snap.Offset, len(snap.History), nDev, off, weeks))
		finish(e)
		return
	}
	finish(e)
	r.Count("disklen.control_started", 1)

	type probe struct {
		file    string
		content []byte
		what    string
	}
	var ps []probe
	tail := func(valid, next []byte, rs []int, file string) {
		for _, k := range rs {
			ps = append(ps, probe{file, append(append([]byte(nil), valid...), next[:k]...), fmt.Sprintf("whole records + %d bytes of a next valid record", k)})
		}
		junk := make([]byte, rs[rng.Intn(len(rs))])
		rng.Read(junk)
		ps = append(ps, probe{file, append(append([]byte(nil), valid...), junk...), fmt.Sprintf("whole records + %d random bytes", len(junk))})
		cut := 1 + rng.Intn(len(next)-1)
		ps = append(ps, probe{file, append([]byte(nil), valid[:len(valid)-cut]...), fmt.Sprintf("last record cut by %d bytes", cut)})
	}
	tail(auths, nextAuth, []int{1, 74, 147, 1 + rng.Intn(147)}, "equipment-authorizations.dat")
	tail(reports, nextRep, []int{1, 40, 79, 1 + rng.Intn(79)}, "equipment-reports.dat")
	for _, p := range ps {
		e, err := try(p.file, p.content)
		r.Eval(1)
		r.Count("len.disk."+p.file, 1)
		if err != nil && len(err.Error()) > 8 && err.Error()[:8] == "harness:" {
			r.Inconc(err.Error())
			return
		}
		if err == nil {
			st := e.S.VerifSnapshot(false)
			r.Violationf("wrong-length-accepted:"+p.file, map[string]interface{}{"file": p.file, "length": len(p.content), "probe": p.what, "devices_loaded": len(st.Equipment)},
				"the server started on a %s of %d bytes (%s): a file whose length is not a whole number of records must be refused", p.file, len(p.content), p.what)
			finish(e)
			continue
		}
		r.Count("len.refused", 1)
		r.Count("disklen.refused_at_start", 1)
	}
	// weekly statistics file: an incomplete trailing record is either refused
	// or dropped (start succeeds, exactly the whole records are kept, in
	// memory and on disk) - never half-read
	full := nextStats.Bytes()
	for _, k := range []int{1, 3, 4, 71, len(full) / 2, len(full) - 1, 4 + rng.Intn(len(full)-5)} {
		content := append(append([]byte(nil), stats...), full[:k]...)
		e, err := try("allDeviceStats.dat", content)
		r.Eval(1)
		r.Count("len.disk.allDeviceStats.dat", 1)
		if err != nil {
			if len(err.Error()) > 8 && err.Error()[:8] == "harness:" {
				r.Inconc(err.Error())
				return
			}
			r.Count("len.refused", 1)
			r.Count("disklen.stats_partial_record_refused", 1)
			continue
		}
		st := e.S.VerifSnapshot(true)
		onDisk := e.ReadFile("allDeviceStats.dat")
		if len(st.History) != weeks || st.Offset != off || !bytes.Equal(onDisk, stats) {
			r.Violationf("wrong-length-accepted:allDeviceStats.dat", map[string]interface{}{"partial_bytes": k, "weeks_loaded": len(st.History), "offset": st.Offset, "file_bytes_after_start": len(onDisk), "whole_records_bytes": len(stats)},
				"history file = %d whole records + %d bytes of a next record: the server started with %d weeks, offset %d and a file of %d bytes (want %d weeks, offset %d, %d bytes)", weeks, k, len(st.History), st.Offset, len(onDisk), weeks, off, len(stats))
		} else {
			r.Count("disklen.stats_partial_record_dropped", 1)
		}
		finish(e)
	}
	r.Sample(map[string]interface{}{"kind": "disk lengths", "devices": nDev, "weeks": weeks, "auth_bytes": len(auths), "report_bytes": len(reports), "stats_bytes": len(stats), "probes": len(ps) + 7})
}

// ---------------------------------------------------------------- migration order at the size limit of the sync reply

const (
	syncOther   = 580               // sync reply length = order length + 580
	maxOrderLen = 65535 - syncOther // largest order whose reply fits the u16 length prefix
)

func asciiLoc(rng *rand.Rand, l int) string {
	const cs = "abcdefghijklmnopqrstuvwxyz0123456789.-"
	b := make([]byte, l)
	for i := range b {
		b[i] = cs[rng.Intn(len(cs))]
	}
	return string(b)
}

func childMigSize(b run.Batch, r *ev.Result) {
	rng := rand.New(rand.NewSource(b.Seed))
	drv.SetClock(0)
	drv.GateRotation(true)
	drv.GateImpact(true)
	a, err := drv.NewWorld(filepath.Join(b.Dir, "srv"), rng)
	if err != nil {
		r.Inconc("cannot start world: " + err.Error())
		return
	}
	defer os.RemoveAll(a.Dir)
	defer a.Close()
	dev, err := a.AddDevice(uint32(1+rng.Intn(1<<20)), 1<<40)
	if err != nil {
		r.Inconc(err.Error())
		return
	}
	newGCA := refenc.GenKey(rng)
	mk := func(l int) refenc.AuthServer {
		s := refenc.AuthServer{Location: asciiLoc(rng, l), HTTP: gU16(rng), TCP: gU16(rng), UDP: gU16(rng), Banned: rng.Intn(8) == 0}
		rng.Read(s.Pub[:])
		return s.Signed(newGCA.Priv)
	}
	// common prefix of servers; three tuned servers complete every order
	sizes := []int{maxOrderLen + 1, maxOrderLen + 32, maxOrderLen + 33, maxOrderLen + 64, maxOrderLen + 65, maxOrderLen + 1 + rng.Intn(200), maxOrderLen + 66 + rng.Intn(2000)}
	var prefix []refenc.AuthServer
	sum := 0
	maxL := 255
	if rng.Intn(2) == 0 {
		maxL = 40 + rng.Intn(200) // more, smaller entries
	}
	for maxOrderLen-132-sum > 900 {
		s := mk(rng.Intn(maxL + 1))
		if rng.Intn(4) == 0 {
			s = mk(255)
		}
		prefix = append(prefix, s)
		sum += 104 + len(s.Location)
	}
	build := func(n int) (refenc.Migration, bool) {
		m := refenc.Migration{Equipment: dev.Key.Pub, NewGCA: newGCA.Pub, NewID: gU32(rng), Servers: append([]refenc.AuthServer(nil), prefix...)}
		local := sum
		for n-132-local-3*104 > 3*255 { // far above the limit: more full entries first
			m.Servers = append(m.Servers, mk(255))
			local += 104 + 255
		}
		rest := n - 132 - local - 3*104 // location bytes to spread over three servers
		for i := 0; i < 3; i++ {
			l := rest / (3 - i)
			if l > 255 {
				l = 255
			}
			if l < 0 {
				return m, false
			}
			rest -= l
			m.Servers = append(m.Servers, mk(l))
		}
		if rest != 0 {
			// larger orders: more full entries, then retune
			return m, false
		}
		m = m.Signed(a.GCA.Priv)
		return m, len(m.Bytes()) == n
	}
	sync := func() (refenc.SyncReply, []byte, error) {
		raw, cut, err := syncRaw(a.Srv, dev.ID)
		if cut {
			return refenc.SyncReply{}, nil, fmt.Errorf("harness: sync reply empty or cut short in 4 attempts (%d bytes, %v): connection deadline on an overloaded machine", len(raw), err)
		}
		rep, refused, err := refenc.ParseSyncReply(raw)
		if err == nil && refused {
			err = fmt.Errorf("sync refused")
		}
		return rep, raw, err
	}
	orderFree := func(rep refenc.SyncReply) bool {
		return rep.NewGCA == [32]byte{} && len(rep.Servers) == 0 && rep.MigSig == [64]byte{}
	}
	// The server reads a request for at most ServerShutdownTime/2 (2.5 s in the
	// test build); a body cut short by that timeout is answered 400 'Invalid
	// request body'. The deadline starts when the request's first bytes
	// arrive, so an exchange that took less than fastLimit in total, measured
	// here around the single request (body written in one go on loopback),
	// cannot have hit it: three consecutive fast 400s are the server's own
	// verdict on the body. A slow 400 or a transport error is retried (the
	// identical order is idempotent) and decides nothing if it persists.
	readTimeout := server.VerifConsts().ServerShutdownTime / 2
	fastLimit := time.Second
	if readTimeout/2 < fastLimit {
		fastLimit = readTimeout / 2
	}
	post := func(m refenc.Migration) (int, []byte, bool) {
		run.Op("equipment-migrate order of %d bytes, %d servers, %d JSON bytes", len(m.Bytes()), len(m.Servers), len(m.JSON()))
		fast400 := 0
		var st int
		var body []byte
		var err error
		for try := 0; try < 7; try++ {
			t0 := time.Now()
			st, body, err = a.PostMigration(m)
			el := time.Since(t0)
			if err == nil && st != 400 {
				return st, body, true
			}
			if err == nil && el < fastLimit {
				fast400++
				if fast400 >= 3 {
					r.Count("migsize.fast_400_decided", 1)
					return st, body, true
				}
				continue
			}
			fast400 = 0
			r.Count("migsize.post_retried", 1)
		}
		r.Inconc(fmt.Sprintf("POST /equipment-migrate did not get through in 7 attempts (status %d, %v): request read timeout on an overloaded machine", st, err))
		return 0, nil, false
	}
	// accepted judges an order that must be accepted and then delivered
	accepted := func(m refenc.Migration, what string) bool {
		n := len(m.Bytes())
		st, body, ok := post(m)
		if !ok {
			return false
		}
		r.Eval(1)
		r.Nontrivial(fmt.Sprintf("mig/%d/%x", n, m.Sig[:8]))
		if st != 200 {
			r.Violationf("deliverable-migration-refused", map[string]interface{}{"order_bytes": n, "servers": len(m.Servers), "json_bytes": len(m.JSON()), "limit": maxOrderLen, "status": st, "body": string(bytes.TrimSpace(body)), "case": what},
				"%s: a validly signed migration order of %d bytes with %d servers (JSON body %d bytes; its sync reply has %d <= 65535 bytes) was refused: %d %s", what, n, len(m.Servers), len(m.JSON()), n+syncOther, st, bytes.TrimSpace(body))
			return false
		}
		rep, raw, err := sync()
		if err != nil && len(err.Error()) > 8 && err.Error()[:8] == "harness:" {
			r.Inconc(err.Error())
			return false
		}
		r.Eval(1)
		r.Count("migsize.accepted_and_synced", 1)
		r.Max("max.sync_reply_bytes", int64(len(raw)))
		r.Max("max.migration_json_bytes", int64(len(m.JSON())))
		same := err == nil && rep.DevKey == dev.Key.Pub && rep.NewGCA == m.NewGCA && rep.NewID == m.NewID && rep.MigSig == m.Sig && len(rep.Servers) == len(m.Servers)
		for i := 0; same && i < len(m.Servers); i++ {
			same = rep.Servers[i] == m.Servers[i]
		}
		if !same || len(raw) != 2+n+syncOther || !refenc.Verify(a.GCA.Pub, m.SigningBytes(), rep.MigSig) {
			r.Violationf("sync-reply-does-not-carry-order", map[string]interface{}{"order_bytes": n, "reply_bytes": len(raw), "length_prefix": prefixOf(raw), "parse_error": fmt.Sprint(err), "case": what},
				"%s: accepted %d byte order: the sync reply (%d bytes, length prefix %d, want %d) does not decode to that order: %v", what, n, len(raw), prefixOf(raw), n+syncOther, err)
			return false
		}
		return true
	}
	rep, raw, err := sync()
	if err != nil || !orderFree(rep) {
		r.Inconc(fmt.Sprintf("baseline sync reply: %v (%d bytes)", err, len(raw)))
		return
	}
	// ---- many-server orders well inside the serialized limit (their JSON
	// bodies range from below 64 KiB to several hundred KiB): accepted and delivered
	for _, cnt := range []int{100, 135, 140, 150, 250, 400, 520, 101 + rng.Intn(400)} {
		room := (maxOrderLen-132)/cnt - 104 // location bytes per entry that still fit
		if room > 255 {
			room = 255
		}
		m := refenc.Migration{Equipment: dev.Key.Pub, NewGCA: newGCA.Pub, NewID: gU32(rng)}
		for i := 0; i < cnt; i++ {
			l := rng.Intn(room + 1)
			if rng.Intn(3) == 0 {
				l = room
			}
			m.Servers = append(m.Servers, mk(l))
		}
		m = m.Signed(a.GCA.Priv)
		if !accepted(m, fmt.Sprintf("order with %d servers", cnt)) {
			return
		}
		r.Count("migsize.large_orders_accepted", 1)
	}
	// take the order away again (an order with no servers is a valid order;
	// the reply then carries it instead of a list) - the oversize probes
	// below compare against this state
	baseOrder := refenc.Migration{Equipment: dev.Key.Pub, NewGCA: newGCA.Pub, NewID: gU32(rng)}.Signed(a.GCA.Priv)
	if !accepted(baseOrder, "order with no servers") {
		return
	}
	orderFree = func(rep refenc.SyncReply) bool {
		return rep.NewGCA == baseOrder.NewGCA && rep.NewID == baseOrder.NewID && len(rep.Servers) == 0 && rep.MigSig == baseOrder.Sig
	}
	// ---- orders above the limit: refused, and the reply stays as it was and decodable
	rng.Shuffle(len(sizes), func(i, j int) { sizes[i], sizes[j] = sizes[j], sizes[i] })
	for _, n := range sizes {
		m, ok := build(n)
		if !ok {
			if n <= maxOrderLen+65 {
				r.Inconc(fmt.Sprintf("harness could not build an order of exactly %d bytes", n))
				return
			}
			continue
		}
		st, body, ok := post(m)
		if !ok {
			return
		}
		r.Eval(1)
		r.Count("migsize.oversize_posted", 1)
		r.Nontrivial(fmt.Sprintf("mig/%d/%x", n, m.Sig[:8]))
		rep, raw, err := sync()
		if err != nil && len(err.Error()) > 8 && err.Error()[:8] == "harness:" {
			r.Inconc(err.Error())
			return
		}
		r.Eval(1)
		if st == 200 {
			r.Violationf("oversize-migration-accepted", map[string]interface{}{"order_bytes": n, "limit": maxOrderLen, "servers": len(m.Servers), "reply_bytes": len(raw), "reply_prefix": hx(raw[:min(len(raw), 8)]), "parse_error": fmt.Sprint(err)},
				"a migration order of %d bytes (limit %d: the sync reply would be %d bytes, above the 65535 a u16 length prefix can announce) was accepted; the device's sync reply now has %d bytes with length prefix %d and parses: %v",
				n, maxOrderLen, n+syncOther, len(raw), prefixOf(raw), err)
			return
		}
		r.Count("migsize.oversize_refused", 1)
		r.Count("len.refused", 1)
		if err != nil || !orderFree(rep) {
			r.Violationf("refused-migration-changed-sync-reply", map[string]interface{}{"order_bytes": n, "status": st, "body": string(bytes.TrimSpace(body)), "reply_bytes": len(raw), "parse_error": fmt.Sprint(err)},
				"the %d byte order was refused (status %d) but the device's sync reply is no longer the order-free, decodable reply: %v", n, st, err)
			return
		}
	}
	// ---- orders at and just below the limit: accepted, and the reply carries exactly the order
	for _, n := range []int{maxOrderLen - 1 - rng.Intn(200), maxOrderLen - 1, maxOrderLen} {
		m, ok := build(n)
		if !ok {
			r.Inconc(fmt.Sprintf("harness could not build an order of exactly %d bytes", n))
			return
		}
		if !accepted(m, "order at the size limit") {
			return
		}
		if n == maxOrderLen {
			r.Count("migsize.largest_deliverable_order_synced", 1)
		}
	}
	r.Sample(map[string]interface{}{"kind": "migration size limit", "limit": maxOrderLen, "prefix_servers": len(prefix), "oversize_sizes": sizes})
}

func prefixOf(raw []byte) int {
	if len(raw) < 2 {
		return -1
	}
	return int(binary.LittleEndian.Uint16(raw))
}
