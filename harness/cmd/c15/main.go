//go:build test

// C15 — Wire and disk encodings are exact, stable and unambiguous.
//
// The repository's real Serialize / SigningBytes / Deserialize* / Sign /
// Verify / SerializeGCAServerMap / UntrustedDeserializeGCAServerMap /
// DeserializeStreamAllDeviceStats are executed on generated values and
// compared byte-exactly with lib/refenc (written from the documented layouts)
// and with go-ethereum's crypto package used directly. JSON transport is
// observed on the real server: POST /authorize-equipment -> GET /equipment,
// the bytes of equipment-authorizations.dat, a restart, and the server's own
// server-to-server forwarding.
//
// The generators and oracles live in gen.go, structs.go, crypto.go, json.go.
package main

import (
	"fmt"

	"verifharness/lib/ev"
	"verifharness/lib/run"
)

func main() {
	run.Main(run.Spec{
		ID:    "C15",
		Level: "exploration",
		Pkg:   "./cmd/c15",
		Rule: "evaluations = encode / decode / signing-bytes / length / injectivity / Sign / Verify executions judged. Non-trivial = value with at least one non-zero field, distinct by its reference encoding " +
			"(for Verify: distinct (message, key, flipped bit) triples are counted in observed.verify_bitflips, not hashed).",
		Assumptions: []string{
			"lib/refenc (reference layouts, DESIGN Appendix A) and go-ethereum's secp256k1/Keccak are the trusted base",
			"DeserializeStreamAllDeviceStats is only fed truncations and extensions of valid streams whose device-count field is intact or entirely absent: a garbage count makes it attempt a multi-terabyte allocation before any length check; that input comes only from the server's own trusted file and is not a 'wrong length' in the property's sense (DESIGN §6)",
			"for the self-delimiting streams (weekly statistics file, client server map) length 0 and 2x valid are valid streams (0 records / the records twice) and are judged as such; 'wrong length' = a length at which the reference parser finds no record boundary",
			"AuthorizedServer locations are 0..255 bytes (the layout's u8 length field); longer locations are not encodable in the documented layout and are outside the generators",
			"floats are all finite classes (+-0, subnormals, +-MaxFloat64, random finite bit patterns); NaN and Inf are outside the property ('NaN-free') and JSON cannot carry them",
			"AuthorizedServer, EquipmentMigration and GCARegistration have no binary decoder in the repository; for them encode and signing bytes are judged, decoding is judged through the real JSON endpoints",
			"disk-level length probes start the real server on copies of a directory a real server wrote, with one file extended by part of a next valid record / random bytes or cut inside its last record: equipment-authorizations.dat and equipment-reports.dat must be refused at start; for allDeviceStats.dat refusal and 'start succeeds, the incomplete trailing record is dropped from memory and file' are both accepted (the tree does the latter on purpose, fix ad3b1c3)",
			"migration orders of exactly N bytes (N around 64955 = 65535-580, the largest order whose sync reply fits the u16 length prefix) are built from validly signed entries with tuned location lengths; above the limit the endpoint must refuse and the device's raw sync reply must stay order-free and decodable, at and below it the raw sync reply must decode (reference parser) to exactly that order",
			"live wire batches: the server's list of authorized servers is built through the real endpoint (records with locations of 0/1/short/255 bytes, entries posted as banned and entries banned later in place); after every step the device's raw TCP sync reply must equal refenc.BuildSyncReply of the posted records (only the unix time is taken from the reply), GET /authorized-servers must return them, the real client's decoder (VerifServerSync) must return them and, at some steps and for every migration order, a fresh real client's full sync round must end with exactly those records in memory and in gcaServers.dat. Locations are chosen so that the server's own fan-out to them fails at once (leading space / port 1)",
			"fan-out: an authorization absent on the newly authorized server is a violation only if the sender's log shows no failed send and the receiver's log no refusal (forwarding is fire-and-forget; a failed POST is logged and not judged)",
			"bit flips: all bits of signing bytes, signature and key for messages up to 4096 bits; for the 32 KiB-per-device statistics records all bits of the first 96 and last 16 bytes plus a seeded random sample",
		},
		Plan:  plan,
		Child: child,
		Post:  post,
	})
}

func plan(tier string, seed int64) []run.Batch {
	var bs []run.Batch
	add := func(kind string, n int, params map[string]string) {
		to := 300 // pure function batches host no server or client (which would panic by design after 120 s)
		if kind == "json" || kind == "disklen" || kind == "migsize" || kind == "wire" || kind == "fanout" {
			to = 110
		}
		bs = append(bs, run.Batch{Kind: kind, Seed: seed*1000 + int64(len(bs)), N: n, TimeoutS: to, Params: params})
	}
	q := tier != "thorough"
	pick := func(a, b int) int {
		if q {
			return a
		}
		return b
	}
	for i := 0; i < pick(4, 16); i++ {
		add("fixed", pick(5000, 40000), nil)
	}
	for i := 0; i < pick(4, 12); i++ {
		add("servers", pick(600, 4000), nil)
	}
	for i := 0; i < pick(4, 16); i++ {
		add("stats", pick(25, 120), nil)
	}
	for i := 0; i < pick(8, 64); i++ {
		add("crypto", pick(24, 28), nil)
	}
	for i := 0; i < pick(3, 12); i++ {
		add("json", pick(200, 300), nil)
	}
	for i := 0; i < pick(2, 6); i++ {
		add("disklen", 0, nil)
		add("migsize", 0, nil)
	}
	for i := 0; i < pick(1, 4); i++ {
		add("wire", 0, nil)
		add("fanout", 0, nil)
	}
	// the same case list in two processes: signatures must be identical
	bs = append(bs, run.Batch{Kind: "signdet", Seed: seed * 7919, N: pick(64, 512), TimeoutS: 300, Params: map[string]string{"proc": "a"}})
	bs = append(bs, run.Batch{Kind: "signdet", Seed: seed * 7919, N: pick(64, 512), TimeoutS: 300, Params: map[string]string{"proc": "b"}})
	return bs
}

func child(b run.Batch, r *ev.Result) {
	switch b.Kind {
	case "fixed":
		childFixed(b, r)
	case "servers":
		childServers(b, r)
	case "stats":
		childStats(b, r)
	case "crypto":
		childCrypto(b, r)
	case "json":
		childJSON(b, r)
	case "signdet":
		childSignDet(b, r)
	case "wire":
		childWire(b, r)
	case "fanout":
		childFanout(b, r)
	case "disklen":
		childDiskLen(b, r)
	case "migsize":
		childMigSize(b, r)
	default:
		r.Inconc("unknown batch kind " + b.Kind)
	}
}

func post(c *ev.Check, outs []*run.Outcome) {
	for _, k := range []string{"enc.report", "enc.authorization", "enc.stats", "enc.servermap", "enc.authserver", "enc.migration", "signing.registration",
		"dec.report", "dec.authorization", "dec.stats", "dec.servermap"} {
		c.Require(k, 20)
	}
	for _, k := range []string{"len.report", "len.authorization", "len.stats", "len.servermap", "len.refused", "len.valid_stream_accepted",
		"inj.perturbations", "crosstype.pairs", "sign.deterministic", "sign.equals_goethereum", "verify.accepts_valid", "verify.accepts_other_valid_signature",
		"verify_bitflips", "verify.wrong_key", "json.post_accepted", "json.get_compared", "json.file_records_compared", "json.forwarded_compared", "json.after_restart_compared",
		"json.float_class.negzero", "json.float_class.subnormal", "json.float_class.max", "servermap.location_65535", "servermap.empty", "stats.empty_stream", "stats.zero_devices",
		"disk.stats_record_verified", "disklen.control_started", "disklen.refused_at_start", "len.disk.equipment-authorizations.dat", "len.disk.equipment-reports.dat", "len.disk.allDeviceStats.dat",
		"migsize.accepted_and_synced", "migsize.largest_deliverable_order_synced", "wire.list_scenarios", "wire.registration_response_compared"} {
		c.Require(k, 1)
	}
	c.Require("migsize.oversize_refused", 5)
	c.Require("wire.sync_replies_compared", 10)
	c.Require("wire.client_decodes_compared", 10)
	c.Require("wire.client_rounds_compared", 4)
	c.Require("wire.orders_compared", 9)
	c.Require("wire.orders_with_repeated_key", 5)
	c.Require("migsize.large_orders_accepted", 7)
	c.Require("max.wire_list_entries", 8)
	c.Require("max.wire_list_bytes", 1000)
	c.Require("fanout.scenarios", 5)
	c.Require("fanout.complete", 3)
	if c.Counter("disklen.stats_partial_record_dropped")+c.Counter("disklen.stats_partial_record_refused") < 1 {
		c.Inconc("no history file with an incomplete trailing record was judged")
	}
	walls := map[string]float64{}
	for _, o := range outs {
		if o.WallS > walls[o.Batch.Kind] {
			walls[o.Batch.Kind] = o.WallS
		}
	}
	c.SetExtra("batch_wall_max_s", walls)
	// Sign determinism across processes
	var a, b []interface{}
	for _, o := range outs {
		if o.Result == nil || o.Batch.Kind != "signdet" {
			continue
		}
		l, _ := o.Result.Extra["signdet.sigs"].([]interface{})
		if o.Batch.P("proc") == "a" {
			a = l
		} else {
			b = l
		}
	}
	if len(a) == 0 || len(a) != len(b) {
		c.SetExtra("signdet.sigs", "not compared")
		c.Inconc(fmt.Sprintf("cross-process determinism: the two processes reported %d and %d signatures", len(a), len(b)))
		return
	}
	for i := range a {
		if a[i] != b[i] {
			c.Violation("sign-differs-across-processes", fmt.Sprintf("case %d of the shared list: glow.Sign gave %v in one process and %v in the other", i, a[i], b[i]),
				map[string]interface{}{"case": i, "proc_a": a[i], "proc_b": b[i], "seed": outs[len(outs)-1].Batch.Seed})
			break
		}
	}
	c.AddCounter("sign.cross_process_compared", int64(len(a)))
	c.SetExtra("signdet.sigs", fmt.Sprintf("%d signatures compared between two processes; first: %v", len(a), a[0]))
}
