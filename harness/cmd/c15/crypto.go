//go:build test

package main

import (
	"encoding/hex"
	"fmt"
	"math/rand"

	"github.com/ethereum/go-ethereum/crypto"
	"github.com/glowlabs-org/gca-backend/glow"

	"verifharness/lib/ev"
	"verifharness/lib/refenc"
	"verifharness/lib/run"
)

type message struct {
	kind string
	b    []byte
}

// messages returns signing bytes of every structure (reference encoded) and
// raw byte strings, as a fixed function of the PRNG.
func messages(rng *rand.Rand, n int, withStats bool) []message {
	var out []message
	for i := 0; i < n; i++ {
		switch i % 8 {
		case 0:
			out = append(out, message{"EquipmentReport", gReport(rng).SigningBytes()})
		case 1:
			out = append(out, message{"EquipmentAuthorization", gAuth(rng).SigningBytes()})
		case 2:
			out = append(out, message{"GCARegistration", refenc.Registration{GCAKey: gBytes32(rng)}.SigningBytes()})
		case 3:
			out = append(out, message{"AuthorizedServer", gAuthServer(rng).SigningBytes()})
		case 4:
			out = append(out, message{"EquipmentMigration", gMigration(rng, 2).SigningBytes()})
		case 5:
			if withStats {
				s := gStats(rng, 1)
				if len(s.Devices) == 0 {
					s.Devices = make([]refenc.DevStats, 1)
					s.Devices[0].Power[rng.Intn(2016)] = gU64(rng)
				}
				out = append(out, message{"AllDeviceStats", s.SigningBytes()})
			} else {
				out = append(out, message{"AllDeviceStats", refenc.Stats{Week: gU32(rng)}.SigningBytes()})
			}
		case 6:
			b := make([]byte, rng.Intn(300))
			rng.Read(b)
			out = append(out, message{"raw", b})
		case 7:
			l := []int{0, 1, 31, 32, 33, 64, 135, 136, 137}[rng.Intn(9)] // around Keccak's 136 byte rate
			out = append(out, message{"raw", make([]byte, l)})
		}
	}
	return out
}

func flip(b []byte, i int) []byte {
	c := append([]byte(nil), b...)
	c[i/8] ^= 1 << (uint(i) % 8)
	return c
}

// bitPositions: all bits up to 4096 bits, else both ends plus a random sample.
func bitPositions(rng *rand.Rand, nbits int) []int {
	if nbits <= 4096 {
		p := make([]int, nbits)
		for i := range p {
			p[i] = i
		}
		return p
	}
	var p []int
	for i := 0; i < 96*8; i++ {
		p = append(p, i)
	}
	for i := nbits - 16*8; i < nbits; i++ {
		p = append(p, i)
	}
	for i := 0; i < 1500; i++ {
		p = append(p, 96*8+rng.Intn(nbits-112*8))
	}
	return p
}

// goEthereumSign signs with go-ethereum directly (no helper of the repo or of refenc).
func goEthereumSign(priv [32]byte, msg []byte) (sig [64]byte, err error) {
	k, err := crypto.ToECDSA(priv[:])
	if err != nil {
		return sig, err
	}
	s, err := crypto.Sign(crypto.Keccak256(msg), k)
	if err != nil {
		return sig, err
	}
	copy(sig[:], s[:64])
	return sig, nil
}

func goEthereumVerify(pub [32]byte, msg []byte, sig [64]byte) bool {
	pk, err := crypto.DecompressPubkey(append([]byte{0x02}, pub[:]...))
	if err != nil {
		return false
	}
	return crypto.VerifySignature(crypto.FromECDSAPub(pk), crypto.Keccak256(msg), sig[:])
}

func childCrypto(b run.Batch, r *ev.Result) {
	rng := rand.New(rand.NewSource(b.Seed))
	msgs := messages(rng, b.N, true)
	others := []refenc.Key{refenc.GenKey(rng), refenc.GenKey(rng), refenc.GenKey(rng)}
	for mi, m := range msgs {
		if r.NumViolations() >= 20 {
			return
		}
		k := refenc.GenKey(rng)
		replay := func(extra map[string]interface{}) map[string]interface{} {
			out := map[string]interface{}{"kind": m.kind, "message": hx(m.b), "message_length": len(m.b), "pub": hex.EncodeToString(k.Pub[:]), "priv": hex.EncodeToString(k.Priv[:])}
			for a, v := range extra {
				out[a] = v
			}
			return out
		}
		run.Op("sign/verify kind=%s len=%d priv=%x", m.kind, len(m.b), k.Priv)
		// Sign: deterministic, and equal to go-ethereum's signature over Keccak-256 of the message
		s1 := glow.Sign(m.b, glow.PrivateKey(k.Priv))
		s2 := glow.Sign(append([]byte(nil), m.b...), glow.PrivateKey(k.Priv))
		r.Eval(1)
		r.Count("sign.deterministic", 1)
		if s1 != s2 {
			r.Violationf("sign-not-deterministic", replay(map[string]interface{}{"sig1": hex.EncodeToString(s1[:]), "sig2": hex.EncodeToString(s2[:])}), "glow.Sign gave two different signatures for the same input in one process")
		}
		want, err := goEthereumSign(k.Priv, m.b)
		r.Eval(1)
		r.Count("sign.equals_goethereum", 1)
		if err != nil || [64]byte(s1) != want {
			r.Violationf("sign-differs-from-reference", replay(map[string]interface{}{"repo": hex.EncodeToString(s1[:]), "reference": hex.EncodeToString(want[:])}),
				"glow.Sign is not r||s of go-ethereum's signature over Keccak-256 of the message")
		}
		// Verify accepts the valid signature and another valid signature of the same key
		r.Eval(2)
		r.Count("verify.accepts_valid", 1)
		if !glow.Verify(glow.PublicKey(k.Pub), m.b, s1) || !goEthereumVerify(k.Pub, m.b, [64]byte(s1)) {
			r.Violationf("verify-rejects-valid", replay(nil), "a signature made by glow.Sign is rejected (repo verify=%v, go-ethereum verify=%v)", glow.Verify(glow.PublicKey(k.Pub), m.b, s1), goEthereumVerify(k.Pub, m.b, [64]byte(s1)))
			continue
		}
		sr := refenc.SignRand(k.Priv, m.b)
		r.Count("verify.accepts_other_valid_signature", 1)
		if !glow.Verify(glow.PublicKey(k.Pub), m.b, glow.Signature(sr)) {
			r.Violationf("verify-rejects-valid", replay(map[string]interface{}{"sig": hex.EncodeToString(sr[:])}), "a valid random-nonce low-s signature over the same bytes is rejected")
		}
		// every single-bit flip of the message, the signature, the key
		full := mi%2 == 0 || len(m.b) > 512
		flips := 0
		bad := func(part string, bit int) {
			r.Violationf("verify-accepts-after-bitflip:"+part, replay(map[string]interface{}{"part": part, "bit": bit, "sig": hex.EncodeToString(s1[:])}),
				"Verify still succeeds after flipping bit %d of the %s (%s message of %d bytes)", bit, part, m.kind, len(m.b))
		}
		pos := bitPositions(rng, len(m.b)*8)
		if !full {
			pos = sample(rng, pos, 64)
		}
		for _, i := range pos {
			flips++
			if glow.Verify(glow.PublicKey(k.Pub), flip(m.b, i), s1) {
				bad("signing bytes", i)
				break
			}
		}
		sigPos, keyPos := bitPositions(rng, 512), bitPositions(rng, 256)
		if !full {
			sigPos, keyPos = sample(rng, sigPos, 64), sample(rng, keyPos, 32)
		}
		for _, i := range sigPos {
			flips++
			var s glow.Signature
			copy(s[:], flip(s1[:], i))
			if glow.Verify(glow.PublicKey(k.Pub), m.b, s) {
				bad("signature", i)
				break
			}
		}
		for _, i := range keyPos {
			flips++
			var p glow.PublicKey
			copy(p[:], flip(k.Pub[:], i))
			if glow.Verify(p, m.b, s1) {
				bad("public key", i)
				break
			}
		}
		r.Eval(flips)
		r.Count("verify_bitflips", int64(flips))
		if full {
			r.Count("verify.messages_with_all_bits_flipped", 1)
		}
		// appended / removed bytes are a different message too
		r.Eval(2)
		if glow.Verify(glow.PublicKey(k.Pub), append(append([]byte(nil), m.b...), 0), s1) || (len(m.b) > 0 && glow.Verify(glow.PublicKey(k.Pub), m.b[:len(m.b)-1], s1)) {
			r.Violationf("verify-accepts-other-length", replay(nil), "Verify succeeds for the message with one byte appended or removed")
		}
		// the algebraic twin (r, N-s) satisfies the raw ECDSA equation but is a different 64-byte
		// signature that nobody signed: "changing any signed bit makes verification fail" covers it
		r.Eval(1)
		r.Count("verify.twin_signatures", 1)
		if glow.Verify(glow.PublicKey(k.Pub), m.b, glow.Signature(refenc.TwinSig([64]byte(s1)))) {
			r.Violationf("verify-accepts-malleable-twin-signature", replay(map[string]interface{}{"sig": hex.EncodeToString(s1[:])}), "Verify accepts the twin (r, N-s) of a valid signature")
		}
		// signatures by K never verify under K'
		for _, o := range others {
			k2 := o
			if rng.Intn(3) == 0 {
				k2 = refenc.GenKey(rng)
			}
			r.Eval(1)
			r.Count("verify.wrong_key", 1)
			if glow.Verify(glow.PublicKey(k2.Pub), m.b, s1) {
				r.Violationf("verify-accepts-wrong-key", replay(map[string]interface{}{"other_pub": hex.EncodeToString(k2.Pub[:])}), "a signature by one key verifies under another key")
			}
			// and a signature by K' over the same bytes does not verify under K
			s3 := refenc.Sign(k2.Priv, m.b)
			r.Eval(1)
			r.Count("verify.wrong_key", 1)
			if glow.Verify(glow.PublicKey(k.Pub), m.b, glow.Signature(s3)) {
				r.Violationf("verify-accepts-wrong-key", replay(map[string]interface{}{"signer_priv": hex.EncodeToString(k2.Priv[:])}), "a signature by another key verifies under this key")
			}
		}
		// the signature of one structure's bytes never verifies another message of the batch
		if mi > 0 {
			prev := msgs[rng.Intn(mi)]
			if string(prev.b) != string(m.b) {
				r.Eval(1)
				if glow.Verify(glow.PublicKey(k.Pub), prev.b, s1) {
					r.Violationf("verify-accepts-other-message", replay(map[string]interface{}{"other": hx(prev.b)}), "a signature over a %s verifies a %s", m.kind, prev.kind)
				}
			}
		}
		// garbage: repo verdict equals go-ethereum's
		var gs glow.Signature
		rng.Read(gs[:])
		gk := gBytes32(rng)
		r.Eval(1)
		r.Count("verify.garbage_compared", 1)
		if got, want := glow.Verify(glow.PublicKey(gk), m.b, gs), goEthereumVerify(gk, m.b, [64]byte(gs)); got != want {
			r.Violationf("verify-differs-from-reference", replay(map[string]interface{}{"sig": hex.EncodeToString(gs[:]), "key": hex.EncodeToString(gk[:])}), "glow.Verify=%v but go-ethereum says %v", got, want)
		}
		r.Nontrivial("c" + string(m.b[:min(len(m.b), 256)]) + string(k.Pub[:]))
		if mi < 2 {
			r.Sample(map[string]interface{}{"kind": "sign/verify", "structure": m.kind, "message_bytes": len(m.b), "bits_flipped": flips, "signature": hex.EncodeToString(s1[:])})
		}
	}
}

func sample(rng *rand.Rand, p []int, n int) []int {
	if len(p) <= n {
		return p
	}
	out := make([]int, n)
	for i, x := range rng.Perm(len(p))[:n] {
		out[i] = p[x]
	}
	return out
}

// childSignDet signs a shared case list; the parent compares two processes.
func childSignDet(b run.Batch, r *ev.Result) {
	rng := rand.New(rand.NewSource(b.Seed))
	msgs := messages(rng, b.N, false)
	sigs := make([]string, 0, len(msgs))
	for _, m := range msgs {
		k := refenc.GenKey(rng)
		run.Op("sign kind=%s len=%d", m.kind, len(m.b))
		s := glow.Sign(m.b, glow.PrivateKey(k.Priv))
		r.Eval(1)
		sigs = append(sigs, fmt.Sprintf("%s/%d:%x", m.kind, len(m.b), s[:]))
	}
	r.SetExtra("signdet.sigs", sigs)
	r.Count("sign.cross_process_cases", int64(len(sigs)))
}
