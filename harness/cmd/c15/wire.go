//go:build test

package main

import (
	"bytes"
	"encoding/binary"
	"encoding/json"
	"fmt"
	"math/rand"
	"os"
	"path/filepath"

	"github.com/glowlabs-org/gca-backend/client"
	"github.com/glowlabs-org/gca-backend/glow"
	"github.com/glowlabs-org/gca-backend/server"

	"verifharness/lib/drv"
	"verifharness/lib/ev"
	"verifharness/lib/refenc"
	"verifharness/lib/run"
)

// The "live wire" batches compare what the hand-written encoders and decoders
// of the TCP sync protocol and of the server-to-server fan-out put on the wire
// with the reference encodings, through the real listeners and the real client.

// wireLoc returns a location of exactly l bytes that the server's own fan-out
// (http.Post to every listed server) cannot reach and fails on at once: it
// starts with a space (URL parse error, no DNS lookup). The empty location
// ("http://:port") is paired with port 1 (connection refused on loopback).
func wireLoc(rng *rand.Rand, l int) string {
	if l == 0 {
		return ""
	}
	return " " + asciiLoc(rng, l-1)
}

func wireServer(rng *rand.Rand, l int, banned bool, signer refenc.Key) refenc.AuthServer {
	s := refenc.AuthServer{Location: wireLoc(rng, l), Banned: banned, HTTP: 1, TCP: gU16(rng), UDP: gU16(rng)}
	if l > 0 {
		s.HTTP = gU16(rng)
	}
	rng.Read(s.Pub[:])
	return s.Signed(signer.Priv)
}

func fromRepoServer(s server.AuthorizedServer) refenc.AuthServer {
	return refenc.AuthServer{Pub: s.PublicKey, Banned: s.Banned, Location: s.Location, HTTP: s.HttpPort, TCP: s.TcpPort, UDP: s.UdpPort, Sig: s.GCAAuthorization}
}

// syncRaw asks for the device's sync reply. The server gives every sync
// connection a 2.5 s deadline (test build), so on an overloaded machine a reply
// can arrive empty or cut short (fewer bytes than its own length prefix
// announces): that is retried and, if it persists, decides nothing.
func syncRaw(e *drv.Srv, id uint32) (raw []byte, cut bool, err error) {
	var req [4]byte
	binary.LittleEndian.PutUint32(req[:], id)
	for try := 0; try < 4; try++ {
		raw, err = e.SyncRaw(req[:])
		cut = err != nil || len(raw) == 0 || (len(raw) >= 2 && len(raw)-2 < int(binary.LittleEndian.Uint16(raw))) || (len(raw) == 1 && raw[0] != 0)
		if !cut {
			return raw, false, nil
		}
	}
	return raw, true, err
}

func transportError(err error) bool {
	if err == nil {
		return false
	}
	for _, s := range []string{"unable to read", "unable to dial", "unable to send", "did not send enough data", "i/o timeout"} {
		if bytes.Contains([]byte(err.Error()), []byte(s)) {
			return true
		}
	}
	return false
}

type wireWorld struct {
	w     *drv.World
	r     *ev.Result
	rng   *rand.Rand
	dev   *drv.Dev
	dir   string
	bits  [504]byte
	model []refenc.AuthServer // the server's list as the reference rules build it
	order *refenc.Migration
	nCli  int
}

func (x *wireWorld) newClient() (*client.Client, string, error) {
	x.nCli++
	d := filepath.Join(x.dir, fmt.Sprintf("cli%d", x.nCli))
	env := drv.ClientEnv{Dir: d, Key: x.dev.Key, GCA: x.w.GCA.Pub, ShortID: x.dev.ID, LastSync: drv.FreshSyncStamp(),
		Servers: []refenc.MapEntry{{Pub: x.w.Key.Pub, Location: "127.0.0.1", HTTP: x.w.HTTP, TCP: x.w.TCP, UDP: x.w.UDP}}}
	if err := env.Write(); err != nil {
		return nil, d, err
	}
	c, err := drv.StartClient(d)
	return c, d, err
}

// expectedReply is the reference reply for the current model; only the unix
// time is taken from the server's reply.
func (x *wireWorld) expectedReply(unix uint64, offset uint32) []byte {
	rep := refenc.SyncReply{DevKey: x.dev.Key.Pub, Offset: offset, Bitfield: x.bits, Unix: unix}
	if x.order != nil {
		rep.NewGCA, rep.NewID, rep.Servers, rep.MigSig = x.order.NewGCA, x.order.NewID, x.order.Servers, x.order.Sig
	} else {
		rep.Servers = x.model
	}
	return refenc.BuildSyncReply(rep, x.w.Key.Priv)
}

// checkpoint judges the raw reply, the JSON list endpoint and the real
// client's decoder against the model. adopt additionally runs one full sync
// round of a fresh real client and compares the state it ends with.
func (x *wireWorld) checkpoint(c *client.Client, what string, adopt bool) bool {
	r := x.r
	run.Op("sync checkpoint %s (servers=%d order=%v)", what, len(x.model), x.order != nil)
	raw, cut, err := syncRaw(x.w.Srv, x.dev.ID)
	if cut {
		r.Inconc(fmt.Sprintf("raw sync reply empty or cut short in 4 attempts (%d bytes, %v): the server's connection deadline on an overloaded machine", len(raw), err))
		return false
	}
	want := x.model
	if x.order != nil {
		want = x.order.Servers
	}
	listBytes := 0
	for _, s := range want {
		listBytes += 104 + len(s.Location)
	}
	r.Max("max.wire_list_bytes", int64(listBytes))
	r.Max("max.wire_list_entries", int64(len(want)))
	replay := map[string]interface{}{"checkpoint": what, "entries": len(want), "list_bytes": listBytes, "order": x.order != nil, "reply_bytes": len(raw)}
	// ---- the server's bytes
	rep, refused, perr := refenc.ParseSyncReply(raw)
	r.Eval(1)
	r.Count("wire.sync_replies_compared", 1)
	if perr != nil || refused {
		r.Violationf("sync-reply-differs-from-reference", replay, "%s: the sync reply (%d bytes) does not parse as the documented layout: %v refused=%v", what, len(raw), perr, refused)
		return false
	}
	exp := x.expectedReply(rep.Unix, x.w.S.VerifSnapshot(false).Offset)
	if !bytes.Equal(raw, exp) {
		replay["first_difference"] = firstDiff(raw, exp)
		replay["reply"] = hx(raw)
		replay["reference"] = hx(exp)
		detail := ""
		for i := range want {
			if i < len(rep.Servers) && rep.Servers[i] != want[i] {
				detail = fmt.Sprintf("; entry %d is sent as banned=%v location %q ports %d/%d/%d, the GCA signed banned=%v location %q ports %d/%d/%d", i,
					rep.Servers[i].Banned, rep.Servers[i].Location, rep.Servers[i].HTTP, rep.Servers[i].TCP, rep.Servers[i].UDP, want[i].Banned, want[i].Location, want[i].HTTP, want[i].TCP, want[i].UDP)
				break
			}
		}
		r.Violationf("sync-reply-differs-from-reference", replay, "%s: the server's sync reply differs from the reference encoding of its own records at byte %d (%d vs %d bytes)%s", what, firstDiff(raw, exp), len(raw), len(exp), detail)
		return false
	}
	for _, s := range rep.Servers {
		signer := x.w.GCA.Pub
		if x.order != nil {
			signer = x.order.NewGCA
		}
		if !refenc.Verify(signer, s.SigningBytes(), s.Sig) {
			r.Violationf("sync-reply-differs-from-reference", replay, "%s: an entry of the reply does not verify under the GCA that signed it", what)
			return false
		}
	}
	// ---- the JSON list endpoint
	if st, list, err := x.w.AuthorizedServers(); err == nil && st == 200 {
		r.Eval(1)
		r.Count("wire.json_lists_compared", 1)
		same := len(list) == len(x.model)
		for i := 0; same && i < len(list); i++ {
			same = list[i] == x.model[i]
		}
		if !same {
			r.Violationf("json-transport:authorized-server-differs", replay, "%s: GET /authorized-servers returns %d entries that are not the %d posted records (after the reference update rules)", what, len(list), len(x.model))
			return false
		}
	}
	// ---- the real client's decoder
	off, bf, ngca, nid, srv, err := c.VerifServerSync(client.GCAServer{Location: "127.0.0.1", TcpPort: x.w.TCP}, glow.PublicKey(x.w.Key.Pub), glow.PublicKey(x.w.GCA.Pub))
	for try := 0; transportError(err) && try < 3; try++ {
		off, bf, ngca, nid, srv, err = c.VerifServerSync(client.GCAServer{Location: "127.0.0.1", TcpPort: x.w.TCP}, glow.PublicKey(x.w.Key.Pub), glow.PublicKey(x.w.GCA.Pub))
	}
	if transportError(err) {
		r.Inconc("the client could not fetch the reply in 4 attempts (connection deadline on an overloaded machine): " + err.Error())
		return false
	}
	r.Eval(1)
	r.Count("wire.client_decodes_compared", 1)
	if err != nil {
		r.Violationf("client-rejects-genuine-sync-reply", replay, "%s: the real client refuses the genuine reply of the real server (%d entries, %d bytes of authorized servers): %v", what, len(want), listBytes, err)
		return false
	}
	same := off == rep.Offset && bf == x.bits && len(srv) == len(want)
	if x.order != nil {
		same = same && [32]byte(ngca) == x.order.NewGCA && nid == x.order.NewID
	} else {
		same = same && ngca == glow.PublicKey{}
	}
	for i := 0; same && i < len(srv); i++ {
		same = fromRepoServer(srv[i]) == want[i]
	}
	if !same {
		r.Violationf("client-decodes-sync-reply-differently", replay, "%s: the real client decodes the genuine reply to other values than the reference parser (offset %d/%d, %d/%d entries, new GCA %x)", what, off, rep.Offset, len(srv), len(want), ngca[:4])
		return false
	}
	if !adopt {
		return true
	}
	// ---- one full sync round of a fresh real client
	var st client.VerifClientState
	var dir string
	ok := false
	for try := 0; !ok && try < 3; try++ {
		fc, d, err := x.newClient()
		if err != nil {
			r.Inconc("client start: " + err.Error())
			return false
		}
		dir = d
		defer os.RemoveAll(d)
		ok = fc.VerifSyncOnce(0)
		st = fc.VerifState()
		fc.Close()
	}
	if !ok {
		// the decoder itself was judged above on the same reply; a round that
		// does not complete (it gives up after one failed fetch) adds nothing
		r.Inconc(what + ": a full sync round of the real client did not complete in 3 attempts although its decoder accepted the same reply")
		return false
	}
	r.Eval(1)
	r.Count("wire.client_rounds_compared", 1)
	expMap := map[[32]byte]refenc.MapEntry{}
	if x.order == nil || len(x.order.Servers) == 0 {
		expMap[x.w.Key.Pub] = refenc.MapEntry{Pub: x.w.Key.Pub, Location: "127.0.0.1", HTTP: x.w.HTTP, TCP: x.w.TCP, UDP: x.w.UDP}
	}
	for _, s := range want {
		if _, exists := expMap[s.Pub]; !exists || s.Banned {
			expMap[s.Pub] = refenc.MapEntry{Pub: s.Pub, Banned: s.Banned, Location: s.Location, HTTP: s.HTTP, TCP: s.TCP, UDP: s.UDP}
		}
	}
	wantGCA, wantID := x.w.GCA.Pub, x.dev.ID
	if x.order != nil && len(x.order.Servers) > 0 {
		wantGCA, wantID = x.order.NewGCA, x.order.NewID
	}
	onDisk, derr := refenc.ParseServerMap(readFile(filepath.Join(dir, client.GCAServerMapFile)))
	if [32]byte(st.GCAPubKey) != wantGCA || st.ShortID != wantID || !mapEq(st.Servers, expMap) || derr != nil || !refMapEq(onDisk, expMap) {
		r.Violationf("client-state-differs-after-sync", replay, "%s: after one sync round the real client holds %d servers (file: %d, %v), GCA %x, id %d; the posted records give %d servers, GCA %x, id %d",
			what, len(st.Servers), len(onDisk), derr, st.GCAPubKey[:4], st.ShortID, len(expMap), wantGCA[:4], wantID)
		return false
	}
	return true
}

func readFile(p string) []byte {
	b, _ := os.ReadFile(p)
	return b
}

func refMapEq(a, b map[[32]byte]refenc.MapEntry) bool {
	if len(a) != len(b) {
		return false
	}
	for k, v := range a {
		if b[k] != v {
			return false
		}
	}
	return true
}

// post submits a server record and applies the reference update rules to the model.
func (x *wireWorld) post(s refenc.AuthServer) bool {
	run.Op("authorized-server %x banned=%v loc=%d", s.Pub[:4], s.Banned, len(s.Location))
	st, body, err := x.w.PostServer(s)
	for try := 0; err != nil && try < 3; try++ {
		st, body, err = x.w.PostServer(s)
	}
	if err != nil {
		x.r.Inconc("POST /authorized-servers: " + err.Error())
		return false
	}
	x.r.Eval(1)
	if st != 200 {
		x.r.Violationf("json-transport:valid-server-authorization-refused", map[string]interface{}{"json": string(s.JSON()), "status": st, "body": string(body)}, "a server authorization signed over the reference signing bytes was refused: %d %s", st, bytes.TrimSpace(body))
		return false
	}
	for i := range x.model {
		if x.model[i].Pub == s.Pub {
			if !x.model[i].Banned && s.Banned {
				x.model[i] = s
			}
			return true
		}
	}
	x.model = append(x.model, s)
	return true
}

func childWire(b run.Batch, r *ev.Result) {
	rng := rand.New(rand.NewSource(b.Seed))
	drv.SetClock(0)
	drv.GateRotation(true)
	drv.GateImpact(true)
	dir := filepath.Join(b.Dir, "srv")
	e, err := drv.NewServerDir(dir, rng, true)
	if err == nil {
		err = e.Start()
	}
	if err != nil {
		r.Inconc("cannot start server: " + err.Error())
		return
	}
	defer os.RemoveAll(dir)
	defer e.Close()
	w := &drv.World{Srv: e, GCA: refenc.GenKey(rng), Devs: map[uint32]*drv.Dev{}, Rng: rng}
	// ---- registration endpoint: the JSON answer carries the server's key and ports
	st, body, err := e.Register(w.GCA.Pub, e.Temp.Priv)
	if err != nil || st != 200 {
		r.Inconc(fmt.Sprintf("registration: %d %v %s", st, err, body))
		return
	}
	var reg struct {
		PublicKey []int
		HttpPort  uint16
		TcpPort   uint16
		UdpPort   uint16
	}
	r.Eval(1)
	okReg := json.Unmarshal(body, &reg) == nil && len(reg.PublicKey) == 32 && reg.HttpPort == e.HTTP && reg.TcpPort == e.TCP && reg.UdpPort == e.UDP
	for i := 0; okReg && i < 32; i++ {
		okReg = byte(reg.PublicKey[i]) == e.Key.Pub[i]
	}
	if !okReg {
		r.Violationf("json-transport:registration-response-differs", map[string]interface{}{"body": string(body)}, "the register-gca response does not carry the server's key and ports")
	} else {
		r.Count("wire.registration_response_compared", 1)
	}
	x := &wireWorld{w: w, r: r, rng: rng, dir: b.Dir}
	if x.dev, err = w.AddDevice(uint32(1+rng.Intn(1<<16)), 1<<40); err != nil {
		r.Inconc(err.Error())
		return
	}
	for i := 0; i < 3; i++ { // a few bits in the bitfield
		slot := uint32(rng.Intn(400))
		if x.bits[slot/8]&(1<<(slot%8)) == 0 {
			w.Inject(x.dev.Report(slot, uint64(5000+rng.Intn(100))).Bytes())
			x.bits[slot/8] |= 1 << (slot % 8)
		}
	}
	// "changing any bit of a key makes verification fail" - also in a process in which a server has
	// authorized, loaded and used that key (whatever the server may have taught the verifier about it)
	keyFlipsAfterUse := func(k refenc.Key, what string) {
		msg := []byte(fmt.Sprintf("message for %s %d", what, rng.Int63()))
		sig := refenc.Sign(k.Priv, msg)
		r.Eval(1)
		if !glow.Verify(glow.PublicKey(k.Pub), msg, glow.Signature(sig)) {
			r.Violationf("valid-signature-refused-after-key-was-used-by-server", map[string]interface{}{"key": hx(k.Pub[:]), "role": what}, "a valid signature by the %s key does not verify in the process that hosts the server", what)
			return
		}
		for bit := 0; bit < 256; bit++ {
			var p glow.PublicKey
			copy(p[:], flip(k.Pub[:], bit))
			r.Eval(1)
			r.Count("flip.key_after_server_use", 1)
			if glow.Verify(p, msg, glow.Signature(sig)) {
				r.Violationf("verify-accepts-flipped-key-after-server-use", map[string]interface{}{"key": hx(k.Pub[:]), "bit": bit, "role": what},
					"after the server authorized/used the %s key, a signature by it verifies under that key with bit %d flipped", what, bit)
				return
			}
		}
	}
	keyFlipsAfterUse(x.dev.Key, "equipment")
	keyFlipsAfterUse(w.GCA, "GCA")
	keyFlipsAfterUse(w.Key, "server")
	c, cdir, err := x.newClient()
	if err != nil {
		r.Inconc("client start: " + err.Error())
		return
	}
	defer os.RemoveAll(cdir)
	defer c.Close()

	if !x.checkpoint(c, "empty list", true) {
		return
	}
	lens := func() int { return []int{0, 1, 1 + rng.Intn(30), 255, 255, 1 + rng.Intn(254)}[rng.Intn(6)] }
	// the first steps make a banned entry precede non-banned ones, in both
	// ways: posted as banned, and banned later in place
	steps := []string{"add", "add-banned", "add", "ban:0", "add255", "add"}
	target := 8 + rng.Intn(5)
	for len(steps) < 40 && countAdds(steps) < target {
		steps = append(steps, []string{"add", "add", "add255", "add-banned", fmt.Sprintf("ban:%d", rng.Intn(countAdds(steps)))}[rng.Intn(5)])
	}
	for i, s := range steps {
		var rec refenc.AuthServer
		switch {
		case s == "add":
			rec = wireServer(rng, lens(), false, w.GCA)
		case s == "add255":
			rec = wireServer(rng, 255, false, w.GCA)
		case s == "add-banned":
			rec = wireServer(rng, lens(), true, w.GCA)
		default:
			var k int
			fmt.Sscanf(s, "ban:%d", &k)
			if k >= len(x.model) {
				continue
			}
			rec = x.model[k]
			rec.Banned = true
			rec = rec.Signed(w.GCA.Priv)
		}
		if !x.post(rec) {
			return
		}
		r.Nontrivial(fmt.Sprintf("wire/%x/%d", rec.Pub[:8], i))
		adopt := i == 2 || i == len(steps)-1
		if !x.checkpoint(c, fmt.Sprintf("after step %d (%s)", i, s), adopt) {
			return
		}
	}
	r.Count("wire.list_scenarios", 1)
	// ---- migration orders (they replace the list in the reply)
	newGCA := refenc.GenKey(rng)
	// plain lists, then lists that carry the same server key twice: its
	// authorization and its ban (both signed by the new GCA), in both orders,
	// adjacent and far apart. The reply must carry the order as it was signed;
	// the client keeps the reference merge.
	shapes := []string{"plain", "plain", "plain", "plain", "auth,ban adjacent", "auth...ban far apart", "ban,auth adjacent", "ban...auth far apart", "two keys twice"}
	for i, shape := range shapes {
		n := []int{0, 1, 2 + rng.Intn(4), 6 + rng.Intn(7)}[i%4]
		if shape != "plain" {
			n = 3 + rng.Intn(6)
		}
		m := refenc.Migration{Equipment: x.dev.Key.Pub, NewGCA: newGCA.Pub, NewID: gU32(rng)}
		for k := 0; k < n; k++ {
			m.Servers = append(m.Servers, wireServer(rng, lens(), k%3 == 0 && n > 1 && shape == "plain", newGCA))
		}
		twin := func(of refenc.AuthServer, banned bool) refenc.AuthServer {
			of.Banned = banned
			return of.Signed(newGCA.Priv)
		}
		insert := func(at int, s refenc.AuthServer) {
			m.Servers = append(m.Servers[:at], append([]refenc.AuthServer{s}, m.Servers[at:]...)...)
		}
		switch shape {
		case "auth,ban adjacent":
			k := rng.Intn(n)
			m.Servers[k] = twin(m.Servers[k], false)
			insert(k+1, twin(m.Servers[k], true))
		case "auth...ban far apart":
			m.Servers[0] = twin(m.Servers[0], false)
			m.Servers = append(m.Servers, twin(m.Servers[0], true))
		case "ban,auth adjacent":
			k := rng.Intn(n)
			m.Servers[k] = twin(m.Servers[k], true)
			insert(k+1, twin(m.Servers[k], false))
		case "ban...auth far apart":
			m.Servers[0] = twin(m.Servers[0], true)
			m.Servers = append(m.Servers, twin(m.Servers[0], false))
		case "two keys twice":
			m.Servers[0] = twin(m.Servers[0], false)
			m.Servers[1] = twin(m.Servers[1], false)
			m.Servers = append(m.Servers, twin(m.Servers[1], true), twin(m.Servers[0], true), twin(m.Servers[0], false))
		}
		if shape != "plain" {
			r.Count("wire.orders_with_repeated_key", 1)
		}
		n = len(m.Servers)
		m = m.Signed(w.GCA.Priv)
		run.Op("equipment-migrate %d servers", n)
		st, body, err := w.PostMigration(m)
		for try := 0; (err != nil || st == 400) && try < 4; try++ {
			st, body, err = w.PostMigration(m)
		}
		if err != nil || st == 400 {
			r.Inconc(fmt.Sprintf("POST /equipment-migrate did not get through in 5 attempts (status %d, %v)", st, err))
			return
		}
		r.Eval(1)
		if st != 200 {
			r.Violationf("deliverable-migration-refused", map[string]interface{}{"servers": n, "status": st, "body": string(bytes.TrimSpace(body))}, "a validly signed migration order with %d servers was refused: %d %s", n, st, bytes.TrimSpace(body))
			return
		}
		x.order = &m
		// a fresh client for the decoder: a client that has followed an
		// earlier order asks with its new short id and is, rightly, refused
		oc, odir, err := x.newClient()
		if err != nil {
			r.Inconc("client start: " + err.Error())
			return
		}
		ok := x.checkpoint(oc, fmt.Sprintf("migration order %d (%d servers, %s)", i, n, shape), true)
		oc.Close()
		os.RemoveAll(odir)
		if !ok {
			return
		}
		r.Count("wire.orders_compared", 1)
	}
	r.Sample(map[string]interface{}{"kind": "live wire", "steps": steps, "list_entries": len(x.model)})
}

func countAdds(steps []string) int {
	n := 0
	for _, s := range steps {
		if len(s) >= 3 && s[:3] == "add" {
			n++
		}
	}
	return n
}

// ---------------------------------------------------------------- fan-out to a newly authorized server

func logHas(e *drv.Srv, needles ...string) string {
	for _, ln := range bytes.Split(e.ReadFile("server.log"), []byte("\n")) {
		for _, n := range needles {
			if bytes.Contains(ln, []byte(n)) {
				return string(ln)
			}
		}
	}
	return ""
}

func childFanout(b run.Batch, r *ev.Result) {
	rng := rand.New(rand.NewSource(b.Seed))
	drv.SetClock(0)
	drv.GateRotation(true)
	drv.GateImpact(true)
	for i, n := range []int{0, 1, 2, 5, 40, 3 + rng.Intn(30)} {
		s1, err := drv.NewWorld(filepath.Join(b.Dir, fmt.Sprintf("s1-%d", i)), rng)
		if err != nil {
			r.Inconc("cannot start world: " + err.Error())
			return
		}
		var want []refenc.Auth
		for k := 0; k < n; k++ {
			au := gAuth(rng)
			au.ID = uint32(1000*i + k + 1)
			rng.Read(au.Pub[:])
			au = au.Signed(s1.GCA.Priv)
			if st, body, err := s1.Authorize(au); err != nil || st != 200 {
				r.Inconc(fmt.Sprintf("authorize on S1: %d %v %s", st, err, body))
				s1.Close()
				return
			}
			want = append(want, au)
		}
		s2, err := drv.NewServerDir(filepath.Join(b.Dir, fmt.Sprintf("s2-%d", i)), rng, true)
		if err == nil {
			err = s2.Start()
		}
		if err != nil {
			r.Inconc("cannot start second server: " + err.Error())
			s1.Close()
			return
		}
		done := func() {
			s2.Close()
			s1.Close()
			os.RemoveAll(s1.Dir)
			os.RemoveAll(s2.Dir)
		}
		if st, body, err := s2.Register(s1.GCA.Pub, s2.Temp.Priv); err != nil || st != 200 {
			r.Inconc(fmt.Sprintf("registration on S2: %d %v %s", st, err, body))
			done()
			return
		}
		peer := refenc.AuthServer{Pub: s2.Key.Pub, Location: "127.0.0.1", HTTP: s2.HTTP, TCP: s2.TCP, UDP: s2.UDP}.Signed(s1.GCA.Priv)
		run.Op("authorize S2 on S1 holding %d devices", n)
		st, body, err := s1.PostServer(peer)
		if err != nil || st != 200 {
			r.Inconc(fmt.Sprintf("POST /authorized-servers on S1: %d %v %s", st, err, body))
			done()
			return
		}
		r.Eval(1)
		r.Count("fanout.scenarios", 1)
		r.Nontrivial(fmt.Sprintf("fanout/%d/%x", n, peer.Sig[:8]))
		replay := map[string]interface{}{"devices_on_s1": n}
		_, got, err := s2.Equipment()
		if err != nil {
			r.Inconc("GET /equipment on S2: " + err.Error())
			done()
			return
		}
		snap := s2.S.VerifSnapshot(false)
		missing := 0
		bad := false
		for _, a := range want {
			g, ok := got[a.ID]
			switch {
			case !ok:
				missing++
			case !authEq(g, a) || !refenc.Verify(s1.GCA.Pub, g.SigningBytes(), g.Sig):
				r.Violationf("json-transport:authorization-differs:forwarded", replay, "after the fan-out S2 holds authorization %d with other fields than S1 accepted", a.ID)
				bad = true
			default:
				r.Count("json.forwarded_compared", 1)
				r.Count("fanout.authorizations_compared", 1)
			}
		}
		if len(got) > len(want) || len(snap.Equipment) != len(got) {
			r.Violationf("json-transport:unexpected-authorizations:forwarded", replay, "S2 lists %d authorizations (%d in memory), S1 has %d", len(got), len(snap.Equipment), len(want))
			bad = true
		}
		if line := logHas(s2, "Failed to authorize equipment", "Failed to decode request body"); line != "" {
			r.Violationf("json-transport:forwarded-authorization-refused-by-peer", map[string]interface{}{"devices_on_s1": n, "log_line": line}, "S2 refused an authorization that S1 had accepted and forwarded: %s", line)
			bad = true
		}
		if missing > 0 && !bad {
			// Forwarding is fire-and-forget, but a failed POST is logged by
			// the sender. Nothing failed, nothing was refused, S1 answered
			// 200 - and the new server still lacks devices.
			if line := logHas(s1.Srv, "Failed to send request to server", "unable to send http request"); line != "" {
				r.Count("json.forward_not_delivered_not_judged", int64(missing))
				r.Note("fan-out of %d devices: %d not delivered, sender logged a transport failure: %.120s", n, missing, line)
			} else {
				r.Violationf("fan-out-loses-authorizations", map[string]interface{}{"devices_on_s1": n, "devices_on_s2": len(got), "missing": missing},
					"S1 holds %d authorized devices; after the GCA authorized S2 on S1 (answered 200, no send failure in S1's log, no refusal in S2's log) S2 holds only %d of them", n, len(got))
			}
		}
		if len(want) > 0 && missing == 0 && !bad {
			r.Count("fanout.complete", 1)
		}
		done()
		if r.NumViolations() > 0 {
			return
		}
	}
}
