//go:build test

package main

import (
	"encoding/hex"
	"math"
	"math/rand"

	"github.com/glowlabs-org/gca-backend/client"
	"github.com/glowlabs-org/gca-backend/glow"
	"github.com/glowlabs-org/gca-backend/server"

	"verifharness/lib/refenc"
)

// ---------------------------------------------------------------- field generators

func gU16(rng *rand.Rand) uint16 {
	switch rng.Intn(6) {
	case 0:
		return []uint16{0, 1, 0xffff, 0xfffe, 0x8000, 0x7fff, 0x0100, 0x00ff, 0x0102}[rng.Intn(9)]
	}
	return uint16(rng.Uint32())
}

func gU32(rng *rand.Rand) uint32 {
	switch rng.Intn(6) {
	case 0:
		return []uint32{0, 1, math.MaxUint32, math.MaxUint32 - 1, 1 << 31, 1<<31 - 1, 0x01020304, 0x000000ff, 0xff000000, 2016, 4032}[rng.Intn(11)]
	}
	return rng.Uint32()
}

func gU64(rng *rand.Rand) uint64 {
	switch rng.Intn(6) {
	case 0:
		return []uint64{0, 1, 2, math.MaxUint64, math.MaxUint64 - 1, 1 << 63, 1<<63 - 1, 0x0102030405060708, 0xff, 0xff << 56, 1 << 32, 1<<32 - 1}[rng.Intn(12)]
	}
	return rng.Uint64()
}

// floatClass names the class of a finite float for the evidence counters.
func floatClass(f float64) string {
	b := math.Float64bits(f)
	switch {
	case b == 0:
		return "poszero"
	case b == 1<<63:
		return "negzero"
	case b&(0x7ff<<52) == 0:
		return "subnormal"
	case math.Abs(f) == math.MaxFloat64:
		return "max"
	}
	return "normal"
}

// gFloat returns a finite float: boundary classes or a random finite bit pattern.
func gFloat(rng *rand.Rand) float64 {
	switch rng.Intn(4) {
	case 0:
		return []float64{0, math.Copysign(0, -1), math.SmallestNonzeroFloat64, -math.SmallestNonzeroFloat64,
			math.Float64frombits(0x000fffffffffffff), -math.Float64frombits(0x000fffffffffffff), // largest subnormal
			math.Float64frombits(0x0010000000000000), // smallest normal
			math.MaxFloat64, -math.MaxFloat64, 1, -1, math.Pi, -math.E, 0.1, 1e21, 1e-7, 123456789.123456789, 1<<53 + 2, -(1<<53 - 1),
			37.774929, -122.419416, 90, -180}[rng.Intn(23)]
	case 1: // random subnormal
		return math.Float64frombits(rng.Uint64()&0x000fffffffffffff | uint64(rng.Intn(2))<<63)
	}
	for {
		b := rng.Uint64()
		if b&(0x7ff<<52) != 0x7ff<<52 { // finite
			return math.Float64frombits(b)
		}
	}
}

func gBytes32(rng *rand.Rand) (k [32]byte) {
	switch rng.Intn(12) {
	case 0:
		return k
	case 1:
		for i := range k {
			k[i] = 0xff
		}
		return k
	}
	rng.Read(k[:])
	return k
}

func gBytes64(rng *rand.Rand) (k [64]byte) {
	switch rng.Intn(12) {
	case 0:
		return k
	case 1:
		for i := range k {
			k[i] = 0xff
		}
		return k
	}
	rng.Read(k[:])
	return k
}

func gLocation(rng *rand.Rand, max int) string {
	var l int
	switch rng.Intn(8) {
	case 0:
		l = 0
	case 1:
		l = max
	case 2:
		l = max - 1
	case 3:
		l = 1
	case 4:
		l = rng.Intn(max + 1)
	default:
		l = rng.Intn(40)
	}
	if l > max {
		l = max
	}
	if l < 0 {
		l = 0
	}
	b := make([]byte, l)
	if rng.Intn(3) == 0 {
		rng.Read(b) // arbitrary bytes: the binary layout carries any byte string
	} else {
		const cs = "abcdefghijklmnopqrstuvwxyz0123456789.-:"
		for i := range b {
			b[i] = cs[rng.Intn(len(cs))]
		}
	}
	return string(b)
}

// ---------------------------------------------------------------- value generators

func gReport(rng *rand.Rand) refenc.Report {
	return refenc.Report{ID: gU32(rng), Slot: gU32(rng), Power: gU64(rng), Sig: gBytes64(rng)}
}

func gAuth(rng *rand.Rand) refenc.Auth {
	return refenc.Auth{ID: gU32(rng), Pub: gBytes32(rng), Lat: gFloat(rng), Long: gFloat(rng), Capacity: gU64(rng), Debt: gU64(rng),
		Expiration: gU32(rng), Initialization: gU32(rng), Fee: gU64(rng), Sig: gBytes64(rng)}
}

func gAuthServer(rng *rand.Rand) refenc.AuthServer {
	return refenc.AuthServer{Pub: gBytes32(rng), Banned: rng.Intn(2) == 0, Location: gLocation(rng, 255), HTTP: gU16(rng), TCP: gU16(rng), UDP: gU16(rng), Sig: gBytes64(rng)}
}

func gMigration(rng *rand.Rand, maxServers int) refenc.Migration {
	m := refenc.Migration{Equipment: gBytes32(rng), NewGCA: gBytes32(rng), NewID: gU32(rng), Sig: gBytes64(rng)}
	n := 0
	if rng.Intn(5) != 0 {
		n = rng.Intn(maxServers + 1)
	}
	for i := 0; i < n; i++ {
		m.Servers = append(m.Servers, gAuthServer(rng))
	}
	return m
}

func gMapEntry(rng *rand.Rand, max int) refenc.MapEntry {
	var k [32]byte
	rng.Read(k[:])
	return refenc.MapEntry{Pub: k, Banned: rng.Intn(2) == 0, Location: gLocation(rng, max), HTTP: gU16(rng), TCP: gU16(rng), UDP: gU16(rng)}
}

func gStats(rng *rand.Rand, maxDev int) refenc.Stats {
	s := refenc.Stats{Week: gU32(rng), Sig: gBytes64(rng)}
	n := 0
	if rng.Intn(4) != 0 {
		n = rng.Intn(maxDev + 1)
	}
	s.Devices = make([]refenc.DevStats, n)
	for d := range s.Devices {
		s.Devices[d].Pub = gBytes32(rng)
		dense := rng.Intn(3) == 0
		for i := 0; i < 2016; i++ {
			if dense || rng.Intn(16) == 0 {
				s.Devices[d].Power[i] = gU64(rng)
				s.Devices[d].Impact[i] = math.Float64bits(gFloat(rng))
			}
		}
	}
	return s
}

// ---------------------------------------------------------------- conversions into the repository's types

func toReport(r refenc.Report) glow.EquipmentReport {
	return glow.EquipmentReport{ShortID: r.ID, Timeslot: r.Slot, PowerOutput: r.Power, Signature: r.Sig}
}

func fromReport(r glow.EquipmentReport) refenc.Report {
	return refenc.Report{ID: r.ShortID, Slot: r.Timeslot, Power: r.PowerOutput, Sig: r.Signature}
}

func toAuth(a refenc.Auth) glow.EquipmentAuthorization {
	return glow.EquipmentAuthorization{ShortID: a.ID, PublicKey: a.Pub, Latitude: a.Lat, Longitude: a.Long, Capacity: a.Capacity, Debt: a.Debt,
		Expiration: a.Expiration, Initialization: a.Initialization, ProtocolFee: a.Fee, Signature: a.Sig}
}

func fromAuth(a glow.EquipmentAuthorization) refenc.Auth {
	return refenc.Auth{ID: a.ShortID, Pub: a.PublicKey, Lat: a.Latitude, Long: a.Longitude, Capacity: a.Capacity, Debt: a.Debt,
		Expiration: a.Expiration, Initialization: a.Initialization, Fee: a.ProtocolFee, Sig: a.Signature}
}

// authEq compares two authorizations with floats by bits.
func authEq(a, b refenc.Auth) bool {
	la, lb := math.Float64bits(a.Lat), math.Float64bits(b.Lat)
	oa, ob := math.Float64bits(a.Long), math.Float64bits(b.Long)
	a.Lat, a.Long, b.Lat, b.Long = 0, 0, 0, 0
	return a == b && la == lb && oa == ob
}

func toAuthServer(s refenc.AuthServer) server.AuthorizedServer {
	return server.AuthorizedServer{PublicKey: s.Pub, Banned: s.Banned, Location: s.Location, HttpPort: s.HTTP, TcpPort: s.TCP, UdpPort: s.UDP, GCAAuthorization: s.Sig}
}

func toMigration(m refenc.Migration) server.EquipmentMigration {
	em := server.EquipmentMigration{Equipment: m.Equipment, NewGCA: m.NewGCA, NewShortID: m.NewID, Signature: m.Sig}
	for _, s := range m.Servers {
		em.NewServers = append(em.NewServers, toAuthServer(s))
	}
	return em
}

func toStats(s refenc.Stats) server.AllDeviceStats {
	out := server.AllDeviceStats{TimeslotOffset: s.Week, Signature: s.Sig}
	if s.Devices != nil {
		out.Devices = make([]server.DeviceStats, len(s.Devices))
	}
	for d := range s.Devices {
		out.Devices[d].PublicKey = s.Devices[d].Pub
		out.Devices[d].PowerOutputs = s.Devices[d].Power
		for i, b := range s.Devices[d].Impact {
			out.Devices[d].ImpactRates[i] = math.Float64frombits(b)
		}
	}
	return out
}

func statsEq(got server.AllDeviceStats, want refenc.Stats) bool {
	if got.TimeslotOffset != want.Week || got.Signature != want.Sig || len(got.Devices) != len(want.Devices) {
		return false
	}
	for d := range want.Devices {
		if got.Devices[d].PublicKey != want.Devices[d].Pub || got.Devices[d].PowerOutputs != want.Devices[d].Power {
			return false
		}
		for i, b := range want.Devices[d].Impact {
			if math.Float64bits(got.Devices[d].ImpactRates[i]) != b {
				return false
			}
		}
	}
	return true
}

func toMap(es []refenc.MapEntry) map[glow.PublicKey]client.GCAServer {
	m := make(map[glow.PublicKey]client.GCAServer, len(es))
	for _, e := range es {
		m[e.Pub] = client.GCAServer{Banned: e.Banned, Location: e.Location, HttpPort: e.HTTP, TcpPort: e.TCP, UdpPort: e.UDP}
	}
	return m
}

func hx(b []byte) string {
	if len(b) > 600 {
		return hex.EncodeToString(b[:300]) + "..." + hex.EncodeToString(b[len(b)-300:])
	}
	return hex.EncodeToString(b)
}
