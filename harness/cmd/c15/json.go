//go:build test

package main

import (
	"bytes"
	"fmt"
	"math"
	"math/rand"
	"os"
	"path/filepath"

	"verifharness/lib/drv"
	"verifharness/lib/ev"
	"verifharness/lib/refenc"
	"verifharness/lib/run"
)

type jsonWorld struct {
	a    *drv.World
	b    *drv.Srv
	r    *ev.Result
	want []refenc.Auth // in order of submission to A
}

// compare judges GET /equipment and the authorization file of one server.
// ordered: the file must be exactly the submissions in order (server A);
// otherwise the same records in any order (server B receives A's map order).
func (w *jsonWorld) compare(e *drv.Srv, name, counter, keySuffix string, ordered bool) {
	st, got, err := e.Equipment()
	if err != nil || st != 200 {
		w.r.Inconc(fmt.Sprintf("GET /equipment on %s: status %d err %v", name, st, err))
		return
	}
	missing := 0
	for _, a := range w.want {
		w.r.Eval(1)
		w.r.Count(counter, 1)
		g, ok := got[a.ID]
		if !ok && !ordered {
			// Server-to-server forwarding is fire-and-forget by design (a
			// failed POST to the peer is logged and skipped, e.g. when the
			// peer just closed the idle keep-alive connection): an absent
			// authorization on the peer decides nothing.
			w.r.Count("json.forward_not_delivered_not_judged", 1)
			w.r.Count(counter, -1)
			missing++
			continue
		}
		if !ok {
			w.r.Violationf("json-transport:authorization-missing"+keySuffix, map[string]interface{}{"server": name, "authorization": fmt.Sprintf("%+v", a), "json": string(a.JSON())},
				"server %s does not list authorization %d (lat bits %016x, long bits %016x)", name, a.ID, math.Float64bits(a.Lat), math.Float64bits(a.Long))
			return
		}
		if !authEq(g, a) {
			w.r.Violationf("json-transport:authorization-differs"+keySuffix, map[string]interface{}{"server": name, "sent": fmt.Sprintf("%+v", a), "got": fmt.Sprintf("%+v", g), "json": string(a.JSON())},
				"server %s returns authorization %d with different fields: sent lat/long bits %016x/%016x, got %016x/%016x", name, a.ID,
				math.Float64bits(a.Lat), math.Float64bits(a.Long), math.Float64bits(g.Lat), math.Float64bits(g.Long))
			return
		}
	}
	if !ordered && missing > 0 {
		if logHas(w.a.Srv, "Failed to send request to server", "unable to send http request") == "" {
			w.r.Violationf("fan-out-loses-authorizations", map[string]interface{}{"server": name, "missing": missing, "submitted": len(w.want)},
				"server %s lacks %d of the %d authorizations server A accepted, although A logged no failed send and the peer logged no refusal", name, missing, len(w.want))
			return
		}
	}
	if len(got) != len(w.want)-missing {
		w.r.Violationf("json-transport:unexpected-authorizations"+keySuffix, map[string]interface{}{"server": name}, "server %s lists %d authorizations, %d were submitted", name, len(got), len(w.want))
	}
	file := e.ReadFile("equipment-authorizations.dat")
	w.r.Eval(1)
	if ordered {
		var ref []byte
		for _, a := range w.want {
			ref = append(ref, a.Bytes()...)
		}
		w.r.Count("json.file_records_compared", int64(len(w.want)))
		if !bytes.Equal(file, ref) {
			w.r.Violationf("disk-record-differs:equipment-authorizations.dat"+keySuffix, map[string]interface{}{"server": name, "first_difference": firstDiff(file, ref), "record": firstDiff(file, ref) / 148, "file_bytes": len(file), "reference_bytes": len(ref)},
				"equipment-authorizations.dat of server %s is not the concatenation of the reference encodings (first difference at byte %d = record %d byte %d)", name, firstDiff(file, ref), firstDiff(file, ref)/148, firstDiff(file, ref)%148)
		}
		return
	}
	// The peer only ever hears from server A. A refusal in its log means that
	// what A's JSON encoder sent was not the authorization A had accepted
	// (an undelivered POST leaves no line there).
	for _, ln := range bytes.Split(e.ReadFile("server.log"), []byte("\n")) {
		if bytes.Contains(ln, []byte("Failed to authorize equipment")) || bytes.Contains(ln, []byte("Failed to decode request body")) {
			w.r.Violationf("json-transport:forwarded-authorization-refused-by-peer", map[string]interface{}{"server": name, "log_line": string(ln)},
				"server %s refused an authorization forwarded by server A, which had accepted it: %s", name, ln)
			return
		}
	}
	set := map[string]bool{}
	for _, a := range w.want {
		set[string(a.Bytes())] = true
	}
	if len(file) != 148*(len(w.want)-missing) {
		w.r.Violationf("disk-record-differs:equipment-authorizations.dat"+keySuffix, map[string]interface{}{"server": name, "file_bytes": len(file)}, "authorization file of server %s has %d bytes for %d authorizations", name, len(file), len(w.want))
		return
	}
	for i := 0; i+148 <= len(file); i += 148 {
		w.r.Count("json.file_records_compared", 1)
		if !set[string(file[i:i+148])] {
			w.r.Violationf("disk-record-differs:equipment-authorizations.dat"+keySuffix, map[string]interface{}{"server": name, "record": hx(file[i : i+148])}, "record %d in the authorization file of server %s is not the reference encoding of any submitted authorization", i/148, name)
			return
		}
	}
}

func childJSON(b run.Batch, r *ev.Result) {
	rng := rand.New(rand.NewSource(b.Seed))
	drv.SetClock(0)
	drv.GateRotation(true)
	drv.GateImpact(true)
	a, err := drv.NewWorld(filepath.Join(b.Dir, "srvA"), rng)
	if err != nil {
		r.Inconc("cannot start world: " + err.Error())
		return
	}
	defer os.RemoveAll(a.Dir)
	defer func() {
		drv.SetClock(a.S.VerifSnapshot(false).Offset)
		a.Close()
	}()
	r.Count("json.registration_accepted", 1) // NewWorld registered the GCA with a hand-built JSON body signed over the reference signing bytes
	w := &jsonWorld{a: a, r: r}

	forced := [][2]float64{
		{math.Copysign(0, -1), math.SmallestNonzeroFloat64},
		{math.MaxFloat64, -math.MaxFloat64},
		{math.Float64frombits(0x000fffffffffffff), math.Float64frombits(0x0010000000000000)},
		{0, -math.SmallestNonzeroFloat64},
		{0.1, 1e21},
		{37.774929, -122.419416},
	}
	dev := refenc.GenKey(rng)
	nextID := uint32(1000 + rng.Intn(1000))
	submit := func(i int) bool {
		au := gAuth(rng)
		if i < len(forced) {
			au.Lat, au.Long = forced[i][0], forced[i][1]
		}
		if i == 0 {
			au.Pub, au.Capacity = dev.Pub, 1<<40
		} else {
			rng.Read(au.Pub[:])
		}
		switch rng.Intn(6) {
		case 0:
			nextID += 1 + uint32(rng.Intn(1<<20))
		default:
			nextID++
		}
		if i == 3 {
			nextID = math.MaxUint32 - uint32(rng.Intn(100)) // ids only grow afterwards by wrapping; uniqueness is kept by the map below
		}
		au.ID = nextID
		for _, p := range w.want {
			if p.ID == au.ID || p.Pub == au.Pub {
				return true // (practically never) would be a conflicting authorization, not a transport case
			}
		}
		au = au.Signed(a.GCA.Priv)
		run.Op("authorize %s", au.JSON())
		st, body, err := a.Authorize(au)
		for try := 0; err != nil && try < 3; try++ {
			// The test-mode server closes idle keep-alive connections after
			// 2.5 s; a POST that races with that close fails with EOF in the
			// harness's HTTP client. Submitting the identical authorization
			// again is idempotent (answered 200 without a second record).
			r.Count("json.post_retried_after_transport_error", 1)
			st, body, err = a.Authorize(au)
		}
		r.Eval(1)
		if err != nil {
			r.Inconc("POST /authorize-equipment: " + err.Error())
			return false
		}
		r.Count("json.float_class."+floatClass(au.Lat), 1)
		r.Count("json.float_class."+floatClass(au.Long), 1)
		if st != 200 {
			r.Violationf("json-transport:valid-authorization-refused", map[string]interface{}{"json": string(au.JSON()), "status": st, "body": string(body), "authorization": fmt.Sprintf("%+v", au)},
				"an authorization signed by the GCA over the reference signing bytes was refused (status %d: %s); lat/long bits %016x/%016x", st, bytes.TrimSpace(body), math.Float64bits(au.Lat), math.Float64bits(au.Long))
			return false
		}
		r.Count("json.post_accepted", 1)
		r.Nontrivial("j" + string(au.Bytes()))
		w.want = append(w.want, au)
		return true
	}

	n1 := b.N * 2 / 3
	for i := 0; i < 6; i++ {
		if !submit(i) {
			return
		}
	}
	w.compare(a.Srv, "A", "json.get_compared", "", true)

	// ---- disk: a report and one rotated statistics record, parsed with the reference decoders
	rep := refenc.Report{ID: w.want[0].ID, Slot: 10, Power: 5000 + uint64(rng.Intn(1000))}.Signed(dev.Priv)
	run.Op("report %x", rep.Bytes())
	a.Inject(rep.Bytes())
	r.Eval(1)
	if got := a.ReadFile("equipment-reports.dat"); !bytes.Equal(got, rep.Bytes()) {
		r.Violationf("disk-record-differs:equipment-reports.dat", map[string]interface{}{"file": hx(got), "reference": hx(rep.Bytes())}, "a report signed over the reference signing bytes is not stored as its reference encoding (file has %d bytes)", len(got))
	} else {
		r.Count("disk.report_record_compared", 1)
	}
	drv.SetClock(3201)
	if n := drv.StepRotation(); n != 1 {
		r.Inconc(fmt.Sprintf("expected one rotation at now-offset=3201, saw %d", n))
	} else {
		raw := a.ReadFile("allDeviceStats.dat")
		recs, err := refenc.ParseStatsStream(raw)
		r.Eval(1)
		switch {
		case err != nil || len(recs) != 1:
			r.Violationf("disk-record-differs:allDeviceStats.dat", map[string]interface{}{"file_bytes": len(raw)}, "the rotated history file does not parse as one reference record: %v (%d records)", err, len(recs))
		case recs[0].Week != 0 || len(recs[0].Devices) != len(w.want):
			r.Violationf("disk-record-differs:allDeviceStats.dat", map[string]interface{}{"week": recs[0].Week, "devices": len(recs[0].Devices)}, "rotated record has week %d and %d devices, want 0 and %d", recs[0].Week, len(recs[0].Devices), len(w.want))
		case !refenc.Verify(a.Key.Pub, recs[0].SigningBytes(), recs[0].Sig):
			r.Violationf("disk-record-differs:allDeviceStats.dat", map[string]interface{}{"file_bytes": len(raw)}, "the server's signature on the rotated record does not verify over the reference signing bytes (\"AllDeviceStats\" + record without signature)")
		default:
			found := false
			for _, d := range recs[0].Devices {
				if d.Pub == dev.Pub && d.Power[10] == rep.Power {
					found = true
				}
			}
			if !found {
				r.Violationf("disk-record-differs:allDeviceStats.dat", nil, "the rotated record does not carry the reported power at slot 10 of the reporting device")
			} else {
				r.Count("disk.stats_record_verified", 1)
			}
		}
	}

	for i := 6; i < n1; i++ {
		if !submit(i) {
			return
		}
		if i%40 == 0 {
			w.compare(a.Srv, "A", "json.get_compared", "", true)
		}
	}
	w.compare(a.Srv, "A", "json.get_compared", "", true)
	if r.NumViolations() > 0 {
		return
	}

	// ---- server-to-server: A forwards every authorization with its own JSON encoder
	bs, err := drv.NewServerDir(filepath.Join(b.Dir, "srvB"), rng, true)
	if err == nil {
		err = bs.Start()
	}
	if err != nil {
		r.Inconc("cannot start second server: " + err.Error())
		return
	}
	defer os.RemoveAll(bs.Dir)
	defer bs.Close()
	if st, body, err := bs.Register(a.GCA.Pub, bs.Temp.Priv); err != nil || st != 200 {
		r.Inconc(fmt.Sprintf("registration on second server: %d %v %s", st, err, body))
		return
	}
	peer := refenc.AuthServer{Pub: bs.Key.Pub, Location: "127.0.0.1", HTTP: bs.HTTP, TCP: bs.TCP, UDP: bs.UDP}.Signed(a.GCA.Priv)
	run.Op("authorized-server %s", peer.JSON())
	st, body, err := a.PostServer(peer)
	for try := 0; err != nil && try < 3; try++ {
		r.Count("json.post_retried_after_transport_error", 1)
		st, body, err = a.PostServer(peer) // a repeated identical server authorization is answered 200 and changes nothing
	}
	r.Eval(1)
	if err != nil {
		r.Inconc("POST /authorized-servers: " + err.Error())
		return
	}
	if st != 200 {
		r.Violationf("json-transport:valid-server-authorization-refused", map[string]interface{}{"json": string(peer.JSON()), "status": st, "body": string(body)}, "a server authorization signed over the reference signing bytes was refused: %d %s", st, bytes.TrimSpace(body))
		return
	}
	if _, list, err := a.AuthorizedServers(); err == nil {
		r.Eval(1)
		if len(list) != 1 || list[0].Pub != peer.Pub || list[0].Location != peer.Location || list[0].HTTP != peer.HTTP || list[0].TCP != peer.TCP || list[0].UDP != peer.UDP || list[0].Sig != peer.Sig {
			r.Violationf("json-transport:authorized-server-differs", map[string]interface{}{"sent": fmt.Sprintf("%+v", peer), "got": fmt.Sprintf("%+v", list)}, "GET /authorized-servers does not return the submitted server unchanged")
		} else {
			r.Count("json.authorized_server_compared", 1)
		}
	}
	w.compare(bs, "B (bulk forward from A)", "json.forwarded_compared", ":forwarded", false)
	for i := n1; i < b.N; i++ {
		if !submit(i) {
			return
		}
	}
	w.compare(a.Srv, "A", "json.get_compared", "", true)
	w.compare(bs, "B (forwarded one by one)", "json.forwarded_compared", ":forwarded", false)
	if r.NumViolations() > 0 {
		return
	}

	// ---- restart: the file is read back through DeserializeEquipmentAuthorization
	drv.SetClock(a.S.VerifSnapshot(false).Offset)
	if err := a.Restart(); err != nil {
		r.Violationf("restart-failed", nil, "server A does not restart from the files it wrote: %v", err)
		return
	}
	w.compare(a.Srv, "A after restart", "json.after_restart_compared", ":after-restart", true)
	r.Sample(map[string]interface{}{"kind": "json transport", "authorizations": len(w.want), "first": string(w.want[0].JSON()), "second": string(w.want[1].JSON())})
}
