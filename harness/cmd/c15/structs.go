//go:build test

package main

import (
	"bytes"
	"fmt"
	"math"
	"math/rand"
	"strings"

	"github.com/glowlabs-org/gca-backend/client"
	"github.com/glowlabs-org/gca-backend/glow"
	"github.com/glowlabs-org/gca-backend/server"

	"verifharness/lib/ev"
	"verifharness/lib/refenc"
	"verifharness/lib/run"
)

var typeNames = []string{"EquipmentReport", "EquipmentAuthorization", "GCARegistration", "AllDeviceStats", "AuthorizedServer", "EquipmentMigration"}

// judge carries the per-child bookkeeping of the structure oracles.
type judge struct {
	r   *ev.Result
	rng *rand.Rand
	sbs map[string]sbOwner // signing bytes seen -> who produced them
}

type sbOwner struct {
	typ   string
	value string // reference encoding of the signed part of the value
}

func newJudge(r *ev.Result, rng *rand.Rand) *judge {
	return &judge{r: r, rng: rng, sbs: map[string]sbOwner{}}
}

// held remembers, per encoder, the slice the previous call returned and a
// private copy of its content: an encoder whose result is a view of storage
// that the next call reuses changes bytes it has already handed out (every
// single encode-then-compare would still look right).
var held = map[string][2][]byte{}

func holdOutput(r *ev.Result, what string, got []byte) {
	if prev, ok := held[what]; ok {
		r.Eval(1)
		r.Count("enc.previous_output_rechecked", 1)
		if !bytes.Equal(prev[0], prev[1]) {
			r.Violationf("encoder-output-changed-by-next-call:"+what, map[string]interface{}{"before": hx(prev[1]), "after": hx(prev[0])},
				"%s: the bytes returned by the previous call changed when the encoder was called again (first difference at byte %d of %d)", what, firstDiff(prev[0], prev[1]), len(prev[1]))
			delete(held, what)
			return
		}
	}
	held[what] = [2][]byte{got, append([]byte(nil), got...)}
}

// same judges one byte-exact comparison.
func (j *judge) same(counter, key, what string, got, want []byte, value interface{}) bool {
	j.r.Eval(1)
	j.r.Count(counter, 1)
	holdOutput(j.r, what, got)
	if bytes.Equal(got, want) {
		return true
	}
	j.r.Violationf(key, map[string]interface{}{"value": fmt.Sprintf("%+v", value), "repo": hx(got), "reference": hx(want)},
		"%s: repository bytes differ from the documented layout (repo %d bytes, reference %d bytes, first difference at byte %d)", what, len(got), len(want), firstDiff(got, want))
	return false
}

func firstDiff(a, b []byte) int {
	for i := 0; i < len(a) && i < len(b); i++ {
		if a[i] != b[i] {
			return i
		}
	}
	if len(a) < len(b) {
		return len(a)
	}
	return len(b)
}

// signing judges signing bytes: equal to the reference, ASCII struct name as
// prefix, followed by exactly the reference body; then records them for the
// collision checks.
func (j *judge) signing(typ string, got, ref, body []byte, value interface{}) {
	j.same("signing."+short(typ), "signing-bytes-differ:"+typ, typ+".SigningBytes", got, ref, value)
	j.r.Eval(1)
	if !bytes.HasPrefix(got, []byte(typ)) || !bytes.Equal(got[min(len(typ), len(got)):], body) {
		j.r.Violationf("signing-bytes-not-name-plus-body:"+typ, map[string]interface{}{"value": fmt.Sprintf("%+v", value), "repo": hx(got)},
			"%s.SigningBytes is not the ASCII struct name followed by the reference body", typ)
	}
	// no other struct name may be a prefix of these bytes
	for _, n := range typeNames {
		if n == typ {
			continue
		}
		j.r.Eval(1)
		j.r.Count("crosstype.pairs", 1)
		if bytes.HasPrefix(got, []byte(n)) {
			j.r.Violationf("signing-bytes-carry-foreign-prefix", map[string]interface{}{"type": typ, "foreign": n, "repo": hx(got)}, "signing bytes of a %s start with the name %s", typ, n)
		}
	}
	// collisions on the actual bytes
	k := string(got)
	own := sbOwner{typ, string(body)}
	if prev, ok := j.sbs[k]; ok && prev != own {
		if prev.typ != typ {
			j.r.Violationf("signing-bytes-collide-across-types", map[string]interface{}{"type_a": prev.typ, "type_b": typ, "bytes": hx(got)}, "a %s and a %s yield the same signing bytes", prev.typ, typ)
		} else {
			j.r.Violationf("signing-bytes-collide-within-type:"+typ, map[string]interface{}{"bytes": hx(got), "value_a": hx([]byte(prev.value)), "value_b": hx(body)}, "two distinct %s values yield the same signing bytes", typ)
		}
	}
	j.sbs[k] = own
}

func short(typ string) string {
	switch typ {
	case "EquipmentReport":
		return "report"
	case "EquipmentAuthorization":
		return "authorization"
	case "GCARegistration":
		return "registration"
	case "AllDeviceStats":
		return "stats"
	case "AuthorizedServer":
		return "authserver"
	case "EquipmentMigration":
		return "migration"
	}
	return typ
}

// distinct judges injectivity: a perturbed value must give different bytes.
func (j *judge) distinct(typ, field string, a, b []byte, what string) {
	j.r.Eval(1)
	j.r.Count("inj.perturbations", 1)
	j.r.Count("inj."+short(typ), 1)
	if bytes.Equal(a, b) {
		j.r.Violationf("not-injective:"+typ+":"+what, map[string]interface{}{"field": field, "bytes": hx(a)}, "%s: changing field %s leaves the %s unchanged", typ, field, what)
	}
}

func wrongLens(valid int) []int {
	l := []int{0, 2 * valid}
	for d := -3; d <= 3; d++ {
		if d != 0 && valid+d > 0 {
			l = append(l, valid+d)
		}
	}
	return l
}

// resize truncates b or extends it with seeded random bytes.
func resize(rng *rand.Rand, b []byte, l int) []byte {
	if l <= len(b) {
		return append([]byte(nil), b[:l]...)
	}
	ext := make([]byte, l-len(b))
	if rng.Intn(3) != 0 {
		rng.Read(ext)
	}
	if l == 2*len(b) && rng.Intn(2) == 0 {
		copy(ext, b)
	}
	return append(append([]byte(nil), b...), ext...)
}

func nontrivial(r *ev.Result, typ string, enc []byte) {
	for _, x := range enc {
		if x != 0 {
			r.Nontrivial(typ + string(enc))
			return
		}
	}
}

// ---------------------------------------------------------------- perturbations

func pU16(rng *rand.Rand, v uint16) uint16 {
	switch rng.Intn(3) {
	case 0:
		return v ^ 1<<uint(rng.Intn(16))
	case 1:
		return v + 1
	}
	for {
		if n := uint16(rng.Uint32()); n != v {
			return n
		}
	}
}

func pU32(rng *rand.Rand, v uint32) uint32 {
	switch rng.Intn(4) {
	case 0:
		return v ^ 1<<uint(rng.Intn(32))
	case 1:
		return v + 1
	case 2: // byte swap, when it changes the value
		if n := v>>24 | v>>8&0xff00 | v<<8&0xff0000 | v<<24; n != v {
			return n
		}
	}
	for {
		if n := rng.Uint32(); n != v {
			return n
		}
	}
}

func pU64(rng *rand.Rand, v uint64) uint64 {
	switch rng.Intn(3) {
	case 0:
		return v ^ 1<<uint(rng.Intn(64))
	case 1:
		return v - 1
	}
	for {
		if n := rng.Uint64(); n != v {
			return n
		}
	}
}

// pFloat returns a finite float with different bits (including the +0/-0 pair).
func pFloat(rng *rand.Rand, f float64) float64 {
	b := math.Float64bits(f)
	if rng.Intn(4) == 0 {
		return math.Float64frombits(b ^ 1<<63)
	}
	for {
		n := b ^ 1<<uint(rng.Intn(64))
		if rng.Intn(3) == 0 {
			n = math.Float64bits(gFloat(rng))
		}
		if n != b && n&(0x7ff<<52) != 0x7ff<<52 {
			return math.Float64frombits(n)
		}
	}
}

func p32(rng *rand.Rand, k [32]byte) [32]byte {
	k[rng.Intn(32)] ^= 1 << uint(rng.Intn(8))
	return k
}

func p64(rng *rand.Rand, k [64]byte) [64]byte {
	k[rng.Intn(64)] ^= 1 << uint(rng.Intn(8))
	return k
}

func pLocation(rng *rand.Rand, s string, max int) string {
	b := []byte(s)
	for {
		switch rng.Intn(4) {
		case 0:
			if len(b) > 0 {
				c := append([]byte(nil), b...)
				c[rng.Intn(len(c))] ^= 1 << uint(rng.Intn(8))
				return string(c)
			}
		case 1:
			if len(b) < max {
				return string(append(append([]byte(nil), b...), byte(rng.Intn(256))))
			}
		case 2:
			if len(b) > 0 {
				return string(b[:len(b)-1])
			}
		case 3:
			if len(b) > 1 {
				return string(b[1:])
			}
		}
	}
}

// ---------------------------------------------------------------- report, authorization, registration

func childFixed(b run.Batch, r *ev.Result) {
	rng := rand.New(rand.NewSource(b.Seed))
	j := newJudge(r, rng)
	for i := 0; i < b.N && r.NumViolations() < 20; i++ {
		// ---- report
		v := gReport(rng)
		if i == 0 {
			v = refenc.Report{}
		}
		rv := toReport(v)
		run.Op("report %x", v.Bytes())
		j.same("enc.report", "encoding-differs:EquipmentReport", "EquipmentReport.Serialize", rv.Serialize(), v.Bytes(), v)
		j.signing("EquipmentReport", rv.SigningBytes(), v.SigningBytes(), v.Bytes()[:16], v)
		nontrivial(r, "r", v.Bytes())
		d, err := glow.DeserializeReport(v.Bytes())
		r.Eval(1)
		r.Count("dec.report", 1)
		if err != nil || fromReport(d) != v {
			r.Violationf("decode-differs:EquipmentReport", map[string]interface{}{"bytes": hx(v.Bytes())}, "DeserializeReport(reference encoding of %+v) = %+v, %v", v, d, err)
		}
		for _, l := range wrongLens(80) {
			in := resize(rng, v.Bytes(), l)
			_, err := glow.DeserializeReport(in)
			r.Eval(1)
			r.Count("len.report", 1)
			if err == nil {
				r.Violationf("wrong-length-accepted:EquipmentReport", map[string]interface{}{"length": l, "bytes": hx(in)}, "DeserializeReport accepted %d bytes", l)
			} else {
				r.Count("len.refused", 1)
			}
		}
		for f := 0; f < 4; f++ {
			w := v
			name := ""
			switch f {
			case 0:
				w.ID, name = pU32(rng, v.ID), "ShortID"
			case 1:
				w.Slot, name = pU32(rng, v.Slot), "Timeslot"
			case 2:
				w.Power, name = pU64(rng, v.Power), "PowerOutput"
			case 3:
				w.Sig, name = p64(rng, v.Sig), "Signature"
			}
			rw := toReport(w)
			if f < 3 {
				j.distinct("EquipmentReport", name, rv.SigningBytes(), rw.SigningBytes(), "signing bytes")
			}
			j.distinct("EquipmentReport", name, rv.Serialize(), rw.Serialize(), "serialization")
		}
		// swapping two fields with different content is a different value
		if v.ID != v.Slot {
			w := v
			w.ID, w.Slot = v.Slot, v.ID
			rw := toReport(w)
			j.distinct("EquipmentReport", "ShortID<->Timeslot", rv.SigningBytes(), rw.SigningBytes(), "signing bytes")
		}

		// ---- authorization
		a := gAuth(rng)
		if i == 0 {
			a = refenc.Auth{}
		}
		ra := toAuth(a)
		run.Op("authorization %x", a.Bytes())
		j.same("enc.authorization", "encoding-differs:EquipmentAuthorization", "EquipmentAuthorization.Serialize", ra.Serialize(), a.Bytes(), a)
		j.signing("EquipmentAuthorization", ra.SigningBytes(), a.SigningBytes(), a.Bytes()[:84], a)
		nontrivial(r, "a", a.Bytes())
		r.Count("float_class."+floatClass(a.Lat), 1)
		da, err := glow.DeserializeEquipmentAuthorization(a.Bytes())
		r.Eval(1)
		r.Count("dec.authorization", 1)
		if err != nil || !authEq(fromAuth(da), a) {
			r.Violationf("decode-differs:EquipmentAuthorization", map[string]interface{}{"bytes": hx(a.Bytes())}, "DeserializeEquipmentAuthorization(reference encoding of %+v) = %+v, %v", a, da, err)
		}
		for _, l := range wrongLens(148) {
			in := resize(rng, a.Bytes(), l)
			_, err := glow.DeserializeEquipmentAuthorization(in)
			r.Eval(1)
			r.Count("len.authorization", 1)
			if err == nil {
				r.Violationf("wrong-length-accepted:EquipmentAuthorization", map[string]interface{}{"length": l, "bytes": hx(in)}, "DeserializeEquipmentAuthorization accepted %d bytes", l)
			} else {
				r.Count("len.refused", 1)
			}
		}
		for f := 0; f < 10; f++ {
			w := a
			name := ""
			switch f {
			case 0:
				w.ID, name = pU32(rng, a.ID), "ShortID"
			case 1:
				w.Pub, name = p32(rng, a.Pub), "PublicKey"
			case 2:
				w.Lat, name = pFloat(rng, a.Lat), "Latitude"
			case 3:
				w.Long, name = pFloat(rng, a.Long), "Longitude"
			case 4:
				w.Capacity, name = pU64(rng, a.Capacity), "Capacity"
			case 5:
				w.Debt, name = pU64(rng, a.Debt), "Debt"
			case 6:
				w.Expiration, name = pU32(rng, a.Expiration), "Expiration"
			case 7:
				w.Initialization, name = pU32(rng, a.Initialization), "Initialization"
			case 8:
				w.Fee, name = pU64(rng, a.Fee), "ProtocolFee"
			case 9:
				w.Sig, name = p64(rng, a.Sig), "Signature"
			}
			rw := toAuth(w)
			if f < 9 {
				j.distinct("EquipmentAuthorization", name, ra.SigningBytes(), rw.SigningBytes(), "signing bytes")
			}
			j.distinct("EquipmentAuthorization", name, ra.Serialize(), rw.Serialize(), "serialization")
		}
		// swaps of equally wide neighbours
		swaps := []struct {
			name string
			f    func(w *refenc.Auth) bool
		}{
			{"Latitude<->Longitude", func(w *refenc.Auth) bool {
				w.Lat, w.Long = a.Long, a.Lat
				return math.Float64bits(a.Lat) != math.Float64bits(a.Long)
			}},
			{"Capacity<->Debt", func(w *refenc.Auth) bool { w.Capacity, w.Debt = a.Debt, a.Capacity; return a.Debt != a.Capacity }},
			{"Expiration<->Initialization", func(w *refenc.Auth) bool {
				w.Expiration, w.Initialization = a.Initialization, a.Expiration
				return a.Expiration != a.Initialization
			}},
			{"Debt<->ProtocolFee", func(w *refenc.Auth) bool { w.Debt, w.Fee = a.Fee, a.Debt; return a.Debt != a.Fee }},
		}
		for _, s := range swaps {
			w := a
			if s.f(&w) {
				rw := toAuth(w)
				j.distinct("EquipmentAuthorization", s.name, ra.SigningBytes(), rw.SigningBytes(), "signing bytes")
			}
		}

		// ---- registration
		g := refenc.Registration{GCAKey: gBytes32(rng), Sig: gBytes64(rng)}
		rg := server.GCARegistration{GCAKey: g.GCAKey, Signature: g.Sig}
		j.signing("GCARegistration", rg.SigningBytes(), g.SigningBytes(), g.GCAKey[:], g)
		g2 := g
		g2.GCAKey = p32(rng, g.GCAKey)
		rg2 := server.GCARegistration{GCAKey: g2.GCAKey, Signature: g2.Sig}
		j.distinct("GCARegistration", "GCAKey", rg.SigningBytes(), rg2.SigningBytes(), "signing bytes")

		if i < 2 {
			r.Sample(map[string]interface{}{"kind": "report", "value": fmt.Sprintf("%+v", v), "bytes": hx(v.Bytes())})
		}
	}
}

// ---------------------------------------------------------------- authorized server, migration, client server map

func childServers(b run.Batch, r *ev.Result) {
	rng := rand.New(rand.NewSource(b.Seed))
	j := newJudge(r, rng)
	for i := 0; i < b.N && r.NumViolations() < 20; i++ {
		// ---- authorized server
		s := gAuthServer(rng)
		if i == 0 {
			s = refenc.AuthServer{}
		}
		rs := toAuthServer(s)
		run.Op("authserver %x", s.Bytes())
		enc := rs.Serialize()
		j.same("enc.authserver", "encoding-differs:AuthorizedServer", "AuthorizedServer.Serialize", enc, s.Bytes(), s)
		j.signing("AuthorizedServer", rs.SigningBytes(), s.SigningBytes(), s.Bytes()[:len(s.Bytes())-64], s)
		nontrivial(r, "s", s.Bytes())
		r.Max("max.authserver_location", int64(len(s.Location)))
		for f := 0; f < 7; f++ {
			w := s
			name := ""
			switch f {
			case 0:
				w.Pub, name = p32(rng, s.Pub), "PublicKey"
			case 1:
				w.Banned, name = !s.Banned, "Banned"
			case 2:
				w.Location, name = pLocation(rng, s.Location, 255), "Location"
			case 3:
				w.HTTP, name = pU16(rng, s.HTTP), "HttpPort"
			case 4:
				w.TCP, name = pU16(rng, s.TCP), "TcpPort"
			case 5:
				w.UDP, name = pU16(rng, s.UDP), "UdpPort"
			case 6:
				w.Sig, name = p64(rng, s.Sig), "GCAAuthorization"
			}
			rw := toAuthServer(w)
			if f < 6 {
				j.distinct("AuthorizedServer", name, rs.SigningBytes(), rw.SigningBytes(), "signing bytes")
			}
			j.distinct("AuthorizedServer", name, rs.Serialize(), rw.Serialize(), "serialization")
		}
		if i%8 == 3 {
			// two servers whose locations are longer than the one-byte length prefix can express and
			// agree in their first 255 bytes: different values (the endpoints refuse them; whoever
			// signs or compares such records directly must still tell them apart)
			long := s
			long.Location = strings.Repeat("h", 255) + fmt.Sprintf(".%d.example", rng.Intn(1<<30))
			other := long
			other.Location = long.Location[:255] + fmt.Sprintf(".%d.invalid", rng.Intn(1<<30))
			if other.Location != long.Location {
				rl, ro := toAuthServer(long), toAuthServer(other)
				j.distinct("AuthorizedServer", "Location beyond byte 255", rl.SigningBytes(), ro.SigningBytes(), "signing bytes")
				r.Count("inj.authserver_long_location_pairs", 1)
			}
		}
		if s.HTTP != s.TCP {
			w := s
			w.HTTP, w.TCP = s.TCP, s.HTTP
			rw := toAuthServer(w)
			j.distinct("AuthorizedServer", "HttpPort<->TcpPort", rs.SigningBytes(), rw.SigningBytes(), "signing bytes")
		}
		if s.TCP != s.UDP {
			w := s
			w.TCP, w.UDP = s.UDP, s.TCP
			rw := toAuthServer(w)
			j.distinct("AuthorizedServer", "TcpPort<->UdpPort", rs.SigningBytes(), rw.SigningBytes(), "signing bytes")
		}

		// ---- migration
		m := gMigration(rng, 4)
		if i == 0 {
			m = refenc.Migration{}
		}
		rm := toMigration(m)
		j.same("enc.migration", "encoding-differs:EquipmentMigration", "EquipmentMigration.Serialize", rm.Serialize(), m.Bytes(), m)
		j.signing("EquipmentMigration", rm.SigningBytes(), m.SigningBytes(), m.Bytes()[:len(m.Bytes())-64], m)
		nontrivial(r, "m", m.Bytes())
		r.Max("max.migration_servers", int64(len(m.Servers)))
		for f := 0; f < 6; f++ {
			w := m
			w.Servers = append([]refenc.AuthServer(nil), m.Servers...)
			name := ""
			switch f {
			case 0:
				w.Equipment, name = p32(rng, m.Equipment), "Equipment"
			case 1:
				w.NewGCA, name = p32(rng, m.NewGCA), "NewGCA"
			case 2:
				w.NewID, name = pU32(rng, m.NewID), "NewShortID"
			case 3:
				w.Servers, name = append(w.Servers, gAuthServer(rng)), "NewServers(+1)"
			case 4:
				if len(w.Servers) == 0 {
					continue
				}
				w.Servers, name = w.Servers[:len(w.Servers)-1], "NewServers(-1)"
			case 5:
				if len(w.Servers) == 0 {
					continue
				}
				k := rng.Intn(len(w.Servers))
				if rng.Intn(2) == 0 {
					w.Servers[k].Location = pLocation(rng, w.Servers[k].Location, 255)
				} else {
					w.Servers[k].Sig = p64(rng, w.Servers[k].Sig) // the inner signature is part of what the current GCA signs
				}
				name = "NewServers(entry)"
			}
			rw := toMigration(w)
			j.distinct("EquipmentMigration", name, rm.SigningBytes(), rw.SigningBytes(), "signing bytes")
		}
		if m.Equipment != m.NewGCA {
			w := m
			w.Equipment, w.NewGCA = m.NewGCA, m.Equipment
			rw := toMigration(w)
			j.distinct("EquipmentMigration", "Equipment<->NewGCA", rm.SigningBytes(), rw.SigningBytes(), "signing bytes")
		}

		// ---- client server map (every 5th case carries the big locations)
		serverMap(r, rng, i)
	}
}

func serverMap(r *ev.Result, rng *rand.Rand, i int) {
	k := rng.Intn(7)
	max := 300
	switch i % 5 {
	case 0:
		max = 65535
	case 1:
		k = 0
	}
	if i%50 == 2 {
		k = 20 + rng.Intn(40)
	}
	es := make([]refenc.MapEntry, k)
	byKey := map[[32]byte]refenc.MapEntry{}
	for x := range es {
		es[x] = gMapEntry(rng, max)
		if i%5 == 0 && x == 0 {
			es[x].Location = gLocation(rng, 65535)
			if i%10 == 0 {
				b := make([]byte, 65535)
				rng.Read(b)
				es[x].Location = string(b)
			}
		}
		byKey[es[x].Pub] = es[x]
		r.Max("max.servermap_location", int64(len(es[x].Location)))
		if len(es[x].Location) == 65535 {
			r.Count("servermap.location_65535", 1)
		}
		if len(es[x].Location) == 0 {
			r.Count("servermap.location_0", 1)
		}
	}
	r.Max("max.servermap_entries", int64(k))
	if k == 0 {
		r.Count("servermap.empty", 1)
	}
	ref := refenc.EncodeServerMap(es)
	run.Op("servermap entries=%d bytes=%d", k, len(ref))
	// encode: the repository iterates a Go map, so its output is some
	// permutation of the reference entry encodings
	got, err := client.SerializeGCAServerMap(toMap(es))
	r.Eval(1)
	r.Count("enc.servermap", 1)
	if err == nil {
		holdOutput(r, "SerializeGCAServerMap", got)
	}
	if err != nil {
		r.Violationf("encoding-refused:servermap", map[string]interface{}{"entries": k}, "SerializeGCAServerMap refused a map with locations <= 65535 bytes: %v", err)
	} else if why := permutationOf(got, byKey); why != "" {
		r.Violationf("encoding-differs:servermap", map[string]interface{}{"repo": hx(got), "reference_in_generation_order": hx(ref)}, "SerializeGCAServerMap output is not a concatenation of the reference entry encodings: %s", why)
	}
	nontrivial(r, "g", ref)
	// decode of the reference encoding
	dm, err := client.UntrustedDeserializeGCAServerMap(ref)
	r.Eval(1)
	r.Count("dec.servermap", 1)
	if err != nil || !mapEq(dm, byKey) {
		r.Violationf("decode-differs:servermap", map[string]interface{}{"bytes": hx(ref)}, "UntrustedDeserializeGCAServerMap(reference encoding of %d entries) = %d entries, %v", k, len(dm), err)
	}
	// a location of 65536 bytes cannot be encoded: refusal, or an exact round trip
	if i%25 == 3 {
		big := gMapEntry(rng, 10)
		big.Location = string(make([]byte, 65536+rng.Intn(3)))
		out, err := client.SerializeGCAServerMap(toMap([]refenc.MapEntry{big}))
		r.Eval(1)
		if err != nil {
			r.Count("servermap.oversize_location_refused", 1)
		} else if back, err2 := client.UntrustedDeserializeGCAServerMap(out); err2 != nil || !mapEq(back, map[[32]byte]refenc.MapEntry{big.Pub: big}) {
			r.Violationf("oversize-location-encoded-lossy:servermap", map[string]interface{}{"location_length": len(big.Location)}, "a %d byte location was encoded without error but does not decode back", len(big.Location))
		}
	}
	// lengths: every cut / extension is judged by what the reference parser says
	var lens []int
	for d := -3; d <= 3; d++ {
		if d != 0 && len(ref)+d >= 0 {
			lens = append(lens, len(ref)+d)
		}
	}
	lens = append(lens, 0, 2*len(ref))
	for c := 0; c < 4 && len(ref) > 0; c++ {
		lens = append(lens, rng.Intn(len(ref)))
	}
	for _, l := range lens {
		in := resize(rng, ref, l)
		want, werr := refenc.ParseServerMap(in)
		gotm, gerr := client.UntrustedDeserializeGCAServerMap(in)
		r.Eval(1)
		r.Count("len.servermap", 1)
		switch {
		case werr != nil && gerr == nil:
			r.Violationf("wrong-length-accepted:servermap", map[string]interface{}{"length": l, "valid_length": len(ref), "bytes": hx(in)}, "UntrustedDeserializeGCAServerMap accepted %d bytes (valid stream: %d bytes) although no entry boundary falls there", l, len(ref))
		case werr == nil && gerr != nil:
			r.Violationf("valid-stream-refused:servermap", map[string]interface{}{"length": l, "bytes": hx(in)}, "UntrustedDeserializeGCAServerMap refused a well-formed stream of %d bytes: %v", l, gerr)
		case werr == nil:
			r.Count("len.valid_stream_accepted", 1)
			if !mapEq(gotm, want) {
				r.Violationf("decode-differs:servermap", map[string]interface{}{"length": l, "bytes": hx(in)}, "well-formed %d byte stream decodes to different entries than the reference parser finds", l)
			}
		default:
			r.Count("len.refused", 1)
		}
	}
}

// permutationOf checks that b is a concatenation, in any order, of exactly
// the reference encodings of the entries.
func permutationOf(b []byte, byKey map[[32]byte]refenc.MapEntry) string {
	seen := map[[32]byte]bool{}
	for len(b) > 0 {
		if len(b) < 32 {
			return "trailing bytes"
		}
		var k [32]byte
		copy(k[:], b)
		e, ok := byKey[k]
		if !ok || seen[k] {
			return "entry with an unknown or repeated key"
		}
		seen[k] = true
		w := e.Bytes()
		if len(b) < len(w) || !bytes.Equal(b[:len(w)], w) {
			return fmt.Sprintf("entry %x.. differs from its reference encoding at byte %d", k[:4], firstDiff(b, w))
		}
		b = b[len(w):]
	}
	if len(seen) != len(byKey) {
		return "missing entries"
	}
	return ""
}

func mapEq(got map[glow.PublicKey]client.GCAServer, want map[[32]byte]refenc.MapEntry) bool {
	if len(got) != len(want) {
		return false
	}
	for k, w := range want {
		g, ok := got[k]
		if !ok || g.Banned != w.Banned || g.Location != w.Location || g.HttpPort != w.HTTP || g.TcpPort != w.TCP || g.UdpPort != w.UDP {
			return false
		}
	}
	return true
}

// ---------------------------------------------------------------- weekly statistics stream

// decodeStream is the loop the server runs over allDeviceStats.dat.
func decodeStream(data []byte) (out []server.AllDeviceStats, err error) {
	for len(data) > 0 {
		ads, n, err := server.DeserializeStreamAllDeviceStats(data)
		if err != nil {
			return nil, err
		}
		if n <= 0 || n > len(data) {
			return nil, fmt.Errorf("decoder reports %d consumed bytes of %d", n, len(data))
		}
		out = append(out, ads)
		data = data[n:]
	}
	return out, nil
}

func childStats(b run.Batch, r *ev.Result) {
	rng := rand.New(rand.NewSource(b.Seed))
	j := newJudge(r, rng)
	for i := 0; i < b.N && r.NumViolations() < 20; i++ {
		k := rng.Intn(5)
		if i == 0 {
			k = 0
		}
		recs := make([]refenc.Stats, k)
		var stream []byte
		var ends []int
		for x := range recs {
			recs[x] = gStats(rng, 3)
			if i == 1 {
				recs[x].Devices = nil
			}
			s := recs[x]
			rs := toStats(s)
			run.Op("stats record devices=%d week=%d", len(s.Devices), s.Week)
			enc := s.Bytes()
			j.same("enc.stats", "encoding-differs:AllDeviceStats", "AllDeviceStats.Serialize", rs.Serialize(), enc, fmt.Sprintf("devices=%d week=%d", len(s.Devices), s.Week))
			j.signing("AllDeviceStats", rs.SigningBytes(), s.SigningBytes(), enc[:len(enc)-64], fmt.Sprintf("devices=%d week=%d", len(s.Devices), s.Week))
			nontrivial(r, "w", enc[:min(len(enc), 4096)])
			if len(s.Devices) == 0 {
				r.Count("stats.zero_devices", 1)
			}
			r.Max("max.stats_devices", int64(len(s.Devices)))
			// single record decode: value and consumed length
			d, n, err := server.DeserializeStreamAllDeviceStats(append(append([]byte(nil), enc...), stream...)) // followed by other records
			r.Eval(1)
			r.Count("dec.stats", 1)
			if err != nil || n != len(enc) || !statsEq(d, s) {
				r.Violationf("decode-differs:AllDeviceStats", map[string]interface{}{"devices": len(s.Devices), "week": s.Week, "consumed": n, "record_length": len(enc)},
					"DeserializeStreamAllDeviceStats(reference record, %d bytes) consumed %d bytes, err %v, value equal=%v", len(enc), n, err, err == nil && statsEq(d, s))
			}
			// injectivity on a few fields
			w := s
			w.Week = pU32(rng, s.Week)
			j.distinct("AllDeviceStats", "TimeslotOffset", rs.SigningBytes(), toStats(w).SigningBytes(), "signing bytes")
			if len(s.Devices) > 0 {
				w = s
				w.Devices = append([]refenc.DevStats(nil), s.Devices...)
				dv := rng.Intn(len(s.Devices))
				slot := rng.Intn(2016)
				name := ""
				switch rng.Intn(4) {
				case 0:
					w.Devices[dv].Power[slot], name = pU64(rng, w.Devices[dv].Power[slot]), "PowerOutputs[i]"
				case 1:
					w.Devices[dv].Impact[slot], name = math.Float64bits(pFloat(rng, math.Float64frombits(w.Devices[dv].Impact[slot]))), "ImpactRates[i]"
				case 2:
					w.Devices[dv].Pub, name = p32(rng, w.Devices[dv].Pub), "PublicKey"
				case 3:
					if w.Devices[dv].Power[slot] == w.Devices[dv].Impact[slot] {
						w.Devices[dv].Power[slot]++
					}
					w.Devices[dv].Power[slot], w.Devices[dv].Impact[slot], name = w.Devices[dv].Impact[slot], w.Devices[dv].Power[slot], "PowerOutputs[i]<->ImpactRates[i]"
				}
				j.distinct("AllDeviceStats", name, rs.SigningBytes(), toStats(w).SigningBytes(), "signing bytes")
				w = s
				w.Devices = s.Devices[:len(s.Devices)-1]
				j.distinct("AllDeviceStats", "Devices(-1)", rs.SigningBytes(), toStats(w).SigningBytes(), "signing bytes")
			}
			stream = append(stream, enc...)
			ends = append(ends, len(stream))
		}
		r.Max("max.stats_records", int64(k))
		if k == 0 {
			r.Count("stats.empty_stream", 1)
		}
		// whole stream
		got, err := decodeStream(stream)
		r.Eval(1)
		r.Count("dec.stats", 1)
		ok := err == nil && len(got) == k
		for x := 0; ok && x < k; x++ {
			ok = statsEq(got[x], recs[x])
		}
		if !ok {
			r.Violationf("decode-differs:AllDeviceStats", map[string]interface{}{"records": k, "bytes": len(stream)}, "stream of %d reference records decodes to %d records, err %v", k, len(got), err)
		} else {
			r.Count("len.valid_stream_accepted", 1)
		}
		// lengths: truncations anywhere (the count field stays intact or is
		// cut off entirely), extensions by 1..3 bytes and by an intact zero
		// count plus less than the 68 bytes that must follow it
		type probe struct {
			in   []byte
			what string
		}
		var ps []probe
		for d := 1; d <= 3; d++ {
			if len(stream)-d >= 0 {
				ps = append(ps, probe{resize(rng, stream, len(stream)-d), fmt.Sprintf("valid-%d", d)})
			}
			ps = append(ps, probe{resize(rng, stream, len(stream)+d), fmt.Sprintf("valid+%d", d)})
		}
		for c := 0; c < 4 && len(stream) > 0; c++ {
			cut := rng.Intn(len(stream))
			ps = append(ps, probe{resize(rng, stream, cut), "cut"})
		}
		for c := 0; c < 3; c++ {
			ext := make([]byte, 4+rng.Intn(68))
			rng.Read(ext[4:])
			ps = append(ps, probe{append(append([]byte(nil), stream...), ext...), "valid+zero-count+short-tail"})
		}
		for _, p := range ps {
			_, werr := refenc.ParseStatsStream(p.in)
			gotp, gerr := decodeStream(p.in)
			r.Eval(1)
			r.Count("len.stats", 1)
			switch {
			case werr != nil && gerr == nil:
				r.Violationf("wrong-length-accepted:AllDeviceStats", map[string]interface{}{"length": len(p.in), "valid_length": len(stream), "probe": p.what, "record_ends": ends},
					"the statistics stream decoder accepted %d bytes (%s; valid stream %d bytes, record ends %v): %d records", len(p.in), p.what, len(stream), ends, len(gotp))
			case werr == nil && gerr != nil:
				r.Violationf("valid-stream-refused:AllDeviceStats", map[string]interface{}{"length": len(p.in), "probe": p.what}, "a well-formed stream of %d bytes (%s) was refused: %v", len(p.in), p.what, gerr)
			case werr == nil:
				r.Count("len.valid_stream_accepted", 1)
			default:
				r.Count("len.refused", 1)
			}
		}
		// single-record decoder on an empty input: length 0 is refused
		_, _, err = server.DeserializeStreamAllDeviceStats(nil)
		r.Eval(1)
		r.Count("len.stats", 1)
		if err == nil {
			r.Violationf("wrong-length-accepted:AllDeviceStats", map[string]interface{}{"length": 0}, "DeserializeStreamAllDeviceStats accepted an empty input as a record")
		} else {
			r.Count("len.refused", 1)
		}
		// the stream twice is the records twice
		if k > 0 && k <= 2 {
			twice, err := decodeStream(append(append([]byte(nil), stream...), stream...))
			r.Eval(1)
			r.Count("len.stats", 1)
			if err != nil || len(twice) != 2*k {
				r.Violationf("valid-stream-refused:AllDeviceStats", map[string]interface{}{"records": k}, "the stream repeated twice decodes to %d records, err %v", len(twice), err)
			} else if !statsEq(twice[k], recs[0]) {
				r.Violationf("decode-differs:AllDeviceStats", map[string]interface{}{"records": k}, "the stream repeated twice: record %d differs from the first reference record", k)
			} else {
				r.Count("len.valid_stream_accepted", 1)
			}
		}
		if i < 2 {
			r.Sample(map[string]interface{}{"kind": "stats stream", "records": k, "bytes": len(stream), "record_ends": ends})
		}
	}
}
