//go:build test

// File-fault scenarios of C04.
//
// tornlog: while the server is down, 1..79 bytes of a valid report are
// appended to equipment-reports.dat (an append cut short). A server that
// refuses to start on that file is accepted and counted; if it starts, the
// usual restart-twice comparison applies to this and to every following
// restart (reports accepted after the tear must survive).
//
// partialwrite: "disk full" in the middle of archiving a week: the kernel
// accepts only the first k bytes of the record (RLIMIT_FSIZE = file size + k,
// SIGXFSZ ignored; process wide, hence a process of its own). The unchanged
// server panics there by design; that death at that operation is accepted.
// Whichever way the process goes, the next start on the directory (in a
// fresh process) must succeed and reproduce the state: pre-fault state if
// the process died, the state the surviving process had otherwise; archive
// contiguous from week 0, every record verifies, file == memory.
package main

import (
	"bytes"
	"encoding/gob"
	"encoding/json"
	"fmt"
	"math/rand"
	"os"
	"os/exec"
	"os/signal"
	"path/filepath"
	"strings"
	"syscall"
	"time"

	"github.com/glowlabs-org/gca-backend/server"

	"verifharness/lib/drv"
	"verifharness/lib/ev"
	"verifharness/lib/refenc"
	"verifharness/lib/run"
	"verifharness/lib/wmodel"
)

// ---------------------------------------------------------------- tornlog

func (h *hist) runTornLog() {
	step := func(class string, k int) bool {
		if h.dead || class == "" {
			return false
		}
		h.restartPair(class, k)
		return !h.dead
	}
	if !step(h.opRegister(), 0) || !step(h.opAuthorizeMany(3), 0) {
		return
	}
	h.clockForward(uint32(300 + h.rng.Intn(300)))
	if !step(h.opLongReports(40+h.rng.Intn(40), false), 0) {
		return
	}
	class := h.opReports("normal")
	ds := h.authorizedKnown()
	if class == "" || len(ds) == 0 {
		return
	}
	d := ds[h.rng.Intn(len(ds))]
	n := []int{1, 4, 16, 37, 79, 1 + h.rng.Intn(79)}[h.rng.Intn(6)]
	torn := d.Report(drv.Clock()+300, 4242).Bytes()[:n]
	h.whileDown = func() {
		if f, err := os.OpenFile(filepath.Join(h.Dir, "equipment-reports.dat"), os.O_APPEND|os.O_WRONLY, 0644); err == nil {
			f.Write(torn)
			f.Close()
		}
	}
	h.op("while the server is down: %d bytes of a report get appended to equipment-reports.dat", n)
	h.r.Count("tornlog.scenarios", 1)
	if !step(class, 0) {
		return
	}
	h.r.Count("tornlog.started_on_torn_file", 1)
	for i := 0; i < 3; i++ {
		if !step(h.opReports("normal"), 0) { // accepted after the tear
			return
		}
	}
	if !step(h.opReports("equivocating"), 0) || !step(h.opRotate(), 0) {
		return
	}
	h.r.Count("tornlog.completed", 1)
}

// ---------------------------------------------------------------- partialwrite

const (
	pwPanic   = "panic: failed to save all device stats"
	pwFault   = "fault-installed"
	pwCleared = "fault-removed"
)

type pwState struct {
	Clock     uint32
	ServerKey refenc.Key
	Temp      refenc.Key
	GCA       refenc.Key
}

func saveGob(path string, v interface{}) error {
	var buf bytes.Buffer
	if err := gob.NewEncoder(&buf).Encode(v); err != nil {
		return err
	}
	return os.WriteFile(path, buf.Bytes(), 0644)
}

func (h *hist) savePW(aux, name string, s *server.VerifSnap) bool {
	st := pwState{Clock: drv.Clock(), ServerKey: h.Key, Temp: h.Temp, GCA: h.GCA}
	raw, _ := json.Marshal(st)
	os.WriteFile(filepath.Join(aux, "state.json"), raw, 0644)
	if s != nil {
		if err := saveGob(filepath.Join(aux, name), s); err != nil {
			h.r.Inconc("cannot save the reference snapshot: " + err.Error())
			return false
		}
	}
	return true
}

// archiveClauses: contiguous labels, valid signatures, offset, file == memory.
func (h *hist) archiveClauses(s *server.VerifSnap, when string) {
	h.r.Eval(1)
	var mem []byte
	for i := range s.History {
		rec := wmodel.FromServer(s.History[i])
		mem = append(mem, rec.Bytes()...)
		if rec.Week != uint32(wmodel.Week*i) {
			h.viol("archive-not-contiguous", nil, "%s: archive index %d carries label %d, want %d", when, i, rec.Week, wmodel.Week*i)
			break
		}
		if !wmodel.SigValid(rec, s.ServerPubKey) {
			h.viol("archived-record-signature", nil, "%s: archived week %d does not verify under the server key", when, i)
		}
	}
	if s.Offset != uint32(wmodel.Week*len(s.History)) {
		h.viol("offset-differs-from-archive-length", nil, "%s: window offset %d with %d archived weeks", when, s.Offset, len(s.History))
	}
	if !bytes.Equal(mem, h.ReadFile("allDeviceStats.dat")) {
		h.viol("archive-file-differs-from-memory", nil, "%s: allDeviceStats.dat is not the reference serialization of the %d weeks in memory", when, len(s.History))
	}
}

func childPWA(b run.Batch, r *ev.Result) {
	aux := b.P("aux")
	h := newHist(b, r, 0)
	if h == nil {
		return
	}
	defer h.stop()
	step := func(class string, k int) bool {
		if h.dead || class == "" {
			return false
		}
		h.restartPair(class, k)
		return !h.dead
	}
	if !step(h.opRegister(), 0) || !step(h.opAuthorizeMany(3), 0) {
		return
	}
	h.clockForward(uint32(400 + h.rng.Intn(200)))
	if !step(h.opLongReports(60, false), 0) || !step(h.opRotate(), 0) || !step(h.opLongReports(60, true), 0) {
		return
	}
	// second week is due: the fault hits its archiving
	off := h.cur.Offset
	drv.SetClock(off + 3200)
	if !step(h.opReports("normal"), 0) {
		return
	}
	off = h.cur.Offset // (the restart pair may have gone through a rotation of its own)
	if c := off + 3200; c > drv.Clock() {
		drv.SetClock(c)
	}
	if int64(drv.Clock())-int64(off) != 3200 {
		r.Inconc(fmt.Sprintf("%s: harness error: clock %d, offset %d before the fault", h.tag, drv.Clock(), off))
		return
	}
	size := len(h.ReadFile("allDeviceStats.dat"))
	os.WriteFile(filepath.Join(aux, "prefault-archive.bin"), h.ReadFile("allDeviceStats.dat"), 0644)
	drv.SetClock(off + 3201)
	if !h.savePW(aux, "expected.gob", h.cur) {
		return
	}
	k := 1 + h.rng.Intn(30000)
	signal.Ignore(syscall.SIGXFSZ)
	var old syscall.Rlimit
	syscall.Getrlimit(syscall.RLIMIT_FSIZE, &old)
	lim := old
	lim.Cur = uint64(size + k)
	if err := syscall.Setrlimit(syscall.RLIMIT_FSIZE, &lim); err != nil {
		r.Inconc("cannot install the write fault: " + err.Error())
		return
	}
	os.WriteFile(filepath.Join(aux, pwFault), nil, 0644)
	h.op("rotation (background loop iteration) while only %d more bytes of allDeviceStats.dat can be written, clock=%d", k, drv.Clock())
	got := drv.StepRotation() // the unchanged server dies in here
	// ---- the server survived the partial write
	syscall.Setrlimit(syscall.RLIMIT_FSIZE, &old)
	os.WriteFile(filepath.Join(aux, pwCleared), nil, 0644)
	r.Count("pw.survived", 1)
	r.Note("%s: server survived a partial write of a week record (loop iteration reported %d completed rotations)", h.tag, got)
	if got < 0 {
		r.Inconc(h.tag + ": the gated rotation loop did not come round after the write fault")
		return
	}
	if got == 0 {
		h.op("rotation (background loop iteration) after space became available again")
		if n := drv.StepRotation(); n != 1 {
			r.Inconc(fmt.Sprintf("%s: the retried rotation reported %d completed rotations", h.tag, n))
			return
		}
	}
	h.cur = h.S.VerifSnapshot(true)
	if !h.savePW(aux, "expected.gob", h.cur) { // what a restart has to reproduce, should this process die in it
		return
	}
	if !step("rotation-after-partial-write", 0) {
		return
	}
	h.archiveClauses(h.cur, "after the restart of the surviving server")
	h.savePW(aux, "expected.gob", h.cur)
}

func childPWB(b run.Batch, r *ev.Result) {
	aux := b.P("aux")
	raw, err := os.ReadFile(filepath.Join(aux, "state.json"))
	var st pwState
	if err != nil || json.Unmarshal(raw, &st) != nil {
		r.Inconc("follow-up process cannot read the scenario state")
		return
	}
	var want server.VerifSnap
	gb, err := os.ReadFile(filepath.Join(aux, "expected.gob"))
	if err != nil || gob.NewDecoder(bytes.NewReader(gb)).Decode(&want) != nil {
		r.Inconc("follow-up process cannot read the reference snapshot")
		return
	}
	rng := rand.New(rand.NewSource(b.Seed*1000 + 77))
	h := &hist{r: r, rng: rng, b: b, tag: fmt.Sprintf("s%d.restarted", b.Seed), all: map[uint32]*drv.Dev{}, logged: map[uint32]int{}, registered: true, seeded: true, keepDir: true}
	h.World = &drv.World{Srv: &drv.Srv{Dir: b.P("srv"), Key: st.ServerKey, Temp: st.Temp}, GCA: st.GCA, Devs: map[uint32]*drv.Dev{}, Rng: rng}
	drv.SetClock(st.Clock)
	drv.GateRotation(true)
	drv.GateImpact(true)
	h.op("start in a fresh process on the directory of the partial-write scenario, clock=%d", st.Clock)
	if !h.startSrv("start after the partial-write scenario") {
		return
	}
	defer h.stop()
	r.Count("pw.restart_in_fresh_process", 1)
	s := h.S.VerifSnapshot(true)
	h.r.Eval(1)
	for _, sec := range persisted(&want, s, false) {
		h.viol("restart-changed-state:"+sectionClass(sec), nil, "state after a restart in a fresh process differs from the reference state of the partial-write scenario in section %s", sec)
	}
	h.archiveClauses(s, "after a restart in a fresh process")
	pre, _ := os.ReadFile(filepath.Join(aux, "prefault-archive.bin"))
	if file := h.ReadFile("allDeviceStats.dat"); len(file) < len(pre) || !bytes.Equal(file[:len(pre)], pre) {
		h.viol("archive-file-rewritten", nil, "allDeviceStats.dat (%d bytes) no longer starts with the %d bytes it held before the write fault", len(file), len(pre))
	}
	h.cur = s
	if int64(drv.Clock())-int64(s.Offset) > 3200 {
		h.op("rotation (background loop iteration), the one that was due when the fault hit")
		if n := drv.StepRotation(); n != 1 {
			r.Inconc(fmt.Sprintf("%s: the due rotation reported %d completed rotations", h.tag, n))
			return
		}
		h.restartPair("rotation", 0)
		if !h.dead {
			h.archiveClauses(h.cur, "after the repeated rotation and a restart pair")
		}
	} else {
		h.restartPair("", 0)
	}
	if !h.dead {
		r.Count("pw.followup_completed", 1)
	}
}

// ---------------------------------------------------------------- orchestrator

type gcOut struct {
	exit     int
	timedOut bool
	stderr   string
	oplog    []string
	res      *ev.Result
}

func spawn(b run.Batch, kind, name, srv, aux string) gcOut {
	dir := filepath.Join(b.Dir, name)
	os.MkdirAll(dir, 0755)
	nb := run.Batch{Index: b.Index, Seed: b.Seed, Tier: b.Tier, Kind: kind, N: 1, Dir: dir, Params: map[string]string{"srv": srv, "aux": aux}}
	raw, _ := json.Marshal(nb)
	bf := filepath.Join(dir, "batch.json")
	os.WriteFile(bf, raw, 0644)
	self, _ := os.Executable()
	cmd := exec.Command(self, "child", bf)
	cmd.Dir = dir
	se, _ := os.Create(filepath.Join(dir, "stderr"))
	so, _ := os.Create(filepath.Join(dir, "stdout"))
	defer se.Close()
	defer so.Close()
	cmd.Stderr, cmd.Stdout = se, so
	cmd.Env = append(os.Environ(), "TMPDIR="+dir)
	cmd.SysProcAttr = &syscall.SysProcAttr{Setpgid: true}
	out := gcOut{exit: -1}
	if err := cmd.Start(); err != nil {
		out.stderr = err.Error()
		return out
	}
	done := make(chan error, 1)
	go func() { done <- cmd.Wait() }()
	select {
	case <-done:
	case <-time.After(250 * time.Second):
		out.timedOut = true
		syscall.Kill(-cmd.Process.Pid, syscall.SIGKILL)
		<-done
	}
	if cmd.ProcessState != nil {
		out.exit = cmd.ProcessState.ExitCode()
	}
	if sb, err := os.ReadFile(filepath.Join(dir, "stderr")); err == nil {
		if len(sb) > 20000 {
			sb = sb[:20000]
		}
		out.stderr = string(sb)
	}
	if ob, err := os.ReadFile(filepath.Join(dir, "oplog")); err == nil {
		l := strings.Split(strings.TrimSpace(string(ob)), "\n")
		if len(l) > 12 {
			l = l[len(l)-12:]
		}
		out.oplog = l
	}
	if res, err := ev.LoadResult(filepath.Join(dir, "result.json")); err == nil {
		out.res = res
	}
	return out
}

func merge(dst, src *ev.Result) {
	dst.Eval(int(src.Evaluations))
	for _, hsh := range src.Distinct {
		dst.Nontrivial(fmt.Sprintf("sub/%d", hsh))
	}
	for k, v := range src.Counters {
		if strings.HasPrefix(k, "max.") {
			dst.Max(k, v)
		} else {
			dst.Count(k, v)
		}
	}
	for _, v := range src.Violations {
		dst.Violation(v.Key, v.Desc, v.Replay)
	}
	for _, s := range src.Inconclusive {
		dst.Inconc(s)
	}
	for _, n := range src.Notes {
		dst.Note("%s", n)
	}
}

func childPartialWrite(b run.Batch, r *ev.Result) {
	srv := filepath.Join(b.Dir, "srv")
	aux := filepath.Join(b.Dir, "aux")
	os.MkdirAll(aux, 0755)
	r.Count("pw.scenarios", 1)
	replay := func(o gcOut) interface{} {
		st := o.stderr
		if len(st) > 3000 {
			st = st[:3000]
		}
		return map[string]interface{}{"batch": b, "oplog_tail": o.oplog, "stderr_head": st}
	}
	exists := func(n string) bool { _, err := os.Stat(filepath.Join(aux, n)); return err == nil }
	last := func(o gcOut) string {
		if len(o.oplog) > 0 {
			return o.oplog[len(o.oplog)-1]
		}
		return ""
	}
	a := spawn(b, "pw-a", "a", srv, aux)
	if a.res != nil {
		merge(r, a.res)
	}
	switch {
	case a.timedOut:
		r.Inconc("partial-write scenario: first process hit its wall-clock watchdog")
		return
	case a.res != nil && a.exit == 0:
		if !exists(pwFault) {
			return // never reached the fault: reported by itself
		}
		r.Count("pw.outcome_observed", 1)
	default:
		line := run.CrashLine(a.stderr)
		if strings.HasPrefix(line, pwPanic) && exists(pwFault) && !exists(pwCleared) && strings.Contains(last(a), "more bytes of allDeviceStats.dat") {
			r.Count("pw.crashed_on_failed_save", 1) // fail-stop at the failed save: the accepted outcome
			r.Count("pw.outcome_observed", 1)
			r.Eval(1)
		} else if line != "" {
			r.Violation("crash:"+run.Normalize(line), fmt.Sprintf("server process died in the partial-write scenario (exit %d, last op %q): %s", a.exit, last(a), line), replay(a))
			if !exists(pwCleared) {
				return
			}
			// it died after the fault was gone (e.g. in its own restart): the directory must still be restartable
		} else {
			r.Inconc(fmt.Sprintf("partial-write scenario: first process ended with exit %d and no result; stderr: %.300s", a.exit, a.stderr))
			return
		}
	}
	bb := spawn(b, "pw-b", "b", srv, aux)
	if bb.res != nil {
		merge(r, bb.res)
	}
	switch {
	case bb.timedOut:
		r.Inconc("partial-write scenario: follow-up process hit its wall-clock watchdog")
	case bb.res == nil || bb.exit != 0:
		if line := run.CrashLine(bb.stderr); line != "" {
			r.Violation("crash:"+run.Normalize(line), fmt.Sprintf("server process died when restarted after the partial-write scenario (exit %d, last op %q): %s", bb.exit, last(bb), line), replay(bb))
		} else {
			r.Inconc(fmt.Sprintf("partial-write scenario: follow-up process ended with exit %d and no result; stderr: %.300s", bb.exit, bb.stderr))
		}
	}
	os.RemoveAll(srv)
}
