//go:build test

package main

// fleet: one weekly record far larger than any fixed read buffer (550-700
// devices: 17-22 MiB in allDeviceStats.dat). The fleet is authorized through
// the real endpoint, a few devices report, the week is rotated, and the server
// is restarted twice. Judged with cheap observations only (the full snapshot
// of such a fleet is hundreds of megabytes): every restart succeeds, offset
// and device set are unchanged, the archived week decodes from the file
// (reference parser) and from the endpoint to the same record - same devices,
// same reported values, valid signature - before and after the restarts.

import (
	"fmt"
	"math/rand"
	"os"
	"path/filepath"

	"verifharness/lib/drv"
	"verifharness/lib/ev"
	"verifharness/lib/refenc"
	"verifharness/lib/run"
	"verifharness/lib/wmodel"
)

func childFleet(b run.Batch, r *ev.Result) {
	rng := rand.New(rand.NewSource(b.Seed))
	drv.SetClock(0)
	drv.GateRotation(true)
	drv.GateImpact(true)
	dir := filepath.Join(b.Dir, "srvfleet")
	w, err := drv.NewWorld(dir, rng)
	if err != nil {
		r.Inconc("cannot start world: " + err.Error())
		return
	}
	defer os.RemoveAll(dir)
	closed := false
	defer func() {
		if !closed {
			drv.SetClock(w.S.VerifSnapshot(false).Offset)
			w.Close()
		}
	}()
	n := 550 + rng.Intn(150)
	run.Op("authorize a fleet of %d devices", n)
	var devs []*drv.Dev
	for i := 0; i < n; i++ {
		d, err := w.AddDevice(uint32(1000+i*3+rng.Intn(3)), 1000000)
		if err != nil {
			r.Inconc(err.Error())
			return
		}
		devs = append(devs, d)
	}
	want := map[[32]byte]map[int]uint64{}
	for k := 0; k < 40; k++ {
		d := devs[rng.Intn(n)]
		slot := uint32(rng.Intn(430))
		p := uint64(100 + rng.Intn(9000))
		if want[d.Key.Pub] == nil {
			want[d.Key.Pub] = map[int]uint64{}
		}
		if _, used := want[d.Key.Pub][int(slot)]; used {
			continue
		}
		drv.SetClock(slot)
		w.Inject(d.Report(slot, p).Bytes())
		want[d.Key.Pub][int(slot)] = p
	}
	drv.SetClock(3201)
	run.Op("rotate the week of %d devices", n)
	if k := drv.StepRotation(); k != 1 {
		r.Inconc(fmt.Sprintf("rotation did not happen (%d)", k))
		return
	}
	replay := map[string]interface{}{"batch": b, "devices": n}
	check := func(when string) bool {
		r.Eval(1)
		sn := w.S.VerifSnapshot(false)
		if sn.Offset != wmodel.Week || len(sn.Equipment) != n {
			r.Violationf("restart-changed-state:offset", replay, "%s: offset %d (want %d), %d devices (want %d)", when, sn.Offset, wmodel.Week, len(sn.Equipment), n)
			return false
		}
		file := w.ReadFile("allDeviceStats.dat")
		recs, err := refenc.ParseStatsStream(file)
		if err != nil || len(recs) != 1 {
			r.Violationf("archive-file-differs-from-memory", replay, "%s: allDeviceStats.dat (%d bytes) parses to %d records, err %v", when, len(file), len(recs), err)
			return false
		}
		r.Max("max.fleet_record_bytes", int64(len(file)))
		st, got, _, err := w.GetStats("timeslot_offset=0")
		if err != nil || st != 200 {
			if st == 0 {
				r.Inconc(fmt.Sprintf("%s: request for the archived week failed: %v", when, err))
			} else {
				r.Violationf("archived-week-refused", replay, "%s: archived week 0 of a %d-device fleet answered status %d err %v", when, n, st, err)
			}
			return false
		}
		if !wmodel.EqualOrdered(*got, recs[0]) {
			r.Violationf("restart-changed-state:archive", replay, "%s: the served archived week differs from the record in the file: %s", when, wmodel.DescribeDiff(recs[0], *got, true))
			return false
		}
		if !wmodel.SigValid(*got, w.Key.Pub) || len(got.Devices) != n {
			r.Violationf("restart-changed-state:archive", replay, "%s: archived week has %d devices (want %d), signature valid=%v", when, len(got.Devices), n, wmodel.SigValid(*got, w.Key.Pub))
			return false
		}
		seen := 0
		for _, d := range got.Devices {
			for slot, p := range want[d.Pub] {
				if d.Power[slot] != p {
					r.Violationf("restart-changed-state:archive", replay, "%s: archived power of a device at slot %d is %d, reported %d", when, slot, d.Power[slot], p)
					return false
				}
				seen++
			}
		}
		r.Count("fleet.reported_values_found_in_archive", int64(seen))
		return true
	}
	if !check("after the rotation") {
		return
	}
	for i := 1; i <= 2; i++ {
		run.Op("restart %d on a %d-device history", i, n)
		drv.SetClock(wmodel.Week + 100)
		if err := w.Close(); err != nil && !drv.SlowShutdown(err) {
			closed = true
			r.Violationf("shutdown-failed", replay, "Close failed: %v", err)
			return
		}
		closed = true
		if err := w.Start(); err != nil {
			r.Violationf("restart-failed:large-fleet-record", replay, "restart %d on a history whose weekly record holds %d devices (%d bytes) failed: %v", i, n, 72+32288*n, err)
			return
		}
		closed = false
		if !check(fmt.Sprintf("after restart %d", i)) {
			return
		}
	}
	r.Count("fleet.runs", 1)
	r.Max("max.fleet_devices", int64(n))
	r.Nontrivial(fmt.Sprintf("fleet/%d", n))
}
