//go:build test

// C04 — Restart preserves every accepted fact.
//
// Monitor: a real server per generated history (child process), rotation and
// impact jobs gated. After EVERY operation of the history (= every prefix):
// snapshot S, Close(), start again on the same directory (must return nil and
// must not panic), snapshot S1, restart once more, snapshot S2. Required:
// S1 = S2 = R(S), where R applies the window model's catch-up rotations for
// the clock at restart (0, 1, 2 or 3 are generated) and is the identity
// otherwise. Compared: GCA key/flag, temporary key, server public key,
// equipment, bans, public-key index, every live slot (full 80-byte records),
// window offset, archive (records archived before the restart bit-exact
// including order and signature; records created by catch-up against the model
// record built from S, signature checked with go-ethereum over lib/refenc
// bytes), allDeviceStats.dat append-only. Not compared (not persisted by
// design / outside the property): impact rates, authorized-server list,
// migration orders, recent-report/authorization lists, growth of the report
// log (recorded only).
package main

import (
	"bytes"
	"fmt"
	"math/rand"
	"os"
	"path/filepath"
	"sort"
	"strings"
	"time"

	"github.com/glowlabs-org/gca-backend/server"

	"verifharness/lib/drv"
	"verifharness/lib/ev"
	"verifharness/lib/refenc"
	"verifharness/lib/run"
	"verifharness/lib/wmodel"
)

func main() {
	run.Main(run.Spec{
		ID:    "C04",
		Level: "exploration",
		Pkg:   "./cmd/c04",
		Rule: "one case = one prefix of a generated history over {register, authorize, exact duplicate, conflicting authorization (same key other field / same content other signature / fresh key / another device's key), authorization for a banned id, " +
			"reports (normal, replay, equivocating, re-signed, over-capacity, negative, for a banned device), rotation, clock advance, impact step} followed by two restarts on the same directory; plus long histories (>= 1100 accepted reports in one prefix, i.e. more than the recent-report list holds, with equivocating and fresh reports placed on the positions where that list is cut). " +
			"Non-trivial = the state before the restart holds at least one device, ban, stored report or archived week; distinct by (history seed, prefix index).",
		Assumptions: []string{
			"rotation and impact jobs are gated; a server is never shut down while now−offset > 3200 (the real background loop would rotate first), the clock for catch-up is moved between Close and the next start",
			"restart = Close() followed by NewGCAServer on the same directory in the same process (crash recovery is C05)",
			"impact rates, authorized-server list, migration orders and the recent-lists are not persisted by design and are not compared; report-log growth across restarts is recorded only",
			"authorizations arrive as JSON, so NaN coordinates (which would make live == and load-time byte comparison disagree) are outside the input domain",
			"histories are sampled (fixed function of tier and seed), not enumerated",
		},
		Plan:          plan,
		Child:         child,
		ClassifyDeath: classifyDeath,
		Post: func(c *ev.Check, outs []*run.Outcome) {
			c.Require("max.archive_file_bytes", 4<<20+1) // restarted on a history file above 4 MiB
			c.Require("max.devices_authorized", 130)     // one week record above 4 MiB
			c.Require("max.archived_weeks", 17)
			c.Require("max.authorization_records", 443) // authorization file above 64 KiB
			mx := map[string]float64{}
			for _, o := range outs {
				if o != nil && o.WallS > mx[o.Batch.Kind] {
					mx[o.Batch.Kind] = o.WallS
				}
			}
			c.SetExtra("max_batch_wall_s_by_kind", mx)
			for _, k := range []string{"restart_pairs", "prefix.nontrivial", "catchup.0", "catchup.1", "catchup.3", "catchup_records_judged",
				"restart.banned_device_with_reports_on_disk", "restart.unregistered", "unregistered.registrable_after_restarts",
				"changed.register", "changed.authorize", "changed.conflict.same-key", "changed.conflict.resigned", "changed.conflict.fresh-key", "changed.conflict.other-device-key",
				"changed.report.normal", "changed.report.equivocating", "changed.report.over-capacity", "changed.report.negative", "changed.rotation",
				"unchanged.duplicate", "state.banned_slots", "state.archived_weeks", "surface_checks", "scripted.completed",
				"wide.completed", "deep.completed", "tornlog.scenarios", "pw.outcome_observed", "pw.restart_in_fresh_process", "restart.before_expiration_of_device_with_reports", "restart.at_expiration_of_device_with_reports",
				"restart.after_expiration_of_device_with_reports", "restart.device_without_expiration_has_reports",
				"long.completed", "long.accepted_reports", "long.recent_list_truncations", "long.equivocation_at_truncation", "long.fresh_at_truncation"} {
				c.Require(k, 1)
			}
		},
	})
}

// classifyDeath: a handler panic is swallowed by net/http; if it happened
// with the server lock held the child hangs until the watchdog. The panic line
// on stderr is the witness.
func classifyDeath(c *ev.Check, o *run.Outcome) bool {
	if strings.Contains(o.Stderr, "server lived for longer than 120 seconds") {
		c.Inconc(fmt.Sprintf("batch %d (%s): a test-mode server instance reached its 120 s life limit (machine too slow for this batch)", o.Batch.Index, o.Batch.Kind))
		return true
	}
	line := run.CrashLine(o.Stderr)
	i := strings.Index(line, "http: panic serving")
	if i < 0 {
		return false
	}
	msg := line[i:]
	if j := strings.Index(msg, ": "); j >= 0 {
		if k := strings.Index(msg[j+2:], ": "); k >= 0 {
			msg = msg[j+2+k+2:]
		}
	}
	c.Violation("handler-panic:"+run.Normalize(msg), "an HTTP handler panicked: "+line, map[string]interface{}{"batch": o.Batch, "oplog_tail": o.OplogTail})
	return true
}

func planBase(tier string, seed int64) []run.Batch {
	// generous watchdogs: CPU contention must not turn into a verdict; every
	// server instance lives only until the next restart
	var bs []run.Batch
	nb, n := 9, 3
	if tier == "thorough" {
		nb, n = 150, 3 // 150 scripted + 450 generated histories
	}
	for i := 0; i < nb; i++ {
		bs = append(bs, run.Batch{Kind: "histories", Seed: seed*100000 + int64(i), N: n, TimeoutS: 400})
	}
	// scale histories: wide (many devices / authorization records) and deep (many weeks)
	ns := 1
	if tier == "thorough" {
		ns = 3
	}
	for i := 0; i < ns; i++ {
		bs = append(bs, run.Batch{Kind: "wide", Seed: seed*100000 + 8000 + int64(i), N: 1, TimeoutS: 600})
		bs = append(bs, run.Batch{Kind: "deep", Seed: seed*100000 + 8500 + int64(i), N: 1, TimeoutS: 600, Params: map[string]string{"rounds": fmt.Sprint(6 + i)}})
	}
	// file faults: a report append cut short while the server is down; a partial write of a week record
	nf := 1
	if tier == "thorough" {
		nf = 4
	}
	for i := 0; i < nf; i++ {
		bs = append(bs, run.Batch{Kind: "tornlog", Seed: seed*100000 + 8700 + int64(i), N: 1, TimeoutS: 300})
		bs = append(bs, run.Batch{Kind: "partialwrite", Seed: seed*100000 + 8800 + int64(i), N: 1, TimeoutS: 600})
	}
	// long histories: more accepted reports than the server's recent-report list holds
	nl := 2
	if tier == "thorough" {
		nl = 8
	}
	for i := 0; i < nl; i++ {
		bs = append(bs, run.Batch{Kind: "long", Seed: seed*100000 + 7000 + int64(i), N: 1, TimeoutS: 400, Params: map[string]string{"variant": fmt.Sprint(i % 2)}})
	}
	// own process: if shutdown fails there, the instance cannot be stopped any more
	for i := 0; i < 2; i++ {
		bs = append(bs, run.Batch{Kind: "sharedkey", Seed: seed*100000 + 5000 + int64(i), N: 1, TimeoutS: 120, Params: map[string]string{"variant": fmt.Sprint(i)}})
	}
	return bs
}

// retry repeats an HTTP POST whose transport failed (the server closes idle
// keep-alive connections after 2.5 s; a request written into such a
// connection dies with EOF). All POSTs used here are idempotent.
func retry(f func() (int, []byte, error)) (st int, body []byte, err error) {
	for i := 0; i < 3; i++ {
		st, body, err = f()
		if err == nil || !(strings.Contains(err.Error(), "EOF") || strings.Contains(err.Error(), "connection reset") || strings.Contains(err.Error(), "broken pipe")) {
			return
		}
		time.Sleep(5 * time.Millisecond)
	}
	return
}

func waitParked(rotArr, impArr int64) bool {
	deadline := time.Now().Add(20 * time.Second)
	for drv.RotationArrive.Load() == rotArr || drv.ImpactArrive.Load() == impArr {
		if time.Now().After(deadline) {
			return false
		}
		time.Sleep(200 * time.Microsecond)
	}
	return true
}

func guarded(f func() error) (err error, pan interface{}) {
	defer func() {
		if p := recover(); p != nil {
			pan = p
		}
	}()
	return f(), nil
}

type hist struct {
	*drv.World
	r          *ev.Result
	rng        *rand.Rand
	b          run.Batch
	tag        string
	seeded     bool
	registered bool
	all        map[uint32]*drv.Dev // every device the harness ever created, by id
	logged     map[uint32]int      // state-changing reports sent per device id
	next       uint32
	whileDown  func()            // run once between Close and the next start (file fault)
	mayRefuse  bool              // the start in progress may refuse (damaged file): accepted, counted
	keepDir    bool              // the server directory outlives this process
	forceExp   uint32            // expiration of the next authorization (scripted)
	lastID     uint32            // id of the last accepted fresh authorization
	cur        *server.VerifSnap // state after the last restart pair
	ops        []string
	opn        int
	dead       bool
	fatal      bool
	forceDev   *drv.Dev // next opReports addresses this device (reports in the same prefix as its authorization)
}

func (h *hist) op(format string, a ...interface{}) {
	s := fmt.Sprintf(format, a...)
	h.opn++
	h.ops = append(h.ops, fmt.Sprintf("%d %s", h.opn, s))
	run.Op("%s %s", h.tag, s)
}

func (h *hist) viol(key string, extra map[string]interface{}, format string, a ...interface{}) {
	m := map[string]interface{}{"batch": h.b, "history": h.tag, "ops": h.ops, "clock": drv.Clock()}
	for k, v := range extra {
		m[k] = v
	}
	h.r.Violationf(key, m, format, a...)
}

func sectionClass(s string) string {
	if i := strings.Index(s, "["); i >= 0 {
		return s[:i]
	}
	return s
}

// persisted lists the sections of the property in which two snapshots differ.
func persisted(a, b *server.VerifSnap, skipArchive bool) []string {
	var out []string
	for _, s := range drv.DiffSnap(a, b).Sections {
		if strings.HasPrefix(s, "impact[") || s == "recentlist" || s == "serverlist" || s == "migrations" {
			continue
		}
		if skipArchive && s == "archive" {
			continue
		}
		out = append(out, s)
	}
	return out
}

func (h *hist) authorizedKnown() []*drv.Dev {
	var out []*drv.Dev
	for id := range h.cur.Equipment {
		if d := h.all[id]; d != nil {
			out = append(out, d)
		}
	}
	sort.Slice(out, func(i, j int) bool { return out[i].ID < out[j].ID })
	return out
}

func (h *hist) bannedKnown() []*drv.Dev {
	var out []*drv.Dev
	for id := range h.cur.Bans {
		if d := h.all[id]; d != nil {
			out = append(out, d)
		}
	}
	sort.Slice(out, func(i, j int) bool { return out[i].ID < out[j].ID })
	return out
}

// ---------------------------------------------------------------- operations (each returns its class name)

func (h *hist) opRegister() string {
	if !h.registered {
		h.op("register GCA")
		st, body, err := retry(func() (int, []byte, error) { return h.Register(h.GCA.Pub, h.Temp.Priv) })
		if err != nil || st != 200 {
			h.r.Inconc(fmt.Sprintf("%s: valid first GCA registration was not accepted: status %d err %v %s", h.tag, st, err, body))
			h.dead = true
			return "register"
		}
		h.registered = true
		return "register"
	}
	other := refenc.GenKey(h.rng)
	h.op("register another GCA key (server already registered)")
	h.Register(other.Pub, h.Temp.Priv)
	return "re-register"
}

func (h *hist) mkDev(id uint32, key refenc.Key) (*drv.Dev, refenc.Auth) {
	a := h.MkAuth(id, key.Pub, uint64(1000+h.rng.Intn(200000)))
	// expirations inside the simulated time range (so that restarts happen before, at and
	// after them), none at all, and far away
	switch x := h.rng.Intn(10); {
	case h.forceExp != 0:
		a.Expiration = h.forceExp
	case x < 2:
		a.Expiration = 0
	case x < 6:
		a.Expiration = 1 + uint32(h.rng.Intn(8000))
	}
	a = a.Signed(h.GCA.Priv)
	return &drv.Dev{ID: id, Key: key, Auth: a}, a
}

func (h *hist) opAuthorize() string {
	id := h.next
	h.next += 1 + uint32(h.rng.Intn(4))
	d, a := h.mkDev(id, refenc.GenKey(h.rng))
	h.op("authorize fresh id=%d", id)
	st, _, _ := retry(func() (int, []byte, error) { return h.Authorize(a) })
	if st == 200 {
		h.all[id] = d
		h.lastID = id
		// in half of the cases the new device reports over capacity / exactly at its limit BEFORE the next
		// restart: whatever the capacity rule needs must survive the restart together with the device
		if h.rng.Intn(2) == 0 {
			for _, k := range []string{"over-capacity", "at-limit", "over-capacity"} {
				h.forceDev = d
				h.opReports(k)
			}
			h.forceDev = nil
			h.r.Count("authorize.followed_by_limit_reports", 1)
		}
	}
	return "authorize"
}

// opKeyReuse authorizes a fresh ShortID whose public key is already the key of
// another authorized device (no ShortID conflict: the server accepts it).
func (h *hist) opKeyReuse() string {
	ds := h.authorizedKnown()
	if len(ds) == 0 {
		return ""
	}
	o := ds[h.rng.Intn(len(ds))]
	id := h.next
	h.next += 1 + uint32(h.rng.Intn(4))
	d, a := h.mkDev(id, o.Key)
	h.op("authorize fresh id=%d with the public key of authorized device %d", id, o.ID)
	st, _, _ := retry(func() (int, []byte, error) { return h.Authorize(a) })
	if st == 200 {
		h.all[id] = d
	}
	return "authorize.reused-key"
}

func (h *hist) opDuplicate() string {
	ds := h.authorizedKnown()
	if len(ds) == 0 {
		return ""
	}
	d := ds[h.rng.Intn(len(ds))]
	h.op("authorize exact duplicate id=%d", d.ID)
	retry(func() (int, []byte, error) { return h.Authorize(d.Auth) })
	return "duplicate"
}

func (h *hist) opConflict(kind string) string {
	ds := h.authorizedKnown()
	if len(ds) == 0 {
		return ""
	}
	d := ds[h.rng.Intn(len(ds))]
	a := d.Auth
	switch kind {
	case "same-key":
		switch h.rng.Intn(4) {
		case 0:
			a.Debt++
		case 1:
			a.Capacity += 7
		case 2:
			a.Expiration++
		default:
			a.Lat += 1
		}
		a = a.Signed(h.GCA.Priv)
	case "resigned":
		a.Sig = refenc.SignRand(h.GCA.Priv, a.SigningBytes())
	case "fresh-key":
		a = h.MkAuth(d.ID, refenc.GenKey(h.rng).Pub, a.Capacity)
	case "other-device-key":
		var o *drv.Dev
		for _, x := range ds {
			if x.ID != d.ID && x.Key.Pub != d.Key.Pub {
				o = x
			}
		}
		if o == nil {
			return ""
		}
		a = h.MkAuth(d.ID, o.Key.Pub, a.Capacity)
	}
	h.op("conflicting authorization (%s) for id=%d, %d reports of it on disk", kind, d.ID, h.logged[d.ID])
	retry(func() (int, []byte, error) { return h.Authorize(a) })
	return "conflict." + kind
}

func (h *hist) opOnBanned() string {
	bs := h.bannedKnown()
	if len(bs) == 0 {
		return ""
	}
	d := bs[h.rng.Intn(len(bs))]
	h.op("authorize banned id=%d again", d.ID)
	if h.rng.Intn(2) == 0 {
		h.Authorize(d.Auth)
	} else {
		h.Authorize(h.MkAuth(d.ID, refenc.GenKey(h.rng).Pub, 5000))
	}
	return "authorize-banned-id"
}

// opReports sends a few reports of one kind.
func (h *hist) opReports(kind string) string {
	var d *drv.Dev
	if kind == "banned-device" {
		bs := h.bannedKnown()
		if len(bs) == 0 {
			return ""
		}
		d = bs[h.rng.Intn(len(bs))]
	} else if h.forceDev != nil {
		d = h.forceDev
	} else {
		ds := h.authorizedKnown()
		if len(ds) == 0 {
			return ""
		}
		d = ds[h.rng.Intn(len(ds))]
	}
	now, off := int64(drv.Clock()), int64(h.cur.Offset)
	lo, hi := now-432, now+432
	if lo < off {
		lo = off
	}
	if hi > off+4031 {
		hi = off + 4031
	}
	if lo > hi {
		return ""
	}
	n := 1 + h.rng.Intn(6)
	h.op("reports kind=%s dev=%d n=%d clock=%d", kind, d.ID, n, now)
	changed := false
	for i := 0; i < n; i++ {
		slot := uint32(lo + h.rng.Int63n(hi-lo+1))
		var rep refenc.Report
		capa := d.Auth.Capacity
		switch kind {
		case "normal", "banned-device":
			rep = d.Report(slot, 2+uint64(h.rng.Int63n(int64(capa))))
		case "over-capacity":
			rep = d.Report(slot, capa*135/100+1+uint64(h.rng.Intn(500)))
		case "at-limit":
			rep = d.Report(slot, capa*135/100)
		case "negative":
			rep = d.Report(slot, uint64(-int64(1+h.rng.Intn(50000))))
		case "sentinel":
			rep = d.Report(slot, uint64(h.rng.Intn(2)))
		case "replay", "equivocating", "resigned":
			// aim at a slot of this device that holds a plain report
			arr := h.cur.Reports[d.ID]
			var filled []uint32
			if arr != nil {
				for k := lo - off; k <= hi-off; k++ {
					if arr[k].PowerOutput > 1 {
						filled = append(filled, uint32(off+k))
					}
				}
			}
			if len(filled) == 0 {
				rep = d.Report(slot, 2+uint64(h.rng.Int63n(int64(capa))))
				break
			}
			slot = filled[h.rng.Intn(len(filled))]
			stored, _, _, ok := h.S.VerifSlot(d.ID, int(int64(slot)-off))
			if !ok || stored.PowerOutput <= 1 {
				continue
			}
			rep = drv.RefReport(stored)
			switch kind {
			case "equivocating":
				rep = d.Report(slot, stored.PowerOutput+1+uint64(h.rng.Intn(9)))
			case "resigned":
				rep.Sig = refenc.SignRand(d.Key.Priv, rep.SigningBytes())
			}
		}
		before, _, _, _ := h.S.VerifSlot(d.ID, int(int64(slot)-off))
		h.Inject(rep.Bytes())
		after, _, _, _ := h.S.VerifSlot(d.ID, int(int64(slot)-off))
		if before != after {
			changed = true
			h.logged[d.ID]++
		}
	}
	_ = changed
	return "report." + kind
}

func (h *hist) opRotate() string {
	off := h.cur.Offset
	c := off + 3201
	if h.rng.Intn(2) == 0 {
		c += uint32(h.rng.Intn(700))
	}
	if c < drv.Clock() {
		c = drv.Clock()
	}
	if h.rng.Intn(2) == 0 && !drv.StepImpact() {
		h.r.Inconc(h.tag + ": the gated impact job did not complete a released round within the wall-clock watchdog")
		h.dead = true
		return "rotation"
	}
	drv.SetClock(c)
	h.op("rotation (background loop iteration) clock=%d now-offset=%d", c, c-off)
	if n := drv.StepRotation(); n != 1 {
		h.r.Inconc(fmt.Sprintf("%s: background loop iteration at now-offset=%d performed %d rotations (C03/C20 judge the trigger)", h.tag, c-off, n))
		h.dead = true
	}
	return "rotation"
}

func (h *hist) opAdvance() string {
	off := h.cur.Offset
	c := drv.Clock() + uint32(1+h.rng.Intn(700))
	if c > off+3200 {
		c = off + 3200
	}
	if c <= drv.Clock() {
		return ""
	}
	h.op("clock advance to %d (now-offset=%d)", c, c-off)
	drv.SetClock(c)
	return "advance"
}

// clockForward moves the clock to offset+rel unless it is already beyond.
func (h *hist) clockForward(rel uint32) {
	if c := h.cur.Offset + rel; c > drv.Clock() {
		drv.SetClock(c)
	}
}

func (h *hist) opImpact() string {
	h.op("impact step clock=%d", drv.Clock())
	if !drv.StepImpact() {
		h.r.Inconc(h.tag + ": the gated impact job did not complete a released round within the wall-clock watchdog")
		h.dead = true
	}
	return "impact"
}

// ---------------------------------------------------------------- the restart protocol

func panicClass(p interface{}) string { return run.Normalize(fmt.Sprint(p)) }

// sharedKey reports two authorized devices that carry the same public key.
func sharedKey(s *server.VerifSnap) (a, b uint32, shared bool) {
	if s == nil {
		return
	}
	ids := make([]uint32, 0, len(s.Equipment))
	for id := range s.Equipment {
		ids = append(ids, id)
	}
	sort.Slice(ids, func(i, j int) bool { return ids[i] < ids[j] })
	seen := map[[32]byte]uint32{}
	for _, id := range ids {
		k := s.Equipment[id].PublicKey
		if o, ok := seen[k]; ok {
			return o, id, true
		}
		seen[k] = id
	}
	return
}

func (h *hist) closeSrv(what string, state *server.VerifSnap) bool {
	err, pan := guarded(h.Close)
	if pan != nil {
		if a, b, shared := sharedKey(state); shared {
			// specific history class: an accepted authorization gave a second ShortID the key of an authorized device
			h.viol("shutdown-panics:two-authorized-devices-share-a-public-key", map[string]interface{}{"when": what, "devices": []uint32{a, b}},
				"Close() panicked (%s) in a state where authorized devices %d and %d carry the same public key: %v", what, a, b, pan)
			h.dead, h.fatal = true, true
			return false
		}
		h.viol("shutdown-panics:"+panicClass(pan), map[string]interface{}{"when": what}, "Close() panicked (%s): %v", what, pan)
		h.dead, h.fatal = true, true
		return false
	}
	if err != nil {
		h.viol("shutdown-failed", map[string]interface{}{"when": what}, "Close() returned an error (%s): %v", what, err)
		h.dead, h.fatal = true, true
		return false
	}
	return true
}

func (h *hist) startSrv(what string) bool {
	ra, ia := drv.RotationArrive.Load(), drv.ImpactArrive.Load()
	err, pan := guarded(h.Start)
	if pan != nil {
		h.viol("restart-panics:"+panicClass(pan), map[string]interface{}{"when": what}, "starting again on the same directory panicked (%s): %v", what, pan)
		h.dead, h.fatal = true, true
		return false
	}
	if err != nil && h.mayRefuse {
		// fail-stop on a damaged file is an accepted outcome; the oracle is conditional on a server that comes up
		h.r.Count("tornlog.start_refused", 1)
		h.r.Note("%s: start on the damaged directory refused: %v", h.tag, err)
		h.dead, h.fatal = true, true
		return false
	}
	if err != nil {
		h.viol("restart-failed:"+run.Normalize(err.Error()), map[string]interface{}{"when": what}, "starting again on the same directory failed (%s): %v", what, err)
		h.dead, h.fatal = true, true // the failed instance leaves its 120 s test-mode timer behind
		return false
	}
	if !waitParked(ra, ia) {
		h.r.Inconc("background loops of a restarted server did not reach their gates within 20 s")
		h.dead, h.fatal = true, true
		return false
	}
	return true
}

func countState(s *server.VerifSnap) (stored, bannedSlots int) {
	for _, arr := range s.Reports {
		if arr == nil {
			continue
		}
		for i := range arr {
			switch arr[i].PowerOutput {
			case 0:
			case 1:
				bannedSlots++
			default:
				stored++
			}
		}
	}
	return
}

// restartPair judges one prefix: S → restart → S1 → restart → S2.
func (h *hist) restartPair(class string, k int) {
	S := h.S.VerifSnapshot(true)
	// what did the operation do? (positive controls)
	if class != "" {
		if ch := persisted(h.cur, S, false); len(ch) > 0 {
			h.r.Count("changed."+class, 1)
			if class == "authorize.reused-key" {
				h.r.Note("%s: authorization of a fresh ShortID with the key of an authorized device was accepted (sections changed: %v)", h.tag, ch)
			}
		} else {
			h.r.Count("unchanged."+class, 1)
		}
	}
	stored, bannedSlots := countState(S)
	h.r.Count("state.banned_slots", int64(bannedSlots))
	h.r.Count("state.archived_weeks", int64(len(S.History)))
	if len(S.Equipment)+len(S.Bans)+stored+bannedSlots+len(S.History) > 0 {
		h.r.Count("prefix.nontrivial", 1)
		h.r.Nontrivial(fmt.Sprintf("%s/%d", h.tag, h.opn))
	}
	if !S.GCAAvailable {
		h.r.Count("restart.unregistered", 1)
	}
	for id := range S.Bans {
		if h.logged[id] > 0 {
			h.r.Count("restart.banned_device_with_reports_on_disk", 1)
			break
		}
	}
	delta := int64(drv.Clock()) - int64(S.Offset)
	if delta > 3200 {
		h.r.Inconc(fmt.Sprintf("%s: harness error: restart requested at now-offset=%d", h.tag, delta))
		h.dead = true
		return
	}
	newClock := drv.Clock()
	if k > 0 {
		newClock = S.Offset + 4000 + uint32(wmodel.Week*(k-1))
		if h.rng.Intn(3) == 0 {
			newClock += uint32(h.rng.Intn(30))
		}
	} else if h.rng.Intn(12) == 0 && h.registered {
		newClock = S.Offset + 3999 // the largest clock that needs no catch-up
	}
	if newClock < drv.Clock() {
		newClock = drv.Clock()
	}
	k = wmodel.CatchUps(newClock, S.Offset)
	h.op("restart x2, clock at start-up %d (now-offset=%d, model catch-up rotations %d)", newClock, int64(newClock)-int64(S.Offset), k)
	for id, a := range S.Equipment {
		if h.logged[id] == 0 {
			continue
		}
		switch e := a.Expiration; {
		case e == 0:
			h.r.Count("restart.device_without_expiration_has_reports", 1)
		case newClock == e:
			h.r.Count("restart.at_expiration_of_device_with_reports", 1)
		case newClock > e:
			h.r.Count("restart.after_expiration_of_device_with_reports", 1)
		default:
			h.r.Count("restart.before_expiration_of_device_with_reports", 1)
		}
	}
	fileBefore := h.ReadFile("allDeviceStats.dat")
	logBefore := len(h.ReadFile("equipment-reports.dat"))
	authBefore := h.ReadFile("equipment-authorizations.dat")

	if !h.closeSrv("first restart", S) {
		return
	}
	drv.SetClock(newClock)
	if h.whileDown != nil {
		h.whileDown() // a fault on the files while the server is down; the next start may refuse
		h.whileDown = nil
		h.mayRefuse = true
	}
	ok := h.startSrv("first restart")
	h.mayRefuse = false
	if !ok {
		return
	}
	S1 := h.S.VerifSnapshot(true)
	h.r.Eval(1)
	h.r.Count("restart_pairs", 1)
	h.r.Count(fmt.Sprintf("catchup.%d", k), 1)
	extra := map[string]interface{}{"catchup": k, "after_op": class}

	// expected state R(S)
	var recs []refenc.Stats
	nOld := len(S.History)
	for i := 0; i < k; i++ {
		recs = append(recs, wmodel.Rotate(S)) // S becomes R(S) (its archive list is extended below by comparison)
	}
	for _, s := range persisted(S, S1, k > 0) {
		h.viol("restart-changed-state:"+sectionClass(s), extra, "state after restart differs from the state before shutdown (catch-up rotations applied by the model: %d) in section %s", k, s)
	}
	if k > 0 {
		if len(S1.History) != nOld+k {
			h.viol("restart-changed-state:archive", extra, "archive holds %d weeks after a restart with %d catch-up rotations, had %d", len(S1.History), k, nOld)
		} else {
			for i := 0; i < nOld; i++ {
				if !wmodel.EqualOrdered(wmodel.FromServer(S.History[i]), wmodel.FromServer(S1.History[i])) {
					h.viol("restart-changed-state:archive", extra, "archived week %d changed across the restart", i)
				}
			}
			for i := 0; i < k; i++ {
				got := wmodel.FromServer(S1.History[nOld+i])
				h.r.Count("catchup_records_judged", 1)
				if d := wmodel.DescribeDiff(recs[i], got, false); d != "" {
					h.viol("catchup-record-differs-from-model", extra, "week %d archived by start-up catch-up differs from the model record built from the state before shutdown: %s", nOld+i, d)
				}
				if !wmodel.SigValid(got, S1.ServerPubKey) {
					h.viol("catchup-record-signature", extra, "week %d archived by start-up catch-up does not verify under the server key over the reference signing bytes", nOld+i)
				}
			}
		}
	}
	// archive file: append-only, and equal to what the server holds in memory
	fileAfter := h.ReadFile("allDeviceStats.dat")
	if len(fileAfter) < len(fileBefore) || !bytes.Equal(fileAfter[:len(fileBefore)], fileBefore) {
		h.viol("archive-file-rewritten", extra, "allDeviceStats.dat (%d bytes) no longer starts with its %d bytes from before the restart", len(fileAfter), len(fileBefore))
	} else {
		var mem []byte
		for i := range S1.History {
			mem = append(mem, wmodel.FromServer(S1.History[i]).Bytes()...)
		}
		if !bytes.Equal(mem, fileAfter) {
			h.viol("archive-file-differs-from-memory", extra, "allDeviceStats.dat (%d bytes) is not the reference serialization of the %d archived weeks in memory (%d bytes)", len(fileAfter), len(S1.History), len(mem))
		}
	}
	h.r.Max("max.archive_file_bytes", int64(len(fileAfter)))
	h.r.Max("max.authorization_records", int64(len(authBefore)/148))
	h.r.Max("max.devices_authorized", int64(len(S1.Equipment)))
	h.r.Max("max.archived_weeks", int64(len(S1.History)))
	if !bytes.Equal(authBefore, h.ReadFile("equipment-authorizations.dat")) {
		h.r.Count("info.authorization_file_changed_by_restart", 1)
	}
	if g := len(h.ReadFile("equipment-reports.dat")) - logBefore; g != 0 {
		h.r.Count("info.report_log_growth_records", int64(g/80))
		h.r.Max("max.report_log_bytes", int64(logBefore+g))
	}

	// a start-up clock beyond offset+3200 (the 3999 case) makes the background loop rotate
	// at its first iteration; let it, so that the server is never shut down in a state in
	// which the released loop would rotate during shutdown
	if int64(drv.Clock())-int64(S1.Offset) > 3200 {
		h.op("rotation (background loop iteration after start-up at now-offset=%d)", int64(drv.Clock())-int64(S1.Offset))
		if n := drv.StepRotation(); n != 1 {
			h.r.Inconc(fmt.Sprintf("%s: background loop iteration at now-offset=%d performed %d rotations (C03/C20 judge the trigger)", h.tag, int64(drv.Clock())-int64(S1.Offset), n))
			h.dead = true
			return
		}
		h.r.Count("restart.at3999_then_background_rotation", 1)
		S1 = h.S.VerifSnapshot(true)
		fileAfter = h.ReadFile("allDeviceStats.dat")
	}

	// second restart: idempotence
	if !h.closeSrv("second restart", S1) {
		return
	}
	if !h.startSrv("second restart") {
		return
	}
	S2 := h.S.VerifSnapshot(true)
	h.r.Eval(1)
	for _, s := range persisted(S1, S2, false) {
		h.viol("restart-not-idempotent:"+sectionClass(s), extra, "a second restart in a row changed section %s", s)
	}
	if !bytes.Equal(fileAfter, h.ReadFile("allDeviceStats.dat")) {
		h.viol("restart-not-idempotent:archive-file", extra, "a second restart in a row changed allDeviceStats.dat")
	}
	h.cur = S2
	if class == "" || h.rng.Intn(3) == 0 || k > 0 || strings.HasPrefix(class, "conflict") {
		h.surfaces(S2)
	}
}

// transport: an HTTP call that never produced a status (after retries) decides nothing.
func (h *hist) transport(st int, err error) bool {
	if err != nil && st == 0 {
		h.r.Inconc(fmt.Sprintf("%s: HTTP transport error while reading a public endpoint: %v", h.tag, err))
		return true
	}
	return false
}

// surfaces validates the snapshot against the public endpoints (so that "same
// snapshot" really means "same observable state").
func (h *hist) surfaces(s *server.VerifSnap) {
	// reads are idempotent: a transport failure (under heavy CPU contention the server's 2.5 s
	// read timeout can cut a fresh connection) is retried, never judged
	st, eq, err := h.Equipment()
	for try := 0; try < 3 && err != nil && st == 0; try++ {
		time.Sleep(10 * time.Millisecond)
		st, eq, err = h.Equipment()
	}
	if h.transport(st, err) {
		return
	}
	if err != nil || st != 200 {
		h.viol("surface-equipment-unavailable", nil, "GET equipment after restart: status %d err %v", st, err)
		return
	}
	if len(eq) != len(s.Equipment) {
		h.viol("surface-equipment-differs", nil, "GET equipment lists %d devices, state holds %d", len(eq), len(s.Equipment))
	}
	for id, a := range s.Equipment {
		if g, ok := eq[id]; !ok || string(g.Bytes()) != string(drv.RefAuth(a).Bytes()) {
			h.viol("surface-equipment-differs", map[string]interface{}{"dev": id}, "GET equipment entry of device %d differs from the stored authorization", id)
		}
	}
	h.r.Count("surface_checks", 1)
	var ids []uint32
	for id := range s.Equipment {
		ids = append(ids, id)
	}
	sort.Slice(ids, func(i, j int) bool { return ids[i] < ids[j] })
	h.rng.Shuffle(len(ids), func(i, j int) { ids[i], ids[j] = ids[j], ids[i] })
	if len(ids) > 2 {
		ids = ids[:2]
	}
	for _, id := range ids {
		arr := s.Reports[id]
		if arr == nil {
			h.viol("surface-no-slots-for-authorized-device", map[string]interface{}{"dev": id}, "authorized device %d has no report array after restart", id)
			continue
		}
		rep, refused, err := h.Sync(id)
		for try := 0; try < 3 && err != nil; try++ {
			time.Sleep(10 * time.Millisecond)
			rep, refused, err = h.Sync(id)
		}
		if err != nil || refused {
			h.viol("surface-sync-unavailable", map[string]interface{}{"dev": id}, "sync for authorized device %d after restart: refused=%v err=%v", id, refused, err)
		} else {
			if rep.Offset != s.Offset {
				h.viol("surface-sync-differs", map[string]interface{}{"dev": id}, "sync reply carries offset %d, state %d", rep.Offset, s.Offset)
			}
			for i := 0; i < 4032; i++ {
				if rep.Bit(i) != (arr[i].PowerOutput != 0) {
					h.viol("surface-sync-differs", map[string]interface{}{"dev": id, "index": i}, "sync bit %d of device %d is %v but stored power is %d", i, id, rep.Bit(i), arr[i].PowerOutput)
					break
				}
			}
			h.r.Count("surface_checks", 1)
		}
		pub := s.Equipment[id].PublicKey
		if s.ShortIDs[pub] == id {
			st, rr, err := h.RecentReports(pub)
			for try := 0; try < 3 && err != nil && st == 0; try++ {
				time.Sleep(10 * time.Millisecond)
				st, rr, err = h.RecentReports(pub)
			}
			if h.transport(st, err) {
				continue
			}
			if err != nil || st != 200 || len(rr) != 4032 {
				h.viol("surface-recent-reports-unavailable", map[string]interface{}{"dev": id}, "recent-reports for device %d after restart: status %d err %v n=%d", id, st, err, len(rr))
			} else {
				for i := 0; i < 4032; i++ {
					if rr[i] != drv.RefReport(arr[i]) {
						h.viol("surface-recent-reports-differ", map[string]interface{}{"dev": id, "index": i}, "recent-reports entry %d of device %d differs from the stored record", i, id)
						break
					}
				}
				h.r.Count("surface_checks", 1)
			}
		}
	}
	// statistics: both live weeks and up to two archived weeks
	for half := 0; half < 2; half++ {
		base := s.Offset + uint32(half*wmodel.Week)
		st, got, _, err := h.GetStats(fmt.Sprintf("timeslot_offset=%d", base))
		for try := 0; try < 3 && err != nil && st == 0; try++ {
			time.Sleep(10 * time.Millisecond)
			st, got, _, err = h.GetStats(fmt.Sprintf("timeslot_offset=%d", base))
		}
		if h.transport(st, err) {
			continue
		}
		if err != nil || st != 200 {
			h.viol("surface-stats-unavailable", nil, "stats for live week %d after restart: status %d err %v", base, st, err)
			continue
		}
		want := refenc.Stats{Week: base}
		for id, a := range s.Equipment {
			d := refenc.DevStats{Pub: a.PublicKey}
			if arr := s.Reports[id]; arr != nil {
				for i := 0; i < wmodel.Week; i++ {
					d.Power[i] = arr[half*wmodel.Week+i].PowerOutput
				}
			}
			want.Devices = append(want.Devices, d)
		}
		if d := wmodel.DescribeDiff(want, *got, false); d != "" {
			h.viol("surface-stats-differ", map[string]interface{}{"week": base}, "stats for live week %d differ from stored state: %s", base, d)
		}
		if !wmodel.SigValid(*got, s.ServerPubKey) {
			h.viol("surface-stats-signature", map[string]interface{}{"week": base}, "stats for live week %d do not verify under the server key", base)
		}
		h.r.Count("surface_checks", 1)
	}
	for n := 0; n < 2 && len(s.History) > 0; n++ {
		i := h.rng.Intn(len(s.History))
		st, got, _, err := h.GetStats(fmt.Sprintf("timeslot_offset=%d", wmodel.Week*i))
		for try := 0; try < 3 && err != nil && st == 0; try++ {
			time.Sleep(10 * time.Millisecond)
			st, got, _, err = h.GetStats(fmt.Sprintf("timeslot_offset=%d", wmodel.Week*i))
		}
		if h.transport(st, err) {
			continue
		}
		if err != nil || st != 200 {
			h.viol("surface-stats-unavailable", nil, "stats for archived week %d after restart: status %d err %v", i, st, err)
			continue
		}
		if !wmodel.EqualOrdered(wmodel.FromServer(s.History[i]), *got) {
			h.viol("surface-stats-differ", map[string]interface{}{"week_index": i}, "stats for archived week %d differ from the archived record: %s", i, wmodel.DescribeDiff(wmodel.FromServer(s.History[i]), *got, true))
		}
		if !wmodel.SigValid(*got, s.ServerPubKey) {
			h.viol("surface-stats-signature", map[string]interface{}{"week_index": i}, "stats for archived week %d do not verify under the server key", i)
		}
		h.r.Count("surface_checks", 1)
	}
}

// ---------------------------------------------------------------- drivers

func newHist(b run.Batch, r *ev.Result, idx int) *hist {
	rng := rand.New(rand.NewSource(b.Seed*1000 + int64(idx)))
	h := &hist{r: r, rng: rng, b: b, tag: fmt.Sprintf("s%d.h%d", b.Seed, idx), all: map[uint32]*drv.Dev{}, logged: map[uint32]int{}, next: 1 + uint32(rng.Intn(40))}
	h.seeded = rng.Intn(4) != 0
	drv.SetClock(0)
	drv.GateRotation(true)
	drv.GateImpact(true)
	dir := filepath.Join(b.Dir, fmt.Sprintf("srv%d", idx))
	if b.P("srv") != "" {
		dir, h.keepDir, h.seeded = b.P("srv"), true, true
	}
	e, err := drv.NewServerDir(dir, rng, h.seeded)
	if err != nil {
		r.Inconc("cannot prepare server directory: " + err.Error())
		return nil
	}
	gca := refenc.GenKey(rng)
	if rng.Intn(3) == 0 {
		// a GCA key whose last byte looks like a line ending, padding or text to a loader that does more
		// than read 32 raw bytes (once in a few hundred installations the key ends in such a byte)
		tail := []byte{0x0a, 0x0d, 0x00, 0x20, 0x09, 0x30, 0xff}[rng.Intn(7)]
		gca = drv.GenKeyEnding(rng, tail)
		r.Count("gca_key_with_special_last_byte", 1)
	}
	h.World = &drv.World{Srv: e, GCA: gca, Devs: map[uint32]*drv.Dev{}, Rng: rng}
	if !h.seeded {
		r.Count("histories.server_key_generated_by_server", 1)
	}
	h.op("first start (server.keys pre-seeded: %v)", h.seeded)
	if !h.startSrv("first start") {
		return nil
	}
	h.cur = h.S.VerifSnapshot(true)
	if h.seeded && h.cur.ServerPubKey != h.Key.Pub {
		h.viol("preseeded-server-key-not-adopted", nil, "server did not adopt the key pair found in server.keys")
	}
	return h
}

func (h *hist) stop() {
	if h.S != nil && !h.fatal {
		h.closeSrv("end of history", h.cur)
	}
	if !h.keepDir {
		os.RemoveAll(h.Dir)
	}
}

func (h *hist) pickCatchup() int {
	if !h.registered {
		return 0
	}
	x := h.rng.Intn(100)
	switch {
	case x < 84:
		return 0
	case x < 92:
		return 1
	case x < 95:
		return 2
	default:
		return 3
	}
}

func (h *hist) randomOp() string {
	x := h.rng.Intn(100)
	switch {
	case x < 22:
		return h.opReports("normal")
	case x < 27:
		return h.opReports("equivocating")
	case x < 30:
		return h.opReports("resigned")
	case x < 33:
		return h.opReports("replay")
	case x < 37:
		return h.opReports("over-capacity")
	case x < 40:
		return h.opReports("negative")
	case x < 42:
		return h.opReports("banned-device")
	case x < 43:
		return h.opReports("sentinel")
	case x < 55:
		if len(h.cur.Equipment) >= 6 {
			return h.opReports("normal")
		}
		return h.opAuthorize()
	case x < 59:
		return h.opDuplicate()
	case x < 63:
		return h.opConflict("same-key")
	case x < 66:
		return h.opConflict("resigned")
	case x < 69:
		return h.opConflict("fresh-key")
	case x < 73:
		return h.opConflict("other-device-key")
	case x < 75:
		return h.opOnBanned()
	case x < 83:
		return h.opRotate()
	case x < 92:
		return h.opAdvance()
	case x < 96:
		return h.opImpact()
	default:
		return h.opRegister()
	}
}

// runRandom: a generated history with a restart pair after every prefix.
func (h *hist) runRandom(nops int) {
	// the empty prefix
	h.restartPair("", 0)
	late := h.rng.Intn(4) == 0 // registration only after a few (refused) operations
	for i := 0; i < nops && !h.dead; i++ {
		var class string
		switch {
		case !h.registered && (!late || i >= 4):
			class = h.opRegister()
		case !h.registered:
			// operations on a server that was never registered: all must be refused, restarts keep it unregistered
			switch h.rng.Intn(3) {
			case 0:
				class = "unregistered." + h.opAuthorize()
			case 1:
				d, _ := h.mkDev(9, refenc.GenKey(h.rng))
				h.op("report for a server without GCA")
				h.Inject(d.Report(drv.Clock(), 500).Bytes())
				class = "unregistered.report"
			default:
				h.op("restart only")
				class = "unregistered.idle"
			}
		default:
			for try := 0; try < 10 && class == ""; try++ {
				class = h.randomOp()
			}
		}
		if h.dead || class == "" {
			break
		}
		wasUnreg := !h.registered
		h.restartPair(class, h.pickCatchup())
		if wasUnreg && !h.dead && h.cur.GCAAvailable {
			h.viol("unregistered-server-registered-by-restart", nil, "a server that was never registered reports a GCA key after restart")
		}
		if class == "register" && late && !h.dead && h.cur.GCAAvailable && h.cur.GCAKey == h.GCA.Pub {
			h.r.Count("unregistered.registrable_after_restarts", 1)
		}
		if h.r.NumViolations() > 10 {
			h.dead = true
		}
	}
}

// runScripted: the fixed skeleton every batch runs once (banned device with
// reports on disk, each conflict kind, rotation, 1 and 3 catch-up rotations,
// never-registered server).
func (h *hist) runScripted() {
	step := func(class string, k int) bool {
		if h.dead || class == "" {
			return false
		}
		h.restartPair(class, k)
		return !h.dead
	}
	h.restartPair("", 0) // never registered
	h.op("restart only")
	if !step("unregistered.idle", 0) {
		return
	}
	if h.cur.GCAAvailable {
		h.viol("unregistered-server-registered-by-restart", nil, "a server that was never registered reports a GCA key after restart")
	}
	if !step(h.opRegister(), 0) {
		return
	}
	if h.cur.GCAAvailable && h.cur.GCAKey == h.GCA.Pub {
		h.r.Count("unregistered.registrable_after_restarts", 1)
	}
	for i := 0; i < 5; i++ {
		if !step(h.opAuthorize(), 0) {
			return
		}
	}
	h.clockForward(uint32(200 + h.rng.Intn(300)))
	for _, k := range []string{"normal", "normal", "normal", "equivocating", "over-capacity", "negative", "resigned", "replay"} {
		if !step(h.opReports(k), 0) {
			return
		}
	}
	// a device whose authorization expires inside the history: restarts one slot before, at and after
	h.forceExp = drv.Clock() + 40 + uint32(h.rng.Intn(20))
	exp := h.forceExp
	ok := step(h.opAuthorize(), 0)
	h.forceExp = 0
	if !ok {
		return
	}
	for _, c := range []uint32{exp - 1, exp, exp + 1} {
		only := h.all[h.lastID]
		h.op("clock to %d (expiration of device %d is %d), one report of it", c, h.lastID, exp)
		drv.SetClock(c)
		if only != nil && only.Auth.Expiration == exp {
			h.Inject(only.Report(c-5, 77+uint64(c-exp+1)).Bytes())
			h.logged[only.ID]++
		}
		if !step("report.around-expiration", 0) {
			return
		}
	}
	if !step(h.opConflict("same-key"), 0) { // a device with reports on disk gets banned
		return
	}
	if !step(h.opReports("banned-device"), 0) {
		return
	}
	if !step(h.opReports("normal"), 1) { // one catch-up rotation
		return
	}
	if !step(h.opConflict("other-device-key"), 0) {
		return
	}
	if !step(h.opReports("normal"), 0) {
		return
	}
	if !step(h.opImpact(), 0) {
		return
	}
	if !step(h.opRotate(), 0) {
		return
	}
	if !step(h.opConflict("resigned"), 0) {
		return
	}
	if !step(h.opReports("normal"), 3) { // three catch-up rotations
		return
	}
	if !step(h.opConflict("fresh-key"), 0) {
		return
	}
	if step(h.opDuplicate(), 0) {
		h.r.Count("scripted.completed", 1)
	}
}

// opLongReports sends n reports that are all accepted (fresh slots, plus
// second distinct reports for slots that hold exactly one report) in one
// prefix. The server keeps a bounded list of recent reports which it cuts in
// half when it overflows; the positions of the accepted sequence at which
// that happens are computed from the list length observed before the
// operation, and equivocating (equivAtCut) or fresh reports are placed on and
// next to them.
func (h *hist) opLongReports(n int, equivAtCut bool) string {
	ds := h.authorizedKnown()
	if len(ds) == 0 {
		return ""
	}
	now, off := int64(drv.Clock()), int64(h.cur.Offset)
	lo, hi := now-432, now+432
	if lo < off {
		lo = off
	}
	if hi > off+4031 {
		hi = off + 4031
	}
	type ds2 struct {
		d    *drv.Dev
		slot uint32
	}
	var free []ds2
	for _, d := range ds {
		arr := h.cur.Reports[d.ID]
		for s := lo; s <= hi; s++ {
			if arr != nil && arr[s-off].PowerOutput == 0 {
				free = append(free, ds2{d, uint32(s)})
			}
		}
	}
	h.rng.Shuffle(len(free), func(i, j int) { free[i], free[j] = free[j], free[i] })
	if len(free) < n {
		h.r.Inconc(fmt.Sprintf("%s: harness error: only %d free slots for a long burst of %d", h.tag, len(free), n))
		h.dead = true
		return ""
	}
	// positions (1-based, within this burst) whose report overflows the recent list
	max := server.VerifConsts().MaxRecentReports
	cut := map[int]bool{}
	L := len(h.cur.RecentReports)
	for k := 1; k <= n; k++ {
		L++
		if L > max {
			cut[k] = true
			L = L / 2
		}
	}
	h.op("long burst of %d accepted reports, clock=%d, recent list holds %d (limit %d), list cut at positions %v, equivocations there: %v", n, now, len(h.cur.RecentReports), max, keys(cut), equivAtCut)
	var single []refenc.Report // slots of this burst that hold exactly one plain report
	sent, fi := 0, 0
	for k := 1; k <= n; k++ {
		near := cut[k-1] || cut[k] || cut[k+1]
		wantEquiv := (near && equivAtCut) || (!near && k%9 == 0)
		if wantEquiv && len(single) > 0 {
			i := h.rng.Intn(len(single))
			first := single[i]
			single = append(single[:i], single[i+1:]...)
			d := h.all[first.ID]
			h.Inject(d.Report(first.Slot, first.Power+1+uint64(h.rng.Intn(9))).Bytes())
			if cut[k] {
				h.r.Count("long.equivocation_at_truncation", 1)
			}
		} else {
			f := free[fi]
			fi++
			rep := f.d.Report(f.slot, 2+uint64(h.rng.Int63n(int64(f.d.Auth.Capacity))))
			h.Inject(rep.Bytes())
			single = append(single, rep)
			if cut[k] {
				h.r.Count("long.fresh_at_truncation", 1)
			}
		}
		sent++
	}
	for _, d := range ds {
		h.logged[d.ID]++
	}
	h.r.Count("long.accepted_reports", int64(sent))
	h.r.Count("long.recent_list_truncations", int64(len(cut)))
	return "report.long"
}

func keys(m map[int]bool) []int {
	var out []int
	for k := range m {
		out = append(out, k)
	}
	sort.Ints(out)
	return out
}

// runLong: histories whose accepted-report sequence is longer than the
// server's recent-report list, with a restart pair (every slot compared)
// after each long prefix.
func (h *hist) runLong(variant string) {
	step := func(class string, k int) bool {
		if h.dead || class == "" {
			return false
		}
		h.restartPair(class, k)
		return !h.dead
	}
	if !step(h.opRegister(), 0) {
		return
	}
	for i := 0; i < 4; i++ {
		if !step(h.opAuthorize(), 0) {
			return
		}
	}
	h.clockForward(uint32(450 + h.rng.Intn(100)))
	first := variant == "0"
	// 1. from an empty recent list: positions 1000-1002 straddle the first cut (the 1001st accepted report)
	if !step(h.opLongReports(1150, first), 0) {
		return
	}
	// the positive control: every report of the burst must have been accepted
	if got := len(h.cur.Equipment); got != 4 {
		h.r.Inconc(fmt.Sprintf("%s: long history lost devices (%d)", h.tag, got))
		return
	}
	// 2. more than half a list again, whatever the list held after loading
	if !step(h.opLongReports(650, !first), 0) {
		return
	}
	// 3. a few ordinary operations, a rotation, another long burst and a catch-up restart
	if !step(h.opReports("equivocating"), 0) || !step(h.opConflict("same-key"), 0) || !step(h.opRotate(), 0) {
		return
	}
	if !step(h.opLongReports(560, first), 1) {
		return
	}
	h.r.Count("long.completed", 1)
}

// opAuthorizeMany authorizes n fresh devices in one prefix.
func (h *hist) opAuthorizeMany(n int) string {
	h.op("authorize %d fresh devices (ids from %d)", n, h.next)
	for i := 0; i < n; i++ {
		id := h.next
		h.next += 1 + uint32(h.rng.Intn(3))
		d, a := h.mkDev(id, refenc.GenKey(h.rng))
		if st, _, _ := retry(func() (int, []byte, error) { return h.Authorize(a) }); st == 200 {
			h.all[id] = d
		}
	}
	return "authorize"
}

// opBanMany bans n authorized devices by conflicting authorizations in one prefix.
func (h *hist) opBanMany(n int) string {
	ds := h.authorizedKnown()
	if len(ds) < n {
		n = len(ds)
	}
	h.op("conflicting authorizations for %d devices", n)
	for _, d := range ds[:n] {
		a := d.Auth
		a.Debt++
		a = a.Signed(h.GCA.Priv)
		retry(func() (int, []byte, error) { return h.Authorize(a) })
	}
	return "conflict.same-key"
}

// runWide: more authorization records than fit into 64 KiB (442), a week
// record of more than 130 devices (> 4 MiB), more accepted reports than the
// recent list holds; restart pair after every prefix, two rotations.
func (h *hist) runWide() {
	step := func(class string, k int) bool {
		if h.dead || class == "" {
			return false
		}
		h.restartPair(class, k)
		return !h.dead
	}
	if !step(h.opRegister(), 0) || !step(h.opAuthorizeMany(200), 0) || !step(h.opBanMany(190), 0) || !step(h.opAuthorizeMany(130), 0) {
		return
	}
	h.clockForward(uint32(450 + h.rng.Intn(100)))
	if !step(h.opLongReports(1100, true), 0) {
		return
	}
	h.opImpact()
	if !step(h.opRotate(), 0) { // first record of ~140 devices
		return
	}
	if !step(h.opLongReports(300, false), 1) { // second one by start-up catch-up, on a file above 4 MiB
		return
	}
	if !step(h.opReports("normal"), 0) {
		return
	}
	h.r.Count("wide.completed", 1)
}

// runDeep: a dozen devices over 18+ weeks (three catch-up rotations per
// restart), so that allDeviceStats.dat grows beyond 4 MiB record by record.
func (h *hist) runDeep(rounds int) {
	step := func(class string, k int) bool {
		if h.dead || class == "" {
			return false
		}
		h.restartPair(class, k)
		return !h.dead
	}
	if !step(h.opRegister(), 0) || !step(h.opAuthorizeMany(12), 0) {
		return
	}
	h.clockForward(uint32(450 + h.rng.Intn(100)))
	for i := 0; i < rounds; i++ {
		if i%3 == 1 {
			h.opImpact()
		}
		if !step(h.opLongReports(60+h.rng.Intn(60), i%2 == 0), 3) {
			return
		}
	}
	if !step(h.opReports("normal"), 0) || !step(h.opRotate(), 0) {
		return
	}
	h.r.Count("deep.completed", 1)
}

// runSharedKey: a fresh ShortID is authorized with the public key of an
// already authorized device (no ShortID conflict). Whether the server accepts
// or refuses it, shutdown and restart must succeed afterwards.
func (h *hist) runSharedKey(variant string) {
	step := func(class string) bool {
		if h.dead || class == "" {
			return false
		}
		h.restartPair(class, 0)
		return !h.dead
	}
	if !step(h.opRegister()) || !step(h.opAuthorize()) || !step(h.opAuthorize()) {
		return
	}
	h.clockForward(uint32(100 + h.rng.Intn(300)))
	if variant == "1" {
		if !step(h.opReports("normal")) {
			return
		}
	}
	if !step(h.opKeyReuse()) {
		return
	}
	h.r.Count("sharedkey.shutdown_and_restart_ok", 1)
	if !step(h.opReports("normal")) || !step(h.opConflict("same-key")) {
		return
	}
	step(h.opReports("normal"))
}

func childBase(b run.Batch, r *ev.Result) {
	switch b.Kind {
	case "fleet":
		childFleet(b, r)
		return
	case "partialwrite":
		childPartialWrite(b, r)
		return
	case "pw-a":
		childPWA(b, r)
		return
	case "pw-b":
		childPWB(b, r)
		return
	case "tornlog":
		h := newHist(b, r, 0)
		if h == nil {
			return
		}
		h.runTornLog()
		r.Count("histories.tornlog", 1)
		h.stop()
		return
	}
	if b.Kind == "wide" || b.Kind == "deep" {
		h := newHist(b, r, 0)
		if h == nil {
			return
		}
		if b.Kind == "wide" {
			h.runWide()
		} else {
			var rounds int
			fmt.Sscan(b.P("rounds"), &rounds)
			h.runDeep(rounds)
		}
		r.Count("histories."+b.Kind, 1)
		r.Sample(map[string]interface{}{"history": h.tag, "ops": len(h.ops), "archived_weeks": len(h.cur.History), "devices": len(h.cur.Equipment), "last_ops": tailOps(h.ops, 4)})
		h.stop()
		return
	}
	if b.Kind == "long" {
		h := newHist(b, r, 0)
		if h == nil {
			return
		}
		h.runLong(b.P("variant"))
		r.Count("histories.long", 1)
		r.Sample(map[string]interface{}{"history": h.tag, "ops": len(h.ops), "last_ops": tailOps(h.ops, 4)})
		h.stop()
		return
	}
	if b.Kind == "sharedkey" {
		h := newHist(b, r, 0)
		if h == nil {
			return
		}
		h.runSharedKey(b.P("variant"))
		r.Count("histories.sharedkey", 1)
		r.Note("%s (shared-key scenario, variant %s): %v", h.tag, b.P("variant"), tailOps(h.ops, 8))
		h.stop()
		return
	}
	for i := 0; i <= b.N; i++ {
		h := newHist(b, r, i)
		if h == nil {
			return
		}
		if i == 0 {
			h.runScripted()
			r.Count("histories.scripted", 1)
		} else {
			h.runRandom(22 + h.rng.Intn(8))
			r.Count("histories.random", 1)
		}
		r.Max("max.prefixes_in_history", int64(h.opn))
		r.Sample(map[string]interface{}{"history": h.tag, "ops": len(h.ops), "archived_weeks": len(h.cur.History), "devices": len(h.cur.Equipment), "bans": len(h.cur.Bans), "last_ops": tailOps(h.ops, 5)})
		fatal := h.fatal
		h.stop()
		if fatal || r.NumViolations() > 10 {
			return
		}
	}
}

func tailOps(ops []string, n int) []string {
	if len(ops) > n {
		return ops[len(ops)-n:]
	}
	return ops
}
