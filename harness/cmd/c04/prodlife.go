//go:build test

package main

// prodlife: next to the -tags test batches, a few short lives of a
// PRODUCTION-build server at the real clock (lib/prodwt/life.go); the
// problems that concern C04 are reported here.

import (
	"verifharness/lib/ev"
	"verifharness/lib/prodwt"
	"verifharness/lib/run"
)

func plan(tier string, seed int64) []run.Batch {
	bs := planBase(tier, seed)
	n := 2
	if tier == "thorough" {
		n = 8
	}
	bs = append(bs, run.Batch{Kind: "fleet", Seed: seed*1000 + 881, N: 1, TimeoutS: 400})
	return append(bs, run.Batch{Kind: "prodlife", Seed: seed*1000 + 991, N: n, TimeoutS: 400})
}

func child(b run.Batch, r *ev.Result) {
	if b.Kind == "prodlife" {
		prodwt.RunLife(r, b, b.Seed, "C04", b.N)
		return
	}
	childBase(b, r)
}
