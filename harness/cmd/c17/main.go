//go:build test

// C17 — Server lists and GCA migration follow the GCA's signatures; bans are
// monotone.
//
// Two monitors, both on real code in child processes:
//
//	server side: sequences of POST /authorized-servers against a real GCA
//	  server; after every post the list is read through GET and through the
//	  snapshot accessor and compared with the previous observation: the
//	  reference rules below say which difference the post may have caused.
//	client side: a real client whose only reachable server is a TCP listener
//	  of the harness holding a server key the client trusts. Every round the
//	  harness builds a reply (reference encoder, keys of all GCAs held here),
//	  the reference acceptance predicate says whether it is an acceptable server
//	  list, an acceptable migration order or neither, and the set-valued merge
//	  model says which states the client may be in afterwards. State accessor
//	  and the three files must agree with the model and with each other; after
//	  a restart the state must equal the files.
package main

import (
	"bytes"
	"encoding/binary"
	"encoding/hex"
	"encoding/json"
	"fmt"
	"io"
	"math/rand"
	"net"
	"net/http"
	"net/url"
	"os"
	"os/exec"
	"path/filepath"
	"sort"
	"strings"
	"sync"
	"sync/atomic"
	"time"

	"github.com/glowlabs-org/gca-backend/client"
	"github.com/glowlabs-org/gca-backend/server"

	"verifharness/lib/drv"
	"verifharness/lib/ev"
	"verifharness/lib/refenc"
	"verifharness/lib/run"
)

const (
	zeroKey       = "client-migration-zero-servers:restart-fails"
	staleKeyList  = "client-stale-round:former-gca-list-merged"
	staleKeyOrder = "client-stale-round:former-gca-order-followed"
)

func main() {
	run.Main(run.Spec{
		ID:       "C17",
		Level:    "exploration",
		Pkg:      "./cmd/c17",
		Parallel: 24, // client rounds mostly sleep (60 ms protocol ticks)
		Rule: "server side: one case = one POST /authorized-servers (or one burst of 2..8 simultaneous posts of one new record, followed by its ban) (new, duplicate with changed ports/location, same content re-signed, ban, second ban, un-ban attempt incl. replay of the original record, " +
			"bad/foreign signature on each of these, posts before registration) followed by GET + snapshot; non-trivial = the post names an existing key or carries a signature that verifies under the GCA key. " +
			"client side: one case = one sync round against the harness-held server (server lists: new / duplicate with changed ports / ban / second ban / un-ban / duplicates inside one list / one bad entry signature / wrong server key / stale time; " +
			"a second/third record for one key without the GCA's signature, in lists and in orders; migration orders with 0..4 servers: valid, outer invalid or foreign, inner signed by old/foreign GCA, for another device, to the current GCA, signed by a former GCA) or one restart; a round that is busy re-sending hundreds of reports while a second round adopts a ban or an order; a round whose write of gcaServers.dat fails (client hosted in a grandchild process); lists and orders of 63..400 entries (genuine, and with one entry lacking the required signature at the first, a middle and each of the last three positions; client in a grandchild process); overlap: a round held back by the server while another round completes (and mostly migrates), then answered with an unsigned order naming the former GCA / a list or an order signed by the former GCA / a list signed by the current GCA; " +
			"non-trivial = the round reached the harness-held server. Distinct by (sequence seed, step).",
		Assumptions: []string{
			"the client's report loop is parked at its loop head (send.loop hook), so only the rounds issued by the harness run",
			"locations of listed servers are unreachable by construction (unparsable URL / too many colons / 127.77.0.0/16), so fan-out and fail-over end immediately",
			"where the text leaves a choice (content of an entry at the moment of a ban, a second ban record for a banned entry, the same content under another valid signature, a valid order naming the current GCA, a valid input that is ignored) every allowed outcome is accepted and the observed one counted",
			"crashes between the file writes of a migration are outside this property's quantifier; the order of 'write files' and 'adopt' is therefore not observable here",
			"a valid order with zero servers is delivered only as the last step of a sequence and is always followed by a restart: whether it is followed is the implementation's choice, a client that cannot start afterwards is a violation (former finding #16)",
		},
		Plan:  plan,
		Child: child,
		ClassifyDeath: func(c *ev.Check, o *run.Outcome) bool {
			// test-mode servers and clients end their own process after 120 s of
			// life: on a starved machine that is a watchdog, not a finding
			if strings.Contains(o.Stderr, "lived for longer than 120 seconds") || strings.Contains(o.Stderr, "was not closed during testing") {
				c.Inconc(fmt.Sprintf("batch %d outlived the 120 s test-mode limit of the code under test (machine too slow)", o.Batch.Index))
				return true
			}
			return false
		},
		Post: func(c *ev.Check, outs []*run.Outcome) {
			for _, k := range []string{"srv.new_added", "srv.dup_ignored", "srv.ban_effective", "srv.on_banned_ignored", "srv.badsig_ignored", "srv.prereg_ignored",
				"cli.contacted", "cli.entry_added", "cli.ban_applied", "cli.unban_ignored", "cli.dup_ignored", "cli.rejected_unchanged", "cli.migration_adopted", "cli.restart_ok",
				"cli.class.mig_inner_wrong", "cli.class.mig_outer_invalid", "cli.class.mig_other_device", "cli.class.list_badsig",
				"cli.class.list_dup_unsigned", "cli.class.mig_dup_unsigned", "cli.zero_order_delivered", "cli.overlap", "cli.overlap_migrated_meanwhile", "cli.resend_overlap", "cli.resend_overlap_b_changed_state_while_a_resent", "srv.burst", "srv.burst_aligned", "srv.slow_peer", "srv.slow_peer_held", "fault.rounds", "large.genuine_rounds", "large.adopted_exactly", "large.forged.pos_from_end_0", "large.forged.pos_from_end_1", "large.forged.pos_from_end_2", "cli.class.large_list_forged", "cli.class.large_order_forged"} {
				c.Require(k, 1)
			}
		},
	})
}

func planBase(tier string, seed int64) []run.Batch {
	srvChildren, srvSeq, cliChildren, cliSeq := 4, 10, 10, 4
	if tier == "thorough" {
		srvChildren, srvSeq, cliChildren, cliSeq = 30, 50, 125, 12
	}
	var bs []run.Batch
	for i := 0; i < cliChildren; i++ {
		bs = append(bs, run.Batch{Kind: "client", Seed: seed*1000003 + int64(i), N: cliSeq, TimeoutS: 115})
	}
	faultChildren := 2
	if tier == "thorough" {
		faultChildren = 16
	}
	largeChildren := 3
	if tier == "thorough" {
		largeChildren = 14
	}
	for i := 0; i < largeChildren; i++ {
		bs = append(bs, run.Batch{Kind: "large", Seed: seed*1000003 + 800000 + int64(i), N: 1, TimeoutS: 115,
			Params: map[string]string{"slice": fmt.Sprint(i), "of": fmt.Sprint(largeChildren)}})
	}
	for i := 0; i < faultChildren; i++ {
		bs = append(bs, run.Batch{Kind: "fault", Seed: seed*1000003 + 700000 + int64(i), N: 4, TimeoutS: 115})
	}
	for i := 0; i < srvChildren; i++ {
		bs = append(bs, run.Batch{Kind: "server", Seed: seed*1000003 + 500000 + int64(i), N: srvSeq, TimeoutS: 115})
	}
	return bs
}

var theBatch run.Batch

func childBase(b run.Batch, r *ev.Result) {
	theBatch = b
	rng := rand.New(rand.NewSource(b.Seed))
	drv.SetClock(0)
	drv.GateRotation(true)
	drv.GateImpact(true)
	installPark()
	if b.Kind == "fault" {
		faultBatch(b, r, rng)
		return
	}
	if b.Kind == "faultgrand" {
		faultGrand(b, r, rng)
		return
	}
	if b.Kind == "large" {
		largeBatch(b, r, rng)
		return
	}
	if b.Kind == "largegrand" {
		largeGrand(b, r, rng)
		return
	}
	for i := 0; i < b.N; i++ {
		seqSeed := rng.Int63()
		dir := filepath.Join(b.Dir, fmt.Sprintf("seq%d", i))
		label := fmt.Sprintf("batchseed=%d seq=%d", b.Seed, i)
		if b.Kind == "server" {
			serverSequence(r, rand.New(rand.NewSource(seqSeed)), dir, label)
		} else {
			clientSequence(r, rand.New(rand.NewSource(seqSeed)), dir, label, i == 0 && b.Seed%2 == 0 || i == 2)
		}
		os.RemoveAll(dir)
		if r.NumViolations() > 12 {
			return
		}
	}
}

// ---------------------------------------------------------------- shared helpers

const locAlphabet = "abcdefghijklmnopqrstuvwxyzABCDEFGHIJKLMNOPQRSTUVWXYZ0123456789.-_~!$&'()*+,;=\"\\<>{}|^` "

// unreachableURLLocation: a location for which the server's fan-out URL does
// not parse (or is refused at once): nothing is ever contacted.
func unreachableURLLocation(rng *rand.Rand, kind int) (string, uint16) {
	port := uint16(rng.Intn(65536))
	mk := func(n int) string {
		for {
			b := make([]byte, n)
			for i := range b {
				b[i] = locAlphabet[rng.Intn(len(locAlphabet))]
			}
			b[rng.Intn(n)] = ' '
			if _, err := url.Parse(fmt.Sprintf("http://%s:%d/api/v1/authorized-servers", b, port)); err != nil {
				return string(b)
			}
		}
	}
	switch kind % 5 {
	case 0:
		return "", 0
	case 1:
		return mk(1), port
	case 2:
		return mk(255), port
	case 3:
		return fmt.Sprintf("127.77.%d.%d", rng.Intn(256), 1+rng.Intn(254)), port
	}
	return mk(2 + rng.Intn(253)), port
}

// undialableLocation: a location the client cannot dial (too many colons, or
// an address in 127.77/16 where nothing listens).
func undialableLocation(rng *rand.Rand, kind int) string {
	mk := func(n int) string {
		b := make([]byte, n)
		for i := range b {
			b[i] = locAlphabet[rng.Intn(len(locAlphabet))]
		}
		b[rng.Intn(n)] = ':'
		return string(b)
	}
	switch kind % 4 {
	case 0:
		return mk(1)
	case 1:
		return mk(255)
	case 2:
		return fmt.Sprintf("127.77.%d.%d", rng.Intn(256), 1+rng.Intn(254))
	}
	return mk(2 + rng.Intn(253))
}

func content(a refenc.AuthServer) refenc.MapEntry {
	return refenc.MapEntry{Pub: a.Pub, Banned: a.Banned, Location: a.Location, HTTP: a.HTTP, TCP: a.TCP, UDP: a.UDP}
}

func hx(b []byte) string {
	if len(b) > 3000 {
		return hex.EncodeToString(b[:3000]) + "..."
	}
	return hex.EncodeToString(b)
}

func short(e refenc.MapEntry) string {
	l := e.Location
	if len(l) > 24 {
		l = l[:24] + "…"
	}
	return fmt.Sprintf("{%x banned=%v loc=%q(%d) %d/%d/%d}", e.Pub[:4], e.Banned, l, len(e.Location), e.HTTP, e.TCP, e.UDP)
}

// ---------------------------------------------------------------- server side

// The server closes idle HTTP connections after 2.5 s of wall clock; a reused
// connection can therefore break under a POST on a starved machine. Every post
// uses its own connection and is repeated on transport errors: posting the
// same record twice has the same effect as posting it once.
var poster = &http.Client{Timeout: 20 * time.Second, Transport: &http.Transport{DisableKeepAlives: true}}

func postJSON(port uint16, path string, body []byte) (code int, out []byte, err error) {
	for attempt := 0; attempt < 5; attempt++ {
		var resp *http.Response
		resp, err = poster.Post(fmt.Sprintf("http://127.0.0.1:%d%s", port, path), "application/json", bytes.NewReader(body))
		if err != nil {
			continue
		}
		out, err = io.ReadAll(resp.Body)
		resp.Body.Close()
		if err != nil {
			continue
		}
		return resp.StatusCode, out, nil
	}
	return 0, nil, err
}

type srvOp struct {
	Kind string
	Rec  refenc.AuthServer
	Also []refenc.AuthServer // further records posted in the same (overlapping) step
}

func describe(ops []srvOp) []string {
	var out []string
	for _, o := range ops {
		out = append(out, fmt.Sprintf("%s %s sig=%x", o.Kind, short(content(o.Rec)), o.Rec.Sig[:6]))
	}
	return out
}

func serverSequence(r *ev.Result, rng *rand.Rand, dir, label string) {
	e, err := drv.NewServerDir(dir, rng, true)
	if err != nil {
		r.Inconc(err.Error())
		return
	}
	if err := e.Start(); err != nil {
		r.Inconc("server start: " + err.Error())
		return
	}
	defer e.Close()
	gca := refenc.GenKey(rng)
	foreign := refenc.GenKey(rng)
	registered := false
	prev := map[[32]byte]refenc.AuthServer{}
	first := map[[32]byte]refenc.AuthServer{}
	var keys [][32]byte // observed keys in order of appearance
	var history []srvOp

	fresh := func(banned bool) refenc.AuthServer {
		loc, hp := unreachableURLLocation(rng, rng.Intn(5))
		return refenc.AuthServer{Pub: refenc.GenKey(rng).Pub, Banned: banned, Location: loc, HTTP: hp, TCP: uint16(rng.Intn(65536)), UDP: uint16(rng.Intn(65536))}
	}
	changed := func(a refenc.AuthServer) refenc.AuthServer {
		switch rng.Intn(5) {
		case 0:
			a.TCP++
		case 1:
			a.UDP ^= 1 << uint(rng.Intn(16))
		case 2:
			a.Location, a.HTTP = unreachableURLLocation(rng, 1+rng.Intn(4))
		case 3:
			a.HTTP, a.TCP, a.UDP = uint16(rng.Intn(65536)), uint16(rng.Intn(65536)), uint16(rng.Intn(65536))
		default:
			a.Location, a.HTTP = unreachableURLLocation(rng, rng.Intn(5))
			a.TCP--
		}
		return a
	}
	pickKey := func(banned bool) (refenc.AuthServer, bool) {
		var c []refenc.AuthServer
		for _, k := range keys {
			if prev[k].Banned == banned {
				c = append(c, prev[k])
			}
		}
		if len(c) == 0 {
			return refenc.AuthServer{}, false
		}
		return c[rng.Intn(len(c))], true
	}
	badSig := func(a refenc.AuthServer) (refenc.AuthServer, string) {
		switch rng.Intn(8) {
		case 0:
			rng.Read(a.Sig[:])
			return a, "garbage"
		case 1:
			a = a.Signed(gca.Priv)
			a.Sig[rng.Intn(64)] ^= 1 << uint(rng.Intn(8))
			return a, "bitflip"
		case 2:
			return a.Signed(foreign.Priv), "foreign_gca"
		case 3:
			return a.Signed(e.Key.Priv), "server_key"
		case 4:
			return a.Signed(e.Temp.Priv), "temp_key"
		case 5:
			a.Sig = refenc.Sign(gca.Priv, a.SigningBytes()[16:])
			return a, "no_prefix"
		case 6:
			a.Sig = [64]byte{}
			return a, "zero"
		default:
			b := a.Signed(gca.Priv)
			b.Banned = !b.Banned // signature made for the opposite ban flag
			return b, "other_content"
		}
	}

	observe := func(op srvOp) bool {
		history = append(history, op)
		tail := history
		if len(tail) > 30 {
			tail = tail[len(tail)-30:]
		}
		rp := map[string]interface{}{"sequence": label, "registered": registered, "ops_tail": describe(tail), "batch": theBatch}
		valid := registered && refenc.Verify(gca.Pub, op.Rec.SigningBytes(), op.Rec.Sig)
		_, existed := prev[op.Rec.Pub]
		if valid || existed {
			r.Nontrivial(fmt.Sprintf("%s/%d", label, len(history)))
		}
		r.Eval(1)
		code, got, err := e.AuthorizedServers()
		for attempt := 0; attempt < 4 && err != nil; attempt++ {
			code, got, err = e.AuthorizedServers()
		}
		if err != nil || code != 200 {
			r.Inconc(fmt.Sprintf("GET /authorized-servers failed: status %d err %v", code, err))
			return false
		}
		snap := e.S.VerifSnapshot(false)
		var viaSnap []refenc.AuthServer
		for _, x := range snap.Servers {
			viaSnap = append(viaSnap, refenc.AuthServer{Pub: x.PublicKey, Banned: x.Banned, Location: x.Location, HTTP: x.HttpPort, TCP: x.TcpPort, UDP: x.UdpPort, Sig: x.GCAAuthorization})
		}
		ok := true
		bad := func(key, f string, a ...interface{}) {
			ok = false
			r.Violationf(key, rp, "after %s: "+f, append([]interface{}{op.Kind}, a...)...)
		}
		var cur map[[32]byte]refenc.AuthServer
		for si, list := range [][]refenc.AuthServer{got, viaSnap} {
			src := []string{"GET", "snapshot"}[si]
			cur = map[[32]byte]refenc.AuthServer{}
			for _, x := range list {
				if y, dup := cur[x.Pub]; dup && y != x {
					bad("server-entry-altered:second-record-for-key", "%s lists two different records for key %x (%s and %s)", src, x.Pub[:4], short(content(y)), short(content(x)))
				} else if dup && si == 0 {
					r.Count("srv.identical_duplicate_records", 1)
				}
				cur[x.Pub] = x
				if !registered {
					bad("server-entered-without-valid-gca-signature", "%s lists a server although no GCA is registered", src)
				} else if !refenc.Verify(gca.Pub, x.SigningBytes(), x.Sig) {
					bad("server-entry-does-not-verify", "%s lists entry %s whose signature does not verify under the GCA key", src, short(content(x)))
				}
			}
			for k, p := range prev {
				c, present := cur[k]
				switch {
				case !present:
					bad("server-entry-removed", "%s no longer lists key %x", src, k[:4])
				case c == p:
				case p.Banned && !c.Banned:
					bad("server-unban", "%s shows key %x un-banned (was %s, now %s)", src, k[:4], short(content(p)), short(content(c)))
				case p.Banned:
					bad("server-banned-entry-altered", "%s shows banned key %x altered (was %s, now %s)", src, k[:4], short(content(p)), short(content(c)))
				case c.Banned:
					if !(valid && op.Rec.Banned && c == op.Rec) {
						bad("server-entry-banned-without-valid-ban-record", "%s shows key %x banned as %s, which is not the validly signed ban record just posted", src, k[:4], short(content(c)))
					} else if si == 0 {
						r.Count("srv.ban_effective", 1)
					}
				case content(c) == content(p):
					if !(valid && op.Rec == c) {
						bad("server-entry-altered-without-ban", "%s shows key %x under a signature that was not just posted", src, k[:4])
					} else if si == 0 {
						r.Count("srv.resigned_replaced", 1)
					}
				default:
					bad("server-entry-altered-without-ban", "%s shows non-banned key %x altered (was %s, now %s)", src, k[:4], short(content(p)), short(content(c)))
				}
				if present && !c.Banned && content(c) != content(first[k]) {
					bad("server-entry-altered-without-ban", "%s shows non-banned key %x different from its first appearance", src, k[:4])
				}
			}
			for k, c := range cur {
				if _, old := prev[k]; old {
					continue
				}
				posted := valid && op.Rec == c
				for _, x := range op.Also {
					if registered && x == c && refenc.Verify(gca.Pub, x.SigningBytes(), x.Sig) {
						posted = true
					}
				}
				if !posted {
					bad("server-entered-without-valid-gca-signature", "%s lists new key %x (%s) that was not just posted with a valid GCA signature", src, k[:4], short(content(c)))
				} else if si == 0 {
					r.Count("srv.new_added", 1)
				}
			}
		}
		if !ok {
			return false
		}
		if len(got) != len(viaSnap) {
			r.Inconc("GET /authorized-servers and the snapshot accessor disagree on the list length")
			return false
		}
		for _, x := range got {
			if cur[x.Pub] != x {
				r.Inconc("GET /authorized-servers and the snapshot accessor disagree on an entry")
				return false
			}
		}
		// bookkeeping of what was seen (for the positive controls)
		p, existedBefore := prev[op.Rec.Pub]
		same := len(cur) == len(prev)
		for k, c := range cur {
			if prev[k] != c {
				same = false
			}
		}
		switch {
		case !registered && same:
			r.Count("srv.prereg_ignored", 1)
		case !valid && same:
			r.Count("srv.badsig_ignored", 1)
		case valid && existedBefore && p.Banned && same:
			r.Count("srv.on_banned_ignored", 1)
		case valid && existedBefore && !p.Banned && !op.Rec.Banned && same:
			r.Count("srv.dup_ignored", 1)
		case valid && same:
			r.Count("srv.valid_ignored", 1)
		}
		for _, x := range got {
			if _, old := prev[x.Pub]; !old {
				keys = append(keys, x.Pub)
				first[x.Pub] = x
			}
		}
		prev = cur
		return true
	}

	post := func(kind string, a refenc.AuthServer) bool {
		run.Op("%s post %s %s", label, kind, short(content(a)))
		if _, _, err := postJSON(e.HTTP, "/api/v1/authorized-servers", a.JSON()); err != nil {
			r.Inconc("POST /authorized-servers transport error: " + err.Error())
			return false
		}
		r.Count("srv.op."+strings.SplitN(kind, ":", 2)[0], 1)
		return observe(srvOp{Kind: kind, Rec: a})
	}

	// burst: the same new, validly signed record arrives K times at once (the
	// handlers are aligned at their instrumented entry point), then it is banned
	burst := func() bool {
		a := fresh(false).Signed(gca.Priv)
		K := 2 + rng.Intn(7)
		var arrivals atomic.Int32
		giveUp := time.Now().Add(2 * time.Second) // only against a hang; the verdict does not depend on it
		server.VerifSetHook("as.post.ready", func(*server.GCAServer) {
			arrivals.Add(1)
			for arrivals.Load() < int32(K) && time.Now().Before(giveUp) {
				time.Sleep(50 * time.Microsecond)
			}
		})
		run.Op("%s burst of %d posts of %s", label, K, short(content(a)))
		var wg sync.WaitGroup
		for i := 0; i < K; i++ {
			wg.Add(1)
			go func() {
				defer wg.Done()
				postJSON(e.HTTP, "/api/v1/authorized-servers", a.JSON())
			}()
		}
		wg.Wait()
		server.VerifSetHook("as.post.ready", func(*server.GCAServer) {})
		if arrivals.Load() >= int32(K) {
			r.Count("srv.burst_aligned", 1)
		} else {
			r.Count("srv.burst_not_aligned", 1)
		}
		r.Count("srv.burst", 1)
		if !observe(srvOp{Kind: fmt.Sprintf("burst_new(x%d)", K), Rec: a}) {
			return false
		}
		x := a
		if rng.Intn(2) == 0 {
			x = changed(x)
		}
		x.Banned = true
		return post("ban", x.Signed(gca.Priv))
	}

	// before registration nothing can be validly signed
	for i := 0; i < rng.Intn(4); i++ {
		a := fresh(rng.Intn(3) == 0)
		switch rng.Intn(3) {
		case 0:
			a = a.Signed(gca.Priv) // the GCA-to-be
		case 1:
			a = a.Signed(e.Temp.Priv)
		default:
			a = a.Signed(e.Key.Priv)
		}
		if !post("before_registration", a) {
			return
		}
	}
	reg := refenc.Registration{GCAKey: gca.Pub}
	reg.Sig = refenc.Sign(e.Temp.Priv, reg.SigningBytes())
	code, body, err := postJSON(e.HTTP, "/api/v1/register-gca", reg.JSON())
	if sn := e.S.VerifSnapshot(false); err != nil || !sn.GCAAvailable || [32]byte(sn.GCAKey) != gca.Pub {
		r.Inconc(fmt.Sprintf("GCA registration failed: status %d err %v body %.100s", code, err, body))
		return
	}
	registered = true

	// slow peer: the new server K answers the GCA server's first push slowly
	// (the harness plays K's HTTP endpoint); while that push is pending a
	// second post for K arrives (its ban, or K with other ports). One record
	// per key and monotone bans must hold afterwards as after any other post.
	slowPeer := func() bool {
		dev := refenc.GenKey(rng)
		au := refenc.Auth{ID: uint32(1 + rng.Intn(1000)), Pub: dev.Pub, Capacity: 1000, Expiration: 100000}.Signed(gca.Priv)
		if code, body, err := postJSON(e.HTTP, "/api/v1/authorize-equipment", au.JSON()); err != nil || code != 200 {
			r.Inconc(fmt.Sprintf("cannot authorize a device: status %d err %v body %.80s", code, err, body))
			return false
		}
		held := make(chan struct{}, 1)
		release := make(chan struct{})
		var firstReq atomic.Bool
		ln, err := net.Listen("tcp", "127.0.0.1:0")
		if err != nil {
			r.Inconc(err.Error())
			return false
		}
		peer := &http.Server{Handler: http.HandlerFunc(func(w http.ResponseWriter, req *http.Request) {
			io.Copy(io.Discard, req.Body)
			if firstReq.CompareAndSwap(false, true) {
				held <- struct{}{}
				<-release
			}
			w.Write([]byte(`{"status":"success"}`))
		})}
		go peer.Serve(ln)
		defer peer.Close()
		k := refenc.AuthServer{Pub: refenc.GenKey(rng).Pub, Location: "127.0.0.1", HTTP: uint16(ln.Addr().(*net.TCPAddr).Port), TCP: uint16(rng.Intn(65536)), UDP: uint16(rng.Intn(65536))}.Signed(gca.Priv)
		second := k
		kind := "slow_peer+ban"
		if rng.Intn(3) == 0 {
			second.TCP++
			kind = "slow_peer+other_ports"
		} else {
			second.Banned = true
			if rng.Intn(2) == 0 {
				second.UDP++
			}
		}
		second = second.Signed(gca.Priv)
		run.Op("%s %s: first post of %s", label, kind, short(content(k)))
		done1 := make(chan error, 1)
		go func() {
			_, _, err := postJSON(e.HTTP, "/api/v1/authorized-servers", k.JSON())
			done1 <- err
		}()
		isHeld := false
		select {
		case <-held:
			isHeld = true
		case err := <-done1:
			done1 <- err
		case <-time.After(10 * time.Second):
		}
		if isHeld {
			r.Count("srv.slow_peer_held", 1)
		} else {
			r.Count("srv.slow_peer_not_held", 1)
		}
		run.Op("%s %s: second post %s", label, kind, short(content(second)))
		_, _, err2 := postJSON(e.HTTP, "/api/v1/authorized-servers", second.JSON())
		close(release)
		var err1 error
		select {
		case err1 = <-done1:
		case <-time.After(30 * time.Second):
			r.Inconc("slow peer: the first post did not return within 30 s after the peer answered")
			return false
		}
		if err1 != nil || err2 != nil {
			r.Inconc(fmt.Sprintf("slow peer: transport errors %v / %v", err1, err2))
			return false
		}
		r.Count("srv.slow_peer", 1)
		if !observe(srvOp{Kind: kind, Rec: second, Also: []refenc.AuthServer{k}}) {
			return false
		}
		if !second.Banned { // and now its ban
			x := k
			x.Banned = true
			return post("ban", x.Signed(gca.Priv))
		}
		return true
	}

	nops := 14 + rng.Intn(14)
	burstAt := rng.Intn(nops)
	slowAt := rng.Intn(nops)
	for i := 0; i < nops; i++ {
		if i == burstAt && len(keys) < 7 {
			if !burst() {
				return
			}
		}
		if i == slowAt && len(keys) < 7 {
			if !slowPeer() {
				return
			}
		}
		var a refenc.AuthServer
		kind := ""
		w := rng.Intn(100)
		switch {
		case w < 18 || len(keys) == 0:
			if len(keys) >= 7 {
				continue
			}
			a, kind = fresh(rng.Intn(6) == 0).Signed(gca.Priv), "new"
		case w < 36:
			x, ok := pickKey(false)
			if !ok {
				continue
			}
			x = changed(x)
			a, kind = x.Signed(gca.Priv), "dup_changed"
		case w < 42:
			x, ok := pickKey(false)
			if !ok {
				continue
			}
			x.Sig = refenc.SignRand(gca.Priv, x.SigningBytes())
			a, kind = x, "dup_resigned"
		case w < 56:
			x, ok := pickKey(false)
			if !ok {
				continue
			}
			if rng.Intn(2) == 0 {
				x = changed(x)
			}
			x.Banned = true
			a, kind = x.Signed(gca.Priv), "ban"
		case w < 64:
			x, ok := pickKey(true)
			if !ok {
				continue
			}
			x = changed(x)
			x.Banned = true
			a, kind = x.Signed(gca.Priv), "ban_again"
		case w < 80:
			x, ok := pickKey(true)
			if !ok {
				continue
			}
			switch rng.Intn(3) {
			case 0: // replay of the record the server first accepted, if that was not banned
				if f := first[x.Pub]; !f.Banned {
					a, kind = f, "unban:replay_original"
					break
				}
				fallthrough
			case 1:
				x.Banned = false
				a, kind = x.Signed(gca.Priv), "unban:same_content"
			default:
				x = changed(x)
				x.Banned = false
				a, kind = x.Signed(gca.Priv), "unban:changed"
			}
		default:
			var base refenc.AuthServer
			what := ""
			switch rng.Intn(4) {
			case 0:
				base, what = fresh(rng.Intn(4) == 0), "new"
			case 1:
				if x, ok := pickKey(false); ok {
					base, what = changed(x), "dup_changed"
				}
			case 2:
				if x, ok := pickKey(false); ok {
					x.Banned = true
					base, what = x, "ban"
				}
			case 3:
				if x, ok := pickKey(true); ok {
					x.Banned = false
					base, what = x, "unban"
				}
			}
			if what == "" {
				base, what = fresh(false), "new"
			}
			var how string
			a, how = badSig(base)
			kind = "badsig:" + what + ":" + how
		}
		if !post(kind, a) {
			return
		}
	}
	r.Count("srv.sequences", 1)
	r.Max("max.srv_keys", int64(len(keys)))
	if len(history) > 0 {
		r.Sample(map[string]interface{}{"side": "server", "sequence": label, "ops": describe(history[:min(6, len(history))])})
	}
}

// ---------------------------------------------------------------- client side: parking

var (
	parkMu   sync.Mutex
	released = map[*client.Client]bool{}
)

func installPark() {
	client.VerifSetHook("send.loop", func(c *client.Client) {
		for {
			parkMu.Lock()
			ok := released[c]
			parkMu.Unlock()
			if ok {
				return
			}
			time.Sleep(500 * time.Microsecond)
		}
	})
}

func closeClient(c *client.Client) {
	parkMu.Lock()
	released[c] = true
	parkMu.Unlock()
	c.Close()
	parkMu.Lock()
	delete(released, c)
	parkMu.Unlock()
}

// ---------------------------------------------------------------- client side: views

type cliView struct {
	GCA     [32]byte
	ID      uint32
	Servers map[[32]byte]refenc.MapEntry
}

func viewOf(c *client.Client) cliView {
	st := c.VerifState()
	v := cliView{GCA: st.GCAPubKey, ID: st.ShortID, Servers: map[[32]byte]refenc.MapEntry{}}
	for k, e := range st.Servers {
		v.Servers[k] = refenc.MapEntry{Pub: k, Banned: e.Banned, Location: e.Location, HTTP: e.HttpPort, TCP: e.TcpPort, UDP: e.UdpPort}
	}
	return v
}

func viewOfFiles(dir string) (cliView, error) {
	var v cliView
	g, err := os.ReadFile(filepath.Join(dir, client.GCAPubKeyFile))
	if err != nil || len(g) != 32 {
		return v, fmt.Errorf("gcaPubKey.dat: %v (%d bytes)", err, len(g))
	}
	copy(v.GCA[:], g)
	id, err := os.ReadFile(filepath.Join(dir, client.ShortIDFile))
	if err != nil || len(id) != 4 {
		return v, fmt.Errorf("shortID.dat: %v (%d bytes)", err, len(id))
	}
	v.ID = binary.LittleEndian.Uint32(id)
	m, err := os.ReadFile(filepath.Join(dir, client.GCAServerMapFile))
	if err != nil {
		return v, err
	}
	v.Servers, err = refenc.ParseServerMap(m)
	return v, err
}

func (a cliView) diff(b cliView) string {
	if a.GCA != b.GCA {
		return fmt.Sprintf("GCA key %x vs %x", a.GCA[:6], b.GCA[:6])
	}
	if a.ID != b.ID {
		return fmt.Sprintf("short id %d vs %d", a.ID, b.ID)
	}
	if len(a.Servers) != len(b.Servers) {
		return fmt.Sprintf("%d vs %d servers", len(a.Servers), len(b.Servers))
	}
	for k, e := range a.Servers {
		if f, ok := b.Servers[k]; !ok || e != f {
			return fmt.Sprintf("server %x differs (%s vs %s, present=%v)", k[:6], short(e), short(f), ok)
		}
	}
	return ""
}

// ---------------------------------------------------------------- client side: reference rules

// entSet is the set of values an entry may have (absent is a value).
type entSet struct {
	absent bool
	vals   []refenc.MapEntry
}

func (s *entSet) add(e refenc.MapEntry) {
	for _, v := range s.vals {
		if v == e {
			return
		}
	}
	s.vals = append(s.vals, e)
}

func (s entSet) has(e refenc.MapEntry, present bool) bool {
	if !present {
		return s.absent
	}
	for _, v := range s.vals {
		if v == e {
			return true
		}
	}
	return false
}

// applyRecords: every value the entry may have after the validly signed
// records recs (all for this key, in list order) were merged one after the
// other by the rule "enter if new; an existing entry is only ever altered to
// become banned; banned stays banned". Choice points of the text (content at
// the moment of a ban; a further ban record for a banned entry) widen the set.
// A reply that is ignored as a whole is allowed too (the start value stays in).
func applyRecords(start entSet, recs []refenc.AuthServer) entSet {
	cur := start
	for _, rec := range recs {
		next := entSet{}
		in := content(rec)
		if cur.absent {
			next.add(in) // enters with a valid signature
		}
		for _, v := range cur.vals {
			switch {
			case in.Banned && !v.Banned: // becomes banned: the ban record's content, or its own with the flag set
				next.add(in)
				w := v
				w.Banned = true
				next.add(w)
			case in.Banned: // already banned: stays, possibly as the newer ban record
				next.add(v)
				next.add(in)
			default: // a non-banned record never alters an existing entry
				next.add(v)
			}
		}
		cur = next
	}
	out := entSet{absent: start.absent || cur.absent}
	for _, v := range start.vals {
		out.add(v)
	}
	for _, v := range cur.vals {
		out.add(v)
	}
	return out
}

const (
	kReject = iota
	kList
	kOrder
)

// classify is the property's acceptance rule, written from its text.
func classify(raw []byte, devKey, serverKey, gcaKey [32]byte, now int64) (int, refenc.SyncReply) {
	rep, refused, err := refenc.ParseSyncReply(raw)
	if err != nil || refused {
		return kReject, rep
	}
	d := int64(rep.Unix) - now
	if d > 23*3600 || d < -23*3600 { // generated stamps are either within seconds of now or days away
		return kReject, rep
	}
	if !refenc.Verify(serverKey, rep.SignedPart, rep.ServerSig) || rep.DevKey != devKey {
		return kReject, rep
	}
	var zero [32]byte
	if rep.NewGCA != zero {
		m := refenc.Migration{Equipment: rep.DevKey, NewGCA: rep.NewGCA, NewID: rep.NewID, Servers: rep.Servers, Sig: rep.MigSig}
		if !refenc.Verify(gcaKey, m.SigningBytes(), m.Sig) {
			return kReject, rep
		}
		for _, s := range rep.Servers {
			if !refenc.Verify(rep.NewGCA, s.SigningBytes(), s.Sig) {
				return kReject, rep
			}
		}
		return kOrder, rep
	}
	for _, s := range rep.Servers {
		if !refenc.Verify(gcaKey, s.SigningBytes(), s.Sig) {
			return kReject, rep
		}
	}
	return kList, rep
}

// ---------------------------------------------------------------- client side: sequence

type cseq struct {
	r           *ev.Result
	rng         *rand.Rand
	label       string
	dir         string
	rogue       *drv.RogueSync
	dev         refenc.Key
	other       refenc.Key // another device
	gcas        []refenc.Key
	foreign     refenc.Key
	c           *client.Client
	cur         cliView // last observed (and validated) state
	steps       []string
	sink        *drv.UDPSink
	skipFiles   bool      // judgeRound leaves the files out (another round of the client is still running)
	probe       bool      // judgeRound only answers, it records nothing
	judgeGCA    *[32]byte // judge as if this were the client's GCA
	zeroAdopted bool      // the list is empty because a valid zero-server order was adopted
}

func (q *cseq) gcaIndex() int {
	for i, g := range q.gcas {
		if g.Pub == q.cur.GCA {
			return i
		}
	}
	return -1
}

func (q *cseq) replay(extra map[string]interface{}) map[string]interface{} {
	t := q.steps
	if len(t) > 25 {
		t = t[len(t)-25:]
	}
	o := map[string]interface{}{"sequence": q.label, "steps_tail": t, "batch": theBatch}
	for k, v := range extra {
		o[k] = v
	}
	return o
}

func (q *cseq) liveOthers() int {
	n := 0
	for k, e := range q.cur.Servers {
		if k != q.rogue.Key.Pub && !e.Banned {
			n++
		}
	}
	return n
}

func (q *cseq) newEntry(banned bool) refenc.AuthServer {
	rng := q.rng
	a := refenc.AuthServer{Pub: refenc.GenKey(rng).Pub, Banned: banned, HTTP: uint16(rng.Intn(65536)), TCP: uint16(rng.Intn(65536)), UDP: uint16(rng.Intn(65536))}
	if banned && rng.Intn(5) == 0 {
		a.Location = "" // never dialled
	} else {
		a.Location = undialableLocation(rng, rng.Intn(4))
	}
	return a
}

func (q *cseq) changed(e refenc.MapEntry) refenc.AuthServer {
	rng := q.rng
	a := refenc.AuthServer{Pub: e.Pub, Banned: e.Banned, Location: e.Location, HTTP: e.HTTP, TCP: e.TCP, UDP: e.UDP}
	switch rng.Intn(4) {
	case 0:
		a.TCP ^= 1 << uint(rng.Intn(16))
	case 1:
		a.UDP++
		a.HTTP--
	case 2:
		a.Location = undialableLocation(rng, rng.Intn(4))
	default:
		a.Location = undialableLocation(rng, rng.Intn(4))
		a.TCP, a.UDP = uint16(rng.Intn(65536)), uint16(rng.Intn(65536))
	}
	return a
}

func (q *cseq) pick(banned bool, allowRogue bool) (refenc.MapEntry, bool) {
	var ks []string
	for k, e := range q.cur.Servers {
		if e.Banned == banned && (allowRogue || k != q.rogue.Key.Pub) {
			ks = append(ks, string(k[:]))
		}
	}
	if len(ks) == 0 {
		return refenc.MapEntry{}, false
	}
	sort.Strings(ks)
	var k [32]byte
	copy(k[:], ks[q.rng.Intn(len(ks))])
	return q.cur.Servers[k], true
}

func asRecord(e refenc.MapEntry) refenc.AuthServer {
	return refenc.AuthServer{Pub: e.Pub, Banned: e.Banned, Location: e.Location, HTTP: e.HTTP, TCP: e.TCP, UDP: e.UDP}
}

// build returns the reply for one round and the name of its class. terminal
// means the sequence cannot go on after it (the harness-held server leaves the
// client's list).
func (q *cseq) build(forceZero bool) (raw []byte, class string, terminal bool) {
	rng := q.rng
	gi := q.gcaIndex()
	G := q.gcas[gi]
	Gn := q.gcas[gi+1]
	rep := refenc.SyncReply{DevKey: q.dev.Pub, Offset: uint32(rng.Intn(1 << 20)), Unix: uint64(time.Now().Unix())}
	for i := range rep.Bitfield {
		rep.Bitfield[i] = 0xff // nothing to retransmit
	}
	signer := q.rogue.Key.Priv
	rogueRec := refenc.AuthServer{Pub: q.rogue.Key.Pub, Location: "127.0.0.1", TCP: q.rogue.Port, UDP: q.sink.Port}
	room := 3 - q.liveOthers()
	order := func() refenc.Migration {
		return refenc.Migration{Equipment: rep.DevKey, NewGCA: rep.NewGCA, NewID: rep.NewID, Servers: rep.Servers}
	}
	newServers := func(n int, signerKey refenc.Key, withRogue bool) {
		live := 0
		for i := 0; i < n; i++ {
			banned := rng.Intn(3) == 0 || live >= 3
			if !banned {
				live++
			}
			rep.Servers = append(rep.Servers, q.newEntry(banned).Signed(signerKey.Priv))
		}
		if len(rep.Servers) > 0 && rng.Intn(3) == 0 { // two records for one key inside the order
			i := rng.Intn(len(rep.Servers))
			d := rep.Servers[i]
			d.TCP++
			switch rng.Intn(4) {
			case 0, 1: // banned first, then an un-ban attempt
				rep.Servers[i].Banned = true
				rep.Servers[i] = rep.Servers[i].Signed(signerKey.Priv)
				d.Banned = false
			case 2:
				d.Banned = true
			}
			rep.Servers = append(rep.Servers, d.Signed(signerKey.Priv))
		}
		if withRogue {
			at := rng.Intn(len(rep.Servers) + 1)
			rep.Servers = append(rep.Servers[:at], append([]refenc.AuthServer{rogueRec.Signed(signerKey.Priv)}, rep.Servers[at:]...)...)
		}
	}
	finish := func() []byte { return refenc.BuildSyncReply(rep, signer) }

	if forceZero {
		rep.NewGCA, rep.NewID = Gn.Pub, uint32(rng.Intn(1<<31))
		rep.MigSig = order().Signed(G.Priv).Sig
		return finish(), "mig_valid_zero", true
	}
	// A second (or third) record for a key whose GCA signature is missing: the
	// first record of that key is genuine, the reply as a whole is not.
	if x := rng.Intn(100); x < 11 {
		inMig := x >= 7
		auth := G
		if inMig {
			auth = Gn
			rep.NewGCA, rep.NewID = Gn.Pub, uint32(rng.Intn(1<<31))
		}
		var first refenc.AuthServer
		switch {
		case !inMig && rng.Intn(3) == 0: // the contacted server's own entry
			first = rogueRec
		case !inMig && rng.Intn(2) == 0:
			if e, ok := q.pick(false, false); ok { // an honest server the device already knows
				first = asRecord(e)
				break
			}
			fallthrough
		default:
			first = q.newEntry(room <= 0 || rng.Intn(2) == 0)
		}
		first = first.Signed(auth.Priv)
		unsigned := func() refenc.AuthServer {
			d := first
			switch rng.Intn(4) {
			case 0:
				d.Banned = true
			case 1:
				d.Banned = true
				d.TCP, d.UDP = uint16(rng.Intn(65536)), uint16(rng.Intn(65536))
			case 2:
				d.Banned = !first.Banned
				d.Location = undialableLocation(rng, rng.Intn(4))
			default:
				d.Banned = false
				d.TCP++
			}
			switch rng.Intn(9) {
			case 0:
				rng.Read(d.Sig[:])
			case 1:
				d.Sig = [64]byte{}
			case 2:
				d = d.Signed(q.foreign.Priv)
			case 3:
				d = d.Signed(q.rogue.Key.Priv)
			case 4, 6, 7, 8: // same 64 signature bytes, different content
				d.Sig = first.Sig // the genuine signature of the first record, which covers other content
				if content(d) == content(first) {
					d.Banned = !d.Banned
				}
			default:
				if inMig {
					d = d.Signed(G.Priv) // the old GCA
				} else {
					d = d.Signed(Gn.Priv) // a GCA-to-be
				}
			}
			return d
		}
		rep.Servers = append(rep.Servers, first)
		if rng.Intn(2) == 0 {
			rep.Servers = append(rep.Servers, q.newEntry(true).Signed(auth.Priv))
		}
		if rng.Intn(3) == 0 { // genuine second record, unsigned third
			g := first
			g.UDP++
			rep.Servers = append(rep.Servers, g.Signed(auth.Priv))
		}
		rep.Servers = append(rep.Servers, unsigned())
		if rng.Intn(3) == 0 {
			rep.Servers = append(rep.Servers, q.newEntry(true).Signed(auth.Priv))
		}
		if inMig {
			if rng.Intn(2) == 0 {
				rep.Servers = append(rep.Servers, rogueRec.Signed(Gn.Priv))
			}
			rep.MigSig = order().Signed(G.Priv).Sig
			return finish(), "mig_dup_unsigned", false
		}
		return finish(), "list_dup_unsigned", false
	}
	w := rng.Intn(100)
	switch {
	case w < 12: // new servers
		n := 1 + rng.Intn(3)
		for i := 0; i < n; i++ {
			banned := rng.Intn(3) == 0 || room <= 0
			if !banned {
				room--
			}
			rep.Servers = append(rep.Servers, q.newEntry(banned).Signed(G.Priv))
		}
		if rng.Intn(2) == 0 {
			rep.Servers = append(rep.Servers, rogueRec.Signed(G.Priv))
		}
		return finish(), "list_new", false
	case w < 22: // duplicates with changed ports / location (also of the contacted server itself)
		for i := 0; i < 1+rng.Intn(2); i++ {
			if e, ok := q.pick(false, true); ok {
				rep.Servers = append(rep.Servers, q.changed(e).Signed(G.Priv))
			}
		}
		return finish(), "list_dup_changed", false
	case w < 32: // ban record
		if e, ok := q.pick(false, false); ok {
			a := asRecord(e)
			if rng.Intn(2) == 0 {
				a = q.changed(e)
			}
			a.Banned = true
			rep.Servers = append(rep.Servers, a.Signed(G.Priv))
			return finish(), "list_ban", false
		}
		return finish(), "list_empty", false
	case w < 40: // un-ban attempt
		if e, ok := q.pick(true, false); ok {
			a := asRecord(e)
			if rng.Intn(2) == 0 {
				a = q.changed(e)
			}
			a.Banned = false
			rep.Servers = append(rep.Servers, a.Signed(G.Priv))
			return finish(), "list_unban", false
		}
		return finish(), "list_empty", false
	case w < 45: // another ban record for a banned entry
		if e, ok := q.pick(true, false); ok {
			a := q.changed(e)
			a.Banned = true
			rep.Servers = append(rep.Servers, a.Signed(G.Priv))
			return finish(), "list_ban_again", false
		}
		return finish(), "list_empty", false
	case w < 53: // several records for one key inside one list
		var a refenc.AuthServer
		if e, ok := q.pick(false, false); ok && rng.Intn(2) == 0 {
			a = asRecord(e)
		} else {
			a = q.newEntry(room <= 0)
		}
		b := a
		b.TCP++
		c := a
		c.UDP--
		switch rng.Intn(4) {
		case 0:
			b.Banned = true // non-banned, then banned
		case 1:
			a.Banned, b.Banned = true, false // banned, then an un-ban
		case 2:
			a.Banned, b.Banned, c.Banned = true, true, false
		}
		rep.Servers = append(rep.Servers, a.Signed(G.Priv), b.Signed(G.Priv))
		if rng.Intn(2) == 0 {
			rep.Servers = append(rep.Servers, c.Signed(G.Priv))
		}
		return finish(), "list_multi", false
	case w < 63: // a list in which one entry lacks the GCA's signature
		var bad refenc.AuthServer
		what := ""
		switch rng.Intn(4) {
		case 0:
			bad, what = q.newEntry(rng.Intn(2) == 0), "new"
		case 1:
			if e, ok := q.pick(false, true); ok {
				bad, what = q.changed(e), "dup"
			}
		case 2:
			if e, ok := q.pick(false, false); ok {
				bad, what = asRecord(e), "ban"
				bad.Banned = true
			}
		default:
			if e, ok := q.pick(true, false); ok {
				bad, what = asRecord(e), "unban"
				bad.Banned = false
			}
		}
		if what == "" {
			bad, what = q.newEntry(false), "new"
		}
		switch rng.Intn(7) {
		case 6: // the algebraic twin (r, N-s) of the genuine signature
			bad = bad.Signed(G.Priv)
			bad.Sig = refenc.TwinSig(bad.Sig)
		case 0:
			rng.Read(bad.Sig[:])
		case 1:
			bad = bad.Signed(q.foreign.Priv)
		case 2:
			bad = bad.Signed(Gn.Priv) // a future GCA
		case 3:
			if gi > 0 {
				bad = bad.Signed(q.gcas[gi-1].Priv) // the former GCA
			} else {
				bad = bad.Signed(q.rogue.Key.Priv)
			}
		case 4:
			bad = bad.Signed(G.Priv)
			bad.Sig[rng.Intn(64)] ^= 1 << uint(rng.Intn(8))
		default:
			bad = bad.Signed(q.dev.Priv)
		}
		good := q.newEntry(true).Signed(G.Priv)
		if rng.Intn(2) == 0 {
			rep.Servers = []refenc.AuthServer{good, bad}
		} else {
			rep.Servers = []refenc.AuthServer{bad, good}
		}
		return finish(), "list_badsig", false
	case w < 68: // reply not from the contacted server / not fresh
		rep.Servers = append(rep.Servers, q.newEntry(true).Signed(G.Priv))
		switch rng.Intn(5) {
		case 4: // the contacted server's signature replaced by its algebraic twin
			full := finish()
			var sig [64]byte
			copy(sig[:], full[len(full)-64:])
			sig = refenc.TwinSig(sig)
			copy(full[len(full)-64:], sig[:])
			return full, "list_unauthentic", false
		case 0:
			signer = q.foreign.Priv
		case 1:
			signer = G.Priv
		case 2: // cut short, length prefix consistent with what is sent
			full := finish()
			m := []int{5, 47, 71, 100, 600, 711}[rng.Intn(6)]
			cut := append([]byte(nil), full[:2+m]...)
			binary.LittleEndian.PutUint16(cut, uint16(m))
			return cut, "list_unauthentic", false
		default:
			rep.Unix = uint64(time.Now().Unix() + int64(1-2*rng.Intn(2))*3*24*3600)
		}
		return finish(), "list_unauthentic", false
	case w < 78: // valid order
		rep.NewGCA, rep.NewID = Gn.Pub, uint32(rng.Intn(1<<31))
		withRogue := rng.Intn(100) < 85
		n := rng.Intn(5)
		if !withRogue && n == 0 {
			n = 1
		}
		if withRogue && n == 4 {
			n = 3
		}
		newServers(n, Gn, withRogue)
		rep.MigSig = order().Signed(G.Priv).Sig
		return finish(), "mig_valid", !withRogue
	case w < 84: // outer signature missing or not the current GCA's
		rep.NewGCA, rep.NewID = Gn.Pub, uint32(rng.Intn(1<<31))
		newServers(rng.Intn(5), Gn, rng.Intn(2) == 0)
		switch rng.Intn(6) {
		case 5:
			rep.MigSig = refenc.TwinSig(order().Signed(G.Priv).Sig)
		case 0:
			rep.MigSig = order().Signed(Gn.Priv).Sig
		case 1:
			rep.MigSig = order().Signed(q.foreign.Priv).Sig
		case 2:
			rep.MigSig = order().Signed(q.rogue.Key.Priv).Sig
		case 3:
			rep.MigSig = order().Signed(G.Priv).Sig
			rep.MigSig[rng.Intn(64)] ^= 1 << uint(rng.Intn(8))
		default:
			if gi > 0 {
				rep.MigSig = order().Signed(q.gcas[gi-1].Priv).Sig
			}
		}
		return finish(), "mig_outer_invalid", false
	case w < 90: // inner entries not signed by the new GCA
		rep.NewGCA, rep.NewID = Gn.Pub, uint32(rng.Intn(1<<31))
		newServers(rng.Intn(4), Gn, rng.Intn(2) == 0)
		wrong := G
		if rng.Intn(3) == 0 {
			wrong = q.foreign
		}
		if len(rep.Servers) == 0 || rng.Intn(2) == 0 {
			rep.Servers = append(rep.Servers, q.newEntry(true).Signed(wrong.Priv))
		} else if rng.Intn(2) == 0 {
			for i := range rep.Servers {
				rep.Servers[i] = rep.Servers[i].Signed(wrong.Priv)
			}
		} else {
			i := rng.Intn(len(rep.Servers))
			rep.Servers[i] = rep.Servers[i].Signed(wrong.Priv)
		}
		rep.MigSig = order().Signed(G.Priv).Sig
		return finish(), "mig_inner_wrong", false
	case w < 95: // order for another device
		rep.NewGCA, rep.NewID = Gn.Pub, uint32(rng.Intn(1<<31))
		newServers(rng.Intn(5), Gn, rng.Intn(2) == 0)
		m := order()
		m.Equipment = q.other.Pub
		rep.MigSig = m.Signed(G.Priv).Sig
		if rng.Intn(2) == 0 {
			rep.DevKey = q.other.Pub // consistently the other device's reply
		}
		return finish(), "mig_other_device", false
	default: // valid order that names the current GCA
		rep.NewGCA, rep.NewID = G.Pub, uint32(rng.Intn(1<<31))
		n := rng.Intn(3)
		for i := 0; i < n; i++ {
			banned := rng.Intn(2) == 0 || room <= 0
			if !banned {
				room--
			}
			rep.Servers = append(rep.Servers, q.newEntry(banned).Signed(G.Priv))
		}
		rep.Servers = append(rep.Servers, rogueRec.Signed(G.Priv))
		rep.MigSig = order().Signed(G.Priv).Sig
		return finish(), "mig_to_current", false
	}
}

// judgeRound compares the state after a round with what the reply allows.
func (q *cseq) judgeRound(raw []byte, class string, contacted bool, ret bool) bool {
	r := q.r
	obs := viewOf(q.c)
	files, ferr := viewOfFiles(q.dir)
	rp := q.replay(map[string]interface{}{"class": class, "reply": hx(raw), "contacted": contacted, "round_returned": ret})
	ok := true
	bad := func(key, f string, a ...interface{}) {
		ok = false
		if !q.probe {
			r.Violationf(key, rp, "after a round of class %s: "+f, append([]interface{}{class}, a...)...)
		}
	}
	if ferr != nil && !q.skipFiles {
		bad("client-files-unreadable", "the client's files do not decode: %v", ferr)
		return false
	}
	if d := obs.diff(files); d != "" && !q.skipFiles {
		bad("client-state-differs-from-files", "state and files differ: %s", d)
	}
	old := q.cur
	gcaPub := q.gcas[q.gcaIndex()].Pub
	if q.judgeGCA != nil {
		gcaPub = *q.judgeGCA
	}
	kind, rep := kReject, refenc.SyncReply{}
	if contacted {
		kind, rep = classify(raw, q.dev.Pub, q.rogue.Key.Pub, gcaPub, time.Now().Unix())
	}
	if !q.probe {
		r.Count(fmt.Sprintf("cli.kind.%d", kind), 1)
	}
	idChanged := obs.GCA != old.GCA || obs.ID != old.ID
	byKey := map[[32]byte][]refenc.AuthServer{}
	for _, s := range rep.Servers {
		byKey[s.Pub] = append(byKey[s.Pub], s)
	}
	keys := map[[32]byte]bool{}
	for k := range old.Servers {
		keys[k] = true
	}
	for k := range obs.Servers {
		keys[k] = true
	}
	for k := range byKey {
		keys[k] = true
	}
	startOf := func(k [32]byte) entSet {
		if e, ok := old.Servers[k]; ok {
			return entSet{vals: []refenc.MapEntry{e}}
		}
		return entSet{absent: true}
	}
	explain := func(k [32]byte) (string, string) {
		o, had := old.Servers[k]
		n, has := obs.Servers[k]
		switch {
		case had && has && kind == kOrder && idChanged && len(byKey[k]) == 0:
			return "client-former-gca-entry-kept-after-migration", fmt.Sprintf("entry %s of the former GCA's list is still listed although the order followed does not list it under the new GCA's signature", short(o))
		case had && !has:
			return "client-entry-removed", fmt.Sprintf("entry %s disappeared", short(o))
		case !had && len(byKey[k]) > 0 && kind != kReject && !n.Banned && func() bool {
			for _, rec := range byKey[k] {
				if rec.Banned {
					return true
				}
			}
			return false
		}():
			return "client-unban", fmt.Sprintf("entry %s entered non-banned although an earlier record of the same list bans it, or in a form no record of the list allows", short(n))
		case !had && kind != kReject && func() bool {
			for _, rec := range byKey[k] {
				if content(rec) == n {
					return true
				}
			}
			return false
		}():
			return "client-entry-altered-without-ban", fmt.Sprintf("entry ended as %s: a later record of the list replaced what an earlier record of the same list had entered", short(n))
		case !had:
			return "client-server-entered-without-gca-signature", fmt.Sprintf("entry %s entered the list although no record with the required GCA signature allows it", short(n))
		case o.Banned && !n.Banned:
			return "client-unban", fmt.Sprintf("banned entry %s became %s", short(o), short(n))
		case o.Banned:
			return "client-banned-entry-altered", fmt.Sprintf("banned entry %s became %s without a valid ban record saying so", short(o), short(n))
		case n.Banned:
			return "client-entry-banned-without-valid-record", fmt.Sprintf("entry %s became %s without a valid ban record saying so", short(o), short(n))
		}
		return "client-entry-altered-without-ban", fmt.Sprintf("non-banned entry %s became %s", short(o), short(n))
	}
	checkKeys := func(allowed func(k [32]byte) entSet) {
		for k := range keys {
			n, has := obs.Servers[k]
			if !allowed(k).has(n, has) {
				key, msg := explain(k)
				bad(key, "%s", msg)
			}
		}
	}
	switch kind {
	case kReject:
		if idChanged {
			bad("client-identity-changed-without-valid-order", "GCA key / short id changed (%x/%d -> %x/%d) although the reply is not a valid order for this device", old.GCA[:4], old.ID, obs.GCA[:4], obs.ID)
		}
		checkKeys(func(k [32]byte) entSet { return startOf(k) })
		if ok && !q.probe {
			r.Count("cli.rejected_unchanged", 1)
		}
	case kList:
		if idChanged {
			bad("client-identity-changed-without-valid-order", "GCA key / short id changed (%x/%d -> %x/%d) on a server list", old.GCA[:4], old.ID, obs.GCA[:4], obs.ID)
		}
		checkKeys(func(k [32]byte) entSet { return applyRecords(startOf(k), byKey[k]) })
	case kOrder:
		toCurrent := rep.NewGCA == old.GCA
		switch {
		case !idChanged && !toCurrent:
			// order not (yet) followed: then nothing of it may have been taken over
			checkKeys(func(k [32]byte) entSet { return startOf(k) })
			if !q.probe {
				r.Count("cli.order_ignored", 1)
			}
		case !idChanged && toCurrent:
			// same GCA, same id: its servers are validly signed by the client's GCA
			checkKeys(func(k [32]byte) entSet {
				s := applyRecords(startOf(k), byKey[k])
				t := applyRecords(entSet{absent: true}, byKey[k])
				s.absent = s.absent || t.absent
				for _, v := range t.vals {
					s.add(v)
				}
				return s
			})
			if !q.probe {
				r.Count("cli.order_to_current_merged", 1)
			}
		default:
			if obs.GCA != rep.NewGCA || obs.ID != rep.NewID {
				bad("client-identity-differs-from-order", "identity became %x/%d, the order says %x/%d", obs.GCA[:4], obs.ID, rep.NewGCA[:4], rep.NewID)
			}
			checkKeys(func(k [32]byte) entSet {
				s := applyRecords(entSet{absent: true}, byKey[k])
				if e, had := old.Servers[k]; had && toCurrent { // same GCA: its former entries keep their standing
					s.add(e)
					t := applyRecords(startOf(k), byKey[k])
					for _, v := range t.vals {
						s.add(v)
					}
				}
				// another GCA: only what the order lists under the new GCA's
				// signature belongs to the device's list now
				return s
			})
			if ok && !q.probe {
				r.Count("cli.migration_adopted", 1)
				r.Count(fmt.Sprintf("cli.migration_adopted.servers_%d", len(rep.Servers)), 1)
				q.zeroAdopted = len(rep.Servers) == 0 && len(obs.Servers) == 0
			}
		}
	}
	if !ok {
		return false
	}
	if q.probe {
		return true
	}
	// what was seen (positive controls)
	for k, n := range obs.Servers {
		o, had := old.Servers[k]
		switch {
		case !had && !idChanged:
			r.Count("cli.entry_added", 1)
		case had && !o.Banned && n.Banned:
			r.Count("cli.ban_applied", 1)
			if n == func() refenc.MapEntry { w := o; w.Banned = true; return w }() {
				r.Count("cli.ban_kept_own_content", 1)
			} else {
				r.Count("cli.ban_took_record_content", 1)
			}
		case had && o.Banned && n != o:
			r.Count("cli.banned_entry_took_new_ban_record", 1)
		}
	}
	if kind == kList && !idChanged {
		for k, recs := range byKey {
			o, had := old.Servers[k]
			if !had || obs.Servers[k] != o {
				continue
			}
			for _, rec := range recs {
				if o.Banned && !rec.Banned {
					r.Count("cli.unban_ignored", 1)
				}
				if !o.Banned && !rec.Banned && content(rec) != o {
					r.Count("cli.dup_ignored", 1)
				}
			}
		}
	}
	q.cur = obs
	return true
}

// overlap: round A is held by the contacted server (it simply does not answer
// yet); round B runs to completion meanwhile and is judged as usual; only then
// A gets its answer. Whatever A's answer is, it is judged against the client
// as it is when A's answer arrives: its current GCA decides. Barriers are the
// server's own accept events and the completion of the two calls.
func (q *cseq) overlap(step int) bool {
	r, rng := q.r, q.rng
	giOld := q.gcaIndex()
	Gold := q.gcas[giOld]
	park := make(chan []byte, 1)
	arrived := make(chan struct{}, 1)
	var mu sync.Mutex
	first := true
	var replyB []byte
	q.rogue.SetReply(func(req []byte, n int) ([]byte, int) {
		mu.Lock()
		f := first
		first = false
		mu.Unlock()
		if f {
			arrived <- struct{}{}
			return <-park, -1
		}
		mu.Lock()
		defer mu.Unlock()
		return replyB, -1
	})
	doneA := make(chan bool, 1)
	cl := q.c
	run.Op("%s overlap step %d: round A starts", q.label, step)
	go func() { doneA <- cl.VerifSyncOnce(0) }()
	select {
	case <-arrived:
	case <-doneA:
		r.Count("cli.overlap_a_did_not_reach_server", 1)
		return true
	case <-time.After(40 * time.Second):
		r.Inconc("overlap: round A neither reached the server nor ended within 40 s")
		park <- nil
		return false
	}
	releaseA := func(raw []byte) (bool, bool) {
		park <- raw
		select {
		case ret := <-doneA:
			return ret, true
		case <-time.After(40 * time.Second):
			r.Inconc("overlap: round A did not end within 40 s after its answer")
			return false, false
		}
	}
	// ---- round B
	var rawB []byte
	var classB string
	wantOrder := rng.Intn(10) < 7 // mostly a genuine order that keeps the contacted server
	for {
		var term bool
		rawB, classB, term = q.build(false)
		if term {
			continue
		}
		if wantOrder && classB == "mig_valid" {
			break
		}
		if !wantOrder && (classB == "list_new" || classB == "list_ban" || classB == "list_multi") {
			break
		}
	}
	mu.Lock()
	replyB = rawB
	mu.Unlock()
	q.steps = append(q.steps, "overlapB:"+classB)
	a0 := q.rogue.AcceptCount()
	run.Op("%s overlap step %d: round B class=%s", q.label, step, classB)
	retB := q.c.VerifSyncOnce(binary.LittleEndian.Uint32(rawB[34:38]))
	contactedB := q.rogue.AcceptCount() > a0
	r.Eval(1)
	if !q.judgeRound(rawB, classB, contactedB, retB) {
		releaseA(nil)
		return false
	}
	if q.gcaIndex() < 0 || q.gcaIndex()+1 >= len(q.gcas) {
		releaseA(nil)
		r.Inconc("client's GCA key is none of the harness's keys")
		return false
	}
	// ---- A's answer, built against the client as it is now
	Gcur := q.gcas[q.gcaIndex()]
	Gnext := q.gcas[q.gcaIndex()+1]
	migrated := Gcur.Pub != Gold.Pub
	rep := refenc.SyncReply{DevKey: q.dev.Pub, Offset: uint32(rng.Intn(1 << 20)), Unix: uint64(time.Now().Unix())}
	for i := range rep.Bitfield {
		rep.Bitfield[i] = 0xff
	}
	rogueRec := refenc.AuthServer{Pub: q.rogue.Key.Pub, Location: "127.0.0.1", TCP: q.rogue.Port, UDP: q.sink.Port}
	classA := ""
	switch w := rng.Intn(100); {
	case w < 35: // no signature at all: "back" to the GCA of the round's start
		rep.NewGCA, rep.NewID = Gold.Pub, 666+uint32(rng.Intn(1000))
		rep.Servers = []refenc.AuthServer{rogueRec.Signed(Gold.Priv)}
		classA = "overlapA:unsigned_order_to_start_gca"
	case w < 60: // a plain list signed by the GCA of the round's start
		rep.Servers = append(rep.Servers, q.newEntry(true).Signed(Gold.Priv))
		if e, ok := q.pick(false, false); ok && rng.Intn(2) == 0 {
			b := asRecord(e)
			b.Banned = true
			rep.Servers = append(rep.Servers, b.Signed(Gold.Priv))
		}
		classA = "overlapA:list_by_start_gca"
	case w < 85: // an order signed by the GCA of the round's start
		rep.NewGCA, rep.NewID = Gnext.Pub, uint32(rng.Intn(1<<31))
		rep.Servers = []refenc.AuthServer{q.newEntry(true).Signed(Gnext.Priv), rogueRec.Signed(Gnext.Priv)}
		m := refenc.Migration{Equipment: rep.DevKey, NewGCA: rep.NewGCA, NewID: rep.NewID, Servers: rep.Servers}
		rep.MigSig = m.Signed(Gold.Priv).Sig
		classA = "overlapA:order_by_start_gca"
	default: // a list signed by the GCA the client has now
		rep.Servers = append(rep.Servers, q.newEntry(true).Signed(Gcur.Priv))
		classA = "overlapA:list_by_current_gca"
	}
	rawA := refenc.BuildSyncReply(rep, q.rogue.Key.Priv)
	q.steps = append(q.steps, fmt.Sprintf("%s(migrated_meanwhile=%v)", classA, migrated))
	run.Op("%s overlap step %d: round A answered class=%s migrated=%v", q.label, step, classA, migrated)
	retA, ended := releaseA(rawA)
	if !ended {
		return false
	}
	r.Eval(1)
	r.Nontrivial(fmt.Sprintf("%s/overlap%d", q.label, step))
	r.Count("cli.overlap", 1)
	r.Count("cli.class."+classA, 1)
	if migrated {
		r.Count("cli.overlap_migrated_meanwhile", 1)
		// Is the state what the reply allows under the client's GCA? If not: is
		// it exactly what the reply would allow had the client still the GCA it
		// had when round A started? That is the one disagreement with a name.
		saved := q.cur
		q.probe = true
		underCurrent := q.judgeRound(rawA, classA, true, retA)
		q.judgeGCA = &Gold.Pub
		underStart := q.judgeRound(rawA, classA, true, retA)
		q.judgeGCA, q.probe = nil, false
		q.cur = saved
		if !underCurrent && underStart {
			obs := viewOf(q.c)
			rp := q.replay(map[string]interface{}{"class": classA, "reply": hx(rawA), "round_returned": retA})
			if obs.GCA != q.cur.GCA || obs.ID != q.cur.ID {
				r.Violationf(staleKeyOrder, rp, "a round that began under GCA %x was answered, after the client had migrated to GCA %x, with an order signed by the FORMER GCA; the client followed it (now GCA %x, id %d)", Gold.Pub[:4], Gcur.Pub[:4], obs.GCA[:4], obs.ID)
			} else {
				r.Violationf(staleKeyList, rp, "a round that began under GCA %x was answered, after the client had migrated to GCA %x, with a server list signed by the FORMER GCA; its records were merged into the client's list: %s", Gold.Pub[:4], Gcur.Pub[:4], q.cur.diff(obs))
			}
			q.cur = obs
			return true
		}
	}
	return q.judgeRound(rawA, classA, true, retA)
}

const nResend = 500

// storeReadings gives the client nResend stored readings (slots 0..nResend-1)
// so that a reply can make it re-send them (1 ms apart in test builds).
func (q *cseq) storeReadings() bool {
	for i := 0; i < nResend; i++ {
		if err := q.c.VerifSaveReading(uint32(i), uint32(5+i)); err != nil {
			q.r.Inconc("cannot store readings: " + err.Error())
			return false
		}
	}
	return true
}

// overlapResend: round A receives a genuine list and a bitfield that makes it
// re-send nResend reports. As soon as the first re-sent report is seen (A has
// merged its list and released the client's lock), round B runs to completion
// and adopts a ban, a new server or a genuine order. When BOTH rounds have
// returned, state and files must agree, also across a restart.
func (q *cseq) overlapResend(step int) bool {
	r, rng := q.r, q.rng
	G := q.gcas[q.gcaIndex()]
	repA := refenc.SyncReply{DevKey: q.dev.Pub, Offset: 0, Unix: uint64(time.Now().Unix())}
	for i := range repA.Bitfield {
		repA.Bitfield[i] = 0xff
	}
	for i := 0; i < nResend; i++ {
		repA.Bitfield[i/8] &^= 1 << (uint(i) % 8)
	}
	repA.Servers = append(repA.Servers, q.newEntry(true).Signed(G.Priv))
	if e, ok := q.pick(false, false); ok && rng.Intn(2) == 0 {
		b := asRecord(e)
		b.Banned = true
		repA.Servers = append(repA.Servers, b.Signed(G.Priv))
	}
	rawA := refenc.BuildSyncReply(repA, q.rogue.Key.Priv)
	var mu sync.Mutex
	first := true
	var replyB []byte
	q.rogue.SetReply(func(req []byte, n int) ([]byte, int) {
		mu.Lock()
		defer mu.Unlock()
		if first {
			first = false
			return rawA, -1
		}
		return replyB, -1
	})
	c0 := q.sink.Count()
	doneA := make(chan bool, 1)
	cl := q.c
	q.steps = append(q.steps, "resendA:list")
	run.Op("%s resend-overlap step %d: round A starts", q.label, step)
	go func() { doneA <- cl.VerifSyncOnce(nResend - 1) }()
	aDone, retA := false, false
	giveUp := time.Now().Add(40 * time.Second)
	for q.sink.Count() == c0 && !aDone {
		select {
		case retA = <-doneA:
			aDone = true
		default:
			if time.Now().After(giveUp) {
				r.Inconc("resend-overlap: round A neither re-sent a report nor ended within 40 s")
				<-doneA
				return false
			}
			time.Sleep(100 * time.Microsecond)
		}
	}
	r.Eval(1)
	if aDone { // no re-send was seen: an ordinary round
		r.Count("cli.resend_overlap_a_sent_nothing", 1)
		return q.judgeRound(rawA, "resendA:list", true, retA)
	}
	// A's merge is done and visible; its file work is A's business until A returns
	q.skipFiles = true
	okA := q.judgeRound(rawA, "resendA:list", true, true)
	q.skipFiles = false
	if !okA {
		<-doneA
		return false
	}
	// ---- round B while A is re-sending
	var rawB []byte
	var classB string
	wantOrder := rng.Intn(10) < 6
	for {
		var term bool
		rawB, classB, term = q.build(false)
		if term {
			continue
		}
		if wantOrder && classB == "mig_valid" {
			break
		}
		if !wantOrder && (classB == "list_new" || classB == "list_ban") {
			break
		}
	}
	mu.Lock()
	replyB = rawB
	mu.Unlock()
	q.steps = append(q.steps, "resendB:"+classB)
	before := q.cur
	a0 := q.rogue.AcceptCount()
	run.Op("%s resend-overlap step %d: round B class=%s", q.label, step, classB)
	retB := q.c.VerifSyncOnce(binary.LittleEndian.Uint32(rawB[34:38]))
	contactedB := q.rogue.AcceptCount() > a0
	stillResending := false
	select {
	case retA = <-doneA:
		aDone = true
	default:
		stillResending = true
	}
	r.Eval(1)
	q.skipFiles = true
	okB := q.judgeRound(rawB, classB, contactedB, retB)
	q.skipFiles = false
	if !aDone {
		select {
		case retA = <-doneA:
		case <-time.After(60 * time.Second):
			r.Inconc("resend-overlap: round A did not end within 60 s")
			return false
		}
	}
	if !okB {
		return false
	}
	r.Count("cli.resend_overlap", 1)
	r.Nontrivial(fmt.Sprintf("%s/resend%d", q.label, step))
	if stillResending && q.cur.diff(before) != "" {
		r.Count("cli.resend_overlap_b_changed_state_while_a_resent", 1)
	}
	// ---- both rounds have returned
	obs := viewOf(q.c)
	files, ferr := viewOfFiles(q.dir)
	rp := q.replay(map[string]interface{}{"replyA": hx(rawA), "replyB": hx(rawB), "classB": classB, "a_returned": retA, "b_returned": retB, "b_finished_while_a_resent": stillResending})
	if ferr != nil {
		r.Violationf("client-files-unreadable", rp, "after two overlapping rounds the client's files do not decode: %v", ferr)
		return false
	}
	if d := obs.diff(q.cur); d != "" {
		r.Violationf("client-state-changed-without-reply", rp, "the client's state changed after both rounds had been judged: %s", d)
		return false
	}
	if d := obs.diff(files); d != "" {
		r.Violationf("client-state-differs-from-files", rp, "after two overlapping rounds (the first still re-sending reports while the second adopted %s) both returned, state and files differ: %s", classB, d)
		return false
	}
	return q.restart("after resend-overlap")
}

// round delivers one reply in an ordinary round and judges it.
func (q *cseq) round(raw []byte, class string) bool {
	q.steps = append(q.steps, class)
	q.rogue.SetReply(func(req []byte, n int) ([]byte, int) { return raw, -1 })
	a0 := q.rogue.AcceptCount()
	run.Op("%s round class=%s", q.label, class)
	ret := q.c.VerifSyncOnce(binary.LittleEndian.Uint32(raw[34:38]))
	contacted := q.rogue.AcceptCount() > a0
	q.r.Eval(1)
	q.r.Count("cli.class."+class, 1)
	return q.judgeRound(raw, class, contacted, ret)
}

// ---------------------------------------------------------------- I/O fault at the list write

const faultMarker = "fault active"

// faultGrand runs in a grandchild process: a client, a few ordinary rounds,
// then a round whose reply changes the list while gcaServers.dat cannot be
// written (a directory sits at its path). The unchanged client panics there;
// that ends this process and the parent takes over. A client that survives is
// judged here: once the fault is gone (the disk holds what it held before),
// state and files must agree, also after a restart.
func faultGrand(b run.Batch, r *ev.Result, rng *rand.Rand) {
	dir := b.P("client")
	q, cleanup := setupClient(r, rng, dir, "fault "+b.P("label"))
	if q == nil {
		return
	}
	// While the fault is active nothing may run on the way out of a panic:
	// the client's own lock is held at that moment and Close() would wait for it.
	faultActive := false
	defer func() {
		if !faultActive {
			cleanup()
		}
	}()
	for i := 0; i < 1+rng.Intn(3); i++ {
		var raw []byte
		var class string
		for {
			var term bool
			raw, class, term = q.build(false)
			if !term && (class == "list_new" || class == "list_ban" || class == "list_dup_changed") {
				break
			}
		}
		if !q.round(raw, class) {
			return
		}
	}
	G := q.gcas[q.gcaIndex()]
	rep := refenc.SyncReply{DevKey: q.dev.Pub, Offset: uint32(rng.Intn(1 << 20)), Unix: uint64(time.Now().Unix())}
	for i := range rep.Bitfield {
		rep.Bitfield[i] = 0xff
	}
	rep.Servers = append(rep.Servers, q.newEntry(true).Signed(G.Priv))
	if e, ok := q.pick(false, false); ok {
		x := asRecord(e)
		x.Banned = true
		rep.Servers = append(rep.Servers, x.Signed(G.Priv))
	}
	raw := refenc.BuildSyncReply(rep, q.rogue.Key.Priv)
	path := filepath.Join(dir, client.GCAServerMapFile)
	if err := os.Rename(path, path+".saved"); err != nil {
		r.Inconc(err.Error())
		return
	}
	if err := os.Mkdir(path, 0755); err != nil {
		r.Inconc(err.Error())
		return
	}
	r.Count("fault.rounds", 1)
	r.Save(filepath.Join(b.Dir, "result.json")) // what was judged so far survives the expected death
	run.Op("%s: a directory sits at %s", faultMarker, path)
	q.steps = append(q.steps, "fault:list_changes")
	q.rogue.SetReply(func(req []byte, n int) ([]byte, int) { return raw, -1 })
	a0 := q.rogue.AcceptCount()
	faultActive = true
	ret := q.c.VerifSyncOnce(rep.Offset)
	faultActive = false
	contacted := q.rogue.AcceptCount() > a0
	// ---- the client lived through the failed write
	run.Op("fault over: client survived the round (returned %v)", ret)
	r.Count("fault.survived", 1)
	if err := os.Remove(path); err != nil {
		r.Inconc("cannot lift the fault: " + err.Error())
		return
	}
	if err := os.Rename(path+".saved", path); err != nil {
		r.Inconc("cannot lift the fault: " + err.Error())
		return
	}
	r.Eval(1)
	if !q.judgeRound(raw, "fault:list_changes", contacted, ret) {
		return
	}
	q.restart("after a round whose list write failed")
}

// ---------------------------------------------------------------- large lists

// largePlan: (size, order?) cells. Sizes sit around the places where an
// implementation might treat long lists differently.
func largePlan(tier string, seed int64) [][2]int {
	sizes := []int{63, 64, 65, 66, 67, 100, 101, 102, 103, 255, 256, 257, 300, 400}
	var cells [][2]int
	if tier == "thorough" {
		for _, n := range sizes {
			cells = append(cells, [2]int{n, 0}, [2]int{n, 1})
		}
		return cells
	}
	// quick: a fixed core plus two seed-dependent sizes
	cells = [][2]int{{65, 0}, {66, 1}, {67, 0}, {103, 1}, {257, 1}, {64, 0}, {300, 0}}
	a := sizes[int(seed%int64(len(sizes))+int64(len(sizes)))%len(sizes)]
	b := sizes[int((seed*7+3)%int64(len(sizes))+int64(len(sizes)))%len(sizes)]
	return append(cells, [2]int{a, 1}, [2]int{b, 0})
}

type viewJSON struct {
	GCA     []byte
	ID      uint32
	Servers []refenc.MapEntry
}

func toJSON(v cliView) viewJSON {
	o := viewJSON{GCA: v.GCA[:], ID: v.ID}
	for _, e := range v.Servers {
		o.Servers = append(o.Servers, e)
	}
	return o
}

func fromJSON(o viewJSON) cliView {
	v := cliView{ID: o.ID, Servers: map[[32]byte]refenc.MapEntry{}}
	copy(v.GCA[:], o.GCA)
	for _, e := range o.Servers {
		v.Servers[e.Pub] = e
	}
	return v
}

// largeGrand (grandchild process): one client, one large list or order of n
// entries. First the forged variants (one entry without the required GCA
// signature at the first, a middle and each of the last three positions): the
// whole reply has to be rejected. Then the genuine one, then a restart. What
// the client was before the genuine round and what the reply makes of it are
// written down first, so that the parent can judge a restart if this process
// does not survive the round.
func largeGrand(b run.Batch, r *ev.Result, rng *rand.Rand) {
	var n, asOrder int
	fmt.Sscan(b.P("n"), &n)
	fmt.Sscan(b.P("order"), &asOrder)
	dir := b.P("client")
	q, cleanup := setupClient(r, rng, dir, "large "+b.P("label"))
	if q == nil {
		return
	}
	armed := false
	defer func() {
		if !armed {
			cleanup()
		}
	}()
	G := q.gcas[q.gcaIndex()]
	Gn := q.gcas[q.gcaIndex()+1]
	auth := G
	if asOrder == 1 {
		auth = Gn
	}
	rogueRec := refenc.AuthServer{Pub: q.rogue.Key.Pub, Location: "127.0.0.1", TCP: q.rogue.Port, UDP: q.sink.Port}
	base := make([]refenc.AuthServer, 0, n)
	at := rng.Intn(n)
	for i := 0; i < n; i++ {
		if i == at {
			base = append(base, rogueRec.Signed(auth.Priv))
			continue
		}
		e := refenc.AuthServer{Pub: refenc.GenKey(rng).Pub, Banned: true, Location: fmt.Sprintf("%c:%d", 'a'+byte(rng.Intn(26)), rng.Intn(10)), HTTP: uint16(rng.Intn(65536)), TCP: uint16(rng.Intn(65536)), UDP: uint16(rng.Intn(65536))}
		base = append(base, e.Signed(auth.Priv))
	}
	newID := uint32(rng.Intn(1 << 31))
	build := func(list []refenc.AuthServer) []byte {
		rep := refenc.SyncReply{DevKey: q.dev.Pub, Offset: uint32(rng.Intn(1 << 20)), Unix: uint64(time.Now().Unix()), Servers: list}
		for i := range rep.Bitfield {
			rep.Bitfield[i] = 0xff
		}
		if asOrder == 1 {
			rep.NewGCA, rep.NewID = Gn.Pub, newID
			rep.MigSig = refenc.Migration{Equipment: rep.DevKey, NewGCA: rep.NewGCA, NewID: rep.NewID, Servers: list}.Signed(G.Priv).Sig
		}
		return refenc.BuildSyncReply(rep, q.rogue.Key.Priv)
	}
	kindName := []string{"list", "order"}[asOrder]
	// ---- forged variants
	positions := []int{0, n / 2, n - 3, n - 2, n - 1}
	for pi, pos := range positions {
		if pos == at { // keep the contacted server's own genuine entry
			pos = (pos + n - 4) % n
		}
		list := append([]refenc.AuthServer(nil), base...)
		f := list[pos]
		how := ""
		switch (pi + int(b.Seed&7)) % 5 {
		case 0:
			f = refenc.AuthServer{Pub: refenc.GenKey(rng).Pub, Location: "127.77.1.1", TCP: 1, UDP: 1}
			rng.Read(f.Sig[:])
			how = "new_server_garbage_sig"
		case 1:
			f = refenc.AuthServer{Pub: refenc.GenKey(rng).Pub, Banned: true, Location: "x:"}.Signed(q.foreign.Priv)
			how = "new_server_foreign_gca"
		case 2: // a ban of the contacted (honest) server that nobody signed
			f = rogueRec
			f.Banned = true
			how = "unsigned_ban_of_known_server"
		case 3: // signed by the wrong one of the two GCAs involved
			wrong := Gn
			if asOrder == 1 {
				wrong = G
			}
			f = refenc.AuthServer{Pub: refenc.GenKey(rng).Pub, Banned: rng.Intn(2) == 0, Location: "y:"}.Signed(wrong.Priv)
			how = "signed_by_the_other_gca"
		default: // genuine signature bytes over altered content
			f.TCP ^= 0x55
			f.Banned = !f.Banned
			how = "altered_content_old_signature"
		}
		list[pos] = f
		class := fmt.Sprintf("large_%s_forged", kindName)
		r.Count(fmt.Sprintf("large.forged.pos_from_end_%d", min(n-1-pos, 3)), 1)
		q.steps = append(q.steps, fmt.Sprintf("n=%d pos=%d %s", n, pos, how))
		if !q.round(build(list), class) {
			return
		}
	}
	// ---- the genuine one
	raw := build(base)
	post := q.cur
	if asOrder == 1 {
		post = cliView{GCA: Gn.Pub, ID: newID, Servers: map[[32]byte]refenc.MapEntry{}}
	} else {
		post.Servers = map[[32]byte]refenc.MapEntry{}
		for k, e := range q.cur.Servers {
			post.Servers[k] = e
		}
	}
	for _, e := range base {
		if _, had := post.Servers[e.Pub]; !had {
			post.Servers[e.Pub] = content(e)
		}
	}
	exp, _ := json.Marshal(map[string]viewJSON{"pre": toJSON(q.cur), "post": toJSON(post)})
	os.WriteFile(filepath.Join(b.Dir, "expect.json"), exp, 0644)
	r.Count("large.genuine_rounds", 1)
	r.Save(filepath.Join(b.Dir, "result.json"))
	class := fmt.Sprintf("large_%s_genuine", kindName)
	q.steps = append(q.steps, fmt.Sprintf("n=%d genuine", n))
	armed = true // a death in here must not run Close() on the way out (the client may hold its lock)
	ok := q.round(raw, class)
	armed = false
	if !ok {
		return
	}
	if q.cur.diff(post) == "" {
		r.Count("large.adopted_exactly", 1)
		r.Count(fmt.Sprintf("large.adopted_exactly.n_%d", n), 1)
	} else {
		r.Count("large.not_adopted_exactly", 1)
		r.Note("large %s of %d entries was not adopted exactly: %s", kindName, n, q.cur.diff(post))
	}
	r.Max("max.cli_servers", int64(len(q.cur.Servers)))
	q.restart("after a large " + kindName)
}

// largeBatch hosts the grandchildren. A grandchild that dies did so without
// any injected fault: that is a violation by itself. The client is then started
// again on the same directory: it must be either what it was before the round
// or exactly what the reply makes of it.
func largeBatch(b run.Batch, r *ev.Result, rng *rand.Rand) {
	self, err := os.Executable()
	if err != nil {
		r.Inconc(err.Error())
		return
	}
	cells := largePlan(b.Tier, b.Seed/1000003)
	var slice, of int
	fmt.Sscan(b.P("slice"), &slice)
	fmt.Sscan(b.P("of"), &of)
	for i, cell := range cells {
		if of > 0 && i%of != slice {
			continue
		}
		dir := filepath.Join(b.Dir, fmt.Sprintf("g%d", i))
		cdir := filepath.Join(dir, "client")
		os.MkdirAll(dir, 0755)
		label := fmt.Sprintf("batchseed=%d n=%d order=%d", b.Seed, cell[0], cell[1])
		gb := run.Batch{Index: i, Seed: rng.Int63(), Tier: b.Tier, Kind: "largegrand", N: 1, Dir: dir,
			Params: map[string]string{"client": cdir, "label": label, "n": fmt.Sprint(cell[0]), "order": fmt.Sprint(cell[1])}}
		raw, _ := json.Marshal(gb)
		bf := filepath.Join(dir, "batch.json")
		os.WriteFile(bf, raw, 0644)
		se, _ := os.Create(filepath.Join(dir, "stderr"))
		cmd := exec.Command(self, "child", bf)
		cmd.Dir = dir
		cmd.Stderr = se
		cmd.Env = append(os.Environ(), "GOTRACEBACK=all", "TMPDIR="+dir)
		run.Op("%s: start", label)
		if err := cmd.Start(); err != nil {
			se.Close()
			r.Inconc("cannot start grandchild: " + err.Error())
			return
		}
		done := make(chan error, 1)
		go func() { done <- cmd.Wait() }()
		timedOut := false
		select {
		case <-done:
		case <-time.After(80 * time.Second):
			timedOut = true
			cmd.Process.Kill()
			<-done
		}
		se.Close()
		stderr, _ := os.ReadFile(filepath.Join(dir, "stderr"))
		oplog, _ := os.ReadFile(filepath.Join(dir, "oplog"))
		if res, err := ev.LoadResult(filepath.Join(dir, "result.json")); err == nil {
			r.Eval(int(res.Evaluations))
			for k, v := range res.Counters {
				if strings.HasPrefix(k, "max.") {
					r.Max(k, v)
				} else {
					r.Count(k, v)
				}
			}
			for _, v := range res.Violations {
				r.Violation(v.Key, v.Desc, v.Replay)
			}
			for _, s := range res.Inconclusive {
				r.Inconc(s)
			}
		}
		r.Nontrivial(label)
		rp := map[string]interface{}{"batch": theBatch, "grandchild": label, "stderr_head": string(stderr[:min(len(stderr), 3000)]), "oplog_tail": lastLines(string(oplog), 12)}
		code := cmd.ProcessState.ExitCode()
		switch {
		case timedOut:
			r.Inconc(label + " hit the 80 s watchdog")
		case code == 0:
		default:
			line := run.CrashLine(string(stderr))
			if line == "" {
				r.Inconc(fmt.Sprintf("%s ended with exit %d and no crash line", label, code))
				break
			}
			r.Violationf("crash:"+run.Normalize(line), rp, "the process hosting the client died while it handled a reply of %d server entries (exit %d): %s", cell[0], code, line)
			var exp map[string]viewJSON
			if raw, err := os.ReadFile(filepath.Join(dir, "expect.json")); err != nil || json.Unmarshal(raw, &exp) != nil {
				break
			}
			c, err := drv.StartClient(cdir)
			r.Eval(1)
			if err != nil {
				r.Violationf("client-restart-fails", rp, "after that death the client does not start on its own files: %v", err)
				break
			}
			obs := viewOf(c)
			closeClient(c)
			pre, post := fromJSON(exp["pre"]), fromJSON(exp["post"])
			switch {
			case obs.diff(pre) == "":
				r.Count("large.after_death_unchanged", 1)
			case obs.diff(post) == "":
				r.Count("large.after_death_adopted", 1)
			default:
				r.Violationf("client-restart-after-death:neither-old-nor-new", rp, "after the death and a restart the client is neither what it was (%s) nor what the reply makes of it (%s): GCA %x id %d with %d servers", obs.diff(pre), obs.diff(post), obs.GCA[:4], obs.ID, len(obs.Servers))
			}
		}
		os.RemoveAll(dir)
		if r.NumViolations() > 6 {
			return
		}
	}
}

// faultBatch hosts the grandchildren and judges the ones that died.
func faultBatch(b run.Batch, r *ev.Result, rng *rand.Rand) {
	self, err := os.Executable()
	if err != nil {
		r.Inconc(err.Error())
		return
	}
	for i := 0; i < b.N; i++ {
		dir := filepath.Join(b.Dir, fmt.Sprintf("g%d", i))
		cdir := filepath.Join(dir, "client")
		os.MkdirAll(dir, 0755)
		label := fmt.Sprintf("batchseed=%d grandchild=%d", b.Seed, i)
		gb := run.Batch{Index: i, Seed: rng.Int63(), Tier: b.Tier, Kind: "faultgrand", N: 1, Dir: dir, Params: map[string]string{"client": cdir, "label": label}}
		raw, _ := json.Marshal(gb)
		bf := filepath.Join(dir, "batch.json")
		os.WriteFile(bf, raw, 0644)
		se, _ := os.Create(filepath.Join(dir, "stderr"))
		cmd := exec.Command(self, "child", bf)
		cmd.Dir = dir
		cmd.Stderr = se
		cmd.Env = append(os.Environ(), "GOTRACEBACK=all", "TMPDIR="+dir)
		run.Op("%s: start", label)
		if err := cmd.Start(); err != nil {
			se.Close()
			r.Inconc("cannot start grandchild: " + err.Error())
			return
		}
		done := make(chan error, 1)
		go func() { done <- cmd.Wait() }()
		timedOut := false
		select {
		case <-done:
		case <-time.After(80 * time.Second):
			timedOut = true
			cmd.Process.Kill()
			<-done
		}
		se.Close()
		stderr, _ := os.ReadFile(filepath.Join(dir, "stderr"))
		oplog, _ := os.ReadFile(filepath.Join(dir, "oplog"))
		if res, err := ev.LoadResult(filepath.Join(dir, "result.json")); err == nil {
			r.Eval(int(res.Evaluations))
			for k, v := range res.Counters {
				if strings.HasPrefix(k, "max.") {
					r.Max(k, v)
				} else {
					r.Count(k, v)
				}
			}
			for _, v := range res.Violations {
				r.Violation(v.Key, v.Desc, v.Replay)
			}
			for _, s := range res.Inconclusive {
				r.Inconc(s)
			}
		}
		r.Nontrivial(label)
		rp := map[string]interface{}{"batch": theBatch, "grandchild": label, "stderr_head": string(stderr[:min(len(stderr), 3000)]), "oplog_tail": lastLines(string(oplog), 12)}
		code := cmd.ProcessState.ExitCode()
		switch {
		case timedOut:
			r.Inconc(label + " hit the 80 s watchdog")
		case code == 0:
			// survived: judged inside the grandchild
		default:
			line := run.CrashLine(string(stderr))
			active := strings.Contains(string(oplog), faultMarker) && !strings.Contains(string(oplog), "fault over")
			if !(active && strings.HasPrefix(line, "panic:") && strings.Contains(line, client.GCAServerMapFile)) {
				if line == "" {
					r.Inconc(fmt.Sprintf("%s ended with exit %d and no crash line", label, code))
				} else {
					r.Violationf("crash:"+run.Normalize(line), rp, "the process hosting the client died (exit %d): %s", code, line)
				}
				break
			}
			// The client ended its process at the failed write. The disk is what
			// it was: lift the fault and let a fresh process (this one) start.
			r.Count("fault.died_at_write", 1)
			path := filepath.Join(cdir, client.GCAServerMapFile)
			os.Remove(path)
			if err := os.Rename(path+".saved", path); err != nil {
				r.Inconc("cannot lift the fault: " + err.Error())
				break
			}
			files, ferr := viewOfFiles(cdir)
			c, err := drv.StartClient(cdir)
			r.Eval(1)
			if err != nil {
				r.Violationf("client-restart-fails", rp, "after the client died at a failed write of its server list, a fresh process cannot start it: %v", err)
				break
			}
			obs := viewOf(c)
			closeClient(c)
			if ferr != nil {
				r.Violationf("client-files-unreadable", rp, "files do not decode after the failed write: %v", ferr)
			} else if d := obs.diff(files); d != "" {
				r.Violationf("client-restart-state-differs-from-files", rp, "after the failed write and a fresh start the state differs from the files: %s", d)
			} else {
				r.Count("fault.fresh_start_equals_files", 1)
			}
		}
		os.RemoveAll(dir)
		if r.NumViolations() > 6 {
			return
		}
	}
}

func lastLines(s string, n int) []string {
	l := strings.Split(strings.TrimRight(s, "\n"), "\n")
	if len(l) > n {
		l = l[len(l)-n:]
	}
	return l
}

func (q *cseq) restart(reason string) bool {
	r := q.r
	q.steps = append(q.steps, "restart")
	run.Op("%s restart (%s)", q.label, reason)
	closeClient(q.c)
	q.c = nil
	files, ferr := viewOfFiles(q.dir)
	c, err := drv.StartClient(q.dir)
	r.Eval(1)
	rp := q.replay(map[string]interface{}{"restart": reason})
	if err != nil {
		if q.zeroAdopted && len(q.cur.Servers) == 0 {
			r.Violationf(zeroKey, rp, "the client adopted a valid migration order with zero new servers, persisted an empty server map, and now refuses to start: %v", err)
		} else {
			r.Violationf("client-restart-fails", rp, "the client does not start on the files it persisted itself: %v", err)
		}
		return false
	}
	q.c = c
	if ferr != nil {
		r.Violationf("client-files-unreadable", rp, "files do not decode before restart: %v", ferr)
		return false
	}
	obs := viewOf(c)
	if d := obs.diff(files); d != "" {
		r.Violationf("client-restart-state-differs-from-files", rp, "after a restart the state differs from the files: %s", d)
		return false
	}
	if d := obs.diff(q.cur); d != "" {
		r.Violationf("client-restart-changes-identity-or-list", rp, "after a restart the client is not what it was before: %s", d)
		return false
	}
	r.Count("cli.restart_ok", 1)
	return true
}

// setupClient provisions a client directory whose only reachable server is a
// listener of the harness, starts the client and returns the sequence state.
func setupClient(r *ev.Result, rng *rand.Rand, dir, label string) (*cseq, func()) {
	rogue, err := drv.NewRogueSync(rng, nil)
	if err != nil {
		r.Inconc(err.Error())
		return nil, nil
	}
	sink, err := drv.NewUDPSink()
	if err != nil {
		rogue.Close()
		r.Inconc(err.Error())
		return nil, nil
	}
	q := &cseq{r: r, rng: rng, label: label, dir: dir, rogue: rogue, sink: sink, dev: refenc.GenKey(rng), other: refenc.GenKey(rng), foreign: refenc.GenKey(rng)}
	cleanup := func() {
		if q.c != nil {
			closeClient(q.c)
		}
		sink.Close()
		rogue.Close()
	}
	for i := 0; i < 24; i++ {
		q.gcas = append(q.gcas, refenc.GenKey(rng))
	}
	env := drv.ClientEnv{Dir: dir, Key: q.dev, GCA: q.gcas[0].Pub, ShortID: uint32(rng.Intn(1 << 31)), LastSync: drv.FreshSyncStamp()}
	env.Servers = []refenc.MapEntry{rogue.Entry(sink.Port, false)}
	for i := 0; i < rng.Intn(3); i++ {
		env.Servers = append(env.Servers, content(q.newEntry(i > 0 || rng.Intn(2) == 0)))
	}
	if err := env.Write(); err != nil {
		r.Inconc(err.Error())
		cleanup()
		return nil, nil
	}
	if q.c, err = drv.StartClient(dir); err != nil {
		r.Inconc("client start: " + err.Error())
		cleanup()
		return nil, nil
	}
	q.cur = viewOf(q.c)
	if files, err := viewOfFiles(dir); err != nil || q.cur.diff(files) != "" {
		r.Inconc("freshly provisioned client does not agree with its files")
		cleanup()
		return nil, nil
	}
	return q, cleanup
}

func clientSequence(r *ev.Result, rng *rand.Rand, dir, label string, zeroEnding bool) {
	q, cleanup := setupClient(r, rng, dir, label)
	if q == nil {
		return
	}
	defer cleanup()
	rogue := q.rogue
	start := time.Now()
	rounds := 10 + rng.Intn(8)
	overlapAt := -1
	if rng.Intn(10) < 8 {
		overlapAt = 1 + rng.Intn(rounds-2)
	}
	resendAt := -1
	if rng.Intn(10) < 6 {
		resendAt = 1 + rng.Intn(rounds-2)
		if resendAt == overlapAt {
			resendAt = -1
		} else if !q.storeReadings() {
			return
		}
	}
	for step := 0; step < rounds; step++ {
		if time.Since(start) > 40*time.Second {
			r.Note("sequence %s cut after %d rounds (40 s of wall clock)", label, step)
			break
		}
		if q.gcaIndex() < 0 || q.gcaIndex()+1 >= len(q.gcas) {
			r.Inconc("client's GCA key is none of the harness's keys")
			return
		}
		last := step == rounds-1
		if step == resendAt {
			if !q.overlapResend(step) {
				return
			}
			if e, ok := q.cur.Servers[rogue.Key.Pub]; !ok || e.Banned {
				break
			}
			if q.gcaIndex() < 0 || q.gcaIndex()+1 >= len(q.gcas) {
				r.Inconc("client's GCA key is none of the harness's keys")
				return
			}
		}
		if step == overlapAt {
			if !q.overlap(step) {
				return
			}
			if rng.Intn(3) == 0 {
				if !q.restart("after overlap") {
					return
				}
			}
			if e, ok := q.cur.Servers[rogue.Key.Pub]; !ok || e.Banned {
				break
			}
			if q.gcaIndex() < 0 || q.gcaIndex()+1 >= len(q.gcas) {
				r.Inconc("client's GCA key is none of the harness's keys")
				return
			}
		}
		raw, class, terminal := q.build(zeroEnding && last)
		q.steps = append(q.steps, class)
		rogue.SetReply(func(req []byte, n int) ([]byte, int) { return raw, -1 })
		a0 := rogue.AcceptCount()
		run.Op("%s round %d class=%s", label, step, class)
		latest := uint32(0)
		if len(raw) >= 38 {
			latest = binary.LittleEndian.Uint32(raw[34:38])
		}
		ret := q.c.VerifSyncOnce(latest)
		contacted := rogue.AcceptCount() > a0
		r.Eval(1)
		r.Count("cli.class."+class, 1)
		if class == "mig_valid_zero" && contacted {
			r.Count("cli.zero_order_delivered", 1)
			if v := viewOf(q.c); v.GCA == q.cur.GCA && v.ID == q.cur.ID {
				r.Count("cli.zero_order_not_followed", 1)
				if ret {
					r.Count("cli.zero_order_round_succeeded", 1)
				}
			}
		}
		if contacted {
			r.Count("cli.contacted", 1)
			r.Nontrivial(fmt.Sprintf("%s/%d", label, step))
		} else {
			r.Count("cli.not_contacted", 1)
		}
		if !q.judgeRound(raw, class, contacted, ret) {
			return
		}
		if rng.Intn(5) == 0 || terminal || last {
			if !q.restart("after " + class) {
				return
			}
		}
		if e, ok := q.cur.Servers[rogue.Key.Pub]; !ok || e.Banned || terminal {
			break
		}
	}
	r.Count("cli.sequences", 1)
	r.Max("max.cli_servers", int64(len(q.cur.Servers)))
	r.Sample(map[string]interface{}{"side": "client", "sequence": label, "steps": q.steps})
}
