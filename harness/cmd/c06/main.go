//go:build test

// C06 — Equipment changes need the GCA's signature; a conflict bans exactly one id.
//
// Monitor: a real server per sequence (child process, rotation and impact jobs
// gated). Sequences of authorizations travel through the real JSON endpoint,
// interleaved with reports and restarts. A reference model (authorized set, ban
// set, per-slot values, the append-only authorization file) written here decides
// after EVERY operation what the server state, the public surfaces and the file
// must be; the snapshot differ shows that every other device stayed untouched and
// the server's own CheckInvariants is called under recover.
package main

import (
	"bytes"
	"encoding/hex"
	"errors"
	"fmt"
	"io"
	"math"
	"math/big"
	"math/rand"
	"net"
	"net/url"
	"os"
	"os/signal"
	"path/filepath"
	"sort"
	"strings"
	"sync"
	"sync/atomic"
	"syscall"
	"time"
	"unsafe"

	"github.com/glowlabs-org/gca-backend/server"

	"verifharness/lib/drv"
	"verifharness/lib/ev"
	"verifharness/lib/refenc"
	"verifharness/lib/run"
)

const keyReuseFinding = "new-id-reuses-registered-key:pkindex-corrupted"

func main() {
	run.Main(run.Spec{
		ID:    "C06",
		Level: "exploration",
		Pkg:   "./cmd/c06",
		Rule: "operations: valid new authorization; unsigned/garbage/temp-key/server-key/device-key/foreign-GCA/wrong-prefix signatures; exact duplicate; same content re-signed; conflict differing in exactly one field " +
			"(PublicKey fresh / another registered device's / a banned device's, Latitude, Longitude, Capacity, Debt, Expiration, Initialization, ProtocolFee); submissions for banned ids; reports of authorized, banned and unknown devices; restarts; K (2..16) concurrent identical new authorizations and K concurrent different conflicts (aligned at the auth.ready hook, the authorization file temporarily a named pipe so that appends park until all requests are in flight); conflict / new / duplicate authorizations while equipment-authorizations.dat cannot be opened (renamed away for that one request). " +
			"Non-trivial = an authorization for an id that is already authorized or banned; distinct by (operation, field changed, key relation, signer, situation: target has reports on disk / server was restarted before / an archived week exists).",
		Assumptions: []string{
			"rotation and impact jobs are gated (the test-mode fake impact value is derived from latitude+longitude and would be infinite for extreme coordinates)",
			"latitude/longitude range over finite float64 values only (NaN and infinities cannot be written as JSON numbers)",
			"an authorization with identical content but a different valid GCA signature may be treated as a duplicate (200, nothing changes) or as a conflict (non-200, id banned, evidence appended): both accepted and counted",
			"a valid authorization for a new id that carries the key of a banned (no longer registered) device, and one that carries the key of another registered device, may be accepted or refused; in both cases every other device must stay untouched",
			"devices of every capacity report, including capacity 0 (every report over capacity), 2^64-1 and random 64-bit values above 2^64/135; devices created as 'reporting' have a capacity in [1000, 2^50) so that within-capacity reports are frequent",
			"fault model for the persist step: ENOENT on opening equipment-authorizations.dat (renamed away; no O_CREATE in the server) and ENOSPC on the write (the name is a symlink to /dev/full for the one request); a write that fails with EPERM while open and ftruncate succeed (sealed memfd behind a symlink, content copied back afterwards); EIO, short writes and close errors are not injected",
			"torn scenarios: RLIMIT_FSIZE (process wide, soft limit, for one request) cuts an authorization append short; a server that then refuses to start is counted (torn.refused_to_start), only a server that comes up is judged (bans established before the restart must hold)",
			"scale batch: bulk operations (hundreds of authorizations, thousands of injected reports) are checked by status only; the full model comparison runs at check points before and after the restarts",
			"records whose GCA signature ends in one (thorough: sometimes two) zero byte(s) are produced by varying ProtocolFee and are the last record of the file at a restart",
			"HTTP status classes asserted: 200 for a valid new authorization and for an exact duplicate; non-200 for bad signatures, conflicts and banned ids",
		},
		Plan:          plan,
		Child:         child,
		Post:          post,
		ClassifyDeath: classifyDeath,
	})
}

// classifyDeath: a child that hung after an HTTP handler panicked (net/http
// swallows the panic, a mutex taken by the handler stays locked for ever) is
// not a mere watchdog expiry: the panic line on stderr is the witness.
func classifyDeath(c *ev.Check, o *run.Outcome) bool {
	line := run.CrashLine(o.Stderr)
	if o.TimedOut && strings.Contains(line, "http: panic serving") {
		msg := line
		if i := strings.Index(msg, "panic serving"); i >= 0 {
			msg = msg[i:]
			if j := strings.Index(msg, ": "); j >= 0 {
				msg = msg[j+2:]
			}
		}
		c.Violation("handler-panic-then-hang:"+run.Normalize(msg), "an HTTP handler panicked and the server stopped answering (lock left held): "+line,
			map[string]interface{}{"batch": o.Batch, "oplog_tail": o.OplogTail})
		return true
	}
	return false
}

func planBase(tier string, seed int64) []run.Batch {
	var bs []run.Batch
	add := func(kind string, n, of int) {
		for i := 0; i < of; i++ {
			bs = append(bs, run.Batch{Kind: kind, Seed: seed*100019 + int64(len(bs)), N: n, TimeoutS: 300, // every server instance lives for one sequence (far below the 120 s test-mode limit)
				Params: map[string]string{"slice": fmt.Sprint(i), "of": fmt.Sprint(of)}})
		}
	}
	if tier == "thorough" {
		add("seq", 5, 480) // 2400 sequences of about 45 operations (small batches: the watchdog is per batch)
		add("keyreuse", 12, 4)
		add("conc", 10, 8)
		add("torn", 8, 6)
		add("scale", 1, 4)
		for i := 0; i < 3; i++ {
			bs = append(bs, run.Batch{Kind: "scale", Seed: seed*100019 + int64(len(bs)), N: 1, TimeoutS: 300, Params: map[string]string{"slice": fmt.Sprint(i), "of": "3", "what": "auths"}})
		}
		for i := 0; i < 2; i++ {
			bs = append(bs, run.Batch{Kind: "scale", Seed: seed*100019 + int64(len(bs)), N: 1, TimeoutS: 300, Params: map[string]string{"slice": fmt.Sprint(i), "of": "2", "what": "fleet"}})
		}
	} else {
		add("seq", 4, 16) // 64 sequences
		add("keyreuse", 4, 2)
		add("conc", 3, 3)
		add("torn", 4, 2)
		add("scale", 1, 1)
		bs = append(bs, run.Batch{Kind: "scale", Seed: seed*100019 + int64(len(bs)), N: 1, TimeoutS: 300, Params: map[string]string{"slice": "0", "of": "1", "what": "auths"}})
		bs = append(bs, run.Batch{Kind: "scale", Seed: seed*100019 + int64(len(bs)), N: 1, TimeoutS: 300, Params: map[string]string{"slice": "0", "of": "1", "what": "fleet"}})
	}
	return bs
}

func post(c *ev.Check, outs []*run.Outcome) {
	c.SetExtra("bans_observed", c.Counter("obs.ban"))
	c.SetExtra("other_device_sections_compared", c.Counter("other_device_sections_compared"))
	c.SetExtra("check_invariants_calls", c.Counter("check_invariants_calls"))
	c.SetExtra("resigned_same_content_outcomes", map[string]int64{"duplicate": c.Counter("resigned.treated_as_duplicate"), "conflict": c.Counter("resigned.treated_as_conflict")})
	c.SetExtra("new_id_with_banned_devices_key", map[string]int64{"accepted": c.Counter("bannedkey_new.accepted"), "refused": c.Counter("bannedkey_new.refused")})
	c.SetExtra("new_id_with_registered_key", map[string]int64{"accepted": c.Counter("keyreuse.accepted"), "refused": c.Counter("keyreuse.refused")})
	if os.Getenv("VERIF_REPLAY") != "" {
		return
	}
	for _, k := range []string{"obs.new_accepted", "obs.duplicate_ok", "obs.ban", "obs.badsig_refused", "obs.banned_id_refused", "obs.report_accepted", "obs.banned_report_ignored",
		"obs.restart", "obs.restart_with_banned_reports_on_disk", "obs.conflict_with_other_registered_key", "obs.float_roundtrip_special", "check_invariants_calls", "surface.equipment", "surface.sync", "surface.recent", "surface.stats",
		"surface.archived_week", "keyreuse.probes", "fault.conflict", "fault.new", "fault.duplicate", "obs.fault_then_restart", "obs.fault_retry_bans", "conc.identical_rounds", "conc.conflict_rounds", "conc.fifo_rounds", "fault.mode_enoent", "fault.mode_enospc", "fault.mode_sealed", "ground.new", "ground.conflict", "torn.partial_appends",
		"keyreuse.owner_id_class_0", "keyreuse.owner_id_class_1", "keyreuse.owner_id_class_2", "keyreuse.in_sequences"} {
		c.Require(k, 1)
	}
	for _, f := range fieldNames {
		c.Require("conflict."+f, 1)
	}
	// scale floors: more authorization records than fit a 64 KiB buffer (442), more report records than two per
	// live slot of the one surviving device (8064)
	c.Require("max.auth_records", 443)
	c.Require("max.report_records_one_survivor", 9000)
	c.Require("max.authorized_at_once", 1001)
	c.Require("scale.fleet_conflicts", 1)
	c.SetExtra("scale", map[string]int64{"max_auth_records": c.Counter("max.auth_records"), "max_report_records": c.Counter("max.report_records")})
	for _, s := range badSigners {
		c.Require("badsig."+s, 1)
	}
}

// ---------------------------------------------------------------- model

type slotM struct {
	reps  map[refenc.Report]struct{}
	over  bool
	first refenc.Report
}

func (s *slotM) value() uint64 {
	switch {
	case s == nil || len(s.reps) == 0:
		return 0
	case s.over || len(s.reps) >= 2:
		return 1
	default:
		return s.first.Power
	}
}

const (
	stAuthorized = iota
	stBanned
	stNever // id/key only ever appeared in refused submissions
)

type dev struct {
	id        uint32
	key       refenc.Key
	auth      refenc.Auth
	state     int
	slots     map[uint32]*slotM // absolute slot -> model (live window only)
	onDisk    bool              // at least one of its reports is in the report log
	reporting bool              // capacity inside the domain in which reports are judged
}

type world struct {
	*drv.World
	r          *ev.Result
	rng        *rand.Rand
	sparseNext bool // the next authorization is posted as a sparse JSON body
	devs       map[uint32]*dev
	ids        []uint32 // insertion order (deterministic iteration)
	file       []byte   // expected equipment-authorizations.dat
	offset     uint32
	now        uint32
	before     *server.VerifSnap
	history    []string          // ops so far (replay)
	archive    map[uint32][]byte // archived week -> body as first published
	opN        int
	poisoned   bool // invariants broken: the server cannot be closed any more
	stop       bool
	foreign    refenc.Key
	savedViol  int
	restarts   int
	forceID    *uint32 // next fresh id (probes with the extreme ids 0 and 2^32-1)
}

func overCapacity(power, capacity uint64) bool {
	if int64(power) < 0 {
		return false
	}
	l := new(big.Int).Mul(new(big.Int).SetUint64(power), big.NewInt(100))
	r := new(big.Int).Mul(new(big.Int).SetUint64(capacity), big.NewInt(135))
	return l.Cmp(r) > 0
}

// isTransport: failures below the protocol (connection reset, timeout under CPU
// starvation). They are retried; a persistent one is inconclusive, never a verdict.
func isTransport(err error) bool {
	var ue *url.Error
	var ne net.Error
	return errors.As(err, &ue) || errors.As(err, &ne) || errors.Is(err, io.ErrUnexpectedEOF)
}

// try runs a network operation; transport failures are retried. ok=false: give up (inconclusive).
// The returned error is a protocol-level one (undecodable body etc.).
func (w *world) try(what string, f func() error) (perr error, ok bool) {
	var err error
	for i := 0; i < 3; i++ {
		if err = f(); err == nil || !isTransport(err) {
			return err, true
		}
		w.r.Count("transport_retries", 1)
	}
	w.r.Inconc(what + ": transport failure (3 attempts): " + err.Error())
	w.stop = true
	return err, false
}

func (w *world) replay() interface{} {
	return map[string]interface{}{"history": append([]string(nil), w.history...)}
}

func (w *world) op(format string, a ...interface{}) {
	s := fmt.Sprintf(format, a...)
	w.history = append(w.history, s)
	w.opN++
	run.Op("%s", s)
}

// ctx names the situation an operation meets (part of the distinctness key).
func (w *world) ctx(d *dev) string {
	c := ""
	if d != nil && d.onDisk {
		c += "/device-has-reports"
	}
	if w.restarts > 0 {
		c += "/after-restart"
	}
	if len(w.archive) > 0 {
		c += "/archive-exists"
	}
	return c
}

func (w *world) sorted(state int) []*dev {
	var out []*dev
	for _, id := range w.ids {
		if d := w.devs[id]; d.state == state {
			out = append(out, d)
		}
	}
	return out
}

func (w *world) pick(state int) *dev {
	l := w.sorted(state)
	if len(l) == 0 {
		return nil
	}
	return l[w.rng.Intn(len(l))]
}

// keyOwner: the authorized device registered under a public key, if any.
func (w *world) keyOwner(pub [32]byte) *dev {
	for _, id := range w.ids {
		if d := w.devs[id]; d.state == stAuthorized && d.auth.Pub == pub {
			return d
		}
	}
	return nil
}

func (w *world) addDev(d *dev) {
	if _, ok := w.devs[d.id]; !ok {
		w.ids = append(w.ids, d.id)
	}
	w.devs[d.id] = d
}

// ---------------------------------------------------------------- generators

var fieldNames = []string{"PublicKey", "Latitude", "Longitude", "Capacity", "Debt", "Expiration", "Initialization", "ProtocolFee"}
var badSigners = []string{"unsigned", "garbage", "temp", "server", "device", "foreignGCA", "wrongprefix", "bitflip", "keepsig", "twin"}

func (w *world) float() float64 {
	rng := w.rng
	sign := func(f float64) float64 {
		if rng.Intn(2) == 0 {
			return -f
		}
		return f
	}
	switch rng.Intn(11) {
	case 0:
		return 0
	case 1:
		return math.Copysign(0, -1)
	case 2:
		return sign(math.SmallestNonzeroFloat64)
	case 3: // random subnormal
		return sign(math.Float64frombits(1 + uint64(rng.Int63())&0x000FFFFFFFFFFFFF))
	case 4:
		return sign(math.MaxFloat64)
	case 5, 6, 7: // random finite bit pattern
		b := rng.Uint64()
		if (b>>52)&0x7ff == 0x7ff {
			b &^= 1 << 52
		}
		return math.Float64frombits(b)
	case 8:
		return sign(math.Float64frombits(0x0010000000000000)) // smallest normal
	case 9:
		return float64(rng.Intn(180) - 90)
	default:
		return sign(rng.Float64() * 180)
	}
}

func special(f float64) bool {
	b := math.Float64bits(f)
	e := (b >> 52) & 0x7ff
	return f == 0 || e == 0 || e >= 0x7fe || e < 0x100
}

func (w *world) u64() uint64 {
	switch w.rng.Intn(5) {
	case 0:
		return 0
	case 1:
		return math.MaxUint64
	case 2:
		return w.rng.Uint64()
	default:
		return uint64(w.rng.Intn(1000000))
	}
}

func (w *world) u32() uint32 {
	switch w.rng.Intn(5) {
	case 0:
		return 0
	case 1:
		return math.MaxUint32
	default:
		return w.rng.Uint32()
	}
}

func (w *world) freshID() uint32 {
	if w.forceID != nil {
		id := *w.forceID
		w.forceID = nil
		if _, ok := w.devs[id]; !ok {
			return id
		}
	}
	for {
		var id uint32
		switch w.rng.Intn(8) {
		case 0:
			id = 0
		case 1:
			id = math.MaxUint32
		case 2:
			id = w.rng.Uint32()
		default:
			id = uint32(w.rng.Intn(100000))
		}
		if _, ok := w.devs[id]; !ok {
			return id
		}
	}
}

// mkAuth builds a GCA-signed authorization with fields from all value classes.
func (w *world) mkAuth(id uint32, pub [32]byte, reporting bool) refenc.Auth {
	a := refenc.Auth{ID: id, Pub: pub, Lat: w.float(), Long: w.float(), Capacity: w.u64(), Debt: w.u64(), Expiration: w.u32(), Initialization: w.u32(), Fee: w.u64()}
	if reporting {
		a.Capacity = 1000 + uint64(w.rng.Int63n(1<<50))
	}
	return a.Signed(w.GCA.Priv)
}

// ---------------------------------------------------------------- observation after every operation

type expect struct {
	kind  string // "none", "new", "ban", "report", "restart"
	id    uint32 // affected id (new / ban / report)
	what  string // description for messages
	class string // violation key class for an unexpected change
	last  bool   // last operation of a sequence: every surface in full
	// related: another device named by the operation (the owner of the key a conflict carried)
	related    uint32
	hasRelated bool
}

func (w *world) invariants() (ok bool, msg string) {
	w.r.Count("check_invariants_calls", 1)
	defer func() {
		if p := recover(); p != nil {
			ok, msg = false, fmt.Sprint(p)
		}
	}()
	w.S.CheckInvariants()
	return true, ""
}

func authBytesEq(a, b refenc.Auth) bool { return bytes.Equal(a.Bytes(), b.Bytes()) }

// observe judges the server after one operation against the model.
func (w *world) observe(x expect) {
	if w.S == nil || w.stop {
		return
	}
	r := w.r
	after := w.S.VerifSnapshot(true)
	rp := w.replay()
	// 1. which sections changed
	diff := drv.DiffSnap(w.before, after)
	allowed := map[string]bool{"recentlist": true}
	switch x.kind {
	case "new":
		for _, s := range []string{"equipment", "pkindex", fmt.Sprintf("reports[%d]", x.id), fmt.Sprintf("impact[%d]", x.id)} {
			allowed[s] = true
		}
	case "ban":
		for _, s := range []string{"equipment", "pkindex", "bans", fmt.Sprintf("reports[%d]", x.id), fmt.Sprintf("impact[%d]", x.id)} {
			allowed[s] = true
		}
	case "report":
		allowed[fmt.Sprintf("reports[%d]", x.id)] = true
	}
	for _, s := range diff.Sections {
		if !allowed[s] {
			key := "unexpected-change:" + x.class + ":" + sectionClass(s)
			r.Violationf(key, rp, "%s changed section %s (all changes: %s)", x.what, s, diff)
		}
	}
	r.Count("other_device_sections_compared", int64(4*len(w.ids)))
	// 2. state == model
	w.checkState(after, x)
	// 3. authorization file is append-only and holds exactly accepted-new and conflict evidence
	got := w.ReadFile("equipment-authorizations.dat")
	if !bytes.Equal(got, w.file) {
		key := "authorization-file-differs:" + x.class
		r.Violationf(key, rp, "%s: equipment-authorizations.dat has %d bytes, the reference has %d bytes (first difference at %d)", x.what, len(got), len(w.file), firstDiff(got, w.file))
		w.file = got // resynchronise so that one fault is reported once
	}
	// 4. the server's own consistency check
	if ok, msg := w.invariants(); !ok {
		r.Violationf("consistency-check-failed:"+x.class, rp, "%s: CheckInvariants panics: %s", x.what, msg)
		w.poisoned, w.stop = true, true
		w.checkpoint()
		return
	}
	// 5. public surfaces
	w.checkpoint() // the public surfaces may hang on a server whose state is broken: keep what was found
	w.surfaces(after, x)
	w.before = after
	r.Eval(1)
	w.checkpoint()
}

// checkpoint writes the result file as soon as new violations exist, so that a
// later hang or crash of the child does not lose them.
func (w *world) checkpoint() {
	if n := w.r.NumViolations(); n != w.savedViol {
		w.savedViol = n
		w.r.Save(filepath.Join(run.ScratchDir(), "result.json"))
	}
}

func firstDiff(a, b []byte) int {
	n := len(a)
	if len(b) < n {
		n = len(b)
	}
	for i := 0; i < n; i++ {
		if a[i] != b[i] {
			return i
		}
	}
	return n
}

func sectionClass(s string) string {
	if i := strings.IndexByte(s, '['); i >= 0 {
		return s[:i] + "[other]"
	}
	return s
}

// checkState compares a snapshot with the model, entry by entry.
func (w *world) checkState(s *server.VerifSnap, x expect) {
	r, rp := w.r, w.replay()
	nAuth := 0
	for _, id := range w.ids {
		d := w.devs[id]
		a, inEq := s.Equipment[id]
		idx, inIdx := s.ShortIDs[d.auth.Pub]
		_, hasRep := s.Reports[id]
		_, hasImp := s.Impact[id]
		switch d.state {
		case stAuthorized:
			nAuth++
			cls := "other-device-damaged"
			if x.id == id && (x.kind == "new" || x.kind == "report") {
				cls = "own-device-wrong"
			}
			if x.kind == "restart" {
				cls = "restart-lost-device"
			}
			switch {
			case !inEq:
				r.Violationf(cls+":authorization-missing", rp, "%s: authorized device %d is missing from the device table", x.what, id)
			case !authBytesEq(drv.RefAuth(a), d.auth):
				r.Violationf(cls+":authorization-altered", rp, "%s: stored authorization of device %d differs from the accepted one (stored %x, accepted %x)", x.what, id, drv.RefAuth(a).Bytes(), d.auth.Bytes())
			}
			if !inIdx || idx != id {
				r.Violationf(cls+":pubkey-lookup-broken", rp, "%s: public key index of authorized device %d: present=%v -> %d", x.what, id, inIdx, idx)
			}
			if !hasRep || !hasImp || s.Reports[id] == nil || s.Impact[id] == nil {
				r.Violationf(cls+":data-missing", rp, "%s: report/impact arrays of authorized device %d missing (reports=%v impact=%v)", x.what, id, hasRep, hasImp)
				continue
			}
			for i := 0; i < 4032; i++ {
				slot := s.Offset + uint32(i)
				want := d.slots[slot].value()
				rec := s.Reports[id][i]
				if rec.PowerOutput != want {
					r.Violationf(cls+":slot-value", rp, "%s: device %d slot %d holds %d, the model says %d", x.what, id, slot, rec.PowerOutput, want)
					break
				}
				if want > 1 && drv.RefReport(rec) != d.slots[slot].first {
					r.Violationf(cls+":slot-record", rp, "%s: device %d slot %d holds a record that differs from the accepted report", x.what, id, slot)
					break
				}
			}
		case stBanned:
			cls := "banned-id"
			if x.kind == "restart" {
				cls = "restart-revived-banned-id"
			}
			if !s.Bans[id] {
				r.Violationf(cls+":not-in-ban-set", rp, "%s: id %d must be banned but is not in the ban set", x.what, id)
			}
			if inEq || hasRep || hasImp {
				r.Violationf(cls+":still-present", rp, "%s: banned id %d still has authorization=%v reports=%v impact=%v", x.what, id, inEq, hasRep, hasImp)
			}
			if inIdx && idx == id {
				r.Violationf(cls+":still-in-pubkey-index", rp, "%s: the public key of banned id %d still maps to it", x.what, id)
			}
		case stNever:
			if inEq || s.Bans[id] || hasRep || hasImp || (inIdx && idx == id) {
				r.Violationf("refused-authorization-left-traces", rp, "%s: id %d was only ever named in refused submissions but the server knows it (authorized=%v banned=%v)", x.what, id, inEq, s.Bans[id])
			}
		}
	}
	nBan := len(w.sorted(stBanned))
	if len(s.Equipment) != nAuth || len(s.ShortIDs) != nAuth || len(s.Reports) != nAuth || len(s.Impact) != nAuth || len(s.Bans) != nBan {
		r.Violationf("state-has-extra-entries:"+x.class, rp, "%s: model has %d authorized / %d banned ids, server has equipment=%d pkindex=%d reports=%d impact=%d bans=%d", x.what, nAuth, nBan,
			len(s.Equipment), len(s.ShortIDs), len(s.Reports), len(s.Impact), len(s.Bans))
	}
	if s.Offset != w.offset {
		r.Violationf("window-offset-moved", rp, "%s: window offset is %d, expected %d", x.what, s.Offset, w.offset)
	}
}

// surfaces compares the public endpoints with the model.
func (w *world) surfaces(s *server.VerifSnap, x expect) {
	r, rp := w.r, w.replay()
	// GET /equipment
	var st int
	var eq map[uint32]refenc.Auth
	err, tok := w.try("GET /equipment", func() (e error) { st, eq, e = w.Equipment(); return })
	if !tok {
		return
	}
	if err != nil || st != 200 {
		r.Violationf("equipment-endpoint-unavailable", rp, "%s: GET /equipment status %d err %v", x.what, st, err)
	} else {
		n := 0
		for _, id := range w.ids {
			d := w.devs[id]
			got, ok := eq[id]
			if d.state == stAuthorized {
				n++
				if !ok {
					r.Violationf("equipment-endpoint:device-missing", rp, "%s: GET /equipment lacks authorized device %d", x.what, id)
				} else if !authBytesEq(got, d.auth) {
					r.Violationf("equipment-endpoint:fields-not-bit-exact", rp, "%s: GET /equipment returns %x for device %d, accepted was %x", x.what, got.Bytes(), id, d.auth.Bytes())
				} else if special(d.auth.Lat) || special(d.auth.Long) {
					r.Count("obs.float_roundtrip_special", 1)
				}
			} else if ok {
				r.Violationf("equipment-endpoint:lists-unauthorized-id", rp, "%s: GET /equipment lists id %d which is not authorized (state %d)", x.what, id, d.state)
			}
		}
		if len(eq) != n {
			r.Violationf("equipment-endpoint:extra-entries", rp, "%s: GET /equipment lists %d devices, the model has %d", x.what, len(eq), n)
		}
		r.Count("surface.equipment", 1)
	}
	// TCP sync and recent-reports for every device ever seen
	// A recent-reports answer costs the server two JSON encodings of 4032 records plus a signature, so the by-key
	// lookups of AUTHORIZED devices are planned per operation (the public-key index itself is compared exactly with
	// the model after every operation in checkState; these lookups cross-check it through the public surface):
	//   last op of a sequence: every device, content;   restart: every device (status), affected + 2 others content;
	//   ban: the owner of a carried key (content) and 3 random others (status, one of them content);
	//   new: the new device (content) and one random other (status);   report: the reporting device (content, 1/3 sample);
	//   anything else (operations that must change nothing): the named device (status, 1/4 sample) and a 1/12 sample (content).
	// Keys without an authorized owner are looked up after every operation (cheap: the server refuses at once).
	look := map[uint32]int{} // 1 = status, 2 = content
	var authIDs []uint32
	for _, d := range w.sorted(stAuthorized) {
		authIDs = append(authIDs, d.id)
	}
	random := func(n, mode int) {
		for i := 0; i < n && len(authIDs) > 0; i++ {
			id := authIDs[w.rng.Intn(len(authIDs))]
			if look[id] < mode {
				look[id] = mode
			}
		}
	}
	switch {
	case x.last:
		for _, id := range authIDs {
			look[id] = 2
		}
	case x.kind == "restart":
		for _, id := range authIDs {
			look[id] = 1
		}
		random(2, 2)
	case x.kind == "ban":
		random(3, 1)
		random(1, 2)
	case x.kind == "new":
		random(1, 1)
		look[x.id] = 2
	case x.kind == "report":
		if w.rng.Intn(3) == 0 { // (the slot arrays themselves are compared with the model after every operation)
			look[x.id] = 2
		}
	default:
		if w.rng.Intn(4) == 0 {
			look[x.id] = 1
		}
		if w.rng.Intn(12) == 0 {
			random(1, 2)
		}
	}
	if x.hasRelated {
		look[x.related] = 2
	}
	for _, id := range w.ids {
		d := w.devs[id]
		var rep refenc.SyncReply
		var refused bool
		var err error
		tok := true
		for try := 0; try < 3 && tok; try++ { // the sync handler works against a 2.5 s connection deadline: under CPU starvation a reply can be cut short; a reply that stays unparsable is a finding
			if err, tok = w.try("sync", func() (e error) { rep, refused, e = w.Sync(id); return }); err == nil {
				break
			}
			r.Count("sync_reply_retries", 1)
		}
		if !tok {
			return
		}
		switch {
		case err != nil:
			r.Violationf("sync-unparsable", rp, "%s: sync for id %d: %v", x.what, id, err)
		case d.state != stAuthorized && !refused:
			r.Violationf("sync-serves-unauthorized-id", rp, "%s: sync for id %d (state %d) was answered instead of refused", x.what, id, d.state)
		case d.state == stAuthorized && refused:
			r.Violationf("sync-refuses-authorized-device", rp, "%s: sync for authorized device %d was refused", x.what, id)
		case d.state == stAuthorized:
			if rep.DevKey != d.auth.Pub || rep.Offset != w.offset {
				r.Violationf("sync-header-wrong", rp, "%s: sync reply for device %d carries key %x offset %d", x.what, id, rep.DevKey[:4], rep.Offset)
			}
			for i := 0; i < 4032; i++ {
				if rep.Bit(i) != (d.slots[w.offset+uint32(i)].value() != 0) {
					r.Violationf("sync-bitfield-wrong", rp, "%s: sync bit %d of device %d is %v, model value %d", x.what, i, id, rep.Bit(i), d.slots[w.offset+uint32(i)].value())
					break
				}
			}
		}
		r.Count("surface.sync", 1)
		// lookup by public key
		owner := w.keyOwner(d.auth.Pub)
		content := owner != nil && look[owner.id] == 2
		if owner != nil && look[owner.id] == 0 {
			continue
		}
		if owner == nil || !content {
			var st int
			err, tok := w.try("recent-reports", func() (e error) {
				st, _, e = w.Get("/api/v1/recent-reports?publicKey=" + hex.EncodeToString(d.auth.Pub[:]))
				return
			})
			if !tok {
				return
			}
			if err != nil {
				r.Violationf("recent-reports-unavailable", rp, "%s: recent-reports for key of id %d: %v", x.what, id, err)
			} else if owner == nil && st == 200 {
				r.Violationf("recent-reports-serves-unauthorized-key", rp, "%s: recent-reports answers 200 for the key of id %d which is not authorized", x.what, id)
			} else if owner != nil && st != 200 {
				r.Violationf("other-device-damaged:not-findable-by-public-key", rp, "%s: recent-reports for the key of authorized device %d answers %d", x.what, owner.id, st)
			}
			r.Count("surface.recent_status", 1)
			continue
		}
		var st int
		var rr []refenc.Report
		err, tok = w.try("recent-reports", func() (e error) { st, rr, e = w.RecentReports(d.auth.Pub); return })
		if !tok {
			return
		}
		if err != nil || st != 200 || len(rr) != 4032 {
			r.Violationf("other-device-damaged:not-findable-by-public-key", rp, "%s: recent-reports for the key of authorized device %d: status %d err %v entries %d", x.what, owner.id, st, err, len(rr))
			continue
		}
		for i := 0; i < 4032; i++ {
			slot := w.offset + uint32(i)
			want := owner.slots[slot].value()
			if rr[i].Power != want || (want != 0 && rr[i].ID != owner.id) || (want > 1 && rr[i] != owner.slots[slot].first) {
				r.Violationf("recent-reports-wrong-content", rp, "%s: recent-reports entry %d for the key of device %d is %+v, model value %d", x.what, i, owner.id, rr[i], want)
				break
			}
		}
		r.Count("surface.recent", 1)
	}
	// live statistics: exactly the authorized devices, values per model
	for _, wk := range []uint32{w.offset, w.offset + 2016} {
		var st int
		var stats *refenc.Stats
		err, tok := w.try("all-device-stats", func() (e error) { st, stats, _, e = w.GetStats(fmt.Sprintf("timeslot_offset=%d", wk)); return })
		if !tok {
			return
		}
		if err != nil || st != 200 {
			r.Violationf("live-stats-unavailable", rp, "%s: stats for live week %d: status %d err %v", x.what, wk, st, err)
			continue
		}
		seen := map[uint32]int{}
		for _, ds := range stats.Devices {
			o := w.keyOwner(ds.Pub)
			if o == nil {
				r.Violationf("live-stats-list-unauthorized-key", rp, "%s: live stats of week %d contain key %x which belongs to no authorized device", x.what, wk, ds.Pub[:4])
				continue
			}
			seen[o.id]++
			for i := 0; i < 2016; i++ {
				if want := o.slots[wk+uint32(i)].value(); ds.Power[i] != want {
					r.Violationf("live-stats-wrong-value", rp, "%s: live stats slot %d of device %d is %d, model value %d", x.what, wk+uint32(i), o.id, ds.Power[i], want)
					break
				}
			}
		}
		for _, d := range w.sorted(stAuthorized) {
			if seen[d.id] != 1 {
				r.Violationf("live-stats-device-count", rp, "%s: authorized device %d appears %d times in the live stats of week %d", x.what, d.id, seen[d.id], wk)
			}
		}
		r.Count("surface.stats", 1)
	}
	// archived weeks stay as published
	var weeks []uint32
	for wk := range w.archive {
		weeks = append(weeks, wk)
	}
	sort.Slice(weeks, func(i, j int) bool { return weeks[i] < weeks[j] })
	for _, wk := range weeks {
		body := w.archive[wk]
		if !(x.last || x.kind == "ban" || x.kind == "restart" || w.rng.Intn(4) == 0) {
			continue
		}
		var st int
		var got []byte
		err, tok := w.try("all-device-stats (archived)", func() (e error) {
			st, got, e = w.Get(fmt.Sprintf("/api/v1/all-device-stats?timeslot_offset=%d", wk))
			return
		})
		if !tok {
			return
		}
		if err != nil || st != 200 || !bytes.Equal(got, body) {
			r.Violationf("archived-week-changed", rp, "%s: archived week %d is no longer served as first published (status %d err %v, %d vs %d bytes)", x.what, wk, st, err, len(got), len(body))
		}
		r.Count("surface.archived_week", 1)
	}
}

// ---------------------------------------------------------------- operations

func (w *world) authorize(a refenc.Auth) (int, bool) {
	// not retried: a retransmitted authorization is a different history
	post := w.Authorize
	if w.sparseNext || w.rng.Intn(5) == 0 {
		// an equivalent body: members with zero values absent, another member order
		post = w.AuthorizeSparse
		w.r.Count("requests.sparse_json_body", 1)
	}
	w.sparseNext = false
	st, _, err := post(a)
	if err != nil {
		w.r.Inconc("authorize-equipment request failed: " + err.Error())
		w.stop = true
		return 0, false
	}
	return st, true
}

// opNew: a valid authorization for a fresh id and key.
func (w *world) opNew(reporting bool) *dev {
	k := refenc.GenKey(w.rng)
	id := w.freshID()
	a := w.mkAuth(id, k.Pub, reporting)
	w.op("authorize new id=%d auth=%x", id, a.Bytes())
	st, ok := w.authorize(a)
	if !ok {
		return nil
	}
	d := &dev{id: id, key: k, auth: a, state: stAuthorized, slots: map[uint32]*slotM{}, reporting: reporting}
	x := expect{kind: "new", id: id, what: fmt.Sprintf("valid new authorization for id %d", id), class: "new"}
	if st != 200 {
		w.r.Violationf("valid-authorization-refused", w.replay(), "a GCA-signed authorization for the unused id %d with a fresh key was answered with status %d", id, st)
		d.state = stNever
		x.kind = "none"
	} else {
		w.file = append(w.file, a.Bytes()...)
		w.r.Count("obs.new_accepted", 1)
	}
	w.addDev(d)
	w.observe(x)
	return d
}

// opNewWithBannedKey: a fresh id that carries the key of a banned device.
func (w *world) opNewWithBannedKey() {
	b := w.pick(stBanned)
	if b == nil || w.keyOwner(b.auth.Pub) != nil {
		return
	}
	id := w.freshID()
	a := w.mkAuth(id, b.auth.Pub, true)
	w.op("authorize new id=%d with the key of banned id %d auth=%x", id, b.id, a.Bytes())
	st, ok := w.authorize(a)
	if !ok {
		return
	}
	d := &dev{id: id, key: b.key, auth: a, state: stAuthorized, slots: map[uint32]*slotM{}, reporting: true}
	x := expect{kind: "new", id: id, what: fmt.Sprintf("new id %d carrying the key of banned id %d (status %d)", id, b.id, st), class: "new-with-banned-key"}
	if st == 200 {
		w.file = append(w.file, a.Bytes()...)
		w.r.Count("bannedkey_new.accepted", 1)
	} else {
		d.state = stNever
		d.key = refenc.Key{}
		x.kind = "none"
		w.r.Count("bannedkey_new.refused", 1)
		// a refused id must not be looked up under the banned device's key: keep a distinct placeholder key
		d.auth.Pub = refenc.GenKey(w.rng).Pub
	}
	w.addDev(d)
	w.r.Nontrivial("new/bannedkey")
	w.observe(x)
}

// opNewWithRegisteredKey: a fresh id that carries the key of a REGISTERED device (preferably the one with ShortID 0
// or 2^32-1). Accepting or refusing is the server's choice; the owner of the key must stay untouched.
func (w *world) opNewWithRegisteredKey() {
	var owner *dev
	for _, c := range w.sorted(stAuthorized) {
		if owner == nil || c.id == 0 || (c.id == math.MaxUint32 && owner.id != 0) || (owner.id != 0 && owner.id != math.MaxUint32 && w.rng.Intn(3) == 0) {
			owner = c
		}
	}
	if owner == nil {
		return
	}
	id := w.freshID()
	a := w.mkAuth(id, owner.auth.Pub, true)
	w.op("authorize NEW id=%d with the key of registered device %d auth=%x", id, owner.id, a.Bytes())
	st, ok := w.authorize(a)
	if !ok {
		return
	}
	w.r.Count("keyreuse.in_sequences", 1)
	w.r.Nontrivial(fmt.Sprintf("new/registered-key/owner-class-%v-%v", owner.id == 0, owner.id == math.MaxUint32))
	snap := w.S.VerifSnapshot(false)
	idx, inIdx := snap.ShortIDs[owner.auth.Pub]
	invOK, invMsg := w.invariants()
	if !inIdx || idx != owner.id || !invOK {
		w.r.Violationf(keyReuseFinding, w.replay(), "a valid authorization for the NEW id %d that carries the public key of the registered device %d (status %d) damages device %d: its key now maps to %d (present=%v); CheckInvariants ok=%v %s",
			id, owner.id, st, owner.id, idx, inIdx, invOK, invMsg)
		w.checkpoint()
		// bring the server back into a closable state: ban both ids
		for _, t := range []refenc.Auth{a, owner.auth} {
			t.Debt++
			w.authorize(t.Signed(w.GCA.Priv))
		}
		if ok, _ := w.invariants(); !ok {
			w.poisoned = true
		}
		w.stop = true
		return
	}
	if st == 200 {
		// accepted without damage: two authorized devices share a key, the by-key surfaces are ambiguous from here on
		w.r.Count("keyreuse.accepted", 1)
		w.r.Note("a new id with an already registered key was accepted without damaging the first device; sequence ended")
		w.stop = true
		return
	}
	w.r.Count("keyreuse.refused", 1)
	d := &dev{id: id, state: stNever, slots: map[uint32]*slotM{}, auth: a}
	d.auth.Pub = refenc.GenKey(w.rng).Pub
	w.addDev(d)
	w.observe(expect{kind: "none", id: id, what: fmt.Sprintf("new id %d with the key of registered device %d (status %d)", id, owner.id, st), class: "new-with-registered-key"})
}

// badSign produces an authorization that is NOT validly signed by the registered GCA.
func (w *world) badSign(a refenc.Auth, signer string) refenc.Auth {
	switch signer {
	case "unsigned":
		a.Sig = [64]byte{}
	case "garbage":
		w.rng.Read(a.Sig[:])
	case "temp":
		a = a.Signed(w.Temp.Priv)
	case "server":
		a = a.Signed(w.Key.Priv)
	case "device":
		k := refenc.GenKey(w.rng)
		if d := w.pick(stAuthorized); d != nil {
			k = d.key
		}
		a = a.Signed(k.Priv)
	case "foreignGCA":
		a = a.Signed(w.foreign.Priv)
	case "wrongprefix": // the GCA's signature over the same fields without / with another structure's prefix
		sb := a.SigningBytes()[len("EquipmentAuthorization"):]
		if w.rng.Intn(2) == 0 {
			sb = append([]byte("EquipmentReport"), sb...)
		}
		a.Sig = refenc.Sign(w.GCA.Priv, sb)
	case "twin": // the algebraic twin (r, N-s) of the GCA's genuine signature over exactly this content: anybody can
		// compute it from a published authorization; it is not a signature the GCA made
		if !refenc.Verify(w.GCA.Pub, a.SigningBytes(), a.Sig) {
			a = a.Signed(w.GCA.Priv)
		}
		a.Sig = refenc.TwinSig(a.Sig)
	case "keepsig": // whatever signature the authorization carries already (the registered one's, over other content)
	case "bitflip": // valid signature, one content bit flipped afterwards
		a = a.Signed(w.GCA.Priv)
		switch w.rng.Intn(4) {
		case 0:
			a.Capacity ^= 1 << uint(w.rng.Intn(64))
		case 1:
			a.Lat = math.Float64frombits(math.Float64bits(a.Lat) ^ 1<<uint(w.rng.Intn(52)))
		case 2:
			a.Debt ^= 1 << uint(w.rng.Intn(64))
		default:
			a.Sig[w.rng.Intn(64)] ^= 1 << uint(w.rng.Intn(8))
		}
	}
	return a
}

// opBadSig: submissions that lack the registered GCA's signature change nothing.
func (w *world) opBadSig(signer string) {
	var a refenc.Auth
	target := "fresh"
	pickTarget := w.rng.Intn(4)
	if signer == "keepsig" {
		pickTarget = 1 // an altered copy of a registered authorization (same id, same key) that keeps the ORIGINAL signature
	}
	switch pickTarget {
	case 0:
		if d := w.pick(stAuthorized); d != nil { // same content as the registered one
			a, target = d.auth, "registered-same-content"
		}
	case 1:
		if d := w.pick(stAuthorized); d != nil { // would be a conflict if it were valid
			a, target = d.auth, "registered-other-content"
			switch w.rng.Intn(5) { // same id, same key, one other field changed
			case 0:
				a.Debt++
			case 1:
				a.Capacity ^= 1 << uint(w.rng.Intn(64))
			case 2:
				a.Lat = math.Float64frombits(math.Float64bits(a.Lat) ^ 1<<uint(w.rng.Intn(52)))
			case 3:
				a.Expiration ^= 1 << uint(w.rng.Intn(32))
			default:
				a.Fee ^= 1 << uint(w.rng.Intn(64))
			}
		}
	case 2:
		if d := w.pick(stBanned); d != nil {
			a, target = d.auth, "banned"
		}
	}
	if target == "fresh" {
		id := w.freshID()
		k := refenc.GenKey(w.rng)
		a = w.mkAuth(id, k.Pub, false)
		w.addDev(&dev{id: id, key: k, auth: a, state: stNever, slots: map[uint32]*slotM{}})
	}
	a = w.badSign(a, signer)
	if refenc.Verify(w.GCA.Pub, a.SigningBytes(), a.Sig) {
		return // (cannot happen) never submit something valid under this label
	}
	w.op("authorize bad-signature signer=%s target=%s id=%d auth=%x", signer, target, a.ID, a.Bytes())
	st, ok := w.authorize(a)
	if !ok {
		return
	}
	if st == 200 {
		w.r.Violationf("bad-signature-accepted:"+signer, w.replay(), "an authorization for id %d (%s) that is not signed by the registered GCA (signer: %s) was answered with 200", a.ID, target, signer)
	} else {
		w.r.Count("obs.badsig_refused", 1)
	}
	w.r.Count("badsig."+signer, 1)
	if target != "fresh" {
		w.r.Nontrivial("badsig/" + signer + "/" + target + w.ctx(nil))
	}
	w.observe(expect{kind: "none", id: a.ID, what: fmt.Sprintf("authorization for id %d (%s) with signature kind %s (status %d)", a.ID, target, signer, st), class: "bad-signature"})
}

// opDup: resubmitting an identical authorization changes nothing.
func (w *world) opDup() {
	d := w.pick(stAuthorized)
	if d == nil {
		return
	}
	w.op("authorize exact-duplicate id=%d", d.id)
	st, ok := w.authorize(d.auth)
	if !ok {
		return
	}
	if st != 200 {
		w.r.Violationf("exact-duplicate-refused", w.replay(), "resubmitting the identical authorization of device %d was answered with %d", d.id, st)
	} else {
		w.r.Count("obs.duplicate_ok", 1)
	}
	w.r.Nontrivial("duplicate/exact" + w.ctx(d))
	w.observe(expect{kind: "none", id: d.id, what: fmt.Sprintf("exact duplicate of the authorization of device %d (status %d)", d.id, st), class: "duplicate"})
}

// ban applies a ban to the model.
func (w *world) ban(d *dev, evidence refenc.Auth) {
	d.state = stBanned
	d.slots = map[uint32]*slotM{}
	w.file = append(w.file, evidence.Bytes()...)
	w.r.Count("obs.ban", 1)
}

// opResigned: same content under a second valid GCA signature: duplicate or conflict.
func (w *world) opResigned() {
	d := w.pick(stAuthorized)
	if d == nil {
		return
	}
	a := d.auth
	for a.Sig == d.auth.Sig {
		a.Sig = refenc.SignRand(w.GCA.Priv, a.SigningBytes())
	}
	w.op("authorize same-content-resigned id=%d auth=%x", d.id, a.Bytes())
	st, ok := w.authorize(a)
	if !ok {
		return
	}
	w.r.Nontrivial("resigned" + w.ctx(d))
	if st == 200 {
		w.r.Count("resigned.treated_as_duplicate", 1)
		w.observe(expect{kind: "none", id: d.id, what: fmt.Sprintf("re-signed identical content for device %d, answered 200 (duplicate)", d.id), class: "resigned-as-duplicate"})
		return
	}
	w.r.Count("resigned.treated_as_conflict", 1)
	// non-200: either refused without effect or treated as a conflict; the state tells which
	snap := w.S.VerifSnapshot(false)
	if _, still := snap.Equipment[d.id]; still && !snap.Bans[d.id] {
		w.observe(expect{kind: "none", id: d.id, what: fmt.Sprintf("re-signed identical content for device %d, answered %d without effect", d.id, st), class: "resigned-refused"})
		return
	}
	w.ban(d, a)
	w.observe(expect{kind: "ban", id: d.id, what: fmt.Sprintf("re-signed identical content for device %d, answered %d (conflict)", d.id, st), class: "resigned-as-conflict"})
}

// opConflict: a second, different, validly signed authorization for a used id.
func (w *world) opConflict(field string, keyRel string, d *dev) {
	if d == nil {
		d = w.pick(stAuthorized)
	}
	if d == nil || d.state != stAuthorized {
		return
	}
	a := d.auth
	switch field {
	case "PublicKey":
		switch keyRel {
		case "other-registered":
			var others []*dev
			for _, o := range w.sorted(stAuthorized) {
				if o.id != d.id {
					others = append(others, o)
				}
			}
			if len(others) == 0 {
				return
			}
			a.Pub = others[w.rng.Intn(len(others))].auth.Pub
		case "banned":
			b := w.pick(stBanned)
			if b == nil {
				return
			}
			a.Pub = b.auth.Pub
		case "gca":
			a.Pub = w.GCA.Pub
		default:
			keyRel = "fresh"
			a.Pub = refenc.GenKey(w.rng).Pub
		}
	case "Latitude":
		keyRel = "same"
		if a.Lat == 0 && w.rng.Intn(2) == 0 {
			a.Lat = -a.Lat // +0 <-> -0: equal as numbers, different as authorizations
			if math.Float64bits(a.Lat) == math.Float64bits(d.auth.Lat) {
				a.Lat = math.Copysign(0, -1)
			}
		} else {
			for math.Float64bits(a.Lat) == math.Float64bits(d.auth.Lat) {
				a.Lat = w.float()
			}
		}
	case "Longitude":
		keyRel = "same"
		if w.rng.Intn(2) == 0 { // neighbouring bit pattern
			a.Long = math.Float64frombits(math.Float64bits(a.Long) ^ 1)
			if math.IsNaN(a.Long) || math.IsInf(a.Long, 0) {
				a.Long = 1
			}
		}
		for math.Float64bits(a.Long) == math.Float64bits(d.auth.Long) {
			a.Long = w.float()
		}
	case "Capacity":
		keyRel = "same"
		a.Capacity += 1 + uint64(w.rng.Intn(3))*uint64(w.rng.Int63())
	case "Debt":
		keyRel = "same"
		a.Debt ^= 1 << uint(w.rng.Intn(64))
		if d.auth.Debt != 0 && w.rng.Intn(3) == 0 { // the debt is forgiven: the member is zero and, in a sparse body, absent
			a.Debt, w.sparseNext = 0, true
		}
	case "Expiration":
		keyRel = "same"
		a.Expiration ^= 1 << uint(w.rng.Intn(32))
		if d.auth.Expiration != 0 && w.rng.Intn(3) == 0 {
			a.Expiration, w.sparseNext = 0, true
		}
	case "Initialization":
		keyRel = "same"
		a.Initialization ^= 1 << uint(w.rng.Intn(32))
		if d.auth.Initialization != 0 && w.rng.Intn(3) == 0 {
			a.Initialization, w.sparseNext = 0, true
		}
	case "ProtocolFee":
		keyRel = "same"
		a.Fee ^= 1 << uint(w.rng.Intn(64))
		if d.auth.Fee != 0 && w.rng.Intn(3) == 0 {
			a.Fee, w.sparseNext = 0, true
		}
	}
	if w.sparseNext {
		w.r.Count("conflict.field_zeroed_and_absent_from_body", 1)
	}
	if bytes.Equal(a.Bytes()[:84], d.auth.Bytes()[:84]) {
		// e.g. the "banned device's key" is the key this device itself was registered with (new id with a banned
		// device's key): nothing would differ, this would be an exact duplicate. Use a fresh key instead.
		field, keyRel = "PublicKey", "fresh"
		a.Pub = refenc.GenKey(w.rng).Pub
	}
	a = a.Signed(w.GCA.Priv)
	hadReports := d.onDisk
	ctxBefore := w.ctx(d)
	w.op("authorize conflict id=%d field=%s key=%s auth=%x", d.id, field, keyRel, a.Bytes())
	st, ok := w.authorize(a)
	if !ok {
		return
	}
	if st == 200 {
		w.r.Violationf("conflict-answered-200", w.replay(), "a second, different authorization for device %d (field %s, key %s) was answered with 200", d.id, field, keyRel)
	}
	w.ban(d, a)
	w.r.Count("conflict."+field, 1)
	if keyRel == "other-registered" {
		w.r.Count("obs.conflict_with_other_registered_key", 1)
	}
	if hadReports {
		w.r.Count("obs.ban_of_device_with_reports", 1)
	}
	w.r.Nontrivial("conflict/" + field + "/" + keyRel + ctxBefore)
	x := expect{kind: "ban", id: d.id, what: fmt.Sprintf("conflicting authorization for device %d (field %s, key %s, status %d)", d.id, field, keyRel, st), class: "conflict"}
	if o := w.keyOwner(a.Pub); o != nil {
		x.related, x.hasRelated = o.id, true // the registered device whose key the conflict carried
	}
	w.observe(x)
}

// opBannedSubmit: any validly signed authorization for a banned id is refused.
func (w *world) opBannedSubmit() {
	d := w.pick(stBanned)
	if d == nil {
		return
	}
	a := d.auth
	variant := "original"
	switch w.rng.Intn(4) {
	case 1:
		variant = "new-content"
		a.Debt += 7
		a = a.Signed(w.GCA.Priv)
	case 2:
		variant = "fresh-key"
		a = w.mkAuth(d.id, refenc.GenKey(w.rng).Pub, false)
	case 3:
		variant = "other-registered-key"
		if o := w.pick(stAuthorized); o != nil {
			a = w.mkAuth(d.id, o.auth.Pub, false)
		}
	}
	w.op("authorize banned-id id=%d variant=%s auth=%x", d.id, variant, a.Bytes())
	st, ok := w.authorize(a)
	if !ok {
		return
	}
	if st == 200 {
		w.r.Violationf("banned-id-authorization-answered-200", w.replay(), "a validly signed authorization (%s) for the banned id %d was answered with 200", variant, d.id)
	} else {
		w.r.Count("obs.banned_id_refused", 1)
	}
	w.r.Nontrivial("banned-submit/" + variant + w.ctx(d))
	w.observe(expect{kind: "none", id: d.id, what: fmt.Sprintf("authorization (%s) for banned id %d (status %d)", variant, d.id, st), class: "banned-id-submission"})
}

// opFault: an authorization arrives while equipment-authorizations.dat cannot be
// opened (the file is renamed away for the duration of this single request; the
// server opens it without O_CREATE, so the append fails). Whatever the server
// answers, it must not end up with an effect that exists in memory only: the
// state right after the request must be the state a restart rebuilds from disk.
// Accepted: nothing changed, or changed consistently in memory and on disk.
func (w *world) opFault(kind string, d *dev, restartAfter, retry bool) {
	// two ways to fail the persist step: the file cannot be opened (renamed away: ENOENT), or it opens but the
	// write fails (the name is a symlink to /dev/full for this one request: ENOSPC)
	// or open and ftruncate succeed but the write fails (the name is a symlink to a memfd that holds the file's
	// bytes and is sealed against growing; its content is copied back afterwards: disk = what the server did to "its file")
	mode := "enoent"
	switch w.rng.Intn(3) {
	case 0:
		if _, err := os.Stat("/dev/full"); err == nil {
			mode = "enospc"
		}
	case 1:
		mode = "sealed"
	}
	memfd := -1
	var a refenc.Auth
	switch kind {
	case "conflict", "duplicate":
		if d == nil {
			d = w.pick(stAuthorized)
		}
		if d == nil || d.state != stAuthorized {
			return
		}
		a = d.auth
		if kind == "conflict" {
			a.Debt ^= 1 << uint(w.rng.Intn(64))
			a = a.Signed(w.GCA.Priv)
		}
	case "new":
		k := refenc.GenKey(w.rng)
		a = w.mkAuth(w.freshID(), k.Pub, true)
		d = &dev{id: a.ID, key: k, auth: a, state: stNever, slots: map[uint32]*slotM{}, reporting: true}
	}
	path := filepath.Join(w.Dir, "equipment-authorizations.dat")
	away := path + ".away"
	w.op("FAULT authorization file unavailable (%s) during: authorize %s id=%d auth=%x", mode, kind, a.ID, a.Bytes())
	if err := os.Rename(path, away); err != nil {
		w.r.Inconc("fault injection: " + err.Error())
		w.stop = true
		return
	}
	if mode == "sealed" {
		old, _ := os.ReadFile(away)
		fd, err := sealedMemfd(old)
		if err != nil {
			mode = "enoent" // no memfd support here: plain ENOENT instead
		} else {
			memfd = fd
			if err := os.Symlink(fmt.Sprintf("/proc/self/fd/%d", fd), path); err != nil {
				syscall.Close(fd)
				os.Rename(away, path)
				w.r.Inconc("fault injection: " + err.Error())
				w.stop = true
				return
			}
		}
	}
	if mode == "enospc" {
		if err := os.Symlink("/dev/full", path); err != nil {
			os.Rename(away, path)
			w.r.Inconc("fault injection: " + err.Error())
			w.stop = true
			return
		}
	}
	st, ok := w.authorize(a)
	if fi, err := os.Lstat(path); err == nil && fi.Mode()&os.ModeSymlink != 0 {
		os.Remove(path)
	}
	if memfd >= 0 {
		// what the server left in "its file" becomes the real file
		content, err := readAllFd(memfd)
		syscall.Close(memfd)
		if err != nil {
			w.r.Inconc("fault injection (memfd read): " + err.Error())
			w.stop = true
			os.Rename(away, path)
			return
		}
		os.WriteFile(away, content, 0644)
	}
	// put the file back; should the server have created a new one, keep its records behind the old ones
	if created, err := os.ReadFile(path); err == nil {
		old, _ := os.ReadFile(away)
		os.WriteFile(path, append(old, created...), 0644)
		os.Remove(away)
		w.r.Count("fault.file_recreated_by_server", 1)
	} else if err := os.Rename(away, path); err != nil {
		w.r.Inconc("fault injection (restore): " + err.Error())
		w.stop = true
		return
	}
	if !ok {
		return
	}
	w.r.Count("fault."+kind, 1)
	w.r.Count("fault.mode_"+mode, 1)
	w.r.Nontrivial("fault/" + kind + "/" + mode + w.ctx(d))
	what := fmt.Sprintf("%s authorization for id %d while the authorization file was unavailable (%s, status %d)", kind, a.ID, mode, st)
	if kind == "duplicate" && st != 200 {
		w.r.Violationf("exact-duplicate-refused", w.replay(), "%s: an exact duplicate needs no write and must be answered 200", what)
	}
	snap1 := w.S.VerifSnapshot(true)
	var changed []string
	for _, sec := range drv.DiffSnap(w.before, snap1).Sections {
		if sec != "recentlist" {
			changed = append(changed, sec)
		}
	}
	fileNow := w.ReadFile("equipment-authorizations.dat")
	fileChanged := !bytes.Equal(fileNow, w.file)
	if len(fileNow) < len(w.file) || !bytes.Equal(fileNow[:len(w.file)], w.file) {
		w.r.Violationf("fault:authorization-file-shrank", w.replay(), "%s: equipment-authorizations.dat had %d bytes before the request and has %d afterwards (first difference at %d): records that were accepted earlier are gone from disk",
			what, len(w.file), len(fileNow), firstDiff(fileNow, w.file))
		w.stop = true
		w.checkpoint()
		return
	}
	switch {
	case len(changed) == 0 && !fileChanged:
		// refused (or duplicate) without any effect
		if kind == "new" {
			w.addDev(d)
		}
		if st == 200 && kind != "duplicate" {
			w.r.Violationf("fault:answered-200-without-effect", w.replay(), "%s: answered 200 although nothing was stored", what)
		}
		w.r.Count("fault.no_effect", 1)
		w.observe(expect{kind: "none", id: a.ID, what: what, class: "fault-" + kind})
	case fileChanged:
		// the server managed to persist: the ordinary rules apply
		w.r.Count("fault.persisted_anyway", 1)
		switch kind {
		case "conflict":
			w.ban(d, a)
			w.observe(expect{kind: "ban", id: d.id, what: what, class: "fault-" + kind})
		case "new":
			d.state = stAuthorized
			w.file = append(w.file, a.Bytes()...)
			w.addDev(d)
			w.observe(expect{kind: "new", id: d.id, what: what, class: "fault-" + kind})
		default:
			w.observe(expect{kind: "none", id: a.ID, what: what, class: "fault-" + kind})
		}
		return
	default:
		// effect in memory, nothing on disk: show what a restart makes of it
		w.op("restart (to compare the in-memory effect of the faulted request with what the disk holds)")
		if err := w.Restart(); err != nil {
			w.r.Violationf("fault:restart-failed-after-faulted-request", w.replay(), "%s changed %v in memory; the server then does not start again: %v", what, changed, err)
			w.stop = true
			w.checkpoint()
			return
		}
		snap2 := w.S.VerifSnapshot(true)
		var lost []string
		for _, sec := range drv.DiffSnap(snap1, snap2).Sections {
			if sec != "recentlist" {
				lost = append(lost, sec)
			}
		}
		_, wasAuth := snap1.Equipment[a.ID]
		_, isAuth := snap2.Equipment[a.ID]
		key := "fault:in-memory-effect-not-durable:" + kind
		w.r.Violationf(key, w.replay(), "%s changed %v in memory while the file kept its %d bytes; after a restart %v differ again (id %d: banned %v -> %v, authorized %v -> %v): the effect of the request was not permanent",
			what, changed, len(fileNow), lost, a.ID, snap1.Bans[a.ID], snap2.Bans[a.ID], wasAuth, isAuth)
		w.stop = true
		w.checkpoint()
		return
	}
	if w.stop {
		return
	}
	if restartAfter {
		w.opRestart()
		w.r.Count("obs.fault_then_restart", 1)
	}
	if retry && kind == "conflict" && !w.stop && d.state == stAuthorized {
		// with the file back the same authorization bans durably
		w.op("authorize conflict (retry after the fault) id=%d auth=%x", d.id, a.Bytes())
		st2, ok := w.authorize(a)
		if !ok {
			return
		}
		if st2 == 200 {
			w.r.Violationf("conflict-answered-200", w.replay(), "the retried conflicting authorization for device %d was answered with 200", d.id)
		}
		w.ban(d, a)
		w.r.Count("obs.fault_retry_bans", 1)
		w.observe(expect{kind: "ban", id: d.id, what: fmt.Sprintf("retry of the conflicting authorization for device %d after the fault (status %d)", d.id, st2), class: "conflict"})
	}
}

// sealedMemfd returns a memfd that holds content and cannot grow (writes beyond its size fail, truncation works).
func sealedMemfd(content []byte) (int, error) {
	const sysMemfdCreate, mfdAllowSealing, fAddSeals, fSealGrow = 319, 2, 1033, 4
	name := []byte("authfile\x00")
	fd, _, e := syscall.Syscall(sysMemfdCreate, uintptr(unsafe.Pointer(&name[0])), mfdAllowSealing, 0)
	if e != 0 {
		return -1, e
	}
	for off := 0; off < len(content); {
		n, err := syscall.Pwrite(int(fd), content[off:], int64(off))
		if err != nil {
			syscall.Close(int(fd))
			return -1, err
		}
		off += n
	}
	if _, _, e := syscall.Syscall(syscall.SYS_FCNTL, fd, fAddSeals, fSealGrow); e != 0 {
		syscall.Close(int(fd))
		return -1, e
	}
	return int(fd), nil
}

func readAllFd(fd int) ([]byte, error) {
	var out []byte
	buf := make([]byte, 1<<16)
	for {
		n, err := syscall.Pread(fd, buf, int64(len(out)))
		if err != nil {
			return nil, err
		}
		if n == 0 {
			return out, nil
		}
		out = append(out, buf[:n]...)
	}
}

// grind varies ProtocolFee until the deterministic GCA signature ends in the wanted number of zero bytes (a
// record ends in its signature: such a record at the end of the file must not be mistaken for a torn append).
func (w *world) grind(a refenc.Auth, zeros int) refenc.Auth {
	for {
		a.Fee++
		a = a.Signed(w.GCA.Priv)
		ok := true
		for i := 0; i < zeros; i++ {
			if a.Sig[63-i] != 0 {
				ok = false
			}
		}
		if ok {
			return a
		}
	}
}

// opGround: a new authorization (or conflict evidence) whose last byte(s) are zero is the LAST record of the file when the server restarts.
func (w *world) opGround(kind string, zeros int) {
	switch kind {
	case "new":
		k := refenc.GenKey(w.rng)
		id := w.freshID()
		a := w.mkAuth(id, k.Pub, true)
		if zeros >= 2 {
			w.restartAround(func() { a = w.grind(a, zeros) })
			if w.stop {
				return
			}
		} else {
			a = w.grind(a, zeros)
		}
		w.op("authorize new (signature ends in %d zero byte(s)) id=%d auth=%x", zeros, id, a.Bytes())
		st, ok := w.authorize(a)
		if !ok {
			return
		}
		d := &dev{id: id, key: k, auth: a, state: stAuthorized, slots: map[uint32]*slotM{}, reporting: true}
		x := expect{kind: "new", id: id, what: fmt.Sprintf("valid new authorization for id %d whose signature ends in %d zero byte(s)", id, zeros), class: "new"}
		if st != 200 {
			w.r.Violationf("valid-authorization-refused", w.replay(), "a GCA-signed authorization for the unused id %d (signature ending in zero bytes) was answered with status %d", id, st)
			d.state, x.kind = stNever, "none"
		} else {
			w.file = append(w.file, a.Bytes()...)
			w.r.Count("obs.new_accepted", 1)
		}
		w.addDev(d)
		w.observe(x)
	case "conflict":
		d := w.pick(stAuthorized)
		if d == nil {
			return
		}
		a := d.auth
		a.Debt ^= 1 << uint(w.rng.Intn(64))
		if zeros >= 2 {
			w.restartAround(func() { a = w.grind(a, zeros) })
			if w.stop {
				return
			}
		} else {
			a = w.grind(a, zeros)
		}
		w.op("authorize conflict (evidence signature ends in %d zero byte(s)) id=%d auth=%x", zeros, d.id, a.Bytes())
		st, ok := w.authorize(a)
		if !ok {
			return
		}
		if st == 200 {
			w.r.Violationf("conflict-answered-200", w.replay(), "a second, different authorization for device %d was answered with 200", d.id)
		}
		w.ban(d, a)
		w.observe(expect{kind: "ban", id: d.id, what: fmt.Sprintf("conflicting authorization for device %d whose signature ends in %d zero byte(s) (status %d)", d.id, zeros, st), class: "conflict"})
	}
	if w.stop {
		return
	}
	w.r.Count("ground."+kind, 1)
	w.r.Nontrivial(fmt.Sprintf("ground/%s/%d%s", kind, zeros, w.ctx(nil)))
	w.opRestart() // the record is the last one in the file right now
}

// usableSlot returns a slot inside both windows.
func (w *world) usableSlot() uint32 {
	lo := int64(w.now) - 432
	if lo < int64(w.offset) {
		lo = int64(w.offset)
	}
	hi := int64(w.now) + 432
	if hi > int64(w.offset)+4031 {
		hi = int64(w.offset) + 4031
	}
	return uint32(lo + w.rng.Int63n(hi-lo+1))
}

// opReport: a report of an authorized device follows the slot rule; one of a
// banned or never authorized device changes nothing.
func (w *world) opReport(state int) {
	var cands []*dev
	for _, c := range w.sorted(state) {
		// devices of every capacity report (0, 2^64-1 and random 64-bit capacities included: the
		// model compares power*100 with capacity*135 in big integers, as fix 79f2a8c does in 128 bits)
		if (c.key != refenc.Key{}) {
			cands = append(cands, c)
		}
	}
	if len(cands) == 0 {
		return
	}
	d := cands[w.rng.Intn(len(cands))]
	slot := w.usableSlot()
	lim := new(big.Int).Div(new(big.Int).Mul(new(big.Int).SetUint64(d.auth.Capacity), big.NewInt(135)), big.NewInt(100))
	power := uint64(2 + w.rng.Intn(900))
	if state == stAuthorized && lim.IsUint64() && lim.Uint64() > 1000 && w.rng.Intn(6) == 0 {
		power = lim.Uint64() + uint64(w.rng.Intn(2)) // limit / limit+1
	}
	rep := d.auth2report(slot, power)
	if state == stAuthorized && len(d.slots) > 0 && w.rng.Intn(4) == 0 { // replay or equivocation on a used slot
		var used []uint32
		for s := range d.slots {
			used = append(used, s)
		}
		sort.Slice(used, func(i, j int) bool { return used[i] < used[j] })
		rep = d.slots[used[w.rng.Intn(len(used))]].first
		if w.rng.Intn(2) == 0 {
			rep = d.auth2report(rep.Slot, rep.Power+1)
		}
		// the slot may have left the acceptance window in the meantime
		if dn := int64(rep.Slot) - int64(w.now); dn < -432 || dn > 432 || rep.Slot < w.offset {
			rep = d.auth2report(slot, power)
		}
	}
	// acceptable reports of authorized devices may travel through the real socket (barrier that ignores foreign datagrams)
	socket := state == stAuthorized && w.rng.Intn(5) == 0
	logBefore := w.ReadFile("equipment-reports.dat")
	w.op("report id=%d state=%d slot=%d power=%d socket=%v bytes=%x", d.id, state, rep.Slot, rep.Power, socket, rep.Bytes())
	if socket {
		u, err := w.NewStrictUDP()
		if err != nil {
			w.r.Inconc("socket delivery: " + err.Error())
			w.stop = true
			return
		}
		ok := u.Send(rep.Bytes())
		w.r.Count("foreign_datagrams_seen", int64(u.Foreign))
		u.Close()
		if !ok {
			w.r.Inconc("socket delivery: the datagram was not processed within 10s (lost on loopback?)")
			w.stop = true
			return
		}
		w.r.Count("via_socket", 1)
	} else {
		w.Inject(rep.Bytes())
	}
	if state != stAuthorized {
		if !bytes.Equal(logBefore, w.ReadFile("equipment-reports.dat")) {
			w.r.Violationf("report-of-unauthorized-id-logged", w.replay(), "a report signed by id %d (state %d) was appended to the report log", d.id, state)
		}
		if state == stBanned {
			w.r.Count("obs.banned_report_ignored", 1)
		}
		w.observe(expect{kind: "none", id: d.id, what: fmt.Sprintf("report of id %d which is not authorized (state %d)", d.id, state), class: "report-of-unauthorized-id"})
		return
	}
	m := d.slots[rep.Slot]
	if m == nil {
		m = &slotM{reps: map[refenc.Report]struct{}{}, first: rep}
		d.slots[rep.Slot] = m
	}
	m.reps[rep] = struct{}{}
	if overCapacity(rep.Power, d.auth.Capacity) {
		m.over = true
	}
	d.onDisk = true
	w.r.Count("obs.report_accepted", 1)
	w.observe(expect{kind: "report", id: d.id, what: fmt.Sprintf("report of device %d slot %d power %d", d.id, rep.Slot, rep.Power), class: "report"})
}

func (d *dev) auth2report(slot uint32, power uint64) refenc.Report {
	return refenc.Report{ID: d.id, Slot: slot, Power: power}.Signed(d.key.Priv)
}

// opRestart: the restarted server equals the model.
func (w *world) opRestart() { w.restartAround(nil) }

// restartAround stops the server, runs pause (long harness-side computations must not eat into the 120 s
// life of a test-mode instance) and starts it again.
func (w *world) restartAround(pause func()) {
	bannedOnDisk := false
	for _, d := range w.sorted(stBanned) {
		if d.onDisk {
			bannedOnDisk = true
		}
	}
	w.op("restart (banned devices with reports on disk: %v)", bannedOnDisk)
	err := w.Close()
	if err == nil {
		if pause != nil {
			pause()
		}
		err = w.Start()
	}
	if err != nil {
		key := "restart-failed"
		if bannedOnDisk {
			key = "restart-failed:banned-device-has-reports-on-disk"
		}
		w.r.Violationf(key, w.replay(), "the server does not start again: %v", err)
		w.stop = true
		return
	}
	w.r.Count("obs.restart", 1)
	w.restarts++
	if bannedOnDisk {
		w.r.Count("obs.restart_with_banned_reports_on_disk", 1)
	}
	w.observe(expect{kind: "restart", what: "restart", class: "restart"})
}

// rotate archives the first week (real rotation), so that archived weeks exist.
func (w *world) rotate() {
	w.op("rotate now=%d", w.offset+3201)
	drv.SetClock(w.offset + 3201)
	if n := drv.StepRotation(); n != 1 {
		w.r.Inconc(fmt.Sprintf("rotation did not happen when expected: %d", n))
		w.stop = true
		return
	}
	wk := w.offset
	w.offset += 2016
	w.now = w.offset + 1185
	for _, id := range w.ids {
		d := w.devs[id]
		for s := range d.slots {
			if s < w.offset {
				delete(d.slots, s)
			}
		}
	}
	st, body, err := w.Get(fmt.Sprintf("/api/v1/all-device-stats?timeslot_offset=%d", wk))
	if err != nil || st != 200 {
		w.r.Inconc(fmt.Sprintf("archived week %d not served: %d %v", wk, st, err))
		w.stop = true
		return
	}
	w.archive[wk] = body
	w.before = w.S.VerifSnapshot(true)
	w.observe(expect{kind: "none", what: "rotation (archive created)", class: "rotation"})
}

// ---------------------------------------------------------------- sequences

func newWorld(b run.Batch, r *ev.Result, rng *rand.Rand, n int) *world {
	drv.SetClock(0)
	dw, err := drv.NewWorld(filepath.Join(b.Dir, fmt.Sprintf("srv%d", n)), rng)
	if err != nil {
		r.Inconc("cannot start world: " + err.Error())
		return nil
	}
	w := &world{World: dw, r: r, rng: rng, devs: map[uint32]*dev{}, archive: map[uint32][]byte{}, foreign: refenc.GenKey(rng)}
	w.now = uint32(rng.Intn(433))
	drv.SetClock(w.now)
	w.before = w.S.VerifSnapshot(true)
	return w
}

// finish closes the world (unless its invariants are broken: Close would panic).
func (w *world) finish() {
	if w.poisoned {
		w.r.Note("a server with broken invariants was abandoned without Close (Close panics in CheckInvariants)")
		return
	}
	if w.S != nil {
		if ok, msg := w.invariants(); !ok {
			w.r.Violationf("consistency-check-failed:at-close", w.replay(), "CheckInvariants panics before Close: %s", msg)
			w.poisoned = true
			return
		}
		w.Close()
	}
	os.RemoveAll(w.Dir)
}

// zerosFor: one trailing zero byte (about 256 signatures); in the thorough tier every 100th case asks for two (about 65 000).
func zerosFor(tier string, n int) int {
	if tier == "thorough" && n%100 == 7 {
		return 2
	}
	return 1
}

func runSequence(b run.Batch, r *ev.Result, rng *rand.Rand, n int) bool {
	w := newWorld(b, r, rng, n)
	if w == nil {
		return false
	}
	defer w.finish()
	// two reporting devices to start with; in half of the sequences the first one has an extreme ShortID
	switch n % 4 {
	case 0:
		id := uint32(0)
		w.forceID = &id
	case 1:
		id := uint32(math.MaxUint32)
		w.forceID = &id
	}
	for i := 0; i < 2 && !w.stop; i++ {
		w.opNew(true)
	}
	if !w.stop {
		w.opNewWithRegisteredKey()
	}
	if n%3 == 0 && !w.stop { // archive a week that contains reports of a device that may be banned later
		for i := 0; i < 4 && !w.stop; i++ {
			w.opReport(stAuthorized)
		}
		if !w.stop {
			w.rotate()
		}
	}
	nOps := 10 + rng.Intn(12)
	for i := 0; i < nOps && !w.stop; i++ {
		switch p := rng.Intn(100); {
		case p < 12:
			if len(w.sorted(stAuthorized)) < 7 {
				w.opNew(rng.Intn(3) != 0)
				if !w.stop && rng.Intn(4) == 0 {
					w.opRestart() // the new device's record is the last one in the file
				}
			}
		case p < 14:
			w.opNewWithBannedKey()
		case p < 15:
			w.opNewWithRegisteredKey()
		case p < 30:
			w.opBadSig(badSigners[rng.Intn(len(badSigners))])
		case p < 38:
			w.opDup()
		case p < 42:
			w.opResigned()
		case p < 58:
			f := fieldNames[rng.Intn(len(fieldNames))]
			if len(w.sorted(stAuthorized)) >= 2 || rng.Intn(3) == 0 {
				w.opConflict(f, []string{"fresh", "other-registered", "other-registered", "banned", "gca"}[rng.Intn(5)], nil)
				if !w.stop && rng.Intn(4) == 0 {
					w.opRestart() // the evidence record is the last one in the file
				}
			}
		case p < 68:
			w.opBannedSubmit()
		case p < 74:
			w.opFault([]string{"conflict", "conflict", "new", "duplicate"}[rng.Intn(4)], nil, rng.Intn(2) == 0, rng.Intn(2) == 0)
		case p < 84:
			w.opReport(stAuthorized)
		case p < 90:
			w.opReport(stBanned)
		case p < 93:
			w.opReport(stNever)
		default:
			w.opRestart()
		}
		if r.NumViolations() > 12 {
			w.stop = true
		}
	}
	// epilogue: every sequence ends with (1) a ban of a device that has reports on disk by a conflict that carries
	// ANOTHER registered device's key, (2) a ban by a conflict in one other field, refused follow-ups, a restart,
	// and refused follow-ups again
	withReports := func() *dev {
		var d *dev
		for _, c := range w.sorted(stAuthorized) {
			if c.onDisk {
				d = c
			}
		}
		return d
	}
	for len(w.sorted(stAuthorized)) < 4 && !w.stop {
		w.opNew(true)
	}
	for i := 0; i < 6 && !w.stop && withReports() == nil; i++ {
		w.opReport(stAuthorized)
	}
	steps := []func(){
		func() { w.opReport(stAuthorized) },
		func() { w.opConflict("PublicKey", "other-registered", withReports()) },
		func() { w.opReport(stBanned) },
		func() { w.opReport(stAuthorized) },
		func() { w.opConflict(fieldNames[1+n%(len(fieldNames)-1)], "same", nil) },
		func() { w.opBannedSubmit() },
		func() { w.opRestart() },
		func() { w.opBannedSubmit() },
		func() { w.opReport(stBanned) },
		func() { w.opReport(stAuthorized) },
		func() { w.opFault("conflict", withReports(), n%2 == 0, true) },
		func() { w.opFault([]string{"new", "duplicate"}[n%2], nil, n%4 == 1, false) },
		func() { w.opDup() },
		func() { w.opNew(true) },
		func() { w.opNewWithRegisteredKey() },
		func() { w.opReport(stAuthorized) },
		func() { w.opGround("new", zerosFor(b.Tier, n)) },
		func() { w.opReport(stAuthorized) },
		func() { w.opGround("conflict", zerosFor(b.Tier, n+1)) },
		func() { w.opBannedSubmit() },
	}
	for _, s := range steps {
		if w.stop {
			break
		}
		s()
	}
	if !w.stop {
		w.op("final full comparison")
		w.observe(expect{kind: "none", what: "end of sequence", class: "final", last: true})
	}
	r.Count("sequences", 1)
	if n%7 == 0 {
		h := w.history
		if len(h) > 12 {
			h = h[len(h)-12:]
		}
		var short []string
		for _, l := range h {
			if len(l) > 90 {
				l = l[:90] + "…"
			}
			short = append(short, l)
		}
		r.Sample(map[string]interface{}{"kind": "seq", "last_ops": short})
	}
	return !w.poisoned
}

// ---------------------------------------------------------------- probe: a NEW id authorized with a key that another registered device uses

func runKeyReuse(b run.Batch, r *ev.Result, rng *rand.Rand, n int) bool {
	w := newWorld(b, r, rng, 1000+n)
	if w == nil {
		return false
	}
	defer w.finish()
	// the owner of the key that is going to be reused: ShortID 0, 2^32-1 or a random one
	switch n % 3 {
	case 0:
		id := uint32(0)
		w.forceID = &id
	case 1:
		id := uint32(math.MaxUint32)
		w.forceID = &id
	}
	A := w.opNew(true)
	B := w.opNew(true)
	if A == nil || B == nil || w.stop {
		return true
	}
	r.Count(fmt.Sprintf("keyreuse.owner_id_class_%d", n%3), 1)
	for i := 0; i < 5 && !w.stop; i++ {
		w.opReport(stAuthorized)
	}
	if len(A.slots) == 0 && !w.stop { // A needs data so that a redirected lookup is visible
		rep := A.auth2report(w.usableSlot(), 77)
		w.op("report id=%d slot=%d power=77 bytes=%x", A.id, rep.Slot, rep.Bytes())
		w.Inject(rep.Bytes())
		A.slots[rep.Slot] = &slotM{reps: map[refenc.Report]struct{}{rep: {}}, first: rep}
		A.onDisk = true
		w.observe(expect{kind: "report", id: A.id, what: "report of device A", class: "report"})
	}
	if w.stop {
		return true
	}
	r.Count("keyreuse.probes", 1)
	// the probed operation
	id := w.freshID()
	a := w.mkAuth(id, A.auth.Pub, true)
	w.op("authorize NEW id=%d with the key of registered device %d auth=%x", id, A.id, a.Bytes())
	st, ok := w.authorize(a)
	if !ok {
		return true
	}
	r.Nontrivial("new/registered-key")
	after := w.S.VerifSnapshot(true)
	var symptoms []string
	if idx, okk := after.ShortIDs[A.auth.Pub]; !okk || idx != A.id {
		symptoms = append(symptoms, fmt.Sprintf("public-key index of device %d now maps its key to %d (present=%v)", A.id, idx, okk))
	}
	if got, okk := after.Equipment[A.id]; !okk || !authBytesEq(drv.RefAuth(got), A.auth) {
		symptoms = append(symptoms, fmt.Sprintf("authorization of device %d changed or vanished", A.id))
	}
	var rst int
	var rr []refenc.Report
	rerr, tok := w.try("recent-reports", func() (e error) { rst, rr, e = w.RecentReports(A.auth.Pub); return })
	if !tok {
		return true
	}
	if rerr != nil || rst != 200 || len(rr) != 4032 {
		symptoms = append(symptoms, fmt.Sprintf("recent-reports lookup by the key of device %d: status %d err %v", A.id, rst, rerr))
	} else {
		for i := 0; i < 4032; i++ {
			slot := w.offset + uint32(i)
			if want := A.slots[slot].value(); rr[i].Power != want || (want != 0 && rr[i].ID != A.id) {
				symptoms = append(symptoms, fmt.Sprintf("recent-reports lookup by the key of device %d no longer returns its data (slot %d: got power %d of id %d, device %d has %d)", A.id, slot, rr[i].Power, rr[i].ID, A.id, want))
				break
			}
		}
	}
	invOK, invMsg := w.invariants()
	if !invOK {
		symptoms = append(symptoms, "CheckInvariants panics: "+invMsg)
	}
	if st == 200 {
		r.Count("keyreuse.accepted", 1)
	} else {
		r.Count("keyreuse.refused", 1)
	}
	if len(symptoms) == 0 {
		// the server kept device A intact: continue with the ordinary oracles
		d := &dev{id: id, key: A.key, auth: a, state: stAuthorized, slots: map[uint32]*slotM{}}
		x := expect{kind: "new", id: id, what: fmt.Sprintf("new id %d with the key of registered device %d (status %d)", id, A.id, st), class: "new-with-registered-key"}
		if st != 200 {
			d.state, x.kind = stNever, "none"
			d.auth.Pub = refenc.GenKey(rng).Pub
			w.addDev(d)
			w.observe(x)
			// the ordinary life goes on
			w.opReport(stAuthorized)
			w.opDup()
			w.opRestart()
			return true
		}
		// accepted and consistent: two authorized devices share a key; the by-key surfaces are ambiguous, only state is compared
		w.file = append(w.file, a.Bytes()...)
		r.Note("a new id with an already registered key was accepted without damaging the first device; by-key surfaces not judged further")
		return true
	}
	// follow-up observation: banning the NEW id removes device A's lookup entirely
	c := a
	c.Debt++
	c = c.Signed(w.GCA.Priv)
	w.op("authorize conflict id=%d (the new id) auth=%x", id, c.Bytes())
	if st2, ok := w.authorize(c); ok {
		fst, _, _ := w.Get("/api/v1/recent-reports?publicKey=" + hex.EncodeToString(A.auth.Pub[:]))
		symptoms = append(symptoms, fmt.Sprintf("after banning the new id %d (status %d) recent-reports by the key of the untouched device %d answers %d", id, st2, A.id, fst))
	}
	r.Violationf(keyReuseFinding, w.replay(), "a valid authorization for the NEW id %d that carries the public key of the registered device %d (status %d) damages device %d: %s", id, A.id, st, A.id, strings.Join(symptoms, "; "))
	// bring the server back into a closable state: ban device A as well (then no registered device uses the key)
	ca := A.auth
	ca.Debt++
	ca = ca.Signed(w.GCA.Priv)
	w.op("cleanup: conflict for id=%d", A.id)
	w.authorize(ca)
	if ok, _ := w.invariants(); !ok {
		w.poisoned = true
		return false
	}
	// device B must have survived all of this
	snap := w.S.VerifSnapshot(true)
	if got, okk := snap.Equipment[B.id]; !okk || !authBytesEq(drv.RefAuth(got), B.auth) || snap.ShortIDs[B.auth.Pub] != B.id {
		r.Violationf("other-device-damaged:bystander-of-key-reuse", w.replay(), "device %d, not involved in the key reuse, lost its authorization or index entry", B.id)
	}
	var bst int
	var brr []refenc.Report
	berr, tok := w.try("recent-reports", func() (e error) { bst, brr, e = w.RecentReports(B.auth.Pub); return })
	if !tok {
		return true
	}
	if berr != nil || bst != 200 || len(brr) != 4032 {
		r.Violationf("other-device-damaged:not-findable-by-public-key", w.replay(), "device %d, not involved in the key reuse, is not findable by its key: %d %v", B.id, bst, berr)
	}
	return true
}

// ---------------------------------------------------------------- concurrent submissions

// concBarrier aligns K in-flight authorize requests at the auth.ready hook
// (after the body is decoded, before the handler touches shared state).
type concBarrier struct {
	k    int32
	n    atomic.Int32
	ch   chan struct{}
	once sync.Once
}

var concArmed atomic.Pointer[concBarrier]
var concHookOnce sync.Once

func installConcHook() {
	concHookOnce.Do(func() {
		server.VerifSetHook("auth.ready", func(*server.GCAServer) {
			b := concArmed.Load()
			if b == nil {
				return
			}
			if b.n.Add(1) >= b.k {
				b.once.Do(func() { close(b.ch) })
			}
			select { // the barrier only aligns the requests; releasing early loses alignment, never soundness
			case <-b.ch:
			case <-time.After(10 * time.Second):
			}
		})
	})
}

// concurrentPost submits the authorizations at the same time. With fifo the
// authorization file is replaced by a named pipe for the duration of the burst:
// an append parks in open() until the harness opens the reading side, so every
// request gets as far as the server's locking lets it before any append
// completes. Afterwards the real file is restored with the drained bytes
// appended (disk = what the server wrote).
func (w *world) concurrentPost(auths []refenc.Auth, fifo bool) ([]int, bool) {
	installConcHook()
	path := filepath.Join(w.Dir, "equipment-authorizations.dat")
	old := w.ReadFile("equipment-authorizations.dat")
	if fifo {
		if err := os.Remove(path); err != nil {
			w.r.Inconc("fifo set-up: " + err.Error())
			w.stop = true
			return nil, false
		}
		if err := syscall.Mkfifo(path, 0644); err != nil {
			os.WriteFile(path, old, 0644)
			w.r.Inconc("fifo set-up: " + err.Error())
			w.stop = true
			return nil, false
		}
	}
	b := &concBarrier{k: int32(len(auths)), ch: make(chan struct{})}
	concArmed.Store(b)
	sts := make([]int, len(auths))
	errs := make([]error, len(auths))
	var wg sync.WaitGroup
	for i := range auths {
		wg.Add(1)
		go func(i int) {
			defer wg.Done()
			sts[i], _, errs[i] = w.Authorize(auths[i])
		}(i)
	}
	done := make(chan struct{})
	go func() { wg.Wait(); close(done) }()
	select { // all K requests decoded and lined up
	case <-b.ch:
	case <-time.After(10 * time.Second):
	case <-done:
	}
	time.Sleep(150 * time.Millisecond) // lets every request run as far as it can (widens the window only)
	var drained []byte
	if fifo {
		fd, err := syscall.Open(path, syscall.O_RDONLY|syscall.O_NONBLOCK, 0)
		if err != nil {
			w.r.Inconc("fifo open: " + err.Error())
			w.stop = true
			return nil, false
		}
		buf := make([]byte, 1<<16)
		finished := false
		for {
			n, _ := syscall.Read(fd, buf)
			if n > 0 {
				drained = append(drained, buf[:n]...)
				continue
			}
			if finished {
				break
			}
			select {
			case <-done:
				finished = true // one more pass to pick up what was written last
			default:
				time.Sleep(500 * time.Microsecond)
			}
		}
		syscall.Close(fd)
		os.Remove(path)
		if err := os.WriteFile(path, append(append([]byte(nil), old...), drained...), 0644); err != nil {
			w.r.Inconc("fifo restore: " + err.Error())
			w.stop = true
			return nil, false
		}
		w.r.Count("conc.fifo_rounds", 1)
	} else {
		<-done
	}
	concArmed.Store(nil)
	for _, e := range errs {
		if e != nil {
			w.r.Inconc("concurrent authorize request failed: " + e.Error())
			w.stop = true
			return nil, false
		}
	}
	return sts, true
}

// opConcurrentIdentical: K copies of one valid authorization for a fresh id are in
// flight at once. Resubmitting an identical authorization changes nothing: the
// device ends up authorized, not banned, and the file holds one record.
func (w *world) opConcurrentIdentical(k int, fifo bool) *dev {
	key := refenc.GenKey(w.rng)
	a := w.mkAuth(w.freshID(), key.Pub, true)
	auths := make([]refenc.Auth, k)
	for i := range auths {
		auths[i] = a
	}
	w.op("CONCURRENT %d identical new authorizations (fifo=%v) id=%d auth=%x", k, fifo, a.ID, a.Bytes())
	sts, ok := w.concurrentPost(auths, fifo)
	if !ok {
		return nil
	}
	d := &dev{id: a.ID, key: key, auth: a, state: stAuthorized, slots: map[uint32]*slotM{}, reporting: true}
	w.addDev(d)
	w.file = append(w.file, a.Bytes()...)
	what := fmt.Sprintf("%d concurrent identical authorizations for the fresh id %d (statuses %v)", k, a.ID, sts)
	for _, st := range sts {
		if st != 200 {
			w.r.Violationf("concurrent-identical-authorizations:refused", w.replay(), "%s: an identical authorization must be accepted", what)
			break
		}
	}
	if snap := w.S.VerifSnapshot(false); snap.Bans[a.ID] {
		w.r.Violationf("concurrent-identical-authorizations:device-banned", w.replay(), "%s: the device was banned by copies of its own authorization", what)
	}
	w.r.Count("conc.identical_rounds", 1)
	w.r.Nontrivial(fmt.Sprintf("concurrent/identical/%d/%v%s", k, fifo, w.ctx(nil)))
	w.observe(expect{kind: "new", id: a.ID, what: what, class: "concurrent-identical"})
	return d
}

// opConcurrentConflicts: K different conflicting authorizations for one device at
// once: the id ends up banned (never re-added) with one evidence record.
func (w *world) opConcurrentConflicts(d *dev, k int, fifo bool) {
	if d == nil || d.state != stAuthorized {
		return
	}
	auths := make([]refenc.Auth, k)
	for i := range auths {
		a := d.auth
		a.Debt += uint64(i + 1)
		if i%2 == 1 {
			a.Pub = refenc.GenKey(w.rng).Pub
		}
		auths[i] = a.Signed(w.GCA.Priv)
	}
	w.op("CONCURRENT %d different conflicting authorizations (fifo=%v) id=%d first=%x", k, fifo, d.id, auths[0].Bytes())
	sts, ok := w.concurrentPost(auths, fifo)
	if !ok {
		return
	}
	what := fmt.Sprintf("%d concurrent different conflicts for device %d (statuses %v)", k, d.id, sts)
	for _, st := range sts {
		if st == 200 {
			w.r.Violationf("conflict-answered-200", w.replay(), "%s: a conflicting authorization was answered 200", what)
			break
		}
	}
	// evidence: exactly one of the K records (whichever request won)
	got := w.ReadFile("equipment-authorizations.dat")
	want := append(append([]byte(nil), w.file...), auths[0].Bytes()...)
	for _, a := range auths {
		if c := append(append([]byte(nil), w.file...), a.Bytes()...); bytes.Equal(c, got) {
			want = c
		}
	}
	w.file = want
	d.state = stBanned
	d.slots = map[uint32]*slotM{}
	w.r.Count("obs.ban", 1)
	w.r.Count("conc.conflict_rounds", 1)
	w.r.Nontrivial(fmt.Sprintf("concurrent/conflicts/%d/%v%s", k, fifo, w.ctx(d)))
	w.observe(expect{kind: "ban", id: d.id, what: what, class: "concurrent-conflicts"})
}

func runConcurrent(b run.Batch, r *ev.Result, rng *rand.Rand, n int) bool {
	w := newWorld(b, r, rng, 2000+n)
	if w == nil {
		return false
	}
	defer w.finish()
	w.opNew(true)
	w.opNew(true)
	for i := 0; i < 3 && !w.stop; i++ {
		w.opReport(stAuthorized)
	}
	var last *dev
	for round := 0; round < 6 && !w.stop; round++ {
		k := 2 + rng.Intn(7)
		if round%3 == 2 {
			k = 4 + rng.Intn(13)
		}
		fifo := round%3 != 1
		switch round % 2 {
		case 0:
			last = w.opConcurrentIdentical(k, fifo)
			if !w.stop && last != nil {
				w.opDup()
			}
		default:
			target := last
			if target == nil || rng.Intn(2) == 0 {
				target = w.pick(stAuthorized)
			}
			w.opConcurrentConflicts(target, k, fifo)
			if !w.stop {
				w.opBannedSubmit()
			}
		}
		if !w.stop && (round%2 == 0 || rng.Intn(2) == 0) {
			w.opRestart()
		}
		if !w.stop && rng.Intn(2) == 0 {
			w.opReport(stAuthorized)
		}
	}
	if !w.stop {
		w.op("final full comparison")
		w.observe(expect{kind: "none", what: "end of sequence", class: "final", last: true})
	}
	return !w.poisoned
}

// ---------------------------------------------------------------- a partial append while the server keeps running

var ignoreXFSZ sync.Once

// runTorn: an authorization append is cut short while the server keeps running (RLIMIT_FSIZE = file size + k for
// the one request, SIGXFSZ ignored: the write returns a short count, then EFBIG). Later appends land behind the
// partial record. A device authorized before the fault is then banned by a conflict, and the server is restarted.
// Conditional oracle: the server may refuse to start on such a file (counted); IF it comes up, every ban
// established before the restart still holds and the banned device's reports are refused.
func runTorn(b run.Batch, r *ev.Result, rng *rand.Rand, n int) bool {
	ignoreXFSZ.Do(func() { signal.Ignore(syscall.SIGXFSZ) })
	w := newWorld(b, r, rng, 3000+n)
	if w == nil {
		return false
	}
	defer w.finish()
	A := w.opNew(true)
	w.opNew(true)
	w.opNew(true)
	for i := 0; i < 4 && !w.stop; i++ {
		w.opReport(stAuthorized)
	}
	if A == nil || w.stop {
		return true
	}
	if !A.onDisk {
		rep := A.auth2report(w.usableSlot(), 55)
		w.op("report id=%d slot=%d power=55 bytes=%x", A.id, rep.Slot, rep.Bytes())
		w.Inject(rep.Bytes())
		A.slots[rep.Slot] = &slotM{reps: map[refenc.Report]struct{}{rep: {}}, first: rep}
		A.onDisk = true
		w.observe(expect{kind: "report", id: A.id, what: "report of device A", class: "report"})
	}
	if n%2 == 1 && !w.stop { // an earlier ban as well
		w.opConflict("Debt", "same", w.pickOther(A))
	}
	if w.stop {
		return true
	}
	// 1. the partial append
	k := 1 + rng.Intn(147)
	kD := refenc.GenKey(rng)
	aD := w.mkAuth(w.freshID(), kD.Pub, true)
	size := uint64(len(w.file))
	var old syscall.Rlimit
	if err := syscall.Getrlimit(syscall.RLIMIT_FSIZE, &old); err != nil {
		r.Inconc("getrlimit: " + err.Error())
		return true
	}
	w.op("TORN APPEND: authorize new id=%d with RLIMIT_FSIZE=%d (file has %d bytes) auth=%x", aD.ID, size+uint64(k), size, aD.Bytes())
	lim := syscall.Rlimit{Cur: size + uint64(k), Max: old.Max}
	if err := syscall.Setrlimit(syscall.RLIMIT_FSIZE, &lim); err != nil {
		r.Inconc("setrlimit: " + err.Error())
		return true
	}
	st, ok := w.authorize(aD)
	syscall.Setrlimit(syscall.RLIMIT_FSIZE, &old)
	if !ok {
		return true
	}
	got := w.ReadFile("equipment-authorizations.dat")
	if len(got) < len(w.file) || !bytes.Equal(got[:len(w.file)], w.file) {
		r.Violationf("fault:authorization-file-shrank", w.replay(), "torn append (status %d): the authorization file lost earlier records (%d -> %d bytes)", st, len(w.file), len(got))
		w.stop = true
		return true
	}
	partial := len(got) - len(w.file)
	if partial == 0 || partial >= 148 {
		r.Count("torn.no_partial_record_produced", 1)
		if partial >= 148 { // the whole record went through: ordinary acceptance
			r.Note("torn: the limited write stored %d bytes", partial)
		}
		return true
	}
	r.Count("torn.partial_appends", 1)
	r.Nontrivial(fmt.Sprintf("torn/%d/%d", n%2, k%8))
	if st == 200 {
		r.Violationf("fault:answered-200-without-effect", w.replay(), "an authorization whose record was only stored partially (%d of 148 bytes) was answered 200", partial)
	}
	w.addDev(&dev{id: aD.ID, key: kD, auth: aD, state: stNever, slots: map[uint32]*slotM{}})
	w.file = got // the partial tail is part of the file from now on
	w.observe(expect{kind: "none", id: aD.ID, what: fmt.Sprintf("authorization whose append was cut after %d bytes (status %d)", partial, st), class: "torn-append"})
	if w.stop {
		return true
	}
	// 2. appends behind the partial record: a ban of A and a new device
	w.opConflict("Debt", "same", A)
	if w.stop {
		return true
	}
	E := w.opNew(true)
	w.opReport(stBanned)
	if w.stop {
		return true
	}
	// 3. restart
	banned := w.sorted(stBanned)
	w.op("restart with a partial record in the middle of the authorization file")
	if err := w.Close(); err != nil {
		r.Inconc("close: " + err.Error())
		w.stop = true
		return true
	}
	if err := w.Start(); err != nil {
		r.Count("torn.refused_to_start", 1)
		w.op("server refuses to start: %v", err)
		w.stop = true
		return true
	}
	r.Count("torn.started_again", 1)
	snap := w.S.VerifSnapshot(true)
	for _, d := range banned {
		_, inEq := snap.Equipment[d.id]
		if !snap.Bans[d.id] || inEq {
			r.Violationf("torn-append:ban-forgotten-after-restart", w.replay(), "after a restart on a file with a partial record in the middle, id %d (banned before the restart) is banned=%v authorized=%v", d.id, snap.Bans[d.id], inEq)
			continue
		}
	}
	// reports of the banned devices are refused
	for _, d := range banned {
		if (d.key == refenc.Key{}) {
			continue
		}
		rep := d.auth2report(w.usableSlot(), 99)
		logBefore := w.ReadFile("equipment-reports.dat")
		w.op("report of banned id=%d after the restart bytes=%x", d.id, rep.Bytes())
		w.Inject(rep.Bytes())
		s2 := w.S.VerifSnapshot(true)
		if arr, ok := s2.Reports[d.id]; (ok && arr != nil && arr[rep.Slot-s2.Offset].PowerOutput != 0) || !bytes.Equal(logBefore, w.ReadFile("equipment-reports.dat")) {
			r.Violationf("torn-append:banned-device-reports-accepted-after-restart", w.replay(), "a report of id %d, banned before the restart, was accepted after it", d.id)
		}
	}
	if E != nil {
		if _, ok := snap.Equipment[E.id]; ok {
			r.Count("torn.later_device_survived", 1)
		} else {
			r.Count("torn.later_device_lost", 1)
		}
	}
	r.Eval(1)
	w.checkpoint()
	w.stop = true // the model does not follow a server that read a damaged file
	return true
}

// pickOther returns an authorized device other than d.
func (w *world) pickOther(d *dev) *dev {
	var c []*dev
	for _, o := range w.sorted(stAuthorized) {
		if o.id != d.id {
			c = append(c, o)
		}
	}
	if len(c) == 0 {
		return nil
	}
	return c[w.rng.Intn(len(c))]
}

// ---------------------------------------------------------------- scale: long files before a restart

// fullCheck judges the whole state and every surface against the model (no per-operation differ: the bulk
// operations before it were only checked by their HTTP status).
func (w *world) fullCheck(what string) {
	if w.stop || w.S == nil {
		return
	}
	w.op("full comparison: %s", what)
	w.before = w.S.VerifSnapshot(true)
	w.observe(expect{kind: "none", what: what, class: "scale", last: true})
}

// bulkReport injects one acceptable report and updates the slot model.
func (w *world) bulkReport(d *dev, slot uint32, power uint64) {
	rep := d.auth2report(slot, power)
	run.Op("bulk report id=%d slot=%d power=%d", d.id, slot, power)
	w.Inject(rep.Bytes())
	m := d.slots[slot]
	if m == nil {
		m = &slotM{reps: map[refenc.Report]struct{}{}, first: rep}
		d.slots[slot] = m
	}
	m.reps[rep] = struct{}{}
	if overCapacity(rep.Power, d.auth.Capacity) {
		m.over = true
	}
	d.onDisk = true
}

// fastAuthorize submits an authorization and checks only the status class.
func (w *world) fastAuthorize(a refenc.Auth, want200 bool, what string) bool {
	run.Op("bulk authorize %s id=%d", what, a.ID)
	st, ok := w.authorize(a)
	if !ok {
		return false
	}
	if (st == 200) != want200 {
		w.r.Violationf("scale:unexpected-status:"+what, w.replay(), "%s for id %d was answered %d", what, a.ID, st)
	}
	return true
}

// runScaleAuths: 450-600 authorization records (new devices, conflicts, duplicates; few devices authorized at any
// time) before two restarts: devices authorized late and bans whose evidence lies late in the file must survive.
func runScaleAuths(b run.Batch, r *ev.Result, rng *rand.Rand, n int) bool {
	w := newWorld(b, r, rng, 4000+n)
	if w == nil {
		return false
	}
	defer w.finish()
	target := 450 + rng.Intn(151)
	w.op("scale: building %d authorization records", target)
	for len(w.file)/148 < target && !w.stop {
		auth := w.sorted(stAuthorized)
		switch x := rng.Intn(10); {
		case len(auth) < 4 || (x < 5 && len(auth) < 9):
			k := refenc.GenKey(rng)
			a := w.mkAuth(w.freshID(), k.Pub, true)
			if !w.fastAuthorize(a, true, "new") {
				return true
			}
			w.addDev(&dev{id: a.ID, key: k, auth: a, state: stAuthorized, slots: map[uint32]*slotM{}, reporting: true})
			w.file = append(w.file, a.Bytes()...)
		case x < 7:
			if !w.fastAuthorize(auth[rng.Intn(len(auth))].auth, true, "duplicate") {
				return true
			}
		default:
			d := auth[rng.Intn(len(auth))]
			a := d.auth
			a.Debt ^= 1 << uint(rng.Intn(64))
			if rng.Intn(3) == 0 {
				a.Pub = refenc.GenKey(rng).Pub
			}
			a = a.Signed(w.GCA.Priv)
			if !w.fastAuthorize(a, false, "conflict") {
				return true
			}
			w.ban(d, a)
		}
		if len(w.ids)%25 == 0 && rng.Intn(3) == 0 { // a few reports along the way
			w.opReportQuiet()
		}
	}
	r.Max("max.auth_records", int64(len(w.file)/148))
	r.Count("scale.auth_scenarios", 1)
	r.Nontrivial(fmt.Sprintf("scale/auths/%d", target))
	w.fullCheck("after the bulk authorizations")
	for i := 0; i < 2 && !w.stop; i++ {
		w.opRestart()
	}
	w.fullCheck("after two restarts on the long authorization file")
	// ordinary life goes on
	if !w.stop {
		w.opBannedSubmit()
	}
	if !w.stop {
		w.opNew(true)
	}
	if !w.stop {
		w.opReport(stAuthorized)
	}
	return !w.poisoned
}

// opReportQuiet: one report of a random authorized device, model updated, no observation.
func (w *world) opReportQuiet() {
	if d := w.pick(stAuthorized); d != nil {
		w.bulkReport(d, w.usableSlot(), uint64(2+w.rng.Intn(900)))
	}
}

// runScaleReports: a report log of >= 9000 records dominated by devices that are then banned, behind the early
// reports of `survivors` untouched devices; then two restarts. The untouched devices keep every report.
func runScaleReports(b run.Batch, r *ev.Result, rng *rand.Rand, n int, survivors int) bool {
	w := newWorld(b, r, rng, 5000+n)
	if w == nil {
		return false
	}
	defer w.finish()
	var surv, bulk []*dev
	for i := 0; i < survivors && !w.stop; i++ {
		surv = append(surv, w.opNew(true))
	}
	nBulk := 3
	need := 9000
	if survivors > 1 {
		nBulk, need = 4, 8065*survivors+200
	}
	for i := 0; i < nBulk && !w.stop; i++ {
		bulk = append(bulk, w.opNew(true))
	}
	if w.stop {
		return true
	}
	for _, d := range append(append([]*dev(nil), surv...), bulk...) {
		if d == nil {
			return true
		}
	}
	setNow := func(now uint32) {
		w.now = now
		drv.SetClock(now)
	}
	// the survivors report FIRST
	setNow(432)
	for _, d := range surv {
		for _, s := range rng.Perm(865)[:250+rng.Intn(150)] {
			w.bulkReport(d, uint32(s), uint64(2+rng.Intn(900)))
		}
	}
	w.fullCheck("after the early reports of the untouched devices")
	// then the bulk: every reachable slot of the other devices, a share of them equivocated (two records per slot)
	records := func() int { return len(w.ReadFile("equipment-reports.dat")) / 80 }
	for _, now := range []uint32{432, 1296, 2160, 3024} {
		setNow(now)
		for _, d := range bulk {
			for s := int64(now) - 432; s <= int64(now)+432 && !w.stop; s++ {
				if _, used := d.slots[uint32(s)]; used {
					continue
				}
				p := uint64(2 + rng.Intn(900))
				w.bulkReport(d, uint32(s), p)
				if rng.Intn(100) < 45 || survivors > 1 {
					w.bulkReport(d, uint32(s), p+1)
				}
			}
		}
		if records() >= need+300 {
			break
		}
	}
	nrec := records()
	r.Max("max.report_records", int64(nrec))
	if survivors == 1 {
		r.Max("max.report_records_one_survivor", int64(nrec))
	}
	r.Count("scale.report_scenarios", 1)
	r.Nontrivial(fmt.Sprintf("scale/reports/%d", survivors))
	if nrec < need {
		r.Inconc(fmt.Sprintf("scale: only %d report records were produced, %d needed", nrec, need))
		return true
	}
	w.fullCheck("after the bulk reports")
	// the bulk devices are banned; the survivors are untouched
	for _, d := range bulk {
		if w.stop {
			break
		}
		w.opConflict([]string{"Debt", "PublicKey", "Capacity"}[rng.Intn(3)], "fresh", d)
	}
	for i := 0; i < 2 && !w.stop; i++ {
		w.opRestart()
	}
	w.fullCheck("after two restarts on the long report log")
	if !w.stop {
		w.opReport(stAuthorized)
	}
	return !w.poisoned
}

// runScaleFleet: more than 1000 devices authorized at the same time (8 workers through the JSON endpoint, bulk
// checked by status only, no heavy snapshots: the windows alone are about 350 MB), then conflicts against
// existing ids: each bans exactly its id, is persisted as evidence and holds after a restart; new devices are
// still accepted.
func runScaleFleet(b run.Batch, r *ev.Result, rng *rand.Rand, n int) bool {
	w := newWorld(b, r, rng, 6000+n)
	if w == nil {
		return false
	}
	defer w.finish()
	total := 1010 + rng.Intn(90)
	w.op("scale: authorizing %d devices with 8 workers", total)
	auths := make([]refenc.Auth, total)
	keys := make([]refenc.Key, total)
	used := map[uint32]bool{}
	for i := range auths {
		id := uint32(rng.Intn(1 << 24))
		for used[id] {
			id++
		}
		used[id] = true
		keys[i] = refenc.GenKey(rng)
		auths[i] = w.mkAuth(id, keys[i].Pub, true)
	}
	sts := make([]int, total)
	errs := make([]error, total)
	var wg sync.WaitGroup
	for g := 0; g < 8; g++ {
		wg.Add(1)
		go func(g int) {
			defer wg.Done()
			for i := g; i < total; i += 8 {
				sts[i], _, errs[i] = w.Authorize(auths[i])
			}
		}(g)
	}
	wg.Wait()
	refused := 0
	for i := range auths {
		if errs[i] != nil {
			r.Inconc("scale fleet: authorize request failed: " + errs[i].Error())
			w.stop = true
			return true
		}
		if sts[i] != 200 {
			refused++
			if refused == 1 {
				r.Violationf("valid-authorization-refused", w.replay(), "authorization number %d of %d valid authorizations for unused ids with fresh keys (id %d) was answered %d", i+1, total, auths[i].ID, sts[i])
			}
		}
	}
	snap := w.S.VerifSnapshot(false)
	r.Max("max.authorized_at_once", int64(len(snap.Equipment)))
	r.Count("scale.fleet_scenarios", 1)
	r.Nontrivial(fmt.Sprintf("scale/fleet/%d", total/50))
	if len(snap.Equipment) != total-refused || len(snap.ShortIDs) != total-refused || len(snap.Bans) != 0 {
		r.Violationf("state-has-extra-entries:scale", w.replay(), "after %d accepted authorizations the server has equipment=%d pkindex=%d bans=%d", total-refused, len(snap.Equipment), len(snap.ShortIDs), len(snap.Bans))
	}
	// the file holds exactly the accepted records (order of concurrent appends is free)
	recordsOf := func(bts []byte) map[string]int {
		m := map[string]int{}
		for i := 0; i+148 <= len(bts); i += 148 {
			m[string(bts[i:i+148])]++
		}
		if len(bts)%148 != 0 {
			m["<partial>"]++
		}
		return m
	}
	want := map[string]int{}
	for i, a := range auths {
		if sts[i] == 200 {
			want[string(a.Bytes())]++
		}
	}
	fileOK := func(what string) {
		got := recordsOf(w.ReadFile("equipment-authorizations.dat"))
		bad := len(got) != len(want)
		for k, v := range want {
			if got[k] != v {
				bad = true
			}
		}
		if bad {
			r.Violationf("authorization-file-differs:scale", w.replay(), "%s: equipment-authorizations.dat holds %d distinct records, the reference has %d", what, len(got), len(want))
		}
	}
	fileOK("after the bulk authorizations")
	if ok, msg := w.invariants(); !ok {
		r.Violationf("consistency-check-failed:scale", w.replay(), "CheckInvariants panics with %d devices: %s", total, msg)
		w.poisoned, w.stop = true, true
		return false
	}
	// conflicts against existing ids on the full server
	type banned struct {
		i  int
		ev refenc.Auth
	}
	var bans []banned
	checkBans := func(what string) {
		s2 := w.S.VerifSnapshot(false)
		st, eq, err := w.Equipment()
		for _, bn := range bans {
			id := auths[bn.i].ID
			_, inEq := s2.Equipment[id]
			if !s2.Bans[id] || inEq {
				r.Violationf("banned-id:not-banned-on-full-server", w.replay(), "%s: id %d received a conflicting authorization while %d devices were authorized: banned=%v authorized=%v", what, id, total, s2.Bans[id], inEq)
			}
			if err == nil && st == 200 {
				if _, listed := eq[id]; listed {
					r.Violationf("equipment-endpoint:lists-unauthorized-id", w.replay(), "%s: GET /equipment lists the banned id %d", what, id)
				}
			}
			if _, refusedSync, e := w.Sync(id); e == nil && !refusedSync {
				r.Violationf("sync-serves-unauthorized-id", w.replay(), "%s: sync for the banned id %d was answered", what, id)
			}
			rep := refenc.Report{ID: id, Slot: w.usableSlot(), Power: 77}.Signed(keys[bn.i].Priv)
			logBefore := len(w.ReadFile("equipment-reports.dat"))
			w.Inject(rep.Bytes())
			if len(w.ReadFile("equipment-reports.dat")) != logBefore {
				r.Violationf("report-of-unauthorized-id-logged", w.replay(), "%s: a report of the banned id %d was accepted", what, id)
			}
		}
		// a handful of untouched devices: still authorized, findable by key, served by sync
		for j := 0; j < 4; j++ {
			i := rng.Intn(total)
			skip := sts[i] != 200
			for _, bn := range bans {
				if bn.i == i {
					skip = true
				}
			}
			if skip {
				continue
			}
			a := auths[i]
			if got, ok := s2.Equipment[a.ID]; !ok || !authBytesEq(drv.RefAuth(got), a) || s2.ShortIDs[a.Pub] != a.ID {
				r.Violationf("other-device-damaged:authorization-missing", w.replay(), "%s: untouched device %d lost its authorization or index entry", what, a.ID)
			}
			if stR, _, e := w.Get("/api/v1/recent-reports?publicKey=" + hex.EncodeToString(a.Pub[:])); e == nil && stR != 200 {
				r.Violationf("other-device-damaged:not-findable-by-public-key", w.replay(), "%s: recent-reports for the key of untouched device %d answers %d", what, a.ID, stR)
			}
			if _, refusedSync, e := w.Sync(a.ID); e == nil && refusedSync {
				r.Violationf("sync-refuses-authorized-device", w.replay(), "%s: sync for untouched device %d was refused", what, a.ID)
			}
			r.Count("scale.fleet_devices_compared", 1)
		}
		if len(s2.Bans) != len(bans) {
			r.Violationf("state-has-extra-entries:scale", w.replay(), "%s: %d ids were banned, the server's ban set has %d", what, len(bans), len(s2.Bans))
		}
		r.Eval(1)
	}
	for j := 0; j < 3 && !w.stop; j++ {
		i := rng.Intn(total)
		dup := sts[i] != 200
		for _, bn := range bans {
			if bn.i == i {
				dup = true
			}
		}
		if dup {
			continue
		}
		c := auths[i]
		c.Debt ^= 1 << uint(rng.Intn(64))
		c = c.Signed(w.GCA.Priv)
		w.op("authorize conflict on the full server id=%d auth=%x", c.ID, c.Bytes())
		st, ok := w.authorize(c)
		if !ok {
			return true
		}
		if st == 200 {
			r.Violationf("conflict-answered-200", w.replay(), "a conflicting authorization for id %d was answered 200", c.ID)
		}
		bans = append(bans, banned{i, c})
		want[string(c.Bytes())]++
		r.Count("obs.ban", 1)
		r.Count("scale.fleet_conflicts", 1)
		checkBans("after the conflict")
		fileOK("after the conflict")
		w.checkpoint()
	}
	// a new device is still accepted after the bans
	kN := refenc.GenKey(rng)
	aN := w.mkAuth(uint32(1<<25+rng.Intn(1000)), kN.Pub, true)
	w.op("authorize new on the full server id=%d", aN.ID)
	if st, ok := w.authorize(aN); ok && st == 200 {
		want[string(aN.Bytes())]++
	}
	// restart: bans hold
	w.op("restart with %d devices", total)
	if err := w.Restart(); err != nil {
		r.Violationf("restart-failed", w.replay(), "the server with %d devices does not start again: %v", total, err)
		w.stop = true
		return true
	}
	r.Count("obs.restart", 1)
	checkBans("after the restart")
	fileOK("after the restart")
	if ok, msg := w.invariants(); !ok {
		r.Violationf("consistency-check-failed:scale", w.replay(), "CheckInvariants panics after the restart: %s", msg)
		w.poisoned = true
		return false
	}
	w.checkpoint()
	w.stop = true
	return true
}

// ---------------------------------------------------------------- child

func childBase(b run.Batch, r *ev.Result) {
	rng := rand.New(rand.NewSource(b.Seed))
	drv.SetClock(0)
	drv.GateRotation(true)
	drv.GateImpact(true)
	var slice int
	fmt.Sscan(b.P("slice"), &slice)
	for i := 0; i < b.N; i++ {
		n := slice*b.N + i
		var ok bool
		if b.Kind == "keyreuse" {
			ok = runKeyReuse(b, r, rng, n)
		} else if b.Kind == "conc" {
			ok = runConcurrent(b, r, rng, n)
		} else if b.Kind == "torn" {
			ok = runTorn(b, r, rng, n)
		} else if b.Kind == "scale" {
			switch {
			case b.P("what") == "auths":
				ok = runScaleAuths(b, r, rng, n)
			case b.P("what") == "fleet":
				ok = runScaleFleet(b, r, rng, n)
			default:
				surv := 1
				if b.Tier == "thorough" && slice%2 == 1 {
					surv = 2
				}
				ok = runScaleReports(b, r, rng, n, surv)
			}
		} else {
			ok = runSequence(b, r, rng, n)
		}
		if !ok || r.NumViolations() > 12 {
			break
		}
	}
}
