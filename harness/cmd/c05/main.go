//go:build test

// C05 — A crash at any point leaves a server that starts and keeps the
// durable prefix.
//
// Process-crash model (the kernel keeps every completed system call). Roles of
// this binary:
//
//	driver    (run.Main child) generates histories, spawns victims, kills them,
//	          spawns inspectors, judges; never hosts code under test
//	victim    hosts the real server and executes a script through the real
//	          HTTP/UDP-handler entry points until it is killed
//	inspector fresh process: restarts the real server on the directory the
//	          victim left and compares it with the reference models
//
// Injectors: (1) strace attached to the paused victim kills it on entry
// of the N-th openat/write/close/... of one server file inside one operation
// (the list of boundaries comes from a traced census run of the same
// history), (2) SIGKILL at every operation boundary, (3) SIGKILL at
// PRNG-chosen instants of a concurrent workload, (4) SIGKILL aimed inside the
// multi-page write(2) of a statistics record (sent when the file starts to
// grow).
package main

import (
	"bufio"
	"encoding/hex"
	"encoding/json"
	"fmt"
	"math"
	"math/rand"
	"os"
	"os/exec"
	"path/filepath"
	"regexp"
	"sort"
	"strconv"
	"strings"
	"syscall"
	"time"
	"verifharness/lib/prodwt"

	"verifharness/lib/ev"
	"verifharness/lib/refenc"
	"verifharness/lib/run"
)

func main() {
	if len(os.Args) >= 4 && os.Args[1] == "victim" {
		victimMain(os.Args[2], os.Args[3])
		return
	}
	if len(os.Args) >= 6 && os.Args[1] == "inspect" {
		inspectMain(os.Args[2], os.Args[3], os.Args[4], os.Args[5])
		return
	}
	run.Main(run.Spec{
		ID:    "C05",
		Level: "fault_enumeration",
		Pkg:   "./cmd/c05",
		Rule: "a case is one crash actually delivered to a victim process running the real server (the victim died by SIGKILL) followed by the full restart oracle in a fresh process. " +
			"Non-trivial = every such case; distinct by (history, operation index, file, system call, ordinal of that call on that file inside the operation, read back from the strace log) for system-call-boundary kills, " +
			"by (history, boundary index) for operation-boundary kills and by (workload, set of acknowledged operations, set of operations in flight) for random-instant and rotation-aimed kills. " +
			"Aimed injections that did not fire (the operation completed) are counted as missed and judged as the operation-boundary kill they became.",
		Assumptions: []string{
			"process-crash model: the kernel keeps every completed system call; power loss (unsynced page cache, reordered or torn sector writes) is outside the model",
			"strace delivers SIGKILL on entry of a system call, so its crash points are the boundaries between system calls on the server's files; it cannot place a kill inside a write(2). The inside of the multi-page write of a weekly statistics record is reached by a fourth injector instead (a watcher thread in the victim sends SIGKILL as soon as the history file starts to grow); the inside of an 80/148-byte record write that straddles a page boundary is a sub-microsecond window no injector here can aim at (the random-instant injector could hit it; if it ever does the oracle reports it under torn-record-after-kill-inside-write:<file>)",
			"the set of system-call boundaries of an operation is taken from a traced census run of the same history; `when=N` of strace counts per thread, so the achieved crash point is read back from the strace log and only achieved points count",
			"sequential histories: the recovered state must equal model(acked) or model(acked + the one operation in flight); concurrent workloads are built so that operations of different workers commute (disjoint devices, report slots valid before and after the round's rotation), except the device list of a week archived in the same round as an authorization/ban, which is compared up to those devices",
			"the inspector restarts the server at a protocol clock at which no catch-up rotation is due (rotation and impact jobs gated); catch-up on restart is C04's subject",
			"victim and inspector are separate processes of this binary built from /repo with tags test verif; the driver never hosts the server",
		},
		Plan:  plan,
		Child: child,
		Post:  post,
	})
}

func post(c *ev.Check, outs []*run.Outcome) {
	if os.Getenv("VERIF_REPLAY") != "" {
		return // a replay re-runs the one batch of a witness; the coverage floors below are for full runs
	}
	type req struct {
		name     string
		quick, t int64
	}
	for _, q := range []req{
		{"achieved_syscall_kills", 30, 600},
		{"boundary_kills", 30, 300},
		{"random_kills", 15, 600},
		{"rotation_aimed_kills", 12, 200},
		{"disk.server_keys_empty", 1, 3},
		{"disk.gcapubkey_empty", 1, 3},
		{"restart_ok", 80, 1500},
		{"recovered.is_prefix", 80, 1500},
		{"recovered.equals_files", 80, 1500},
		{"recovered.inflight_applied", 3, 30},
		{"recovered.inflight_absent", 3, 30},
		{"recovered.with_live_reports", 10, 100},
		{"recovered.with_archive", 5, 50},
		{"recovered.with_bans", 5, 50},
		{"random.inflight_nonempty", 1, 20},
		{"probes_all_ok", 80, 1500},
		{"probe.fresh_registration_accepted", 3, 30},
		{"probe.second_registration_rejected", 30, 300},
		{"second_restart_same", 80, 1500},
		{"archive_file_equals_memory", 80, 1500},
		{"third_restart_same", 80, 1500},
		{"scale.cases", 30, 100},
		{"max.reports_file_records", 1100, 1100},
		{"max.auth_file_records", 443, 443},
		{"max.stats_file_bytes", 4 << 20, 4 << 20},
		{"rotation_visible_and_recovered", 5, 100},
	} {
		min := q.quick
		if c.Tier == "thorough" {
			min = q.t
		}
		c.Require(q.name, min)
	}
	for _, k := range []string{"start", "register", "auth", "report", "rotate", "restart"} {
		c.Require("achieved."+k, 1)
	}
	c.Require("sigcut.recovered", 1)
	if n := c.Counter("cases_abandoned_by_watchdog"); n > 2 {
		c.Inconc(fmt.Sprintf("%d crash cases were abandoned by their wall-clock watchdog", n))
	}
	if n := c.Counter("victim.abandoned_rotation_wait"); n > 3 {
		c.Inconc(fmt.Sprintf("%d cases were abandoned because the victim's rotation job did not come round", n))
	}
	if c.Counter("prodwt.no_network_namespace") == 0 {
		c.Require("prodwt.crash.recovered", 1)
	}
	c.Require("ops.migrate_acked", 3)
	c.Require("ops.storm_auth_acked", 3)
}

// ---------------------------------------------------------------- plan

func plan(tier string, seed int64) []run.Batch {
	var bs []run.Batch
	add := func(kind string, s int64, p map[string]string) {
		bs = append(bs, run.Batch{Kind: kind, Seed: s, TimeoutS: 900, Params: p})
	}
	nh, sysSlices, bndHist, bndSlices, rndBatches, rndKills := 3, 4, 2, 2, 2, 10
	if tier == "thorough" {
		nh, sysSlices, bndHist, bndSlices, rndBatches, rndKills = 30, 3, 30, 1, 25, 40
	}
	add("sigcut", seed*1000+777, nil)
	add("prodcrash", seed*1000+778, nil)
	bs[len(bs)-1].N = 3
	if tier == "thorough" {
		for i := 0; i < 5; i++ {
			add("prodcrash", seed*1000+779+int64(i), nil)
			bs[len(bs)-1].N = 6
		}
	}
	for h := 0; h < nh; h++ {
		for k := 0; k < sysSlices; k++ {
			add("sys", seed*1000+int64(h), map[string]string{"h": fmt.Sprint(h), "slice": fmt.Sprint(k), "of": fmt.Sprint(sysSlices)})
		}
	}
	for h := 0; h < bndHist; h++ {
		for k := 0; k < bndSlices; k++ {
			add("boundary", seed*1000+int64(h), map[string]string{"h": fmt.Sprint(h), "slice": fmt.Sprint(k), "of": fmt.Sprint(bndSlices)})
		}
	}
	for i := 0; i < rndBatches; i++ {
		add("random", seed*1000+500+int64(i), map[string]string{"kills": fmt.Sprint(rndKills)})
	}
	type ep struct {
		kind string
		of   int
	}
	eps := []ep{{"reports", 4}, {"auths", 2}, {"weeks", 3}}
	nEps := 1
	if tier == "thorough" {
		nEps = 3
	}
	for e := 0; e < nEps; e++ {
		for _, x := range eps {
			for k := 0; k < x.of; k++ {
				add("scale", seed*1000+900+int64(e), map[string]string{"kind": x.kind, "slice": fmt.Sprint(k), "of": fmt.Sprint(x.of)})
			}
		}
	}
	rotBatches, rotKills := 2, 12
	if tier == "thorough" {
		rotBatches, rotKills = 10, 40
	}
	for i := 0; i < rotBatches; i++ {
		add("rotkill", seed*1000+800+int64(i), map[string]string{"kills": fmt.Sprint(rotKills)})
	}
	return bs
}

// ---------------------------------------------------------------- generators

type gen struct {
	rng  *rand.Rand
	sc   *Script
	m    *mstate
	keys map[uint32]refenc.Key
	n    int
	next uint32
	tame bool // plain coordinates only
	nloc int
}

func newGen(name string, seed int64) *gen {
	rng := rand.New(rand.NewSource(seed))
	sc := &Script{Name: name, Seed: seed, Temp: refenc.GenKey(rng), GCA: refenc.GenKey(rng), Alt: refenc.GenKey(rng), PauseBefore: -1, PauseAfter: -1, StopBefore: -1, KillInOp: -1}
	for i := range sc.Probe {
		sc.Probe[i] = refenc.GenKey(rng)
	}
	return &gen{rng: rng, sc: sc, m: newState(sc.Temp.Pub), keys: map[uint32]refenc.Key{}, next: 10 + uint32(rng.Intn(90))}
}

// mk numbers the op and applies it to the generator's model.
func (g *gen) mk(kind, tag string, payload []byte, v uint32, round int) Op {
	op := Op{I: g.n, K: kind, Hex: hex.EncodeToString(payload), V: v, Round: round, Tag: tag}
	g.n++
	g.m.apply(op)
	return op
}

func (g *gen) seq(kind, tag string, payload []byte, v uint32) {
	g.sc.Ops = append(g.sc.Ops, g.mk(kind, tag, payload, v, -1))
}

func regBytes(key [32]byte, signer [32]byte) []byte {
	r := refenc.Registration{GCAKey: key}
	r.Sig = refenc.Sign(signer, r.SigningBytes())
	return append(append([]byte(nil), key[:]...), r.Sig[:]...)
}

func (g *gen) newAuth(capacity uint64, signer refenc.Key) refenc.Auth {
	id := g.next
	g.next += 1 + uint32(g.rng.Intn(40))
	k := refenc.GenKey(g.rng)
	g.keys[id] = k
	lat, long := g.location()
	return refenc.Auth{ID: id, Pub: k.Pub, Lat: lat, Long: long, Capacity: capacity,
		Debt: uint64(g.rng.Intn(1000)), Expiration: 100000 + uint32(g.rng.Intn(1000)), Initialization: uint32(g.rng.Intn(100)), Fee: uint64(g.rng.Intn(100000))}.Signed(signer.Priv)
}

// location draws the coordinates of an authorization. The endpoint takes any
// float64 JSON can carry (no NaN/Inf), so besides plain points on the globe the
// histories hold swapped pairs, out-of-range, huge, signed-zero and subnormal
// values. Workloads that run the impact job ungated (its test-mode fake value
// is computed from the coordinates) keep plain coordinates.
func (g *gen) location() (float64, float64) {
	plainLat, plainLong := float64(g.rng.Intn(120)-60), float64(g.rng.Intn(300)-150)
	if g.tame {
		return plainLat, plainLong
	}
	sign := func() float64 {
		if g.rng.Intn(2) == 0 {
			return -1
		}
		return 1
	}
	g.nloc++
	k := g.rng.Intn(12)
	if g.nloc <= 3 { // the first three devices of every history: swapped pair, latitude out of range, longitude out of range
		k = g.nloc + 2
	}
	switch k {
	case 0, 1, 2:
		return plainLat + g.rng.Float64(), plainLong + g.rng.Float64()
	case 3: // latitude and longitude in the wrong order (e.g. -122.42, 37.77)
		return sign() * (95 + 80*g.rng.Float64()), sign() * 85 * g.rng.Float64()
	case 4:
		return sign() * (90.000001 + 89*g.rng.Float64()), plainLong
	case 5:
		return plainLat, sign() * (180.000001 + 179*g.rng.Float64())
	case 6:
		return sign() * 1e6, sign() * 1e6
	case 7:
		return math.Copysign(0, sign()), math.Copysign(0, sign())
	case 8:
		return sign() * 5e-324, sign() * 2.2250738585072009e-308
	case 9:
		return sign() * math.MaxFloat64, sign() * math.MaxFloat64
	case 10:
		return sign() * 90, sign() * 180
	default:
		return sign() * 360 * g.rng.Float64(), sign() * 720 * g.rng.Float64()
	}
}

// seqStormAuth appends an authorization that the victim posts concurrently
// with the operation before it (a registration).
func (g *gen) seqStormAuth(capacity uint64) {
	op := g.mk("auth", "auth.storm", g.newAuth(capacity, g.sc.GCA).Bytes(), 0, -1)
	op.Storm = true
	g.sc.Ops = append(g.sc.Ops, op)
}

// seqMigrate appends a valid migration order for a live device (signed by the
// GCA, one new server signed by the new GCA).
func (g *gen) seqMigrate() {
	ids := g.liveIDs()
	if len(ids) == 0 {
		return
	}
	sc := g.sc
	srv := refenc.AuthServer{Pub: refenc.GenKey(g.rng).Pub, Location: fmt.Sprintf("host%d.example", g.rng.Intn(1000)), HTTP: uint16(1024 + g.rng.Intn(60000)), TCP: uint16(1024 + g.rng.Intn(60000)), UDP: uint16(1024 + g.rng.Intn(60000))}.Signed(sc.Alt.Priv)
	m := refenc.Migration{Equipment: g.m.Eq[ids[g.rng.Intn(len(ids))]].Pub, NewGCA: sc.Alt.Pub, NewID: uint32(g.rng.Intn(1 << 20)), Servers: []refenc.AuthServer{srv}}.Signed(sc.GCA.Priv)
	g.seq("migrate", "migrate", m.JSON(), 0)
}

func (g *gen) liveIDs() []uint32 {
	var l []uint32
	for id := range g.m.Slots {
		l = append(l, id)
	}
	sort.Slice(l, func(i, j int) bool { return l[i] < l[j] })
	return l
}

func (g *gen) bannedIDs() []uint32 {
	var l []uint32
	for id := range g.m.Bans {
		l = append(l, id)
	}
	sort.Slice(l, func(i, j int) bool { return l[i] < l[j] })
	return l
}

// window of slots acceptable right now
func (g *gen) window() (lo, hi int64) {
	lo, hi = int64(g.m.Now)-432, int64(g.m.Now)+432
	if lo < int64(g.m.Offset) {
		lo = int64(g.m.Offset)
	}
	if hi > int64(g.m.Offset)+4031 {
		hi = int64(g.m.Offset) + 4031
	}
	return
}

func (g *gen) report(id uint32, slot uint32, power uint64) []byte {
	return refenc.Report{ID: id, Slot: slot, Power: power}.Signed(g.keys[id].Priv).Bytes()
}

// freshSlot picks an empty acceptable slot of a live device among ids.
func (g *gen) freshSlot(ids []uint32) (uint32, uint32, bool) {
	lo, hi := g.window()
	if len(ids) == 0 || lo > hi {
		return 0, 0, false
	}
	for try := 0; try < 20; try++ {
		id := ids[g.rng.Intn(len(ids))]
		s := uint32(lo + g.rng.Int63n(hi-lo+1))
		if g.m.Slots[id][s-g.m.Offset].St == stEmpty {
			return id, s, true
		}
	}
	return 0, 0, false
}

// heldSlot picks an acceptable slot that holds a report.
func (g *gen) heldSlot(ids []uint32) (uint32, uint32, bool) {
	lo, hi := g.window()
	type ds struct{ id, s uint32 }
	var l []ds
	for _, id := range ids {
		for s := lo; s <= hi; s++ {
			if g.m.Slots[id][uint32(s)-g.m.Offset].St == stReport {
				l = append(l, ds{id, uint32(s)})
			}
		}
	}
	if len(l) == 0 {
		return 0, 0, false
	}
	p := l[g.rng.Intn(len(l))]
	return p.id, p.s, true
}

// reportOp generates one report of the given class for devices ids.
func (g *gen) reportOp(class string, ids []uint32, round int) (Op, bool) {
	switch class {
	case "replay", "equiv":
		id, s, ok := g.heldSlot(ids)
		if !ok {
			return g.reportOp("fresh", ids, round)
		}
		rec := g.m.Slots[id][s-g.m.Offset].Rec
		if class == "replay" {
			return g.mk("report", "report.replay", rec.Bytes(), 0, round), true
		}
		return g.mk("report", "report.equiv", g.report(id, s, rec.Power+1+uint64(g.rng.Intn(50))), 0, round), true
	case "banneddev":
		b := g.bannedIDs()
		if len(b) == 0 {
			return Op{}, false
		}
		return g.mk("report", "report.banneddev", g.report(b[g.rng.Intn(len(b))], g.m.Now, 777), 0, round), true
	case "stale":
		if len(ids) == 0 || g.m.Now < 500 {
			return Op{}, false
		}
		return g.mk("report", "report.stale", g.report(ids[g.rng.Intn(len(ids))], g.m.Now-500, 888), 0, round), true
	}
	id, s, ok := g.freshSlot(ids)
	if !ok {
		return Op{}, false
	}
	capacity := g.m.Eq[id].Capacity
	var p uint64
	switch class {
	case "overcap":
		p = capacity*135/100 + 1 + uint64(g.rng.Intn(1000))
	case "negative":
		p = uint64(1<<64 - 1 - uint64(g.rng.Intn(5000)))
	default:
		class = "fresh"
		p = 2 + uint64(g.rng.Int63n(int64(capacity)))
	}
	return g.mk("report", "report."+class, g.report(id, s, p), 0, round), true
}

func (g *gen) seqReport(class string) {
	if op, ok := g.reportOp(class, g.liveIDs(), -1); ok {
		g.sc.Ops = append(g.sc.Ops, op)
	}
}

func (g *gen) seqConflict(byKey bool) {
	ids := g.liveIDs()
	if len(ids) == 0 {
		return
	}
	a := g.m.Eq[ids[g.rng.Intn(len(ids))]]
	tag := "auth.conflict.debt"
	if byKey {
		a.Pub = refenc.GenKey(g.rng).Pub
		tag = "auth.conflict.key"
	} else {
		a.Debt++
	}
	g.seq("auth", tag, a.Signed(g.sc.GCA.Priv).Bytes(), 0)
}

func (g *gen) seqRotate() {
	g.seq("clock", "clock.rotation_due", nil, g.m.Offset+3201+uint32(g.rng.Intn(400)))
	g.seq("rotate", "rotate", nil, 0)
}

// genSeq builds a sequential history. h == 0 is the scripted one that holds
// every operation kind in a fixed layout; the others are random.
func genSeq(h int, seed int64) *Script {
	g := newGen(fmt.Sprintf("hist-%d-%d", seed, h), seed)
	sc := g.sc
	capacity := func() uint64 { return uint64(50000 + g.rng.Intn(150000)) }
	g.seq("start", "start.first", nil, 0)
	if h == 0 {
		g.seq("register", "register", regBytes(sc.GCA.Pub, sc.Temp.Priv), 0)
		g.seqStormAuth(capacity())
		g.seq("auth", "auth.new", g.newAuth(capacity(), sc.GCA).Bytes(), 0)
		g.seqMigrate()
		g.seq("clock", "clock", nil, 150)
		g.seqReport("fresh")
		g.seqReport("equiv")
		g.seqReport("fresh")
		g.seqReport("overcap")
		c := g.newAuth(capacity(), sc.GCA)
		g.seq("auth", "auth.new", c.Bytes(), 0)
		if op, ok := g.reportOp("fresh", []uint32{c.ID}, -1); ok {
			sc.Ops = append(sc.Ops, op)
		}
		c.Debt++
		g.seq("auth", "auth.conflict.debt", c.Signed(sc.GCA.Priv).Bytes(), 0)
		g.seq("register", "register.same", regBytes(sc.GCA.Pub, sc.Temp.Priv), 0)
		g.seq("register", "register.other", regBytes(sc.Alt.Pub, sc.Temp.Priv), 0)
		g.seqMigrate()
		g.seq("clock", "clock", nil, 3000)
		g.seqReport("fresh")
		g.seqReport("fresh")
		g.seqRotate()
		g.seq("restart", "restart", nil, 0)
		g.seqReport("fresh")
		g.seqReport("replay")
		g.seqRotate()
		g.seq("auth", "auth.new", g.newAuth(capacity(), sc.GCA).Bytes(), 0)
		g.seqReport("fresh")
		g.seq("restart", "restart", nil, 0)
		return sc
	}
	if g.rng.Intn(3) == 0 {
		g.seq("auth", "auth.early", g.newAuth(capacity(), sc.GCA).Bytes(), 0)
	}
	if g.rng.Intn(3) == 0 {
		g.seq("register", "register.badsig", regBytes(sc.GCA.Pub, sc.Alt.Priv), 0)
	}
	g.seq("register", "register", regBytes(sc.GCA.Pub, sc.Temp.Priv), 0)
	g.seqStormAuth(capacity())
	if g.rng.Intn(3) == 0 {
		g.seq("register", "register.again", regBytes(sc.Alt.Pub, sc.Temp.Priv), 0)
	}
	g.seq("auth", "auth.new", g.newAuth(capacity(), sc.GCA).Bytes(), 0)
	g.seq("clock", "clock", nil, uint32(g.rng.Intn(300)))
	type choice struct {
		name string
		w    int
	}
	choices := []choice{{"report.fresh", 30}, {"report.replay", 5}, {"report.equiv", 8}, {"report.overcap", 5}, {"report.negative", 3}, {"report.banneddev", 3}, {"report.stale", 2},
		{"auth.new", 8}, {"auth.dup", 3}, {"auth.conflict.debt", 5}, {"auth.conflict.key", 3}, {"auth.badsig", 2}, {"clock", 6}, {"rotate", 7}, {"restart", 6}, {"register.same", 4}, {"register.other", 2}, {"migrate", 4}}
	total := 0
	for _, c := range choices {
		total += c.w
	}
	steps := 12 + g.rng.Intn(8)
	did := map[string]bool{}
	for s := 0; s < steps; s++ {
		x := g.rng.Intn(total)
		name := ""
		for _, c := range choices {
			if x < c.w {
				name = c.name
				break
			}
			x -= c.w
		}
		did[name] = true
		switch name {
		case "auth.new":
			g.seq("auth", name, g.newAuth(capacity(), sc.GCA).Bytes(), 0)
		case "auth.dup":
			if ids := g.liveIDs(); len(ids) > 0 {
				g.seq("auth", name, g.m.Eq[ids[g.rng.Intn(len(ids))]].Bytes(), 0)
			}
		case "auth.conflict.debt":
			g.seqConflict(false)
		case "auth.conflict.key":
			g.seqConflict(true)
		case "auth.badsig":
			g.seq("auth", name, g.newAuth(capacity(), sc.Alt).Bytes(), 0)
		case "clock":
			now := g.m.Now + uint32(g.rng.Intn(300))
			if now > g.m.Offset+3600 {
				now = g.m.Offset + 3600
			}
			g.seq("clock", name, nil, now)
		case "rotate":
			g.seqRotate()
		case "restart":
			g.seq("restart", name, nil, 0)
		case "migrate":
			g.seqMigrate()
		case "register.same": // the lockbook repeats its registration (lost response)
			g.seq("register", name, regBytes(sc.GCA.Pub, sc.Temp.Priv), 0)
		case "register.other":
			g.seq("register", name, regBytes(sc.Alt.Pub, sc.Temp.Priv), 0)
		default:
			g.seqReport(strings.TrimPrefix(name, "report."))
		}
	}
	if !did["auth.conflict.debt"] && !did["auth.conflict.key"] {
		g.seqConflict(false)
	}
	if !did["rotate"] {
		g.seqRotate()
		g.seqReport("fresh")
	}
	if !did["migrate"] {
		g.seqMigrate()
	}
	if !did["register.same"] {
		g.seq("register", "register.same", regBytes(sc.GCA.Pub, sc.Temp.Priv), 0)
	}
	if !did["restart"] {
		g.seq("restart", "restart", nil, 0)
	}
	return sc
}

// genConc builds a concurrent workload: a sequential prelude, then rounds in
// which four workers run at once (two reporters on their own devices, one
// that authorizes/reports/bans its own devices, one that performs the round's
// rotation after a random pause). Within a round the clock is constant and
// every report slot lies in the half of the window that is valid before and
// after the rotation, so operations of different workers commute.
func genConc(seed int64, rounds int) *Script {
	g := newGen(fmt.Sprintf("conc-%d", seed), seed)
	g.tame = true // the impact job runs ungated in this workload
	sc := g.sc
	capacity := func() uint64 { return uint64(50000 + g.rng.Intn(150000)) }
	g.seq("start", "start.first", nil, 0)
	g.seq("register", "register", regBytes(sc.GCA.Pub, sc.Temp.Priv), 0)
	var own [2][]uint32
	for w := 0; w < 2; w++ {
		for k := 0; k < 2; k++ {
			a := g.newAuth(capacity(), sc.GCA)
			g.seq("auth", "auth.new", a.Bytes(), 0)
			own[w] = append(own[w], a.ID)
		}
	}
	var w3live []uint32
	classes := []string{"fresh", "fresh", "fresh", "fresh", "fresh", "replay", "equiv", "overcap", "negative"}
	for r := 0; r < rounds; r++ {
		var rd Round
		rd.Pre = append(rd.Pre, g.mk("clock", "clock.round", nil, uint32(2016*r+3201+g.rng.Intn(200)), r))
		for w := 0; w < 2; w++ {
			var ops []Op
			for k := 0; k < 10+g.rng.Intn(6); k++ {
				if op, ok := g.reportOp(classes[g.rng.Intn(len(classes))], own[w], r); ok {
					ops = append(ops, op)
				}
			}
			rd.Workers = append(rd.Workers, ops)
		}
		// worker 3: its own devices
		var ops []Op
		if len(w3live) > 0 && g.rng.Intn(2) == 0 { // ban a device that has history
			id := w3live[0]
			w3live = w3live[1:]
			a := g.m.Eq[id]
			a.Debt++
			ops = append(ops, g.mk("auth", "auth.conflict.debt", a.Signed(sc.GCA.Priv).Bytes(), 0, r))
			if op, ok := g.reportOp("banneddev", nil, r); ok {
				ops = append(ops, op)
			}
		}
		e := g.newAuth(capacity(), sc.GCA)
		ops = append(ops, g.mk("auth", "auth.new", e.Bytes(), 0, r))
		w3live = append(w3live, e.ID)
		for k := 0; k < 3; k++ {
			if op, ok := g.reportOp("fresh", []uint32{e.ID}, r); ok {
				ops = append(ops, op)
			}
		}
		f := g.newAuth(capacity(), sc.GCA)
		ops = append(ops, g.mk("auth", "auth.new", f.Bytes(), 0, r))
		if op, ok := g.reportOp("fresh", []uint32{f.ID}, r); ok {
			ops = append(ops, op)
		}
		f.Debt++
		ops = append(ops, g.mk("auth", "auth.conflict.debt", f.Signed(sc.GCA.Priv).Bytes(), 0, r))
		ops = append(ops, g.mk("report", "report.banneddev", g.report(f.ID, g.m.Now, 999), 0, r))
		for k := 0; k < 2; k++ {
			if op, ok := g.reportOp("fresh", w3live, r); ok {
				ops = append(ops, op)
			}
		}
		rd.Workers = append(rd.Workers, ops)
		// worker 4: the rotation
		rot := g.mk("rotate", "rotate", nil, 0, r)
		rot.SleepUs = g.rng.Intn(4000)
		rd.Workers = append(rd.Workers, []Op{rot})
		sc.Rounds = append(sc.Rounds, rd)
	}
	return sc
}

// genRot builds a sequential history whose rotations archive many devices, so
// that the statistics record is hundreds of kilobytes and its write(2) takes
// long enough for a random-instant kill to land inside it.
func genRot(seed int64) (*Script, []int) {
	g := newGen(fmt.Sprintf("rot-%d", seed), seed)
	sc := g.sc
	g.seq("start", "start.first", nil, 0)
	g.seq("register", "register", regBytes(sc.GCA.Pub, sc.Temp.Priv), 0)
	for i := 0; i < 12+g.rng.Intn(8); i++ {
		g.seq("auth", "auth.new", g.newAuth(uint64(50000+g.rng.Intn(150000)), sc.GCA).Bytes(), 0)
	}
	// four rotations whose records differ in size (devices join and get banned
	// in between), so that a torn record can follow several whole ones
	var rots []int
	for k := 0; k < 4; k++ {
		g.seq("clock", "clock", nil, g.m.Offset+100+uint32(g.rng.Intn(200)))
		for i := 0; i < 5; i++ {
			g.seqReport([]string{"fresh", "fresh", "equiv", "overcap"}[g.rng.Intn(4)])
		}
		g.seqRotate()
		rots = append(rots, g.n-1)
		for i := 0; i < 1+g.rng.Intn(3); i++ {
			g.seq("auth", "auth.new", g.newAuth(uint64(50000+g.rng.Intn(150000)), sc.GCA).Bytes(), 0)
		}
		if g.rng.Intn(3) == 0 {
			g.seqConflict(false)
		}
	}
	g.seqReport("fresh")
	return sc, rots
}

// genScale builds a sequential history at a scale at which bounded in-memory
// lists and fixed-size read buffers matter. kind "reports": more than 1000
// accepted reports that stay in the window across a rotation (reports file
// well beyond 64 KiB); "auths": more than 442 authorization records (most ids
// banned right away, so few devices are live); "weeks": a history file beyond
// 4 MiB (about a dozen devices, 14 archived weeks). marks are the operations
// after which an operation-boundary kill is placed, cenFrom is the operation at
// which the traced census (and with it the system-call kills) begins, rots are
// rotations for the kill aimed inside the record write.
func genScale(kind string, seed int64) (sc *Script, marks []int, cenFrom int, rots []int) {
	g := newGen(fmt.Sprintf("scale-%s-%d", kind, seed), seed)
	sc = g.sc
	capacity := func() uint64 { return uint64(50000 + g.rng.Intn(150000)) }
	mark := func() { marks = append(marks, g.n-1) }
	g.seq("start", "start.first", nil, 0)
	g.seq("register", "register", regBytes(sc.GCA.Pub, sc.Temp.Priv), 0)
	switch kind {
	case "reports":
		for i := 0; i < 6; i++ {
			g.seq("auth", "auth.new", g.newAuth(capacity(), sc.GCA).Bytes(), 0)
		}
		g.seq("clock", "clock", nil, 300)
		for i := 0; i < 60; i++ {
			g.seqReport("fresh")
		}
		g.seq("clock", "clock", nil, 3000)
		n := 1100 + g.rng.Intn(700)
		for i := 0; i < n; i++ {
			switch x := g.rng.Intn(100); {
			case x < 2:
				g.seqReport("equiv")
			case x < 4:
				g.seqReport("replay")
			case x < 5:
				g.seqReport("overcap")
			default:
				g.seqReport("fresh")
			}
			if i == 450+int(seed%300) || i == 830+int(seed%150) {
				mark()
			}
		}
		mark()
		cenFrom = g.n + 1 // the rotate op (after its clock op)
		g.seqRotate()
		mark()
		for i := 0; i < 5; i++ {
			g.seqReport("fresh")
		}
		g.seq("restart", "restart", nil, 0)
		mark()
		for i := 0; i < 5; i++ {
			g.seqReport("fresh")
		}
		g.seqRotate()
		g.seqReport("fresh")
	case "auths":
		for i := 0; i < 5; i++ {
			g.seq("auth", "auth.new", g.newAuth(capacity(), sc.GCA).Bytes(), 0)
		}
		g.seq("clock", "clock", nil, 200)
		pairs := 222 + g.rng.Intn(40)
		for i := 0; i < pairs; i++ {
			a := g.newAuth(capacity(), sc.GCA)
			g.seq("auth", "auth.new", a.Bytes(), 0)
			if g.rng.Intn(4) == 0 {
				if op, ok := g.reportOp("fresh", []uint32{a.ID}, -1); ok {
					sc.Ops = append(sc.Ops, op)
				}
			}
			a.Debt++
			g.seq("auth", "auth.conflict.debt", a.Signed(sc.GCA.Priv).Bytes(), 0)
			if rec := 5 + 2*(i+1); rec == 441 || rec == 443 || rec == 445 {
				mark()
			}
			if g.rng.Intn(10) == 0 {
				g.seqReport("fresh")
			}
		}
		mark()
		cenFrom = g.n + 1
		g.seqRotate()
		mark()
		g.seq("restart", "restart", nil, 0)
		mark()
		g.seq("auth", "auth.new", g.newAuth(capacity(), sc.GCA).Bytes(), 0)
		g.seqReport("fresh")
		g.seqConflict(false)
	case "weeks":
		for i := 0; i < 10+g.rng.Intn(3); i++ {
			g.seq("auth", "auth.new", g.newAuth(capacity(), sc.GCA).Bytes(), 0)
		}
		for w := 0; w < 14; w++ {
			g.seq("clock", "clock", nil, g.m.Offset+100+uint32(g.rng.Intn(200)))
			for i := 0; i < 5; i++ {
				g.seqReport([]string{"fresh", "fresh", "fresh", "equiv", "overcap"}[g.rng.Intn(5)])
			}
			if w == 13 {
				cenFrom = g.n + 1
			}
			g.seqRotate()
			if w >= 12 {
				rots = append(rots, g.n-1)
				mark()
			}
			if w%4 == 2 {
				g.seq("auth", "auth.new", g.newAuth(capacity(), sc.GCA).Bytes(), 0)
			}
			if w == 7 {
				g.seq("restart", "restart", nil, 0)
				mark()
			}
		}
		g.seqReport("fresh")
		g.seq("restart", "restart", nil, 0)
	}
	return
}

// ---------------------------------------------------------------- driver

type driver struct {
	b   run.Batch
	r   *ev.Result
	exe string
	n   int
}

type caseSpec struct {
	Mode  string // census, sys, boundary, random
	Sc    *Script
	OpI   int
	Kind  string
	File  string
	Sys   string
	N     int
	Delay time.Duration
	Procs int
	Judge bool
}

type point struct {
	Op      int    `json:"op"`
	Kind    string `json:"kind"`
	File    string `json:"file"`
	Sys     string `json:"sys"`
	Ordinal int    `json:"ordinal"`
	Line    string `json:"line"`
}

type caseOut struct {
	Oracle   bool
	Achieved *point
	Census   map[int][]sevent
	GoToDone time.Duration
}

type sevent struct {
	Tid    int
	Sys    string
	Path   string
	Ret    string
	Raw    string
	Marker string
}

var (
	lineRe   = regexp.MustCompile(`^(\d+)\s+(\w+)\((.*)$`)
	openatRe = regexp.MustCompile(`^[^,]*, "([^"]*)"`)
	quotedRe = regexp.MustCompile(`"((?:[^"\\]|\\.)*)"`)
	fdPathRe = regexp.MustCompile(`^\d+<([^>]*)>`)
)

const traceSet = "openat,write,pwrite64,writev,close,rename,renameat,renameat2,unlink,unlinkat,ftruncate,fsync,fdatasync"

func parseStrace(path string) []sevent {
	f, err := os.Open(path)
	if err != nil {
		return nil
	}
	defer f.Close()
	var out []sevent
	sc := bufio.NewScanner(f)
	sc.Buffer(make([]byte, 1<<20), 1<<24)
	for sc.Scan() {
		ln := sc.Text()
		m := lineRe.FindStringSubmatch(ln)
		if m == nil {
			continue // resumed lines, exits, signals
		}
		e := sevent{Sys: m[2], Raw: ln}
		e.Tid, _ = strconv.Atoi(m[1])
		rest := m[3]
		switch e.Sys {
		case "openat":
			if q := openatRe.FindStringSubmatch(rest); q != nil {
				e.Path = q[1]
			}
		case "rename", "renameat", "renameat2", "unlink", "unlinkat":
			if q := quotedRe.FindStringSubmatch(rest); q != nil {
				e.Path = q[1]
			}
		default:
			if q := fdPathRe.FindStringSubmatch(rest); q != nil {
				e.Path = q[1]
			}
			if e.Sys == "write" {
				if q := quotedRe.FindStringSubmatch(rest); q != nil && (strings.HasPrefix(q[1], "BEGIN ") || strings.HasPrefix(q[1], "END ")) {
					e.Marker = strings.TrimSuffix(q[1], `\n`)
				}
			}
		}
		if i := strings.LastIndex(ln, " = "); i >= 0 {
			e.Ret = strings.TrimSpace(ln[i+3:])
		} else if strings.Contains(ln, "<unfinished") {
			e.Ret = "unfinished"
		}
		out = append(out, e)
	}
	return out
}

func (d *driver) prepareDir(srv string, sc *Script) error {
	if err := os.MkdirAll(filepath.Join(srv, "watttime_data"), 0755); err != nil {
		return err
	}
	if err := os.WriteFile(filepath.Join(srv, "gcaTempPubKey.dat"), sc.Temp.Pub[:], 0644); err != nil {
		return err
	}
	os.WriteFile(filepath.Join(srv, "watttime_data", "username"), []byte("hi"), 0644)
	return os.WriteFile(filepath.Join(srv, "watttime_data", "password"), []byte("ih"), 0644)
}

func tailOf(path string, n int) []string {
	b, _ := os.ReadFile(path)
	l := strings.Split(strings.TrimRight(string(b), "\n"), "\n")
	if len(l) > n {
		l = l[len(l)-n:]
	}
	return l
}

func headOf(path string, n int) string {
	b, _ := os.ReadFile(path)
	if len(b) > n {
		b = b[:n]
	}
	return string(b)
}

// runCase delivers one crash and judges the directory it leaves.
func (d *driver) runCase(cs caseSpec) (co caseOut) {
	r := d.r
	caseDir := filepath.Join(d.b.Dir, fmt.Sprintf("case%05d", d.n))
	d.n++
	srv := filepath.Join(caseDir, "srv")
	if os.Getenv("C05_KEEP") == "" {
		defer os.RemoveAll(caseDir)
	}
	if err := d.prepareDir(srv, cs.Sc); err != nil {
		r.Inconc("cannot prepare case directory: " + err.Error())
		return
	}
	scriptPath := filepath.Join(caseDir, "script.json")
	raw, _ := json.Marshal(cs.Sc)
	os.WriteFile(scriptPath, raw, 0644)
	oplogPath := filepath.Join(caseDir, "oplog")
	run.Op("case %d mode=%s script=%s op=%d kind=%s file=%s sys=%s when=%d delay=%v", d.n-1, cs.Mode, cs.Sc.Name, cs.OpI, cs.Kind, cs.File, cs.Sys, cs.N, cs.Delay)

	procs := cs.Procs
	if procs == 0 {
		procs = 1
	}
	cmd := exec.Command(d.exe, "victim", srv, scriptPath)
	cmd.Env = append(os.Environ(), fmt.Sprintf("GOMAXPROCS=%d", procs), "GOTRACEBACK=all")
	cmd.Dir = caseDir
	stdout, err := cmd.StdoutPipe()
	if err != nil {
		r.Inconc("pipe: " + err.Error())
		return
	}
	vstderr, _ := os.Create(filepath.Join(caseDir, "victim.stderr"))
	defer vstderr.Close()
	cmd.Stderr = vstderr
	if err := cmd.Start(); err != nil {
		r.Inconc("cannot start victim: " + err.Error())
		return
	}
	lines := make(chan string, 1<<16)
	go func() {
		sc := bufio.NewScanner(stdout)
		sc.Buffer(make([]byte, 1<<16), 1<<20)
		for sc.Scan() {
			lines <- sc.Text()
		}
		close(lines)
	}()
	// waitFor returns "ok", "closed" (victim gone) or "timeout".
	waitFor := func(pred func(string) bool, timeout time.Duration) (string, string) {
		t := time.After(timeout)
		for {
			select {
			case ln, ok := <-lines:
				if !ok {
					return "", "closed"
				}
				if pred(ln) {
					return ln, "ok"
				}
			case <-t:
				return "", "timeout"
			}
		}
	}
	sentKill := false
	kill := func() {
		sentKill = true
		cmd.Process.Signal(syscall.SIGKILL)
	}
	var strace *exec.Cmd
	straceLog := filepath.Join(caseDir, "strace.log")
	watchdog := func(what string) {
		kill()
		r.Count("watchdog."+what, 1)
		// one case abandoned by its wall-clock watchdog decides nothing about the other cases; the
		// run as a whole is inconclusive only if it happens more than twice (post) or a floor is missed
		r.Count("cases_abandoned_by_watchdog", 1)
		r.Note("wall-clock watchdog: %s (case mode=%s op=%d): case abandoned", what, cs.Mode, cs.OpI)
	}
	attachFailed := false
	goAt, doneAt := time.Time{}, time.Time{}

	switch cs.Mode {
	case "sys", "census":
		ln, st := waitFor(func(s string) bool { return strings.HasPrefix(s, "READY ") }, 40*time.Second)
		if st != "ok" {
			if st == "timeout" {
				watchdog("victim did not reach the pause point")
			}
			break
		}
		var pid, opi int
		fmt.Sscanf(ln, "READY %d %d", &pid, &opi)
		args := []string{"-f", "-qq", "-o", straceLog, "-e", "trace=" + traceSet, "-e", "signal=none"}
		if cs.Mode == "sys" {
			args = append(args, "-P", filepath.Join(srv, cs.File), "-e", fmt.Sprintf("inject=%s:signal=KILL:when=%d", cs.Sys, cs.N))
			if (cs.Kind == "rotate" || cs.Kind == "register") && cs.Sys == "write" {
				// Hold the thread for 60 ms on entry of the openat that precedes the aimed
				// write (other threads keep running): if the operation's effect is already
				// visible at that point, the rotation watcher gets to record it and the
				// authorization posted concurrently with a registration gets in.
				args = append(args, "-e", "inject=openat:delay_enter=60000")
			}
		} else {
			args = append(args, "-y")
		}
		args = append(args, "-p", strconv.Itoa(pid))
		strace = exec.Command("/usr/bin/strace", args...)
		serr, _ := os.Create(filepath.Join(caseDir, "strace.stderr"))
		strace.Stderr = serr
		defer serr.Close()
		if err := strace.Start(); err != nil {
			r.Count("strace.start_failed", 1)
			strace = nil
			attachFailed = true
			kill()
			break
		}
		ln, st = waitFor(func(s string) bool { return strings.HasPrefix(s, "PAUSE ") || s == "NOTRACER" || s == "DONE" }, 50*time.Second)
		switch {
		case st == "timeout":
			watchdog("victim neither died nor finished the aimed operation")
		case st == "ok" && ln == "NOTRACER":
			attachFailed = true
		case st == "ok":
			kill() // the operation completed: what remains is an operation-boundary kill
		}
	case "boundary", "rotkill":
		_, st := waitFor(func(s string) bool { return strings.HasPrefix(s, "PAUSE ") || s == "DONE" }, 50*time.Second)
		if st == "timeout" {
			watchdog("victim did not reach the boundary")
		} else if st == "ok" {
			kill()
		}
	case "random":
		ln, st := waitFor(func(s string) bool { return s == "GO" || strings.HasPrefix(s, "PAUSE ") }, 40*time.Second)
		if st == "timeout" {
			watchdog("victim did not reach the concurrent section")
			break
		}
		if st == "ok" && ln != "GO" {
			kill()
		} else if st == "ok" {
			goAt = time.Now()
			if cs.Delay < 0 { // calibration: run to completion
				_, st = waitFor(func(s string) bool { return s == "DONE" || strings.HasPrefix(s, "PAUSE ") }, 50*time.Second)
				doneAt = time.Now()
				if st == "timeout" {
					watchdog("concurrent workload did not finish")
				} else if st == "ok" {
					kill()
				}
			} else {
				deadline := time.After(cs.Delay)
				finished := false
			wait:
				for {
					select {
					case ln, ok := <-lines:
						if !ok || ln == "DONE" || strings.HasPrefix(ln, "PAUSE ") {
							finished = true
							break wait
						}
					case <-deadline:
						break wait
					}
				}
				if finished {
					r.Count("random.finished_before_kill", 1)
				}
				kill()
			}
		}
	}
	for range lines { // drain until the victim is gone
	}
	cmd.Wait()
	if strace != nil {
		done := make(chan struct{})
		go func() { strace.Wait(); close(done) }()
		select {
		case <-done:
		case <-time.After(10 * time.Second):
			strace.Process.Kill()
			<-done
			r.Count("strace.had_to_be_killed", 1)
		}
	}
	if !doneAt.IsZero() {
		co.GoToDone = doneAt.Sub(goAt)
	}
	if attachFailed {
		r.Count("strace.attach_failed", 1)
		r.Note("strace could not attach: %s", headOf(filepath.Join(caseDir, "strace.stderr"), 200))
		return
	}
	ws, _ := cmd.ProcessState.Sys().(syscall.WaitStatus)
	lg := parseOplog(oplogPath)
	if !(ws.Signaled() && ws.Signal() == syscall.SIGKILL) {
		// the victim ended on its own: no crash was delivered, nothing to judge here
		line := run.CrashLine(headOf(filepath.Join(caseDir, "victim.stderr"), 20000))
		r.Count("victim.ended_on_its_own", 1)
		if line == "" && strings.Contains(lg.Fail, "rotation did not run although it was due") {
			// the victim's own driver gave up waiting for the gated rotation job (a traced process on a
			// loaded machine): the case is abandoned; more than three of them make the run inconclusive (post)
			r.Count("victim.abandoned_rotation_wait", 1)
			r.Note("case abandoned: %s; last ops %v", lg.Fail, lastN(lg.Lines, 3))
			return
		}
		r.Inconc(fmt.Sprintf("victim ended on its own (exit %d, %s %s) before a crash could be delivered; last ops %v", cmd.ProcessState.ExitCode(), lg.Fail, line, lastN(lg.Lines, 3)))
		return
	}

	// what did the crash leave?
	evs := parseStrace(straceLog)
	if cs.Mode == "census" {
		co.Census = censusOf(evs, srv, oplogPath)
	}
	if cs.Mode == "sys" {
		r.Count("aimed_syscall_kills", 1)
		if !sentKill {
			ord := 0
			for _, e := range evs {
				if e.Sys != cs.Sys {
					continue
				}
				ord++
				if e.Ret == "?" || e.Ret == "unfinished" {
					co.Achieved = &point{Op: cs.OpI, Kind: cs.Kind, File: cs.File, Sys: cs.Sys, Ordinal: ord, Line: e.Raw}
				}
			}
		}
		if co.Achieved != nil {
			r.Count("achieved_syscall_kills", 1)
			r.Count("achieved."+cs.Kind, 1)
			r.Count(fmt.Sprintf("achieved.%s.%s.%s", cs.Kind, cs.File, cs.Sys), 1)
			r.Nontrivial(fmt.Sprintf("sys|%s|%d|%s|%s|%d", cs.Sc.Name, cs.OpI, cs.File, cs.Sys, co.Achieved.Ordinal))
		} else {
			r.Count("missed_syscall_kills", 1)
			r.Nontrivial(fmt.Sprintf("bnd|%s|%d", cs.Sc.Name, cs.OpI))
		}
	}
	if !cs.Judge {
		return
	}
	infl := lg.inflight()
	for i, res := range lg.Ended {
		if strings.HasPrefix(res, "err=") {
			r.Count("victim.transport_errors", 1)
			r.Note("transport error in victim (operation %d treated as possibly applied): %s", i, res)
		}
	}
	switch cs.Mode {
	case "boundary", "census":
		r.Count("boundary_kills", 1)
		r.Nontrivial(fmt.Sprintf("bnd|%s|%d", cs.Sc.Name, cs.OpI))
	case "rotkill":
		if sentKill {
			r.Count("rotation_aimed.finished_before_kill", 1)
		} else {
			r.Count("rotation_aimed_kills", 1)
		}
		r.Nontrivial(fmt.Sprintf("rot|%s|%d|%d|%v", cs.Sc.Name, cs.OpI, len(lg.Ended), infl))
	case "random":
		r.Count("random_kills", 1)
		if len(infl) > 0 {
			r.Count("random.inflight_nonempty", 1)
		}
		r.Max("max.random_inflight", int64(len(infl)))
		r.Nontrivial(fmt.Sprintf("rnd|%s|%d|%v", cs.Sc.Name, len(lg.Ended), infl))
	}
	disk := readDisk(srv)
	sizes := disk.sizes()
	if sizes["server.keys"] == 0 {
		r.Count("disk.server_keys_empty", 1)
	}
	if sizes["gcaPubKey.dat"] == 0 {
		r.Count("disk.gcapubkey_empty", 1)
	}
	r.Max("max.reports_file_records", int64(len(disk["equipment-reports.dat"])/80))
	r.Max("max.auth_file_records", int64(len(disk["equipment-authorizations.dat"])/148))
	r.Max("max.stats_file_bytes", int64(len(disk["allDeviceStats.dat"])))
	torn := deriveFromFiles(disk, cs.Sc.Temp.Pub).Torn
	for n := range torn {
		r.Count("disk.torn."+n, 1)
	}
	for _, n := range serverFiles {
		switch {
		case sizes[n] < 0:
			r.Count("disk.absent."+n, 1)
		case sizes[n] == 0:
			r.Count("disk.empty."+n, 1)
		}
	}
	flat := cs.Sc.flat()
	byI := map[int]Op{}
	for _, op := range flat {
		byI[op.I] = op
	}
	for _, i := range infl {
		r.Count("inflight."+byI[i].K, 1)
	}
	mig, storm := false, false
	for i, res := range lg.Ended {
		if op := byI[i]; res == "st=200" {
			mig = mig || op.K == "migrate"
			storm = storm || op.Storm
		}
	}
	if mig {
		r.Count("ops.migrate_acked", 1) // crashes after at least one accepted migration order
	}
	if storm {
		r.Count("ops.storm_auth_acked", 1) // ... after an authorization posted concurrently with the registration
	}

	// the oracle, in a fresh process
	outPath := filepath.Join(caseDir, "inspect.json")
	icmd := exec.Command(d.exe, "inspect", srv, scriptPath, oplogPath, outPath)
	icmd.Env = append(os.Environ(), "GOTRACEBACK=all")
	icmd.Dir = caseDir
	istderrPath := filepath.Join(caseDir, "inspect.stderr")
	istderr, _ := os.Create(istderrPath)
	icmd.Stderr = istderr
	icmd.Stdout = istderr
	timedOut := false
	if err := icmd.Start(); err != nil {
		r.Inconc("cannot start inspector: " + err.Error())
		return
	}
	idone := make(chan struct{})
	go func() { icmd.Wait(); close(idone) }()
	select {
	case <-idone:
	case <-time.After(60 * time.Second):
		timedOut = true
		icmd.Process.Signal(syscall.SIGQUIT)
		select {
		case <-idone:
		case <-time.After(5 * time.Second):
			icmd.Process.Kill()
			<-idone
		}
	}
	istderr.Close()
	co.Oracle = true
	r.Eval(1)
	replay := map[string]interface{}{
		"batch": d.b,
		"case": map[string]interface{}{"mode": cs.Mode, "script": cs.Sc.Name, "script_seed": cs.Sc.Seed, "op": cs.OpI, "kind": cs.Kind, "file": cs.File, "syscall": cs.Sys, "when": cs.N,
			"delay_us": cs.Delay.Microseconds(), "achieved": co.Achieved},
		"files_after_crash": sizes,
		"oplog_tail":        lastN(lg.Lines, 80),
		"in_flight":         infl,
		"strace_tail":       tailOf(straceLog, 8),
	}
	if len(cs.Sc.Rounds) == 0 && len(flat) <= 200 {
		replay["history"] = flat
	} else if len(cs.Sc.Rounds) == 0 {
		kinds := map[string]int{}
		for _, op := range flat {
			kinds[op.Tag]++
		}
		replay["history_summary"] = kinds // regenerate with the batch's seed and parameters
	}
	// A kill that was not placed at a system-call boundary (random-instant
	// injectors) can land inside a write(2): the kernel keeps the pages copied so
	// far. That class of witness gets its own stable key.
	viol := func(key string, format string, a ...interface{}) {
		if cs.Mode == "random" || cs.Mode == "rotkill" {
			writer := map[string]string{"allDeviceStats.dat": "rotate", "equipment-reports.dat": "report", "equipment-authorizations.dat": "auth", "gcaPubKey.dat": "register"}
			for f, why := range torn {
				hit := false
				for _, i := range infl {
					hit = hit || byI[i].K == writer[f]
				}
				if hit {
					replay["torn"] = torn
					replay["original_key"] = key
					// the key names both the torn file and what went wrong on it (no known finding hides behind this class any more)
					r.Violationf("torn-record-after-kill-inside-write:"+f+":"+key, replay, "a SIGKILL landed inside the write(2) that appends a record to %s (%s; in flight: %s): the kernel kept the part already copied, and on the directory with that torn record: %s", f, why, writer[f], fmt.Sprintf(format, a...))
					return
				}
			}
		}
		r.Violationf(key, replay, format, a...)
	}
	out := loadInspOut(outPath)
	stderrHead := headOf(istderrPath, 6000)
	if out == nil {
		stage := lastStage(outPath)
		replay["inspector_stage"] = stage
		replay["inspector_stderr"] = stderrHead
		line := run.CrashLine(headOf(istderrPath, 200000))
		switch {
		case timedOut:
			r.Count("watchdog.inspector", 1)
			r.Inconc(fmt.Sprintf("inspector hit its 60 s wall-clock watchdog at stage %s", stage))
		case line != "":
			key := "inspector-died:" + stage + ":"
			what := "the inspector process died at stage " + stage
			switch stage {
			case "start1":
				key, what = "restart-failed:", "the server could not be started on the directory the crash left: the process died inside NewGCAServer"
			case "start2":
				key, what = "second-restart-failed:", "the second start died"
			case "start2b":
				key, what = "third-restart-failed:", "the third consecutive start died"
			case "start3":
				key, what = "restart-after-probes-failed:", "the start after the probe operations died"
			}
			viol(key+run.Normalize(line), "%s: %s (files after the crash: %v)", what, line, sizes)
		default:
			r.Inconc(fmt.Sprintf("inspector exited with %d at stage %s without a result; stderr: %.300s", icmd.ProcessState.ExitCode(), stage, stderrHead))
		}
		return
	}
	for _, v := range out.Violations {
		viol(v.Key, "%s", v.Desc)
	}
	for k, v := range out.Counters {
		r.Count(k, v)
	}
	for _, s := range out.Inconc {
		r.Inconc(s)
	}
	for _, n := range out.Notes {
		r.Count("inspector_notes", 1)
		if strings.Contains(n, "not a sequence of whole records") || strings.HasPrefix(n, "files:") {
			r.Note("%s [%s op %d]", n, cs.Sc.Name, cs.OpI)
		}
	}
	if line := run.CrashLine(headOf(istderrPath, 200000)); line != "" && strings.Contains(line, "http: panic serving") {
		replay["inspector_stderr"] = stderrHead
		r.Violationf("handler-panic-after-crash:"+run.Normalize(line), replay, "an HTTP handler of the restarted server panicked: %s", line)
	}
	if cs.Mode == "sys" && co.Achieved != nil && len(out.Violations) == 0 {
		r.Sample(map[string]interface{}{"achieved": co.Achieved, "files_after_crash": sizes, "in_flight": infl})
	}
	return
}

func lastN(l []string, n int) []string {
	if len(l) > n {
		return l[len(l)-n:]
	}
	return l
}

// censusOf attributes the traced system calls on the server's files to the
// operation whose BEGIN/END markers (writes to the oplog) bracket them.
func censusOf(evs []sevent, srv, oplogPath string) map[int][]sevent {
	out := map[int][]sevent{}
	open := map[int]bool{}
	cur := -1 // lowest-numbered operation that is in progress
	for _, e := range evs {
		if e.Marker != "" {
			if e.Path != oplogPath {
				continue
			}
			var i int
			if strings.HasPrefix(e.Marker, "BEGIN ") {
				fmt.Sscanf(e.Marker, "BEGIN %d", &i)
				open[i] = true
			} else {
				fmt.Sscanf(e.Marker, "END %d", &i)
				delete(open, i)
			}
			cur = -1
			for k := range open {
				if cur < 0 || k < cur {
					cur = k
				}
			}
			continue
		}
		if cur < 0 || !strings.HasPrefix(e.Path, srv+"/") {
			continue
		}
		rel := strings.TrimPrefix(e.Path, srv+"/")
		if rel == "server.log" || rel == "gcaTempPubKey.dat" || strings.HasPrefix(rel, "watttime_data") || strings.Contains(rel, "/") {
			continue
		}
		e.Path = rel
		out[cur] = append(out[cur], e)
	}
	return out
}

func child(b run.Batch, r *ev.Result) {
	if b.Kind == "sigcut" {
		childSigCut(b, r)
		return
	}
	if b.Kind == "prodcrash" {
		// SIGKILL of a running PRODUCTION-build server, then a start on its directory (lib/prodwt/crash.go)
		prodwt.RunCrash(r, b, b.Seed, b.N)
		return
	}
	exe, err := os.Executable()
	if err != nil {
		r.Inconc("os.Executable: " + err.Error())
		return
	}
	if _, err := os.Stat("/usr/bin/strace"); err != nil && b.Kind == "sys" {
		r.Inconc("strace is not installed")
		return
	}
	d := &driver{b: b, r: r, exe: exe}
	t0 := time.Now()
	defer func() { r.Max("max.batch_wall_s."+b.Kind+b.P("kind"), int64(time.Since(t0).Seconds())) }()
	var h, slice, of int
	fmt.Sscan(b.P("h"), &h)
	fmt.Sscan(b.P("slice"), &slice)
	fmt.Sscan(b.P("of"), &of)
	if of == 0 {
		of = 1
	}
	switch b.Kind {
	case "sys":
		sc := genSeq(h, b.Seed)
		flat := sc.flat()
		cen := sc.clone()
		cen.PauseBefore, cen.PauseAfter = 0, flat[len(flat)-1].I
		co := d.runCase(caseSpec{Mode: "census", Sc: cen, OpI: cen.PauseAfter, Kind: "census", Judge: slice == 0})
		if co.Census == nil {
			r.Inconc("census run of history " + sc.Name + " gave no system-call list")
			return
		}
		type aim struct {
			op        Op
			file, sys string
			n         int
		}
		var aims []aim
		for _, op := range flat {
			if op.Storm {
				continue // runs concurrently with the previous op; its own append is an ordinary authorization
			}
			cnt := map[string]int{}
			var order []string
			for _, e := range co.Census[op.I] {
				k := e.Path + "|" + e.Sys
				if cnt[k] == 0 {
					order = append(order, k)
				}
				cnt[k]++
			}
			for _, k := range order {
				p := strings.SplitN(k, "|", 2)
				for n := 1; n <= cnt[k]; n++ {
					aims = append(aims, aim{op, p[0], p[1], n})
				}
			}
		}
		if slice == 0 {
			r.Count("census.boundaries", int64(len(aims)))
			r.Count("census.histories", 1)
		}
		for i, a := range aims {
			if i%of != slice {
				continue
			}
			s := sc.clone()
			s.PauseBefore, s.PauseAfter = a.op.I, a.op.I
			d.runCase(caseSpec{Mode: "sys", Sc: s, OpI: a.op.I, Kind: a.op.K, File: a.file, Sys: a.sys, N: a.n, Judge: true})
			if r.NumViolations() > 25 {
				return
			}
		}
	case "boundary":
		sc := genSeq(h, b.Seed)
		flat := sc.flat()
		k := 0
		for j := -1; j < len(flat); j++ {
			k++
			if k%of != slice {
				continue
			}
			s := sc.clone()
			if j < 0 {
				s.StopBefore = 0
			} else {
				s.PauseAfter = flat[j].I
			}
			d.runCase(caseSpec{Mode: "boundary", Sc: s, OpI: j, Kind: "boundary", Judge: true})
			if r.NumViolations() > 25 {
				return
			}
		}
	case "random":
		var kills int
		fmt.Sscan(b.P("kills"), &kills)
		rng := rand.New(rand.NewSource(b.Seed))
		sc := genConc(b.Seed, 4)
		co := d.runCase(caseSpec{Mode: "random", Sc: sc, Delay: -1, Procs: 4, Judge: true, Kind: "random"})
		span := co.GoToDone
		if span <= 0 {
			r.Inconc("calibration run of the concurrent workload did not complete")
			return
		}
		r.Max("max.workload_ms", span.Milliseconds())
		for i := 1; i < kills; i++ {
			delay := time.Duration(rng.Float64() * 1.02 * float64(span))
			d.runCase(caseSpec{Mode: "random", Sc: sc, Delay: delay, Procs: 4, Judge: true, Kind: "random"})
			if r.NumViolations() > 25 {
				return
			}
		}
	case "scale":
		sc, marks, cenFrom, rots := genScale(b.P("kind"), b.Seed)
		flat := sc.flat()
		type job func()
		var jobs []job
		for _, m := range marks {
			m := m
			jobs = append(jobs, func() {
				s := sc.clone()
				s.PauseAfter = m
				d.runCase(caseSpec{Mode: "boundary", Sc: s, OpI: m, Kind: "boundary", Judge: true})
			})
		}
		for _, op := range rots {
			for k := 0; k < 2; k++ {
				op, delay := op, 20+60*k
				jobs = append(jobs, func() {
					s := sc.clone()
					s.KillInOp, s.PauseAfter, s.KillDelayUs = op, op, delay
					d.runCase(caseSpec{Mode: "rotkill", Sc: s, OpI: op, Kind: "rotate", Procs: 2, Judge: true, Delay: time.Duration(delay) * time.Microsecond})
				})
			}
		}
		// census from the first rotation on (tracing the bulk would only cost time)
		cen := sc.clone()
		cen.PauseBefore, cen.PauseAfter = cenFrom, flat[len(flat)-1].I
		co := d.runCase(caseSpec{Mode: "census", Sc: cen, OpI: cen.PauseAfter, Kind: "census", Judge: slice == 0})
		if co.Census == nil {
			// no list of system-call boundaries (e.g. the victim's own restart failed):
			// the operation-boundary and rotation-aimed kills are still delivered
			r.Inconc("census run of history " + sc.Name + " gave no system-call list")
		}
		for _, op := range flat {
			if op.I < cenFrom || (op.K != "rotate" && op.K != "restart") {
				continue // single-record operations are enumerated by the ordinary histories
			}
			cnt := map[string]int{}
			var order []string
			for _, e := range co.Census[op.I] {
				k := e.Path + "|" + e.Sys
				if cnt[k] == 0 {
					order = append(order, k)
				}
				cnt[k]++
			}
			for _, k := range order {
				p := strings.SplitN(k, "|", 2)
				c := cnt[k]
				if op.K == "restart" && p[0] != "equipment-reports.dat" {
					continue // read-only opens of the other files
				}
				ns := []int{1, 2, 3, c / 2, c - 1, c} // long runs (re-append of every live report) are sampled
				seen := map[int]bool{}
				for _, n := range ns {
					if n < 1 || n > c || seen[n] {
						continue
					}
					seen[n] = true
					op, file, sys, n := op, p[0], p[1], n
					jobs = append(jobs, func() {
						s := sc.clone()
						s.PauseBefore, s.PauseAfter = op.I, op.I
						d.runCase(caseSpec{Mode: "sys", Sc: s, OpI: op.I, Kind: op.K, File: file, Sys: sys, N: n, Judge: true})
					})
				}
			}
		}
		if slice == 0 {
			r.Count("scale.episodes", 1)
			r.Count("scale.crash_points", int64(len(jobs)))
		}
		for i, j := range jobs {
			if i%of != slice {
				continue
			}
			j()
			r.Count("scale.cases", 1)
			if r.NumViolations() > 25 {
				return
			}
		}
	case "rotkill":
		var kills int
		fmt.Sscan(b.P("kills"), &kills)
		rng := rand.New(rand.NewSource(b.Seed))
		sc, rots := genRot(b.Seed)
		for i := 0; i < kills; i++ {
			op := rots[[]int{2, 3, 1, 3, 2, 0}[i%6]] // mostly rotations that follow two or more whole records
			s := sc.clone()
			s.KillInOp, s.PauseAfter = op, op
			s.KillDelayUs = rng.Intn(120)
			d.runCase(caseSpec{Mode: "rotkill", Sc: s, OpI: op, Kind: "rotate", Procs: 2, Judge: true, Delay: time.Duration(s.KillDelayUs) * time.Microsecond})
			if r.NumViolations() > 25 {
				return
			}
		}
	default:
		r.Inconc("unknown batch kind " + b.Kind)
	}
}
