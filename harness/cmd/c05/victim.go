//go:build test

package main

// The victim hosts the real server and executes a script of operations
// through the real entry points until somebody kills it. Every operation is
// bracketed by "BEGIN i kind" / "END i result" lines, each written with one
// write(2) to the oplog file (what the oracle reads) and to stdout (what the
// driver follows live).

import (
	"bytes"
	"sync/atomic"
	"syscall"

	"encoding/hex"
	"fmt"
	"github.com/glowlabs-org/gca-backend/server"
	"io"
	"net/http"
	"os"
	"path/filepath"
	"runtime"
	"strings"
	"sync"
	"time"

	"verifharness/lib/drv"
	"verifharness/lib/refenc"
)

type victim struct {
	curOp   atomic.Int64 // op being executed by the sequential part
	sc      *Script
	e       *drv.Srv
	oplog   *os.File
	mu      sync.Mutex
	pending chan int // result of a StepRotation still waiting for the loop to come back to its head
}

func (v *victim) logf(format string, a ...interface{}) {
	line := []byte(fmt.Sprintf(format, a...) + "\n")
	v.mu.Lock()
	v.oplog.Write(line)
	os.Stdout.Write(line)
	v.mu.Unlock()
}

func (v *victim) say(format string, a ...interface{}) {
	v.mu.Lock()
	os.Stdout.Write([]byte(fmt.Sprintf(format, a...) + "\n"))
	v.mu.Unlock()
}

func (v *victim) fail(format string, a ...interface{}) {
	v.logf("FAIL "+format, a...)
	os.Exit(4)
}

// allThreadsTraced reports whether every thread of this process has a tracer.
func allThreadsTraced() bool {
	ents, err := os.ReadDir("/proc/self/task")
	if err != nil || len(ents) == 0 {
		return false
	}
	for _, e := range ents {
		b, err := os.ReadFile("/proc/self/task/" + e.Name() + "/status")
		if err != nil {
			continue // thread exited meanwhile
		}
		i := strings.Index(string(b), "TracerPid:")
		if i < 0 {
			return false
		}
		var p int
		fmt.Sscan(string(b[i+10:]), &p)
		if p == 0 {
			return false
		}
	}
	return true
}

func (v *victim) waitTracer(i int) {
	v.say("READY %d %d", os.Getpid(), i)
	t0 := time.Now()
	for !allThreadsTraced() {
		if time.Since(t0) > 15*time.Second {
			v.say("NOTRACER")
			os.Exit(3)
		}
		time.Sleep(time.Millisecond)
	}
	v.say("TRACED")
}

func (v *victim) waitPendingRotation() {
	if v.pending != nil {
		<-v.pending
		v.pending = nil
	}
}

func (v *victim) do(op Op) string {
	switch op.K {
	case "start":
		if err := startSettled(v.e); err != nil {
			v.fail("start: %v", err)
		}
		pk := v.e.S.PublicKey()
		return "pub=" + hex.EncodeToString(pk[:])
	case "restart":
		v.waitPendingRotation()
		if err := v.e.Close(); err != nil {
			v.fail("restart: close: %v", err)
		}
		if err := startSettled(v.e); err != nil {
			v.fail("restart: %v", err)
		}
		pk := v.e.S.PublicKey()
		return "pub=" + hex.EncodeToString(pk[:])
	case "clock":
		drv.SetClock(op.V)
		return ""
	case "register":
		b := op.bytes()
		var g refenc.Registration
		copy(g.GCAKey[:], b[:32])
		copy(g.Sig[:], b[32:])
		st, _, err := postFresh(v.e, "/api/v1/register-gca", g.JSON())
		if err != nil {
			return "err=" + strings.ReplaceAll(err.Error(), "\n", " ")
		}
		return fmt.Sprintf("st=%d", st)
	case "auth":
		a, err := refenc.ParseAuth(op.bytes())
		if err != nil {
			v.fail("bad auth bytes in script")
		}
		st, _, err := postFresh(v.e, "/api/v1/authorize-equipment", a.JSON())
		if err != nil {
			return "err=" + strings.ReplaceAll(err.Error(), "\n", " ")
		}
		return fmt.Sprintf("st=%d", st)
	case "migrate":
		st, _, err := postFresh(v.e, "/api/v1/equipment-migrate", op.bytes())
		if err != nil {
			return "err=" + strings.ReplaceAll(err.Error(), "\n", " ")
		}
		return fmt.Sprintf("st=%d", st)
	case "report":
		v.e.Inject(op.bytes())
		return ""
	case "rotate":
		// END is logged when the rotation has completed (migrate.done), not
		// when the loop is back at its head 100 ms later.
		v.waitPendingRotation()
		// A watcher takes real snapshots (under the server's own lock) while the
		// rotation runs and records, with one write, the moment the new window
		// offset is visible. Visible means a client could have seen it: from then
		// on the rotation has to survive a crash.
		off0 := v.e.S.VerifSnapshot(false).Offset
		stopWatch := make(chan struct{})
		srv := v.e.S
		go func() {
			for {
				select {
				case <-stopWatch:
					return
				default:
				}
				if o := srv.VerifSnapshot(false).Offset; o != off0 {
					v.logf("VISIBLE %d %d", op.I, o)
					return
				}
				time.Sleep(50 * time.Microsecond)
			}
		}()
		defer close(stopWatch)
		before := drv.RotationsDone.Load()
		ch := make(chan int, 1)
		go func() { ch <- drv.StepRotation() }()
		for drv.RotationsDone.Load() == before {
			select {
			case n := <-ch:
				if n <= 0 && drv.RotationsDone.Load() == before {
					v.fail("rotation did not run although it was due (op %d)", op.I)
				}
				ch <- n
			default:
				time.Sleep(20 * time.Microsecond)
			}
		}
		v.pending = ch
		return "n=1"
	}
	v.fail("unknown op kind %q", op.K)
	return ""
}

// exec runs one operation of the sequential part. storm, if not nil, is an
// authorization that a second connection keeps posting (the same pre-signed
// bytes) from the moment op begins until the server accepts it: it is in
// flight concurrently with op, and it is complete before anything else is
// submitted.
func (v *victim) exec(op Op, storm *Op) {
	if op.SleepUs > 0 {
		time.Sleep(time.Duration(op.SleepUs) * time.Microsecond)
	}
	if op.I == v.sc.StopBefore {
		v.logf("PAUSE before %d", op.I)
		park()
	}
	if op.I == v.sc.PauseBefore {
		v.waitTracer(op.I)
	}
	v.logf("BEGIN %d %s", op.I, op.K)
	if op.Round < 0 {
		v.curOp.Store(int64(op.I))
	}
	stormDone := make(chan string, 1)
	if storm != nil {
		a, err := refenc.ParseAuth(storm.bytes())
		if err != nil {
			v.fail("bad auth bytes in script")
		}
		body := a.JSON()
		v.logf("BEGIN %d %s", storm.I, storm.K)
		go func() {
			t0 := time.Now()
			for {
				st, _, err := postFresh(v.e, "/api/v1/authorize-equipment", body)
				if err != nil {
					stormDone <- "err=" + strings.ReplaceAll(err.Error(), "\n", " ")
					return
				}
				if st == 200 {
					stormDone <- "st=200"
					return
				}
				if time.Since(t0) > 20*time.Second {
					stormDone <- "giveup"
					return
				}
				time.Sleep(100 * time.Microsecond)
			}
		}()
	}
	res := v.do(op)
	v.logf("END %d %s", op.I, res)
	bad := strings.HasPrefix(res, "err=")
	last := op.I
	if storm != nil {
		sres := <-stormDone
		if sres == "giveup" {
			v.fail("the concurrently posted authorization (op %d) was not accepted within 20 s", storm.I)
		}
		v.logf("END %d %s", storm.I, sres)
		bad = bad || strings.HasPrefix(sres, "err=")
		last = storm.I
	}
	if bad {
		// The request's fate is unknown (the oracle treats the operation as
		// possibly applied); nothing may be submitted after it.
		v.logf("PAUSE after %d (transport error)", last)
		park()
	}
	if op.I == v.sc.PauseAfter || (storm != nil && storm.I == v.sc.PauseAfter) {
		v.logf("PAUSE after %d", last)
		park()
	}
}

func victimMain(dir, scriptPath string) {
	sc, err := loadScript(scriptPath)
	if err != nil {
		fmt.Fprintln(os.Stderr, "victim: cannot read script:", err)
		os.Exit(2)
	}
	// The sequential part runs on one OS thread: strace counts `when=N` per
	// thread, and start-up (NewGCAServer) and report handling make their system
	// calls in the calling goroutine, so the N-th call of a (re)start is exact.
	runtime.LockOSThread()
	v := &victim{sc: sc, e: &drv.Srv{Dir: dir}}
	v.oplog, err = os.OpenFile(filepath.Join(filepath.Dir(scriptPath), "oplog"), os.O_CREATE|os.O_WRONLY|os.O_APPEND, 0644)
	if err != nil {
		fmt.Fprintln(os.Stderr, "victim: cannot open oplog:", err)
		os.Exit(2)
	}
	// Nobody may keep a test-mode server alive for 120 s.
	time.AfterFunc(55*time.Second, func() { os.Exit(5) })
	drv.SetClock(0)
	drv.GateRotation(true)
	drv.GateImpact(len(sc.Rounds) == 0) // the impact job runs freely in concurrent workloads
	if sc.KillInOp >= 0 {
		// Kill aimed inside the write(2) of a statistics record: when the aimed
		// rotation begins, a watcher thread polls the size of the history file and
		// sends SIGKILL to this process KillDelayUs after the file started to grow,
		// i.e. while the kernel is still copying the record's pages.
		stats := filepath.Join(dir, "allDeviceStats.dat")
		server.VerifSetHook("migrate.beforeLock", func(*server.GCAServer) {
			if v.curOp.Load() != int64(sc.KillInOp) {
				return
			}
			var size0 int64
			if fi, err := os.Stat(stats); err == nil {
				size0 = fi.Size()
			}
			go func() {
				runtime.LockOSThread()
				for {
					if fi, err := os.Stat(stats); err == nil && fi.Size() > size0 {
						break
					}
				}
				t0 := time.Now()
				d := time.Duration(sc.KillDelayUs) * time.Microsecond
				for time.Since(t0) < d {
				}
				syscall.Kill(os.Getpid(), syscall.SIGKILL)
			}()
		})
	}
	for i := 0; i < len(sc.Ops); i++ {
		if i+1 < len(sc.Ops) && sc.Ops[i+1].Storm {
			v.exec(sc.Ops[i], &sc.Ops[i+1])
			i++
			continue
		}
		v.exec(sc.Ops[i], nil)
	}
	for ri, rd := range sc.Rounds {
		for _, op := range rd.Pre {
			v.exec(op, nil)
		}
		if ri == 0 {
			v.logf("GO")
		}
		var wg sync.WaitGroup
		for _, w := range rd.Workers {
			wg.Add(1)
			go func(ops []Op) {
				defer wg.Done()
				for _, op := range ops {
					v.exec(op, nil)
				}
			}(w)
		}
		wg.Wait()
	}
	v.logf("DONE")
	park()
}

var freshClient = &http.Client{Timeout: 30 * time.Second, Transport: &http.Transport{DisableKeepAlives: true}}

// postFresh posts over a connection of its own: the server closes idle
// keep-alive connections after 2.5 s, and a request sent into such a
// connection fails without telling whether it was processed.
func postFresh(e *drv.Srv, path string, body []byte) (int, []byte, error) {
	resp, err := freshClient.Post(fmt.Sprintf("http://127.0.0.1:%d%s", e.HTTP, path), "application/json", bytes.NewReader(body))
	if err != nil {
		return 0, nil, err
	}
	defer resp.Body.Close()
	b, err := io.ReadAll(resp.Body)
	return resp.StatusCode, b, err
}

// startSettled starts the server and waits until its (gated) rotation loop is
// parked at its head, so that a later StepRotation cannot mistake the loop's
// first arrival for the end of a step.
func startSettled(e *drv.Srv) error {
	arr := drv.RotationArrive.Load()
	if err := e.Start(); err != nil {
		return err
	}
	t0 := time.Now()
	for drv.RotationArrive.Load() == arr && time.Since(t0) < 20*time.Second {
		time.Sleep(200 * time.Microsecond)
	}
	return nil
}

// park waits to be killed.
func park() {
	for {
		time.Sleep(time.Second)
	}
}
