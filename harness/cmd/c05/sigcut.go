//go:build test

package main

// sigcut: the one structural boundary of a weekly statistics record at which a
// SIGKILL inside the appending write(2) can really leave the file. The kernel
// publishes a growing file page by page, so a torn append ends at a multiple of
// 4096 bytes counted from the start of the FILE. Records are 72 + 32288*n bytes
// (4 count, n device blocks, 4 week label, 64 signature), so the only field
// boundary that can coincide with a page boundary is "everything but the
// signature" (8 + 32288*n bytes into the record; the others are 4 mod 8). It
// does coincide for suitable histories; the smallest one is used here: three
// archived weeks of two devices, then a record of three devices:
// 3*(72+2*32288) + 8 + 3*32288 = 290816 = 71*4096.
//
// The state is synthesized (the write window is far too narrow to hit with a
// signal): the real server writes the four records, the file is cut to that
// length, and the server is started again on the directory. Judged as for
// every other crash point: the start succeeds, the recovered state is the
// durable prefix (three archived weeks, all three devices, every report), the
// rotation can be done again, and a second restart changes nothing.

import (
	"fmt"
	"math/rand"
	"os"
	"path/filepath"

	"verifharness/lib/drv"
	"verifharness/lib/ev"
	"verifharness/lib/refenc"
	"verifharness/lib/run"
	"verifharness/lib/wmodel"
)

func childSigCut(b run.Batch, r *ev.Result) {
	rng := rand.New(rand.NewSource(b.Seed))
	drv.SetClock(0)
	drv.GateRotation(true)
	drv.GateImpact(true)
	dir := filepath.Join(b.Dir, "srv")
	w, err := drv.NewWorld(dir, rng)
	if err != nil {
		r.Inconc("cannot start world: " + err.Error())
		return
	}
	defer os.RemoveAll(dir)
	closed := false
	defer func() {
		if !closed {
			w.Close()
		}
	}()
	replay := map[string]interface{}{"batch": b, "scenario": "2,2,2 devices archived; record of 3 devices cut after its week label (file length 290816 = 71 pages)"}
	var devs []*drv.Dev
	add := func() bool {
		d, err := w.AddDevice(uint32(100+len(devs)*7+rng.Intn(5)), 1000000)
		if err != nil {
			r.Inconc(err.Error())
			return false
		}
		devs = append(devs, d)
		return true
	}
	if !add() || !add() {
		return
	}
	rotate := func(week int) bool {
		off := uint32(week * wmodel.Week)
		for _, d := range devs {
			for k := 0; k < 3; k++ {
				slot := off + uint32(rng.Intn(400))
				drv.SetClock(slot)
				w.Inject(d.Report(slot, uint64(100+rng.Intn(5000))).Bytes())
			}
		}
		drv.SetClock(off + 3201)
		run.Op("rotate week %d with %d devices", week, len(devs))
		if n := drv.StepRotation(); n != 1 {
			r.Inconc(fmt.Sprintf("rotation %d did not happen (%d)", week, n))
			return false
		}
		return true
	}
	for week := 0; week < 3; week++ {
		if !rotate(week) {
			return
		}
	}
	if !add() || !rotate(3) {
		return
	}
	pre := w.S.VerifSnapshot(true)
	full := w.ReadFile("allDeviceStats.dat")
	const cut = 3*(72+2*32288) + 8 + 3*32288
	if len(full) != cut+64 || cut%4096 != 0 {
		r.Inconc(fmt.Sprintf("history file has %d bytes, expected %d", len(full), cut+64))
		return
	}
	if err := w.Close(); err != nil && !drv.SlowShutdown(err) {
		r.Inconc("close: " + err.Error())
		return
	}
	closed = true
	run.Op("cut allDeviceStats.dat to %d bytes (page multiple, signature of the last record missing)", cut)
	if err := os.Truncate(filepath.Join(dir, "allDeviceStats.dat"), cut); err != nil {
		r.Inconc(err.Error())
		return
	}
	r.Eval(1)
	// the clock stays where the rotation ran (now - 3*2016 = 3201: no start-up catch-up, the background loop is
	// parked); an implementation that repeats the lost rotation at once is accepted as well
	run.Op("start on the directory with the torn record")
	if err := w.Start(); err != nil {
		r.Violationf("restart-failed-after-torn-append:allDeviceStats.dat:signature-missing", replay, "the server does not start on a history file that ends right after the week label of its last record (a SIGKILL inside the append leaves exactly this when the boundary is page aligned): %v", err)
		return
	}
	closed = false
	r.Count("sigcut.started", 1)
	post := w.S.VerifSnapshot(true)
	hist := wmodel.HistoryOf(post)
	want := wmodel.HistoryOf(pre)
	if len(hist) != 3 && len(hist) != 4 {
		r.Violationf("recovered-state-not-a-prefix:archive", replay, "after the torn append the server holds %d archived weeks, want 3 (or 4 after redoing the rotation)", len(hist))
		return
	}
	for i := range hist {
		if i < 3 && !wmodel.EqualOrdered(hist[i], want[i]) {
			r.Violationf("recovered-state-not-a-prefix:archive", replay, "archived week %d differs after recovery from the torn append", i)
			return
		}
		if !wmodel.SigValid(hist[i], w.Key.Pub) {
			r.Violationf("recovered-state-not-a-prefix:archive", replay, "archived week %d does not verify after recovery", i)
			return
		}
	}
	if len(hist) == 4 {
		r.Count("sigcut.rotation_redone_at_start", 1)
		// the redone record holds the same devices and powers (impact values are not persisted)
		if d := wmodel.DescribeDiff(want[3], hist[3], false); d != "" {
			r.Violationf("recovered-state-not-a-prefix:archive", replay, "the rotation repeated after the torn append archived something else: %s", d)
			return
		}
	}
	if len(post.Equipment) != 3 || len(post.Bans) != 0 {
		r.Violationf("recovered-state-not-a-prefix:equipment", replay, "after recovery %d devices are authorized and %d banned, want 3 and 0", len(post.Equipment), len(post.Bans))
		return
	}
	if int(post.Offset) != len(hist)*wmodel.Week {
		r.Violationf("recovered-state-not-a-prefix:offset", replay, "window offset %d with %d archived weeks", post.Offset, len(hist))
		return
	}
	// the file is a sequence of whole records again
	recs, err := refenc.ParseStatsStream(w.ReadFile("allDeviceStats.dat"))
	if err != nil || len(recs) != len(hist) {
		r.Violationf("archive-file-differs-from-memory", replay, "after recovery allDeviceStats.dat parses to %d records (err %v), memory holds %d", len(recs), err, len(hist))
		return
	}
	// second restart: nothing changes (the clock is first moved to where no rotation is due: a closing
	// server's rotation loop is released from its gate and would rotate while now-offset > 3200)
	drv.SetClock(post.Offset + 3000)
	if err := w.Restart(); err != nil {
		closed = true
		r.Violationf("second-restart-failed:after-torn-append", replay, "second start after the recovery failed: %v", err)
		return
	}
	again := w.S.VerifSnapshot(true)
	if len(wmodel.HistoryOf(again)) != len(hist) || again.Offset != post.Offset || len(again.Equipment) != 3 {
		r.Violationf("second-restart-differs:archive", replay, "a second restart changed the recovered state: %d weeks offset %d -> %d weeks offset %d", len(hist), post.Offset, len(wmodel.HistoryOf(again)), again.Offset)
		return
	}
	r.Count("sigcut.recovered", 1)
	r.Nontrivial("sigcut/2,2,2|3")
}
