//go:build test

package main

// The inspector is a fresh process that restarts the real server on the
// directory a killed victim left behind and judges what it finds. If the
// start-up panics this process dies; the driver reads the stage file and the
// stderr capture and turns that into "restart-failed:<panic>".

import (
	"bytes"
	"encoding/hex"
	"encoding/json"
	"fmt"
	"os"
	"path/filepath"
	"strings"

	"github.com/glowlabs-org/gca-backend/server"

	"verifharness/lib/drv"
	"verifharness/lib/refenc"
	"verifharness/lib/run"
)

type inspViolation struct {
	Key  string `json:"key"`
	Desc string `json:"desc"`
}

type inspOut struct {
	Done       bool             `json:"done"`
	Violations []inspViolation  `json:"violations"`
	Counters   map[string]int64 `json:"counters"`
	Notes      []string         `json:"notes"`
	Inconc     []string         `json:"inconc"`
	AckedN     int              `json:"acked_n"`
	Inflight   []int            `json:"inflight"`
}

type insp struct {
	out     *inspOut
	outPath string
	dir     string
	sc      *Script
}

func (in *insp) viol(key, format string, a ...interface{}) {
	in.out.Violations = append(in.out.Violations, inspViolation{key, fmt.Sprintf(format, a...)})
}
func (in *insp) count(k string) { in.out.Counters[k]++ }
func (in *insp) note(format string, a ...interface{}) {
	in.out.Notes = append(in.out.Notes, fmt.Sprintf(format, a...))
}

func (in *insp) stage(s string) {
	f, err := os.OpenFile(in.outPath+".stage", os.O_CREATE|os.O_WRONLY|os.O_APPEND, 0644)
	if err == nil {
		f.Write([]byte(s + "\n"))
		f.Close()
	}
}

func (in *insp) save() {
	in.out.Done = true
	b, _ := json.Marshal(in.out)
	os.WriteFile(in.outPath+".tmp", b, 0644)
	os.Rename(in.outPath+".tmp", in.outPath)
}

func (in *insp) normErr(err error) string {
	return run.Normalize(strings.ReplaceAll(err.Error(), in.dir, "<dir>"))
}

// persistedDiff compares two snapshots on the sections a restart must
// preserve (GCA key/flag and server key, equipment, bans, pkindex, slots,
// offset, archive); impact rates, server list, recent lists and migration
// orders are not persisted by design.
func persistedDiff(a, b *server.VerifSnap) []string {
	var out []string
	for _, s := range drv.DiffSnap(a, b).Sections {
		if strings.HasPrefix(s, "impact[") || s == "serverlist" || s == "recentlist" || s == "migrations" {
			continue
		}
		if strings.HasPrefix(s, "reports[") {
			s = "slots"
		}
		dup := false
		for _, o := range out {
			dup = dup || o == s
		}
		if !dup {
			out = append(out, s)
		}
	}
	return out
}

type cand struct {
	m     *mstate
	extra []int // in-flight ops included
}

func inspectMain(dir, scriptPath, oplogPath, outPath string) {
	in := &insp{out: &inspOut{Counters: map[string]int64{}}, outPath: outPath, dir: dir}
	sc, err := loadScript(scriptPath)
	if err != nil {
		fmt.Fprintln(os.Stderr, "inspector: cannot read script:", err)
		os.Exit(2)
	}
	in.sc = sc
	in.stage("prepare")
	lg := parseOplog(oplogPath)
	flat := sc.flat()
	byI := map[int]Op{}
	for _, op := range flat {
		byI[op.I] = op
	}
	sequential := len(sc.Rounds) == 0
	disk0 := readDisk(dir)
	F := deriveFromFiles(disk0, sc.Temp.Pub)
	for file, why := range F.Torn {
		in.note("file %s is not a sequence of whole records: %s", file, why)
		in.count("files.torn." + file)
	}
	for _, n := range F.Notes {
		in.note("files: %s", n)
	}

	// candidate sets P with acked ⊆ P ⊆ acked ∪ in-flight
	acked := map[int]bool{}
	for i := range lg.Ended {
		if lg.acked(i) {
			acked[i] = true
		}
	}
	infl := lg.inflight()
	in.out.AckedN = len(acked)
	in.out.Inflight = infl
	if len(infl) > 6 {
		in.out.Inconc = append(in.out.Inconc, fmt.Sprintf("%d operations in flight, more than the workload can have", len(infl)))
		in.save()
		return
	}
	var cands []cand
	for mask := 0; mask < 1<<uint(len(infl)); mask++ {
		set := map[int]bool{}
		for i := range acked {
			set[i] = true
		}
		var extra []int
		for k, i := range infl {
			if mask&(1<<uint(k)) != 0 {
				set[i] = true
				extra = append(extra, i)
			}
		}
		cands = append(cands, cand{modelOf(sc, flat, set), extra})
	}
	// keys of registrations that were ever submitted (BEGIN-logged)
	submittedReg := map[[32]byte]bool{}
	for i := range lg.Begun {
		if op := byI[i]; op.K == "register" {
			if b := op.bytes(); len(b) == 96 {
				var k [32]byte
				copy(k[:], b[:32])
				submittedReg[k] = true
			}
		}
	}
	// the server key the victim last saw (acked start/restart)
	ackedPub := ""
	for _, op := range flat {
		if res, ok := lg.Ended[op.I]; ok && (op.K == "start" || op.K == "restart") && strings.HasPrefix(res, "pub=") {
			ackedPub = strings.TrimPrefix(res, "pub=")
		}
	}

	// The restart happens at a clock at which no catch-up rotation is due.
	off := F.Offset
	drv.SetClock(off + 100)
	drv.GateRotation(true)
	drv.GateImpact(true)
	e := &drv.Srv{Dir: dir}

	// (a) the server starts
	in.stage("start1")
	if err := startSettled(e); err != nil {
		in.viol("restart-failed:"+in.normErr(err), "NewGCAServer on the crashed directory returned an error: %v (files: %v)", err, disk0.sizes())
		in.save()
		return
	}
	in.stage("oracle1")
	in.count("restart_ok")
	S1 := e.S.VerifSnapshot(true)
	st1 := snapStats(S1)

	// (b1) recovered state = state described by the decoded files
	dF := cmpSnap(S1, F.mstate)
	tornSec := map[string]bool{}
	if _, t := F.Torn["gcaPubKey.dat"]; t {
		tornSec["gca"] = true
	}
	if _, t := F.Torn["equipment-authorizations.dat"]; t {
		tornSec["equipment"], tornSec["bans"], tornSec["pkindex"], tornSec["slots"] = true, true, true, true
	}
	if _, t := F.Torn["equipment-reports.dat"]; t {
		tornSec["slots"] = true
	}
	var dF2 []string
	for _, s := range dF {
		if !tornSec[s] {
			dF2 = append(dF2, s)
		}
	}
	if !statsEqualBytes(st1, F.Stats) {
		dF2 = append(dF2, "archive")
	}
	if len(dF2) > 0 {
		in.viol("recovered-state-differs-from-files:"+joinSorted(dF2), "the restarted server's state differs from what the reference decoders and rules derive from the files in sections %v (files: %v)", dF2, disk0.sizes())
	} else {
		in.count("recovered.equals_files")
	}
	// file = memory after the recovery: the history file holds exactly the
	// reference encoding of the archived weeks the server now serves
	var want []byte
	for _, rec := range st1 {
		want = append(want, rec.Bytes()...)
	}
	if got := readDisk(dir)["allDeviceStats.dat"]; !bytes.Equal(got, want) {
		in.viol("archive-file-differs-from-memory-after-restart", "after the restart allDeviceStats.dat has %d bytes, the %d archived weeks in memory encode to %d bytes (before the restart the file had %d bytes)", len(got), len(st1), len(want), len(disk0["allDeviceStats.dat"]))
	} else {
		in.count("archive_file_equals_memory")
	}
	// a rotation a snapshot showed as done while it was running must have survived
	for i, off := range lg.Visible {
		if S1.Offset < off {
			in.viol("rotation-visible-before-durable", "while rotation op %d was running a snapshot of the victim showed window offset %d (its week served as archived), after the crash the server is back at offset %d with %d archived weeks: the rotation was visible before its record was on disk", i, off, S1.Offset, len(S1.History))
		} else {
			in.count("rotation_visible_and_recovered")
		}
	}
	for i, rec := range st1 {
		if !verifyC(S1.ServerPubKey, rec.SigningBytes(), rec.Sig) {
			in.viol("archived-week-signature-invalid", "archived week %d (label %d) does not verify under the server's key after the restart", i, rec.Week)
		}
	}
	if k := readDisk(dir)["server.keys"]; len(k) < 64 || hex.EncodeToString(k[:32]) != hex.EncodeToString(S1.ServerPubKey[:]) {
		in.viol("server-key-differs-from-file", "server.keys has %d bytes after the restart and does not hold the public key the server uses", len(k))
	}
	if ackedPub != "" && ackedPub != hex.EncodeToString(S1.ServerPubKey[:]) {
		in.viol("server-key-changed", "a completed start reported server key %s, after the crash the server uses %x", ackedPub, S1.ServerPubKey[:])
	}

	// (b2) recovered state = model(P), acked ⊆ P ⊆ acked ∪ in-flight
	var matched []cand
	var bestDiff []string
	bestMsg := ""
	for ci, c := range cands {
		d := cmpSnap(S1, c.m)
		msg := cmpArchive(st1, c.m, sequential)
		if msg != "" {
			d = append(d, "archive")
		}
		if len(d) == 0 {
			matched = append(matched, c)
		}
		if ci == 0 || len(d) < len(bestDiff) {
			bestDiff, bestMsg = d, msg
		}
	}
	var inflKinds []string
	for _, i := range infl {
		inflKinds = append(inflKinds, fmt.Sprintf("%d:%s", i, byI[i].K))
	}
	if len(matched) == 0 {
		in.viol("recovered-state-not-a-prefix:"+joinSorted(bestDiff), "the recovered state equals model(P) for no P with acked(%d ops) ⊆ P ⊆ acked ∪ in-flight(%v); closest candidate differs in %v %s (files: %v)", len(acked), inflKinds, bestDiff, bestMsg, disk0.sizes())
	} else {
		in.count("recovered.is_prefix")
		switch {
		case len(infl) == 0:
			in.count("recovered.nothing_in_flight")
		case len(matched) == len(cands):
			in.count("recovered.inflight_effect_invisible")
		default:
			zero, nonzero := false, false
			for _, c := range matched {
				if len(c.extra) == 0 {
					zero = true
				} else {
					nonzero = true
				}
			}
			if zero && !nonzero {
				in.count("recovered.inflight_absent")
			} else if nonzero && !zero {
				in.count("recovered.inflight_applied")
				for _, i := range matched[0].extra {
					in.count("recovered.inflight_applied." + byI[i].K)
				}
			} else {
				in.count("recovered.inflight_partly_visible")
			}
		}
		m := matched[0].m
		if len(m.Slots) > 0 {
			in.count("recovered.with_devices")
		}
		if len(m.Bans) > 0 {
			in.count("recovered.with_bans")
		}
		if len(m.Arch) > 0 {
			in.count("recovered.with_archive")
		}
		nrep, nban := 0, 0
		for _, sl := range m.Slots {
			for i := range sl {
				switch sl[i].St {
				case stReport:
					nrep++
				case stBanned:
					nban++
				}
			}
		}
		if nrep > 0 {
			in.count("recovered.with_live_reports")
		}
		if nban > 0 {
			in.count("recovered.with_banned_slots")
		}
	}

	// (c) no partially applied operation, stated directly on the snapshot
	var zero32 [32]byte
	if S1.GCAAvailable && !submittedReg[S1.GCAKey] {
		in.viol("partial-registration", "after the crash the server believes GCA key %x is registered, which was never submitted (gcaPubKey.dat had %d bytes)", S1.GCAKey[:], len(disk0["gcaPubKey.dat"]))
	}
	if !S1.GCAAvailable && [32]byte(S1.GCAKey) != zero32 {
		in.viol("partial-registration", "GCA key set but flag clear")
	}
	for id := range S1.Bans {
		_, inEq := S1.Equipment[id]
		_, hasRep := S1.Reports[id]
		idx := false
		for _, v := range S1.ShortIDs {
			idx = idx || v == id
		}
		if inEq || hasRep || idx {
			in.viol("partial-ban", "banned id %d still has equipment=%v report array=%v key index entry=%v", id, inEq, hasRep, idx)
		}
	}
	for id, a := range S1.Equipment {
		rp, hasRep := S1.Reports[id]
		if !hasRep || rp == nil || S1.ShortIDs[a.PublicKey] != id {
			in.viol("partial-authorization", "authorized id %d lacks its report array or key index entry", id)
		}
	}
	if int(S1.Offset) != 2016*len(S1.History) || (len(S1.History) > 0 && S1.History[len(S1.History)-1].TimeslotOffset+2016 != S1.Offset) {
		in.viol("partial-rotation", "window offset %d with %d archived weeks", S1.Offset, len(S1.History))
	}

	// (f) a second restart is idempotent
	in.stage("close1")
	if err := e.Close(); err != nil {
		in.note("close after first restart: %v", err)
	}
	sizeAfter1 := len(readDisk(dir)["equipment-reports.dat"])
	in.stage("start2")
	if err := startSettled(e); err != nil {
		in.viol("second-restart-failed:"+in.normErr(err), "the second start on the directory failed: %v", err)
		in.save()
		return
	}
	in.stage("oracle2")
	S2 := e.S.VerifSnapshot(true)
	if d := persistedDiff(S1, S2); len(d) > 0 {
		in.viol("second-restart-differs:"+joinSorted(d), "a second restart changed sections %v", d)
	} else {
		in.count("second_restart_same")
	}
	if g := sizeAfter1 - len(disk0["equipment-reports.dat"]); g > 0 {
		in.count("restart_reappended_reports")
	}
	// ... and a third one: the load path itself appends to the reports file, so
	// every restart works on a directory the previous one has changed
	in.stage("close2b")
	if err := e.Close(); err != nil {
		in.note("close after second restart: %v", err)
	}
	in.stage("start2b")
	if err := startSettled(e); err != nil {
		in.viol("third-restart-failed:"+in.normErr(err), "the third consecutive start on the directory failed: %v (reports file: %d bytes after the crash, %d after the first restart)", err, len(disk0["equipment-reports.dat"]), sizeAfter1)
		in.save()
		return
	}
	in.stage("oracle2b")
	if d := persistedDiff(S1, e.S.VerifSnapshot(true)); len(d) > 0 {
		in.viol("third-restart-differs:"+joinSorted(d), "the third consecutive restart changed sections %v", d)
	} else {
		in.count("third_restart_same")
	}

	// (d), (e) the recovered server is usable
	in.stage("probes")
	regInP := F.Reg && submittedReg[F.GCA]
	in.probes(e, regInP)
	if in.out.Counters["probe.transport_error"] > 0 {
		// a request of unknown fate may still be applied: nothing after it can be judged
		in.stage("close2")
		e.Close()
		in.stage("done")
		in.save()
		return
	}
	Sp := e.S.VerifSnapshot(true)
	in.stage("close2")
	if err := e.Close(); err != nil {
		in.note("close after probes: %v", err)
	}
	in.stage("start3")
	if err := startSettled(e); err != nil {
		in.viol("restart-after-probes-failed:"+in.normErr(err), "the start after the probe operations failed: %v", err)
		in.save()
		return
	}
	in.stage("oracle3")
	S3 := e.S.VerifSnapshot(true)
	if d := persistedDiff(Sp, S3); len(d) > 0 {
		in.viol("restart-after-probes-differs:"+joinSorted(d), "the restart after the probe operations changed sections %v", d)
	} else {
		in.count("restart_after_probes_same")
	}
	in.stage("close3")
	e.Close()
	in.stage("done")
	in.save()
}

// probes: (d) registration is possible iff none is in P, the registered key
// is honoured; (e) one operation of each kind succeeds.
func (in *insp) probes(e *drv.Srv, regInP bool) {
	sc := in.sc
	ok := true
	broken := false // a transport error makes the rest undecidable
	post := func(path string, body []byte) (int, []byte) {
		st, b, err := postFresh(e, path, body)
		if err != nil && !broken {
			// not an observation of the server's behaviour: the remaining probes are
			// skipped and the case simply does not count towards probes_all_ok
			broken = true
			in.count("probe.transport_error")
			in.note("transport error while probing the restarted server: %v", err)
		}
		return st, b
	}
	register := func(key [32]byte) (int, []byte) {
		g := refenc.Registration{GCAKey: key}
		g.Sig = refenc.Sign(sc.Temp.Priv, g.SigningBytes())
		return post("/api/v1/register-gca", g.JSON())
	}
	authorize := func(a refenc.Auth) (int, []byte) { return post("/api/v1/authorize-equipment", a.JSON()) }

	if !regInP {
		st, body := register(sc.GCA.Pub)
		if broken {
			return
		}
		s := e.S.VerifSnapshot(false)
		if st != 200 || !s.GCAAvailable || [32]byte(s.GCAKey) != sc.GCA.Pub {
			in.viol("registration-impossible-after-crash", "no registration survived the crash, yet a fresh GCA registration signed by the temporary key is answered with status %d (%s); flag=%v", st, strings.TrimSpace(string(body)), s.GCAAvailable)
			ok = false
		} else {
			in.count("probe.fresh_registration_accepted")
		}
	} else {
		st, _ := register(sc.Alt.Pub)
		if broken {
			return
		}
		s := e.S.VerifSnapshot(false)
		if st == 200 || [32]byte(s.GCAKey) != sc.GCA.Pub {
			in.viol("second-registration-accepted-after-crash", "a registration survived the crash, yet another registration got status %d and the key is now %x", st, s.GCAKey[:])
			ok = false
		} else {
			in.count("probe.second_registration_rejected")
		}
	}
	mk := func(id uint32, k refenc.Key, signer refenc.Key, debt uint64) refenc.Auth {
		return refenc.Auth{ID: id, Pub: k.Pub, Lat: 12.5, Long: -33.25, Capacity: 100000, Debt: debt, Expiration: 500000, Initialization: 7, Fee: 99}.Signed(signer.Priv)
	}
	const idP1, idP2, idP3 = 4000000001, 4000000002, 4000000003
	// a foreign key is not honoured
	if st, _ := authorize(mk(idP3, sc.Probe[2], sc.Alt, 1)); !broken && st == 200 {
		in.viol("foreign-key-authorization-accepted-after-crash", "an authorization signed by a key that is not the GCA's got status %d", st)
		ok = false
	}
	if broken {
		return
	}
	// the registered key is honoured
	a1 := mk(idP1, sc.Probe[0], sc.GCA, 1)
	st, body := authorize(a1)
	if broken {
		return
	}
	s := e.S.VerifSnapshot(false)
	canAuthorize := true
	if got, has := s.Equipment[idP1]; st != 200 || !has || !authEqual(drv.RefAuth(got), a1) {
		key := "registered-key-not-honoured"
		if !regInP {
			key = "registration-impossible-after-crash"
		}
		in.viol(key, "an authorization signed by the GCA key is answered with status %d (%s); equipment present=%v: nothing can be authorized", st, strings.TrimSpace(string(body)), has)
		ok, canAuthorize = false, false
	} else {
		in.count("probe.authorize_ok")
	}
	now := drv.Clock()
	rep := refenc.Report{ID: idP1, Slot: now, Power: 4242}.Signed(sc.Probe[0].Priv)
	if canAuthorize {
		// report
		e.Inject(rep.Bytes())
		got, _, offset, present := e.S.VerifSlot(idP1, int(now-s.Offset))
		if !present || drv.RefReport(got) != rep {
			in.viol("probe-failed:report", "an acceptable report of a freshly authorized device was not recorded (present=%v offset=%d)", present, offset)
			ok = false
		} else {
			in.count("probe.report_ok")
		}
		// conflicting authorization bans
		st1, _ := authorize(mk(idP2, sc.Probe[1], sc.GCA, 1))
		st2, _ := authorize(mk(idP2, sc.Probe[1], sc.GCA, 2))
		if broken {
			return
		}
		s = e.S.VerifSnapshot(false)
		if _, has := s.Equipment[idP2]; st1 != 200 || st2 == 200 || has || !s.Bans[idP2] {
			in.viol("probe-failed:ban", "authorize + conflicting authorize gave status %d/%d banned=%v", st1, st2, s.Bans[idP2])
			ok = false
		} else {
			in.count("probe.ban_ok")
		}
	}
	// rotation
	before := e.S.VerifSnapshot(true)
	drv.SetClock(before.Offset + 3201)
	n := drv.StepRotation()
	if n < 0 {
		in.out.Inconc = append(in.out.Inconc, "the rotation loop of the restarted server did not come round within the wall-clock watchdog")
		return
	}
	after := e.S.VerifSnapshot(true)
	good := n == 1 && after.Offset == before.Offset+2016 && len(after.History) == len(before.History)+1
	if good {
		rec := after.History[len(after.History)-1]
		good = rec.TimeslotOffset == before.Offset
		idx := int(now - before.Offset)
		if _, has := before.Equipment[idP1]; has && canAuthorize && good && idx >= 0 && idx < 2016 {
			found := false
			for _, dv := range rec.Devices {
				if dv.PublicKey == sc.Probe[0].Pub {
					found = dv.PowerOutputs[idx] == 4242
				}
			}
			good = found
		}
	}
	if !good {
		in.viol("probe-failed:rotation", "a due rotation did not complete as specified: rotations=%d offset %d -> %d, archive %d -> %d", n, before.Offset, after.Offset, len(before.History), len(after.History))
		ok = false
	} else {
		in.count("probe.rotation_ok")
	}
	if ok {
		in.count("probes_all_ok")
	}
}

func loadInspOut(path string) *inspOut {
	b, err := os.ReadFile(path)
	if err != nil {
		return nil
	}
	var o inspOut
	if json.Unmarshal(b, &o) != nil || !o.Done {
		return nil
	}
	return &o
}

func lastStage(path string) string {
	b, _ := os.ReadFile(path + ".stage")
	l := strings.Fields(string(b))
	if len(l) == 0 {
		return "none"
	}
	return l[len(l)-1]
}

var _ = filepath.Join
