//go:build test

package main

// Reference models of C05 (independent of the repository's code):
//   - the script/oplog vocabulary shared by driver, victim and inspector,
//   - the operation model (what a submitted operation does to the state),
//   - the load model (what state a directory's files describe),
//   - comparers between a server snapshot and a model state.

import (
	"bytes"
	"encoding/hex"
	"encoding/json"
	"fmt"
	"math"
	"math/big"
	"os"
	"path/filepath"
	"sort"
	"strings"

	"github.com/glowlabs-org/gca-backend/server"

	"verifharness/lib/drv"
	"verifharness/lib/refenc"
)

// ---------------------------------------------------------------- script

// Op is one submitted operation. Kinds: start, register, auth, report, clock,
// rotate, restart, migrate (a migration order: JSON body in Hex; it changes
// none of the compared sections).
type Op struct {
	I       int    `json:"i"`
	K       string `json:"k"`
	Hex     string `json:"hex,omitempty"` // register: key32||sig64, auth: 148 bytes, report: 80 bytes
	V       uint32 `json:"v,omitempty"`   // clock value
	Round   int    `json:"round"`         // -1 = sequential part
	SleepUs int    `json:"sleep_us,omitempty"`
	Tag     string `json:"tag,omitempty"`   // generator class (evidence only)
	Storm   bool   `json:"storm,omitempty"` // posted in a loop by a second connection while the previous op runs
}

// Round is one barrier-delimited section of a concurrent workload.
type Round struct {
	Pre     []Op   `json:"pre"`
	Workers [][]Op `json:"workers"`
}

type Script struct {
	Name        string        `json:"name"`
	Seed        int64         `json:"seed"`
	Temp        refenc.Key    `json:"temp"`
	GCA         refenc.Key    `json:"gca"`
	Alt         refenc.Key    `json:"alt"`
	Probe       [3]refenc.Key `json:"probe"`
	Ops         []Op          `json:"ops"`
	Rounds      []Round       `json:"rounds,omitempty"`
	PauseBefore int           `json:"pause_before"` // wait for a tracer before this op (-1: never)
	PauseAfter  int           `json:"pause_after"`  // park after this op's END (-1: never)
	StopBefore  int           `json:"stop_before"`  // park before this op's BEGIN (-1: never)
	// KillInOp >= 0: when the rotation performed by that op begins (hook
	// migrate.beforeLock), the victim starts a watcher that sends SIGKILL to the
	// process KillDelayUs after the statistics file started to grow.
	KillInOp    int `json:"kill_in_op"`
	KillDelayUs int `json:"kill_delay_us"`
}

func (s *Script) clone() *Script {
	c := *s
	return &c
}

// flat returns every op of the script sorted by index.
func (s *Script) flat() []Op {
	out := append([]Op(nil), s.Ops...)
	for _, r := range s.Rounds {
		out = append(out, r.Pre...)
		for _, w := range r.Workers {
			out = append(out, w...)
		}
	}
	sort.Slice(out, func(i, j int) bool { return out[i].I < out[j].I })
	return out
}

func loadScript(path string) (*Script, error) {
	raw, err := os.ReadFile(path)
	if err != nil {
		return nil, err
	}
	var s Script
	if err := json.Unmarshal(raw, &s); err != nil {
		return nil, err
	}
	return &s, nil
}

func (o Op) bytes() []byte {
	b, _ := hex.DecodeString(o.Hex)
	return b
}

// ---------------------------------------------------------------- oplog

type oplogInfo struct {
	Visible  map[int]uint32 // rotate op -> window offset a snapshot showed while the op was running
	Begun    map[int]bool
	Ended    map[int]string
	Lines    []string
	Go, Done bool
	Fail     string
}

func parseOplog(path string) *oplogInfo {
	o := &oplogInfo{Begun: map[int]bool{}, Ended: map[int]string{}, Visible: map[int]uint32{}}
	raw, _ := os.ReadFile(path)
	for _, ln := range strings.Split(string(raw), "\n") {
		if ln == "" {
			continue
		}
		o.Lines = append(o.Lines, ln)
		f := strings.SplitN(ln, " ", 3)
		var i int
		switch f[0] {
		case "BEGIN":
			if len(f) >= 2 {
				fmt.Sscan(f[1], &i)
				o.Begun[i] = true
			}
		case "END":
			if len(f) >= 2 {
				fmt.Sscan(f[1], &i)
				res := ""
				if len(f) == 3 {
					res = f[2]
				}
				o.Ended[i] = res
			}
		case "VISIBLE":
			if len(f) == 3 {
				var off uint32
				fmt.Sscan(f[1], &i)
				fmt.Sscan(f[2], &off)
				o.Visible[i] = off
			}
		case "GO":
			o.Go = true
		case "DONE":
			o.Done = true
		case "FAIL":
			o.Fail = ln
		}
	}
	return o
}

// acked: the operation completed and its submitter got the server's answer.
func (o *oplogInfo) acked(i int) bool {
	res, ok := o.Ended[i]
	return ok && !strings.HasPrefix(res, "err=")
}

// inflight lists the operations that were submitted but not acknowledged:
// BEGIN without END, or END with a transport error (fate unknown).
func (o *oplogInfo) inflight() []int {
	var l []int
	for i := range o.Begun {
		if !o.acked(i) {
			l = append(l, i)
		}
	}
	sort.Ints(l)
	return l
}

// ---------------------------------------------------------------- operation model

const (
	stEmpty  = 0
	stReport = 1
	stBanned = 2
)

type slot struct {
	St  byte
	Rec refenc.Report
}

// expect is the record the server must hold for the slot.
func (s slot) expect() refenc.Report {
	switch s.St {
	case stReport:
		return s.Rec
	case stBanned:
		r := s.Rec
		r.Power = 1
		return r
	}
	return refenc.Report{}
}

func (s slot) published() uint64 {
	switch s.St {
	case stReport:
		return s.Rec.Power
	case stBanned:
		return 1
	}
	return 0
}

type archRec struct {
	Week  uint32
	Dev   map[[32]byte]*[2016]uint64
	Ghost map[[32]byte]*[2016]uint64 // devices the model banned earlier in the same round (concurrent workloads)
	Round int
}

type mstate struct {
	Reg    bool
	GCA    [32]byte
	Eq     map[uint32]refenc.Auth
	Bans   map[uint32]bool
	PK     map[[32]byte]uint32
	Slots  map[uint32]*[4032]slot
	Offset uint32
	Now    uint32
	Arch   []archRec
	// bookkeeping for the relaxed archive comparison of concurrent workloads
	AuthRound map[[32]byte]int
	BanRound  map[[32]byte]int
	ghost     map[[32]byte]*[4032]slot // slots of a device at the moment the model banned it
	temp      [32]byte
	applied   []int
}

func newState(temp [32]byte) *mstate {
	return &mstate{Eq: map[uint32]refenc.Auth{}, Bans: map[uint32]bool{}, PK: map[[32]byte]uint32{}, Slots: map[uint32]*[4032]slot{},
		AuthRound: map[[32]byte]int{}, BanRound: map[[32]byte]int{}, ghost: map[[32]byte]*[4032]slot{}, temp: temp}
}

var verifyCache = map[string]bool{}

func verifyC(pub [32]byte, msg []byte, sig [64]byte) bool {
	k := string(pub[:]) + string(sig[:]) + string(msg)
	if v, ok := verifyCache[k]; ok {
		return v
	}
	v := refenc.Verify(pub, msg, sig)
	verifyCache[k] = v
	return v
}

func overCapacity(power, capacity uint64) bool {
	if int64(power) < 0 {
		return false
	}
	l := new(big.Int).Mul(new(big.Int).SetUint64(power), big.NewInt(100))
	r := new(big.Int).Mul(new(big.Int).SetUint64(capacity), big.NewInt(135))
	return l.Cmp(r) > 0
}

// slotApply is the slot model of DESIGN §3 for an acceptable report.
func slotApply(s *slot, rep refenc.Report, capacity uint64) {
	switch s.St {
	case stBanned:
	case stReport:
		if s.Rec != rep {
			s.St = stBanned
		}
	default:
		s.Rec = rep
		if overCapacity(rep.Power, capacity) {
			s.St = stBanned
		} else {
			s.St = stReport
		}
	}
}

func authEqual(a, b refenc.Auth) bool { return bytes.Equal(a.Bytes(), b.Bytes()) }

// authApply is the equipment rule shared by live handling and load: banned
// ids ignore everything, an identical record is a no-op, a first record
// authorizes, a different record for an authorized id bans the id for good.
func (m *mstate) authApply(a refenc.Auth, round int) {
	if m.Bans[a.ID] {
		return
	}
	cur, ex := m.Eq[a.ID]
	if ex && authEqual(cur, a) {
		return
	}
	if !ex {
		m.Eq[a.ID] = a
		m.PK[a.Pub] = a.ID
		m.Slots[a.ID] = new([4032]slot)
		m.AuthRound[a.Pub] = round
		return
	}
	m.ghost[cur.Pub] = m.Slots[a.ID]
	delete(m.Eq, a.ID)
	delete(m.Slots, a.ID)
	delete(m.PK, cur.Pub)
	m.Bans[a.ID] = true
	m.BanRound[cur.Pub] = round
}

// apply is the effect of one submitted operation.
func (m *mstate) apply(op Op) {
	m.applied = append(m.applied, op.I)
	switch op.K {
	case "clock":
		m.Now = op.V
	case "register":
		b := op.bytes()
		if len(b) != 96 || m.Reg {
			return
		}
		var g refenc.Registration
		copy(g.GCAKey[:], b[:32])
		copy(g.Sig[:], b[32:])
		if !verifyC(m.temp, g.SigningBytes(), g.Sig) {
			return
		}
		m.Reg = true
		m.GCA = g.GCAKey
	case "auth":
		a, err := refenc.ParseAuth(op.bytes())
		if err != nil || !m.Reg || !verifyC(m.GCA, a.SigningBytes(), a.Sig) {
			return
		}
		m.authApply(a, op.Round)
	case "report":
		rep, err := refenc.ParseReport(op.bytes())
		if err != nil || m.Bans[rep.ID] {
			return
		}
		au, ok := m.Eq[rep.ID]
		if !ok || !verifyC(au.Pub, rep.SigningBytes(), rep.Sig) {
			return
		}
		dn := int64(rep.Slot) - int64(m.Now)
		if dn < -432 || dn > 432 {
			return
		}
		if int64(rep.Slot) < int64(m.Offset) || int64(rep.Slot) >= int64(m.Offset)+4032 {
			return
		}
		if rep.Power == 0 || rep.Power == 1 {
			return
		}
		slotApply(&m.Slots[rep.ID][rep.Slot-m.Offset], rep, au.Capacity)
	case "rotate":
		if int64(m.Now)-int64(m.Offset) <= 3200 {
			return
		}
		rec := archRec{Week: m.Offset, Dev: map[[32]byte]*[2016]uint64{}, Ghost: map[[32]byte]*[2016]uint64{}, Round: op.Round}
		for pub, sl := range m.ghost {
			if m.BanRound[pub] == op.Round {
				arr := new([2016]uint64)
				for i := 0; i < 2016; i++ {
					arr[i] = sl[i].published()
				}
				rec.Ghost[pub] = arr
			}
		}
		for id, sl := range m.Slots {
			arr := new([2016]uint64)
			for i := 0; i < 2016; i++ {
				arr[i] = sl[i].published()
			}
			rec.Dev[m.Eq[id].Pub] = arr
			copy(sl[:2016], sl[2016:])
			for i := 2016; i < 4032; i++ {
				sl[i] = slot{}
			}
		}
		m.Arch = append(m.Arch, rec)
		m.Offset += 2016
	}
}

// modelOf applies the ops whose index is in the set, in index order.
func modelOf(sc *Script, flat []Op, in map[int]bool) *mstate {
	m := newState(sc.Temp.Pub)
	for _, op := range flat {
		if in[op.I] {
			m.apply(op)
		}
	}
	return m
}

// ---------------------------------------------------------------- load model (files -> state)

var serverFiles = []string{"server.keys", "gcaPubKey.dat", "equipment-authorizations.dat", "equipment-reports.dat", "allDeviceStats.dat"}

type diskFiles map[string][]byte // nil entry = absent

func readDisk(dir string) diskFiles {
	d := diskFiles{}
	for _, n := range serverFiles {
		b, err := os.ReadFile(filepath.Join(dir, n))
		if err != nil {
			d[n] = nil
			continue
		}
		if b == nil {
			b = []byte{}
		}
		d[n] = b
	}
	return d
}

func (d diskFiles) sizes() map[string]int {
	m := map[string]int{}
	for n, b := range d {
		if b == nil {
			m[n] = -1
		} else {
			m[n] = len(b)
		}
	}
	return m
}

type fstate struct {
	*mstate
	Stats     []refenc.Stats
	Torn      map[string]string // file -> why its content is not a sequence of whole records
	ServerPub [32]byte
	HasKey    bool
	Notes     []string
}

// deriveFromFiles decodes the directory with the reference decoders and
// replays the records through the reference rules.
func deriveFromFiles(d diskFiles, temp [32]byte) *fstate {
	f := &fstate{mstate: newState(temp), Torn: map[string]string{}}
	if k := d["server.keys"]; len(k) >= 64 {
		copy(f.ServerPub[:], k[:32])
		f.HasKey = true
	} else if len(k) > 0 {
		f.Torn["server.keys"] = fmt.Sprintf("%d bytes", len(k))
	}
	switch g := d["gcaPubKey.dat"]; {
	case len(g) == 0:
	case len(g) == 32:
		f.Reg = true
		copy(f.GCA[:], g)
	default:
		f.Torn["gcaPubKey.dat"] = fmt.Sprintf("%d bytes", len(g))
	}
	au := d["equipment-authorizations.dat"]
	if len(au)%148 != 0 {
		f.Torn["equipment-authorizations.dat"] = fmt.Sprintf("%d bytes is not a multiple of 148", len(au))
	}
	for i := 0; i+148 <= len(au); i += 148 {
		a, _ := refenc.ParseAuth(au[i : i+148])
		if !f.Reg || !verifyC(f.GCA, a.SigningBytes(), a.Sig) {
			f.Notes = append(f.Notes, fmt.Sprintf("authorization record %d does not verify under the GCA key on disk", i/148))
		}
		f.authApply(a, -1)
	}
	// A trailing incomplete record belongs to a rotation that never completed;
	// the whole records before it are what the directory holds.
	st, rest := parseStatsPrefix(d["allDeviceStats.dat"])
	if rest > 0 {
		f.Torn["allDeviceStats.dat"] = fmt.Sprintf("%d bytes of an incomplete record follow %d whole records", rest, len(st))
	}
	f.Stats = st
	if len(st) > 0 {
		f.Offset = st[len(st)-1].Week + 2016
	}
	rp := d["equipment-reports.dat"]
	if len(rp)%80 != 0 {
		f.Torn["equipment-reports.dat"] = fmt.Sprintf("%d bytes is not a multiple of 80", len(rp))
	}
	for i := 0; i+80 <= len(rp); i += 80 {
		rep, _ := refenc.ParseReport(rp[i : i+80])
		if f.Bans[rep.ID] {
			continue
		}
		a, ok := f.Eq[rep.ID]
		if !ok {
			f.Notes = append(f.Notes, fmt.Sprintf("report record %d names unknown device %d", i/80, rep.ID))
			continue
		}
		if int64(rep.Slot) < int64(f.Offset) || int64(rep.Slot) >= int64(f.Offset)+4032 {
			continue
		}
		slotApply(&f.Slots[rep.ID][rep.Slot-f.Offset], rep, a.Capacity)
	}
	return f
}

// parseStatsPrefix decodes the whole records at the start of a history file
// and returns how many bytes follow them.
func parseStatsPrefix(b []byte) ([]refenc.Stats, int) {
	var out []refenc.Stats
	for len(b) >= 4 {
		n := int(uint32(b[0]) | uint32(b[1])<<8 | uint32(b[2])<<16 | uint32(b[3])<<24)
		need := 4 + n*(32+2016*16) + 4 + 64
		if n > 1<<20 || len(b) < need {
			break
		}
		r, err := refenc.ParseStatsStream(b[:need])
		if err != nil || len(r) != 1 {
			break
		}
		out = append(out, r[0])
		b = b[need:]
	}
	return out, len(b)
}

// ---------------------------------------------------------------- comparers

// cmpSnap lists the sections (gca, equipment, bans, pkindex, slots, offset)
// in which the server snapshot differs from the model state.
func cmpSnap(s *server.VerifSnap, m *mstate) []string {
	var d []string
	var zero [32]byte
	if s.GCAAvailable != m.Reg || (m.Reg && [32]byte(s.GCAKey) != m.GCA) || (!m.Reg && [32]byte(s.GCAKey) != zero) {
		d = append(d, "gca")
	}
	eq := len(s.Equipment) == len(m.Eq)
	if eq {
		for id, a := range m.Eq {
			sa, ok := s.Equipment[id]
			if !ok || !authEqual(drv.RefAuth(sa), a) {
				eq = false
				break
			}
		}
	}
	if !eq {
		d = append(d, "equipment")
	}
	eq = len(s.Bans) == len(m.Bans)
	if eq {
		for id := range m.Bans {
			if !s.Bans[id] {
				eq = false
				break
			}
		}
	}
	if !eq {
		d = append(d, "bans")
	}
	eq = len(s.ShortIDs) == len(m.PK)
	if eq {
		for k, id := range m.PK {
			if v, ok := s.ShortIDs[k]; !ok || v != id {
				eq = false
				break
			}
		}
	}
	if !eq {
		d = append(d, "pkindex")
	}
	if s.Offset != m.Offset {
		d = append(d, "offset")
	}
	eq = len(s.Reports) == len(m.Slots)
	if eq {
	outer:
		for id, sl := range m.Slots {
			sr, ok := s.Reports[id]
			if !ok || sr == nil {
				eq = false
				break
			}
			for i := 0; i < 4032; i++ {
				if drv.RefReport(sr[i]) != sl[i].expect() {
					eq = false
					break outer
				}
			}
		}
	}
	if !eq {
		d = append(d, "slots")
	}
	return d
}

// snapStats converts the snapshot's archive to reference structs.
func snapStats(s *server.VerifSnap) []refenc.Stats {
	out := make([]refenc.Stats, len(s.History))
	for i, h := range s.History {
		st := refenc.Stats{Week: h.TimeslotOffset, Sig: h.Signature, Devices: make([]refenc.DevStats, len(h.Devices))}
		for k, dv := range h.Devices {
			st.Devices[k].Pub = dv.PublicKey
			st.Devices[k].Power = dv.PowerOutputs
			for x, v := range dv.ImpactRates {
				st.Devices[k].Impact[x] = math.Float64bits(v)
			}
		}
		out[i] = st
	}
	return out
}

func statsEqualBytes(a, b []refenc.Stats) bool {
	if len(a) != len(b) {
		return false
	}
	for i := range a {
		if !bytes.Equal(a[i].Bytes(), b[i].Bytes()) {
			return false
		}
	}
	return true
}

// cmpArchive compares archived weeks with the model. exact: the device set
// of every record equals the model's. Otherwise (concurrent workload) a
// device may be missing from / additional to a record only if it was banned /
// authorized in the same round as that rotation; an additional one must be
// all zero.
func cmpArchive(st []refenc.Stats, m *mstate, exact bool) string {
	if len(st) != len(m.Arch) {
		return fmt.Sprintf("%d archived weeks, model has %d", len(st), len(m.Arch))
	}
	for i, rec := range st {
		mr := m.Arch[i]
		if rec.Week != mr.Week {
			return fmt.Sprintf("archived week %d is labelled %d, model says %d", i, rec.Week, mr.Week)
		}
		seen := map[[32]byte]bool{}
		for _, dv := range rec.Devices {
			if seen[dv.Pub] {
				return fmt.Sprintf("archived week %d lists a device twice", i)
			}
			seen[dv.Pub] = true
			want, ok := mr.Dev[dv.Pub]
			if ok {
				if *want != dv.Power {
					return fmt.Sprintf("archived week %d: power values of device %x differ from the model", i, dv.Pub[:4])
				}
				continue
			}
			if exact {
				return fmt.Sprintf("archived week %d holds device %x which the model does not archive", i, dv.Pub[:4])
			}
			if g, ok := mr.Ghost[dv.Pub]; ok { // banned in the same round: the ban may have come after the rotation
				if *g != dv.Power {
					return fmt.Sprintf("archived week %d: power values of device %x (banned during the rotation's round) differ from the model", i, dv.Pub[:4])
				}
				continue
			}
			ar, known := m.AuthRound[dv.Pub]
			if !known || ar != mr.Round {
				return fmt.Sprintf("archived week %d holds device %x which the model does not archive", i, dv.Pub[:4])
			}
			if dv.Power != [2016]uint64{} {
				return fmt.Sprintf("archived week %d: device %x authorized during the rotation has non-zero values", i, dv.Pub[:4])
			}
		}
		for pub := range mr.Dev {
			if seen[pub] {
				continue
			}
			br, banned := m.BanRound[pub]
			ar, authd := m.AuthRound[pub]
			if exact || !((banned && br == mr.Round) || (authd && ar == mr.Round)) {
				return fmt.Sprintf("archived week %d lacks device %x which the model archives", i, pub[:4])
			}
		}
	}
	return ""
}

func joinSorted(l []string) string {
	s := append([]string(nil), l...)
	sort.Strings(s)
	return strings.Join(s, ",")
}
