//go:build test

// C03 — Weekly statistics equal the accepted reports and never change once
// archived.
//
// Monitor: a real server per generated history (child process), rotation and
// impact jobs gated at their loop heads. The history interleaves report
// bursts (judged by the slot model written here), authorizations and bans,
// clock advances, background rotations (one gated loop iteration at a time),
// restarts with 0..3 start-up catch-up rotations, and GET all-device-stats
// for archived / live / future / misaligned weeks with and without
// insert_false_negatives and junk parameters.
//
// Oracles (all on lib/refenc encodings and go-ethereum signatures, never the
// repository's encoders):
//   - rotation: snapshot S at migrate.beforeLock, S' afterwards; archived
//     record, shift, blanking, offset, label, signature, file append.
//   - query: archived week == record produced by the rotation == first
//     response, forever (re-checked after every operation of every kind);
//     live week == slot model / device set now; refusals change nothing.
//   - trigger model: background loop rotates iff now−offset > 3200, start-up
//     loop while now−offset ≥ 4000.
package main

import (
	"bytes"
	"fmt"
	"math"
	"math/big"
	"math/rand"
	"os"
	"path/filepath"
	"sort"
	"strings"
	"sync"
	"time"

	"github.com/glowlabs-org/gca-backend/server"

	"verifharness/lib/drv"
	"verifharness/lib/ev"
	"verifharness/lib/refenc"
	"verifharness/lib/run"
	"verifharness/lib/wmodel"
)

func main() {
	run.Main(run.Spec{
		ID:    "C03",
		Level: "exploration",
		Pkg:   "./cmd/c03",
		Rule: "one case = one judged operation of a generated history (report burst, authorization, ban, clock advance, gated rotation-loop iteration, restart with 0..3 catch-up rotations, statistics query). " +
			"Non-trivial = a rotation whose window holds non-zero power and non-zero impact rates in both halves, or a statistics query whose week holds at least one non-zero power value (archived or live), or a refused (future / misaligned) query, " +
			"or an immutability re-check of a non-empty archived week after a later operation; distinct by (history seed, operation index, week).",
		Assumptions: []string{
			"rotation and impact jobs are gated at their loop heads; exactly one loop iteration is released at a time, so the snapshot taken at migrate.beforeLock is the state the rotation sees",
			"test-mode impact values are wall-clock derived: they are never predicted, only required to be conserved bit-exactly (written by releasing the real impact job with the clock in either half of the window)",
			"latitude/longitude stay within ±90/±180 (the test-mode stub adds them into the fake impact value)",
			"the protocol clock only moves forward inside a history; a server is never shut down while now−offset > 3200 (the real background loop would rotate first)",
			"float→uint64 negation of insert_false_negatives is evaluated as on this platform (amd64)",
			"histories are sampled (fixed function of tier and seed), not enumerated",
		},
		Plan:          plan,
		Child:         child,
		ClassifyDeath: classifyDeath,
		Post: func(c *ev.Check, outs []*run.Outcome) {
			c.Require("concpoll.responses_judged", 100)
			c.Require("max.archived_weeks_longhist", 105)
			c.Require("query.future.beyond32bits_aligned_in_64_bits", 1)
			c.Require("max.archive_file_bytes", 4<<20+1)             // a history file larger than 4 MiB was restarted on
			c.Require("max.devices_in_rotation", 130)                // a single record larger than 4 MiB
			c.Require("max.archived_weeks", 17)                      // a long archive
			c.Require("max.accepted_reports_between_restarts", 1001) // more than the recent-report list holds
			mx := map[string]float64{}
			for _, o := range outs {
				if o != nil && o.WallS > mx[o.Batch.Kind] {
					mx[o.Batch.Kind] = o.WallS
				}
			}
			c.SetExtra("max_batch_wall_s_by_kind", mx)
			for _, k := range []string{"rotations_judged", "rotation.nontrivial_both_halves", "rotation.background", "rotation.catchup", "restart.catchup_multi",
				"tick.expect0", "tick.expect1", "tick.at3200", "tick.at3201", "restart.at3999", "restart.at4000",
				"query.archived", "query.archived.fn", "fn.negated_slots", "query.live0", "query.live1", "query.future", "query.misaligned",
				"immutability_rechecks", "reports.accepted_fresh", "reports.equivocation", "bans", "authorizations", "restarts", "file_checks",
				"fault.outcome_observed", "fault.restart_in_fresh_process", "fault.scenarios.dir", "fault.scenarios.partial", "tornlog.scenarios", "histories.deep", "histories.big",
				"restart.expired_device_has_reports", "restart.unexpired_device_has_reports", "restart.device_without_expiration_has_reports"} {
				c.Require(k, 1)
			}
		},
	})
}

// classifyDeath: a statistics (or any other) handler that panics is swallowed
// by net/http; if it died holding the server lock the child then hangs until
// the watchdog. The panic line on stderr is the refuting event.
func classifyDeath(c *ev.Check, o *run.Outcome) bool {
	if strings.Contains(o.Stderr, "server lived for longer than 120 seconds") {
		c.Inconc(fmt.Sprintf("batch %d (%s): a test-mode server instance reached its 120 s life limit (machine too slow for this batch)", o.Batch.Index, o.Batch.Kind))
		return true
	}
	line := run.CrashLine(o.Stderr)
	i := strings.Index(line, "http: panic serving")
	if i < 0 {
		return false
	}
	msg := line[i:]
	if j := strings.Index(msg, ": "); j >= 0 {
		if k := strings.Index(msg[j+2:], ": "); k >= 0 {
			msg = msg[j+2+k+2:]
		}
	}
	c.Violation("handler-panic:"+run.Normalize(msg), "an HTTP handler panicked (child then "+map[bool]string{true: "hung until the watchdog", false: "died"}[o.TimedOut]+"): "+line,
		map[string]interface{}{"batch": o.Batch, "oplog_tail": o.OplogTail})
	return true
}

func planBase(tier string, seed int64) []run.Batch {
	// Watchdogs are generous (CPU contention must not turn into a verdict); what
	// bounds a batch is the 120 s life of a test-mode server instance, and every
	// history restarts its server several times.
	var bs []run.Batch
	if tier == "thorough" {
		// 300 batches × 5 histories = 1500 histories, plus 4 large-rotation batches
		for i := 0; i < 300; i++ {
			bs = append(bs, run.Batch{Kind: "histories", Seed: seed*100000 + int64(i), N: 5, TimeoutS: 600})
		}
		for i := 0; i < 4; i++ {
			bs = append(bs, run.Batch{Kind: "bigrot", Seed: seed*100000 + 9000 + int64(i), N: 1, TimeoutS: 600, Params: map[string]string{"devices": "200"}})
		}
		for i := 0; i < 4; i++ {
			bs = append(bs, run.Batch{Kind: "deep", Seed: seed*100000 + 9700 + int64(i), N: 1, TimeoutS: 600, Params: map[string]string{"devices": fmt.Sprint(10 + 2*i), "rounds": fmt.Sprint(6 + i)}})
		}
		for i := 0; i < 3; i++ {
			bs = append(bs, run.Batch{Kind: "longhist", Seed: seed*100000 + 9950 + int64(i), N: 1, TimeoutS: 400})
		}
		for i := 0; i < 6; i++ {
			bs = append(bs, run.Batch{Kind: "concpoll", Seed: seed*100000 + 9900 + int64(i), N: 1, TimeoutS: 400})
		}
		for i := 0; i < 4; i++ {
			bs = append(bs, run.Batch{Kind: "tornlog", Seed: seed*100000 + 9800 + int64(i), N: 1, TimeoutS: 400})
		}
		for i := 0; i < 4; i++ {
			bs = append(bs, run.Batch{Kind: "diskfault", Seed: seed*100000 + 9500 + int64(i), N: 1, TimeoutS: 900, Params: map[string]string{"mode": []string{"dir", "partial"}[i%2]}})
		}
		return bs
	}
	for i := 0; i < 10; i++ {
		bs = append(bs, run.Batch{Kind: "histories", Seed: seed*100000 + int64(i), N: 4, TimeoutS: 400})
	}
	bs = append(bs, run.Batch{Kind: "bigrot", Seed: seed*100000 + 9000, N: 1, TimeoutS: 400, Params: map[string]string{"devices": "136"}})
	bs = append(bs, run.Batch{Kind: "deep", Seed: seed*100000 + 9700, N: 1, TimeoutS: 400, Params: map[string]string{"devices": "12", "rounds": "6"}})
	bs = append(bs, run.Batch{Kind: "tornlog", Seed: seed*100000 + 9800, N: 1, TimeoutS: 400})
	bs = append(bs, run.Batch{Kind: "concpoll", Seed: seed*100000 + 9900, N: 1, TimeoutS: 400})
	bs = append(bs, run.Batch{Kind: "longhist", Seed: seed*100000 + 9950, N: 1, TimeoutS: 400})
	bs = append(bs, run.Batch{Kind: "diskfault", Seed: seed*100000 + 9500, N: 1, TimeoutS: 600, Params: map[string]string{"mode": "dir"}})
	bs = append(bs, run.Batch{Kind: "diskfault", Seed: seed*100000 + 9501, N: 1, TimeoutS: 600, Params: map[string]string{"mode": "partial"}})
	return bs
}

// retry repeats an HTTP POST whose transport failed (the server closes idle
// keep-alive connections after 2.5 s; a request written into such a
// connection dies with EOF). All POSTs used here are idempotent.
func retry(f func() error) error {
	var err error
	for i := 0; i < 3; i++ {
		if err = f(); err == nil || !(strings.Contains(err.Error(), "EOF") || strings.Contains(err.Error(), "connection reset") || strings.Contains(err.Error(), "broken pipe")) {
			return err
		}
		time.Sleep(5 * time.Millisecond)
	}
	return err
}

// ---------------------------------------------------------------- hook: snapshot before every rotation

var (
	hookMu    sync.Mutex
	hookOn    bool
	hookSnaps []*server.VerifSnap
)

func installHook() {
	server.VerifSetHook("migrate.beforeLock", func(s *server.GCAServer) {
		hookMu.Lock()
		on := hookOn
		hookMu.Unlock()
		if !on {
			return
		}
		sn := s.VerifSnapshot(true)
		hookMu.Lock()
		hookSnaps = append(hookSnaps, sn)
		hookMu.Unlock()
	})
}

func hookArm() {
	hookMu.Lock()
	hookOn = true
	hookSnaps = nil
	hookMu.Unlock()
}

func hookTake() []*server.VerifSnap {
	hookMu.Lock()
	defer hookMu.Unlock()
	out := hookSnaps
	hookSnaps = nil
	hookOn = false
	return out
}

// waitParked waits until the freshly started server's rotation and impact
// loops have reached their (gated) heads, so that a later Step* call releases
// a loop that is really waiting. Wall-clock expiry is only ever inconclusive.
func waitParked(rotArr, impArr int64) bool {
	deadline := time.Now().Add(20 * time.Second)
	for drv.RotationArrive.Load() == rotArr || drv.ImpactArrive.Load() == impArr {
		if time.Now().After(deadline) {
			return false
		}
		time.Sleep(200 * time.Microsecond)
	}
	return true
}

// ---------------------------------------------------------------- model

type cell struct {
	state int // 0 empty, 1 report, 2 banned
	rep   refenc.Report
}

type hist struct {
	*drv.World
	r         *ev.Result
	rng       *rand.Rand
	b         run.Batch
	tag       string
	devs      map[uint32]*drv.Dev // authorized and not banned (model)
	gone      map[uint32]bool     // banned ids (model)
	next      uint32
	pending   map[uint32]*drv.Dev
	mdl       map[uint32]map[uint32]*cell // device → absolute slot → cell
	off       uint32                      // model window offset
	arch      []refenc.Stats              // records produced by judged rotations, as stored
	archB     []byte                      // reference serialization of arch
	first     map[int]*refenc.Stats       // first plain response served per archived week
	ops       []string
	opn       int
	keepDir   bool   // the server directory outlives this process (disk-fault scenario)
	whileDown func() // run once between Close and the next start (file fault); that start may refuse
	accepted  int    // accepted reports since the last (re)start
	dead      bool   // stop this history (precondition failed / server gone)
	fatal     bool   // stop the child (a server may still be running)
}

func (h *hist) op(format string, a ...interface{}) {
	s := fmt.Sprintf(format, a...)
	h.opn++
	h.ops = append(h.ops, fmt.Sprintf("%d %s", h.opn, s))
	run.Op("%s %s", h.tag, s)
}

func (h *hist) replay(extra map[string]interface{}) interface{} {
	ops := h.ops
	if len(ops) > 80 {
		ops = ops[len(ops)-80:]
	}
	m := map[string]interface{}{"batch": h.b, "history": h.tag, "ops_tail": ops, "clock": drv.Clock(), "model_offset": h.off}
	for k, v := range extra {
		m[k] = v
	}
	return m
}

func (h *hist) viol(key string, extra map[string]interface{}, format string, a ...interface{}) {
	h.r.Violationf(key, h.replay(extra), format, a...)
}

func (h *hist) precond(format string, a ...interface{}) {
	h.r.Inconc(h.tag + ": model precondition failed: " + fmt.Sprintf(format, a...))
	h.dead = true
}

func overCapacity(power, capacity uint64) bool {
	if int64(power) < 0 {
		return false
	}
	l := new(big.Int).Mul(new(big.Int).SetUint64(power), big.NewInt(100))
	r := new(big.Int).Mul(new(big.Int).SetUint64(capacity), big.NewInt(135))
	return l.Cmp(r) > 0
}

func (h *hist) published(dev, slot uint32) uint64 {
	c := h.mdl[dev][slot]
	if c == nil {
		return 0
	}
	switch c.state {
	case 1:
		return c.rep.Power
	case 2:
		return 1
	}
	return 0
}

func (h *hist) sortedDevs() []*drv.Dev {
	out := make([]*drv.Dev, 0, len(h.devs))
	for _, d := range h.devs {
		out = append(out, d)
	}
	sort.Slice(out, func(i, j int) bool { return out[i].ID < out[j].ID })
	return out
}

// modelWeek builds the week starting at absolute slot base from the report
// model alone (impact left zero).
func (h *hist) modelWeek(base uint32) refenc.Stats {
	ds := h.sortedDevs()
	out := refenc.Stats{Week: base, Devices: make([]refenc.DevStats, len(ds))}
	for i, d := range ds {
		out.Devices[i].Pub = d.Key.Pub
		for s, c := range h.mdl[d.ID] {
			if s >= base && s < base+wmodel.Week && c != nil {
				out.Devices[i].Power[s-base] = h.published(d.ID, s)
			}
		}
	}
	return out
}

// ---------------------------------------------------------------- operations

func (h *hist) slotRange() (lo, hi int64, ok bool) {
	now := int64(drv.Clock())
	lo, hi = now-432, now+432
	if lo < int64(h.off) {
		lo = int64(h.off)
	}
	if hi > int64(h.off)+4031 {
		hi = int64(h.off) + 4031
	}
	return lo, hi, lo <= hi
}

// deliver injects one report and advances the slot model.
func (h *hist) deliver(d *drv.Dev, rep refenc.Report, kind string) {
	now := int64(drv.Clock())
	s := int64(rep.Slot)
	acceptable := s >= now-432 && s <= now+432 && s >= int64(h.off) && s < int64(h.off)+4032 && rep.Power != 0 && rep.Power != 1
	h.Inject(rep.Bytes())
	h.r.Eval(1)
	if acceptable {
		if h.mdl[d.ID] == nil {
			h.mdl[d.ID] = map[uint32]*cell{}
		}
		c := h.mdl[d.ID][rep.Slot]
		if c == nil {
			c = &cell{}
			h.mdl[d.ID][rep.Slot] = c
		}
		if c.state == 0 || (c.state == 1 && c.rep != rep) {
			h.accepted++ // enters the server's bounded recent-report list
		}
		switch c.state {
		case 0:
			c.rep = rep
			if overCapacity(rep.Power, d.Auth.Capacity) {
				c.state = 2
				h.r.Count("reports.overcapacity", 1)
			} else {
				c.state = 1
				h.r.Count("reports.accepted_fresh", 1)
			}
		case 1:
			if c.rep != rep {
				c.state = 2
				h.r.Count("reports.equivocation", 1)
			} else {
				h.r.Count("reports.replay", 1)
			}
		case 2:
			h.r.Count("reports.on_banned_slot", 1)
		}
	} else {
		h.r.Count("reports.unacceptable", 1)
	}
	got, _, off, present := h.S.VerifSlot(d.ID, int(s-int64(h.off)))
	if off != h.off {
		h.viol("offset-moved-without-rotation", nil, "window offset is %d although the model (no rotation released) says %d", off, h.off)
		h.dead = true
		return
	}
	if !present {
		h.viol("authorized-device-has-no-slots", map[string]interface{}{"dev": d.ID}, "device %d is authorized in the model but the server keeps no report array for it", d.ID)
		h.dead = true
		return
	}
	if want := h.published(d.ID, rep.Slot); got.PowerOutput != want {
		h.viol("slot-value-differs-from-report-rules", map[string]interface{}{"dev": d.ID, "slot": rep.Slot, "kind": kind, "report": fmt.Sprintf("%x", rep.Bytes())},
			"after a %s report for device %d slot %d the stored power is %d, the report rules give %d", kind, d.ID, rep.Slot, got.PowerOutput, want)
	}
}

func (h *hist) burst(n int) {
	lo, hi, ok := h.slotRange()
	ds := h.sortedDevs()
	if !ok || len(ds) == 0 {
		return
	}
	h.op("burst n=%d clock=%d", n, drv.Clock())
	for i := 0; i < n && !h.dead; i++ {
		d := ds[h.rng.Intn(len(ds))]
		slot := uint32(lo + h.rng.Int63n(hi-lo+1))
		// a quarter of the reports aim at a slot of this device that already holds a report
		if h.rng.Intn(4) == 0 {
			var filled []uint32
			for s, c := range h.mdl[d.ID] {
				if c != nil && c.state == 1 && int64(s) >= lo && int64(s) <= hi {
					filled = append(filled, s)
				}
			}
			if len(filled) > 0 {
				sort.Slice(filled, func(i, j int) bool { return filled[i] < filled[j] })
				slot = filled[h.rng.Intn(len(filled))]
			}
		}
		capa := d.Auth.Capacity
		normal := func() uint64 {
			if h.rng.Intn(8) == 0 {
				return 2 + uint64(h.rng.Intn(22)) // below the false-negative threshold of 24
			}
			return 24 + uint64(h.rng.Int63n(int64(capa)))
		}
		c := h.mdl[d.ID][slot]
		x := h.rng.Intn(100)
		if c != nil && c.state == 1 {
			switch {
			case x < 30:
				h.deliver(d, c.rep, "replay")
			case x < 65:
				h.deliver(d, d.Report(slot, c.rep.Power+1+uint64(h.rng.Intn(50))), "equivocating")
			case x < 80:
				q := c.rep
				q.Sig = refenc.SignRand(d.Key.Priv, q.SigningBytes())
				h.deliver(d, q, "resigned-same-content")
			default:
				h.deliver(d, d.Report(slot, normal()), "second-report")
			}
			continue
		}
		switch {
		case x < 5:
			h.deliver(d, d.Report(slot, capa*135/100+1+uint64(h.rng.Intn(1000))), "over-capacity")
		case x < 8:
			h.deliver(d, d.Report(slot, capa*135/100), "at-capacity-limit")
		case x < 14:
			h.deliver(d, d.Report(slot, uint64(-int64(1+h.rng.Intn(100000)))), "negative")
		case x < 16:
			h.deliver(d, d.Report(slot, uint64(h.rng.Intn(2))), "sentinel")
		default:
			h.deliver(d, d.Report(slot, normal()), "normal")
		}
	}
}

func (h *hist) authorize() {
	id := h.next
	h.next += 1 + uint32(h.rng.Intn(5))
	capa := uint64(1000 + h.rng.Intn(200000))
	h.op("authorize id=%d capacity=%d", id, capa)
	var d *drv.Dev
	err := retry(func() (e error) { d, e = h.addDevice(id, capa); return })
	h.r.Eval(1)
	if err != nil {
		h.precond("authorization of a fresh device was not accepted: %v", err)
		return
	}
	h.devs[id] = d
	h.r.Count("authorizations", 1)
}

// addDevice authorizes a fresh device; key and authorization are drawn once
// per id so that a retried POST repeats the same bytes.
func (h *hist) addDevice(id uint32, capa uint64) (*drv.Dev, error) {
	d := h.pending[id]
	if d == nil {
		k := refenc.GenKey(h.rng)
		a := h.MkAuth(id, k.Pub, capa)
		// expirations inside the simulated time range, none at all, and far away: no report
		// rule and no start-up rule depends on them
		switch x := h.rng.Intn(10); {
		case x < 2:
			a.Expiration = 0
		case x < 6:
			a.Expiration = 1 + uint32(h.rng.Intn(8000))
		}
		d = &drv.Dev{ID: id, Key: k, Auth: a.Signed(h.GCA.Priv)}
		h.pending[id] = d
	}
	st, body, err := h.Authorize(d.Auth)
	if err != nil {
		return nil, err
	}
	if st != 200 {
		return nil, fmt.Errorf("authorization of device %d: status %d body %s", id, st, body)
	}
	h.Devs[id] = d
	return d, nil
}

func (h *hist) ban() {
	ds := h.sortedDevs()
	if len(ds) < 2 {
		return
	}
	d := ds[h.rng.Intn(len(ds))]
	h.op("ban id=%d (conflicting authorization)", d.ID)
	var st int
	err := retry(func() (e error) { st, e = h.BanDevice(d.ID); return })
	h.r.Eval(1)
	sn := h.S.VerifSnapshot(false)
	_, still := sn.Equipment[d.ID]
	if err != nil || st == 200 || still || !sn.Bans[d.ID] {
		h.precond("conflicting authorization for device %d did not ban it (status %d err %v)", d.ID, st, err)
		return
	}
	delete(h.devs, d.ID)
	delete(h.mdl, d.ID)
	h.gone[d.ID] = true
	h.r.Count("bans", 1)
}

func (h *hist) stepImpact() {
	h.op("impact-step clock=%d", drv.Clock())
	if !drv.StepImpact() {
		h.r.Inconc(h.tag + ": the gated impact job did not complete a released round within the wall-clock watchdog")
		h.dead = true
		return
	}
	h.r.Count("impact_steps", 1)
}

// judgeRotation applies the rotation oracle to one rotation (pre = snapshot
// at migrate.beforeLock, post = state afterwards) and advances the model.
func (h *hist) judgeRotation(pre, post *server.VerifSnap, kind string) {
	h.r.Eval(1)
	h.r.Count("rotations_judged", 1)
	h.r.Count("rotation."+kind, 1)
	n := len(h.arch)
	extra := map[string]interface{}{"rotation_kind": kind, "week_index": n}
	if pre.Offset != h.off {
		h.viol("rotation-at-unexpected-offset", extra, "rotation started at offset %d, model offset is %d", pre.Offset, h.off)
	}
	if len(pre.History) != n {
		h.viol("archive-length-differs-from-model", extra, "archive holds %d weeks before the rotation, %d rotations were observed", len(pre.History), n)
		h.dead = true
		return
	}
	if len(post.History) != n+1 {
		h.viol("rotation-did-not-append-one-week", extra, "archive holds %d weeks after the rotation, want %d", len(post.History), n+1)
		h.dead = true
		return
	}
	for i := 0; i < n; i++ {
		if !wmodel.EqualOrdered(wmodel.FromServer(post.History[i]), h.arch[i]) {
			h.viol("archived-week-changed-in-memory", map[string]interface{}{"week_index": i}, "archived week %d differs from the record produced by its rotation (seen after a later rotation)", i)
		}
	}
	rec := wmodel.FromServer(post.History[n])
	want := wmodel.RecordOf(pre)
	if d := wmodel.DescribeDiff(want, rec, true); d != "" {
		if rec.Week != want.Week {
			h.viol("rotation-record-label", extra, "archived record: %s", d)
		} else {
			h.viol("rotation-record-differs-from-first-week", extra, "archived record differs from the first week of the window at rotation time: %s", d)
		}
	}
	if rec.Week != uint32(wmodel.Week*n) {
		h.viol("archive-not-contiguous", extra, "archive index %d carries label %d, want %d", n, rec.Week, wmodel.Week*n)
	}
	if !wmodel.SigValid(rec, h.Key.Pub) {
		h.viol("rotation-record-signature", extra, "signature of archived week %d does not verify under the server key over the reference signing bytes", n)
	}
	// independent of the snapshot: the device set and powers the report model gives
	mine := h.modelWeek(h.off)
	if d := wmodel.DescribeDiff(mine, rec, false); d != "" {
		h.viol("rotation-record-differs-from-report-model", extra, "archived record differs from what the accepted reports and authorizations give: %s", d)
	}
	if d := wmodel.CheckShift(pre, post, true); d != "" {
		h.viol("rotation-shift", extra, "live window after rotation: %s", d)
	}
	for _, s := range drv.DiffSnap(pre, post).Sections {
		if s == "offset" || s == "archive" || strings.HasPrefix(s, "reports[") || strings.HasPrefix(s, "impact[") {
			continue
		}
		h.viol("rotation-side-effect", extra, "rotation changed section %s", s)
	}
	p1, i1 := wmodel.NonZero(pre, 0, wmodel.Week)
	p2, i2 := wmodel.NonZero(pre, wmodel.Week, 2*wmodel.Week)
	if p1 && p2 {
		h.r.Count("rotation.nonzero_power_both_halves", 1)
	}
	if i2 {
		h.r.Count("rotation.nonzero_impact_upper_half", 1)
	}
	if p1 && p2 && i1 && i2 {
		h.r.Count("rotation.nontrivial_both_halves", 1)
		h.r.Nontrivial(fmt.Sprintf("%s/rot/%d", h.tag, n))
	}
	h.r.Max("max.devices_in_rotation", int64(len(rec.Devices)))
	// advance the model
	h.arch = append(h.arch, rec)
	h.archB = append(h.archB, rec.Bytes()...)
	h.off += wmodel.Week
	for _, m := range h.mdl {
		for s := range m {
			if s < h.off {
				delete(m, s)
			}
		}
	}
}

func (h *hist) checkFile(when string) {
	b := h.ReadFile("allDeviceStats.dat")
	h.r.Count("file_checks", 1)
	h.r.Max("max.archive_file_bytes", int64(len(b)))
	if !bytes.Equal(b, h.archB) {
		detail := fmt.Sprintf("file has %d bytes, reference serialization of the %d judged records has %d", len(b), len(h.arch), len(h.archB))
		if recs, err := refenc.ParseStatsStream(b); err != nil {
			detail += "; file does not parse: " + err.Error()
		} else {
			detail += fmt.Sprintf("; file parses to %d records", len(recs))
			for i, rc := range recs {
				if rc.Week != uint32(wmodel.Week*i) {
					detail += fmt.Sprintf("; record %d labelled %d", i, rc.Week)
					break
				}
			}
		}
		h.viol("archive-file-not-append-of-records", map[string]interface{}{"when": when}, "allDeviceStats.dat is not previous bytes + reference serialization of each rotation's record (%s): %s", when, detail)
	}
}

// tick releases one iteration of the background rotation loop and compares
// what it did with the trigger model.
func (h *hist) tick() {
	now := drv.Clock()
	delta := int64(now) - int64(h.off)
	want := 0
	if delta > 3200 {
		want = 1
	}
	h.op("rotation-loop-iteration clock=%d now-offset=%d expect=%d", now, delta, want)
	hookArm()
	got := drv.StepRotation()
	pres := hookTake()
	if got < 0 {
		h.r.Inconc(h.tag + ": the gated rotation loop did not complete a released iteration within the wall-clock watchdog")
		h.dead = true
		return
	}
	h.r.Eval(1)
	h.r.Count(fmt.Sprintf("tick.expect%d", want), 1)
	switch delta {
	case 3200:
		h.r.Count("tick.at3200", 1)
	case 3201:
		h.r.Count("tick.at3201", 1)
	}
	if got != want || len(pres) != got {
		h.viol("rotation-trigger-differs-from-model", map[string]interface{}{"now_minus_offset": delta}, "background loop iteration at now-offset=%d performed %d rotations (entered %d), model (rotate iff > 3200) says %d", delta, got, len(pres), want)
		h.dead = true // the model's offset is no longer the server's
		return
	}
	if got == 1 {
		post := h.S.VerifSnapshot(true)
		h.judgeRotation(pres[0], post, "background")
		h.checkFile("after background rotation")
	}
}

func guarded(f func() error) (err error, pan interface{}) {
	defer func() {
		if p := recover(); p != nil {
			pan = p
		}
	}()
	return f(), nil
}

// restart closes the server, optionally moves the clock, starts it again on
// the same directory and judges the catch-up rotations.
func (h *hist) restart(newClock uint32) {
	before := h.S.VerifSnapshot(true)
	k := wmodel.CatchUps(newClock, h.off)
	delta := int64(newClock) - int64(h.off)
	for _, d := range h.devs {
		if e := d.Auth.Expiration; len(h.mdl[d.ID]) > 0 {
			switch {
			case e == 0:
				h.r.Count("restart.device_without_expiration_has_reports", 1)
			case newClock >= e:
				h.r.Count("restart.expired_device_has_reports", 1)
			default:
				h.r.Count("restart.unexpired_device_has_reports", 1)
			}
		}
	}
	h.r.Max("max.accepted_reports_between_restarts", int64(h.accepted))
	h.accepted = 0
	h.op("restart clock=%d now-offset=%d expect-catchup=%d", newClock, delta, k)
	if err, pan := guarded(h.Close); err != nil || pan != nil {
		h.viol("shutdown-failed", nil, "Close failed: err=%v panic=%v", err, pan)
		h.dead, h.fatal = true, true
		return
	}
	drv.SetClock(newClock)
	mayRefuse := h.whileDown != nil
	if h.whileDown != nil {
		h.whileDown() // a fault on the files while the server is down
		h.whileDown = nil
	}
	hookArm()
	ra, ia := drv.RotationArrive.Load(), drv.ImpactArrive.Load()
	err, pan := guarded(h.Start)
	pres := hookTake()
	h.r.Eval(1)
	h.r.Count("restarts", 1)
	if mayRefuse && err != nil && pan == nil {
		// fail-stop on a damaged file is an accepted outcome; the conditional oracle only
		// applies to a server that comes up
		h.r.Count("tornlog.start_refused", 1)
		h.r.Note("%s: start on the damaged directory refused: %v", h.tag, err)
		h.dead, h.fatal = true, true
		return
	}
	if err != nil || pan != nil {
		h.viol("restart-failed", nil, "starting again on the same directory failed: err=%v panic=%v", err, pan)
		// a failed start leaves the instance's 120 s test-mode timer behind: end this child
		h.dead, h.fatal = true, true
		return
	}
	if !waitParked(ra, ia) {
		h.r.Inconc("background loops of a restarted server did not reach their gates within 20 s")
		h.dead = true
		return
	}
	after := h.S.VerifSnapshot(true)
	switch delta {
	case 3999:
		h.r.Count("restart.at3999", 1)
	case 4000:
		h.r.Count("restart.at4000", 1)
	}
	if len(pres) != k {
		h.viol("catchup-count-differs-from-model", map[string]interface{}{"now_minus_offset": delta}, "start-up at now-offset=%d performed %d catch-up rotations, model (rotate while >= 4000) says %d", delta, len(pres), k)
		h.dead = true
		return
	}
	// what the server loaded must be what it held before shutdown (impact rates,
	// recent lists, server list and migration orders are not persisted)
	loaded := after
	if k > 0 {
		loaded = pres[0]
	}
	for _, s := range drv.DiffSnap(before, loaded).Sections {
		if strings.HasPrefix(s, "impact[") || s == "recentlist" || s == "serverlist" || s == "migrations" {
			continue
		}
		h.viol("restart-changed-state:"+sectionClass(s), nil, "state loaded at restart differs from the state before shutdown in section %s", s)
	}
	for i := 0; i < k; i++ {
		post := after
		if i+1 < k {
			post = pres[i+1]
		}
		h.judgeRotation(pres[i], post, "catchup")
		if h.dead {
			return
		}
	}
	if k > 1 {
		h.r.Count("restart.catchup_multi", 1)
	}
	h.r.Count(fmt.Sprintf("restart.catchup%d", k), 1)
	h.checkFile("after restart")
}

func sectionClass(s string) string {
	if i := strings.Index(s, "["); i >= 0 {
		return s[:i]
	}
	return s
}

// ---------------------------------------------------------------- queries

var junkParams = []string{"", "", "&x=1", "&format=csv", "&timeslot=5", "&offset=2016", "&insert_false_negative=true", "&false_negatives=true", "&a=b&c=d", "&limit=0", "&week=1"}
var fnParams = []string{"&insert_false_negatives=true", "&insert_false_negatives=true", "&insert_false_negatives=true&x=1", "&insert_false_negatives=false", "&insert_false_negatives=TRUE", "&insert_false_negatives=1", "&insert_false_negatives="}

func neg(v uint64) uint64 { return uint64(-1 * float64(v)) }

func (h *hist) getStats(q string) (int, *refenc.Stats, bool) {
	st, stats, body, err := h.GetStats(q)
	for try := 0; try < 3 && err != nil && st == 0; try++ {
		// transport failure (under heavy CPU contention the server's 2.5 s read timeout can cut a fresh connection); GET is idempotent
		time.Sleep(10 * time.Millisecond)
		st, stats, body, err = h.GetStats(q)
	}
	if err != nil {
		if st == 200 {
			h.viol("stats-response-undecodable", map[string]interface{}{"query": q}, "status 200 but the body does not decode: %v (%.120s)", err, body)
			return st, nil, false
		}
		h.r.Inconc(fmt.Sprintf("%s: HTTP error on all-device-stats?%s: %v", h.tag, q, err))
		h.dead = true
		return st, nil, false
	}
	return st, stats, true
}

// compareLenient: every slot holds the reference value or its negation.
func compareLenient(want, got refenc.Stats, withImpact bool) (diff string, negated int) {
	if want.Week != got.Week {
		return fmt.Sprintf("label %d, want %d", got.Week, want.Week), 0
	}
	if len(want.Devices) != len(got.Devices) {
		return fmt.Sprintf("%d devices, want %d", len(got.Devices), len(want.Devices)), 0
	}
	byKey := map[[32]byte]*refenc.DevStats{}
	for i := range want.Devices {
		byKey[want.Devices[i].Pub] = &want.Devices[i]
	}
	seen := map[[32]byte]bool{}
	for i := range got.Devices {
		g := &got.Devices[i]
		w := byKey[g.Pub]
		if w == nil || seen[g.Pub] {
			return fmt.Sprintf("device set differs: unexpected or repeated key %x", g.Pub[:6]), negated
		}
		seen[g.Pub] = true
		for k := 0; k < wmodel.Week; k++ {
			if g.Power[k] != w.Power[k] {
				if g.Power[k] == neg(w.Power[k]) {
					negated++
				} else {
					return fmt.Sprintf("device %x slot %d: power %d is neither the reference value %d nor its negation %d", g.Pub[:6], k, g.Power[k], w.Power[k], neg(w.Power[k])), negated
				}
			}
			if withImpact && g.Impact[k] != w.Impact[k] {
				return fmt.Sprintf("device %x slot %d: impact bits %x, want %x", g.Pub[:6], k, g.Impact[k], w.Impact[k]), negated
			}
		}
	}
	return "", negated
}

func hasPower(s refenc.Stats) bool {
	for i := range s.Devices {
		for _, p := range s.Devices[i].Power {
			if p != 0 {
				return true
			}
		}
	}
	return false
}

// queryArchived asks for archived week i (fn: with insert_false_negatives).
func (h *hist) queryArchived(i int, fn bool) {
	params := junkParams[h.rng.Intn(len(junkParams))]
	if fn {
		params = fnParams[h.rng.Intn(len(fnParams))]
	}
	q := fmt.Sprintf("timeslot_offset=%d%s", wmodel.Week*i, params)
	if h.rng.Intn(4) == 0 && params != "" {
		q = strings.TrimPrefix(params, "&") + fmt.Sprintf("&timeslot_offset=%d", wmodel.Week*i)
	}
	h.op("GET all-device-stats?%s (archived week %d)", q, i)
	before := h.S.VerifSnapshot(true)
	st, got, ok := h.getStats(q)
	after := h.S.VerifSnapshot(true)
	h.r.Eval(1)
	if !ok {
		return
	}
	extra := map[string]interface{}{"query": q, "week_index": i}
	if st != 200 {
		h.viol("archived-week-refused", extra, "archived week %d answered status %d", i, st)
		return
	}
	if d := drv.DiffSnap(before, after); !d.Empty() {
		h.viol("query-changed-state:"+sectionClass(d.Sections[0]), extra, "a statistics request changed server state: %s", d)
	}
	if hasPower(h.arch[i]) {
		h.r.Nontrivial(fmt.Sprintf("%s/q/%d/%d", h.tag, h.opn, i))
	}
	if strings.Contains(q, "insert_false_negatives") {
		h.r.Count("query.archived.fn", 1)
		d, n := compareLenient(h.arch[i], *got, true)
		h.r.Count("fn.negated_slots", int64(n))
		if d != "" {
			h.viol("archived-week-fn-response-wrong", extra, "insert_false_negatives response for archived week %d: %s", i, d)
		}
		return
	}
	h.r.Count("query.archived", 1)
	h.judgeArchivedPlain(i, got, extra)
}

func (h *hist) judgeArchivedPlain(i int, got *refenc.Stats, extra map[string]interface{}) {
	if got.Week != uint32(wmodel.Week*i) {
		h.viol("archived-week-label", extra, "response for week offset %d is labelled %d", wmodel.Week*i, got.Week)
	}
	if !wmodel.SigValid(*got, h.Key.Pub) {
		h.viol("archived-week-signature", extra, "response for archived week %d does not verify under the server key over the reference signing bytes", i)
	}
	if d := wmodel.DescribeDiff(h.arch[i], *got, true); d != "" {
		h.viol("archived-week-differs-from-rotation-record", extra, "response for archived week %d differs from the record its rotation produced: %s", i, d)
	}
	if f := h.first[i]; f == nil {
		h.first[i] = got
		h.r.Count("first_responses_recorded", 1)
	} else if !wmodel.EqualOrdered(*f, *got) {
		d := wmodel.DescribeDiff(*f, *got, true)
		if d == "" {
			d = "same content, different device order or signature"
		}
		h.viol("archived-week-changed", extra, "response for archived week %d is no longer identical to the first response served for it: %s", i, d)
	}
}

// recheck is run after every operation of every kind: file bytes and every
// archived week (plain GET) must be what they were.
func (h *hist) recheck(light bool) {
	if h.dead {
		return
	}
	h.checkFile("after operation")
	for i := range h.arch {
		if light && h.first[i] != nil && h.rng.Intn(3) != 0 {
			continue
		}
		q := fmt.Sprintf("timeslot_offset=%d", wmodel.Week*i)
		st, got, ok := h.getStats(q)
		if !ok {
			return
		}
		extra := map[string]interface{}{"query": q, "week_index": i, "recheck": true}
		if st != 200 {
			h.viol("archived-week-refused", extra, "archived week %d answered status %d", i, st)
			continue
		}
		h.r.Eval(1)
		h.r.Count("immutability_rechecks", 1)
		if hasPower(h.arch[i]) {
			h.r.Nontrivial(fmt.Sprintf("%s/re/%d/%d", h.tag, h.opn, i))
		}
		h.judgeArchivedPlain(i, got, extra)
	}
}

func (h *hist) queryLive(half int, fn bool) {
	params := junkParams[h.rng.Intn(len(junkParams))]
	if fn {
		params = fnParams[h.rng.Intn(len(fnParams))]
	}
	base := h.off + uint32(half*wmodel.Week)
	q := fmt.Sprintf("timeslot_offset=%d%s", base, params)
	h.op("GET all-device-stats?%s (live week %d)", q, half)
	before := h.S.VerifSnapshot(true)
	st, got, ok := h.getStats(q)
	after := h.S.VerifSnapshot(true)
	h.r.Eval(1)
	if !ok {
		return
	}
	extra := map[string]interface{}{"query": q, "live_half": half}
	if st != 200 {
		h.viol("live-week-refused", extra, "live week %d (offset %d) answered status %d", half, base, st)
		return
	}
	if d := drv.DiffSnap(before, after); !d.Empty() {
		h.viol("query-changed-state:"+sectionClass(d.Sections[0]), extra, "a statistics request changed server state: %s", d)
	}
	h.r.Count(fmt.Sprintf("query.live%d", half), 1)
	// reference: device set and powers from the report model, impact from the snapshot
	want := h.modelWeek(base)
	for i, d := range h.sortedDevs() {
		im := before.Impact[d.ID]
		if im == nil {
			h.viol("authorized-device-has-no-slots", map[string]interface{}{"dev": d.ID}, "device %d is authorized in the model but the server keeps no impact array for it", d.ID)
			return
		}
		for k := 0; k < wmodel.Week; k++ {
			want.Devices[i].Impact[k] = math.Float64bits(im[half*wmodel.Week+k])
		}
	}
	if hasPower(want) {
		h.r.Nontrivial(fmt.Sprintf("%s/live/%d/%d", h.tag, h.opn, half))
		h.r.Count("query.live_nonzero", 1)
	}
	if strings.Contains(q, "insert_false_negatives") {
		h.r.Count("query.live.fn", 1)
		d, n := compareLenient(want, *got, true)
		h.r.Count("fn.negated_slots_live", int64(n))
		if d != "" {
			h.viol("live-week-fn-response-wrong", extra, "insert_false_negatives response for live week %d: %s", half, d)
		}
		return
	}
	if got.Week != base {
		h.viol("live-week-label", extra, "response for week offset %d is labelled %d", base, got.Week)
	} else if d := wmodel.DescribeDiff(want, *got, true); d != "" {
		key := "live-week-power"
		if strings.Contains(d, "devices") || strings.Contains(d, "device set") {
			key = "live-week-device-set"
		} else if strings.Contains(d, "impact") {
			key = "live-week-impact"
		}
		h.viol(key, extra, "response for live week %d differs from accepted reports / authorized devices now: %s", half, d)
	}
	if !wmodel.SigValid(*got, h.Key.Pub) {
		h.viol("live-week-signature", extra, "response for live week %d does not verify under the server key over the reference signing bytes", half)
	}
	// the snapshot accessor itself is validated against the model here
	snapWeek := wmodel.RecordOf(before)
	if half == 0 {
		if d := wmodel.DescribeDiff(want, snapWeek, true); d != "" {
			h.viol("live-state-differs-from-report-model", extra, "stored first live week differs from accepted reports: %s", d)
		}
	}
}

func (h *hist) queryRefused(class string) {
	var n int64
	switch class {
	case "future":
		n = int64(h.off) + 4032 + int64(wmodel.Week*h.rng.Intn(2))
		if h.rng.Intn(6) == 0 {
			n = int64(h.off) + int64(wmodel.Week)*int64(2+h.rng.Intn(2000))
		}
		if h.rng.Intn(4) == 0 {
			// numbers beyond 32 bits whose low 32 bits name a servable week: numerically
			// they are far in the future (or misaligned) and must be refused as well
			b := int64(h.off) + int64(wmodel.Week*h.rng.Intn(2))
			if len(h.arch) > 0 && h.rng.Intn(2) == 0 {
				b = int64(wmodel.Week * h.rng.Intn(len(h.arch)))
			}
			a := []int64{1, 2, 3, 1 << 30}[h.rng.Intn(4)]
			n = a<<32 + b
			h.r.Count("query.future.beyond32bits", 1)
			switch h.rng.Intn(3) {
			case 0:
				// 63*2^32 = 2016*2^27: aligned as a 64-bit number AND its low 32 bits are exactly the servable week b
				n = (63<<32)*int64(1+h.rng.Intn(1000)) + b
				h.r.Count("query.future.beyond32bits_aligned_in_64_bits", 1)
			case 1:
				// the first multiples of 2016 above a*2^32: aligned as 64-bit numbers, the low 32 bits
				// (1760, 3776, ...) are misaligned and lie inside or below the window
				n = ((a<<32)/wmodel.Week+1+int64(h.rng.Intn(3)))*wmodel.Week
				h.r.Count("query.future.beyond32bits_aligned_in_64_bits", 1)
			}
		}
	default:
		c := []int64{1, 2015, 2017, int64(h.off) + 1, int64(h.off) - 1, int64(h.off) + 2015, int64(h.off) + 2017, int64(h.off) + 4031, int64(h.off) + 4033, 4294967295}
		if len(h.arch) > 0 {
			w := int64(wmodel.Week * h.rng.Intn(len(h.arch)))
			c = append(c, w+1, w+2015, w+1000)
		}
		n = c[h.rng.Intn(len(c))]
		if n < 0 || n%wmodel.Week == 0 {
			n = 1
		}
	}
	params := junkParams[h.rng.Intn(len(junkParams))]
	if h.rng.Intn(2) == 0 {
		params = fnParams[h.rng.Intn(len(fnParams))]
	}
	q := fmt.Sprintf("timeslot_offset=%d%s", n, params)
	h.op("GET all-device-stats?%s (%s)", q, class)
	before := h.S.VerifSnapshot(true)
	st, body, err := h.Get("/api/v1/all-device-stats?" + q)
	for try := 0; try < 3 && err != nil; try++ {
		time.Sleep(10 * time.Millisecond)
		st, body, err = h.Get("/api/v1/all-device-stats?" + q)
	}
	after := h.S.VerifSnapshot(true)
	h.r.Eval(1)
	if err != nil {
		h.r.Inconc(fmt.Sprintf("%s: HTTP error on %s: %v", h.tag, q, err))
		h.dead = true
		return
	}
	h.r.Count("query."+class, 1)
	h.r.Nontrivial(fmt.Sprintf("%s/ref/%d", h.tag, h.opn))
	extra := map[string]interface{}{"query": q, "class": class}
	if st == 200 {
		h.viol(class+"-week-served", extra, "%s week offset %d (window offset %d) was answered with status 200 (%.80s)", class, n, h.off, body)
	}
	if d := drv.DiffSnap(before, after); !d.Empty() {
		h.viol("refused-query-changed-state", extra, "a refused statistics request changed server state: %s", d)
	}
}

func (h *hist) randomQuery() {
	x := h.rng.Intn(100)
	fn := h.rng.Intn(100) < 45
	switch {
	case x < 40 && len(h.arch) > 0:
		h.queryArchived(h.rng.Intn(len(h.arch)), fn)
	case x < 58:
		h.queryLive(0, fn)
	case x < 72:
		h.queryLive(1, fn)
	case x < 84:
		h.queryRefused("future")
	default:
		h.queryRefused("misaligned")
	}
}

// newWeeks issues the first requests for weeks archived since the last call:
// sometimes an insert_false_negatives request comes before the first plain one.
func (h *hist) newWeeks() {
	for i := range h.arch {
		if h.first[i] != nil || h.dead {
			continue
		}
		if h.rng.Intn(3) == 0 {
			h.queryArchived(i, true)
		}
		h.queryArchived(i, false)
	}
}

// ---------------------------------------------------------------- history driver

func (h *hist) setClock(c uint32) {
	if c < drv.Clock() {
		return
	}
	drv.SetClock(c)
}

func (h *hist) stop() {
	if h.S != nil && !h.fatal {
		if err, pan := guarded(h.Close); err != nil || pan != nil {
			h.viol("shutdown-failed", nil, "Close failed: err=%v panic=%v", err, pan)
			h.fatal = true
		}
	}
	if !h.keepDir {
		os.RemoveAll(h.Dir)
	}
}

func newHist(b run.Batch, r *ev.Result, idx int, ndev int) *hist {
	rng := rand.New(rand.NewSource(b.Seed*1000 + int64(idx)))
	h := &hist{r: r, rng: rng, b: b, tag: fmt.Sprintf("s%d.h%d", b.Seed, idx), devs: map[uint32]*drv.Dev{}, gone: map[uint32]bool{},
		pending: map[uint32]*drv.Dev{}, mdl: map[uint32]map[uint32]*cell{}, first: map[int]*refenc.Stats{}, next: 1 + uint32(rng.Intn(50))}
	drv.SetClock(0)
	drv.GateRotation(true)
	drv.GateImpact(true)
	ra, ia := drv.RotationArrive.Load(), drv.ImpactArrive.Load()
	dir := filepath.Join(b.Dir, fmt.Sprintf("srv%d", idx))
	if b.P("srv") != "" {
		dir = b.P("srv") // server directory shared by the processes of a disk-fault scenario
		h.keepDir = true
	}
	dw, err := drv.NewWorld(dir, rng)
	if err != nil {
		r.Inconc("cannot start world: " + err.Error())
		return nil
	}
	h.World = dw
	if !waitParked(ra, ia) {
		r.Inconc("background loops did not reach their gates within 20 s")
		h.stop()
		return nil
	}
	for i := 0; i < ndev && !h.dead; i++ {
		h.authorize()
	}
	if h.dead {
		h.stop()
		return nil
	}
	return h
}

// stopOps performs the operations of one clock stop.
func (h *hist) stopOps(n int, bigBurst bool) {
	for i := 0; i < n && !h.dead; i++ {
		x := h.rng.Intn(100)
		switch {
		case x < 34:
			k := 20 + h.rng.Intn(50)
			if bigBurst {
				k *= 8
			}
			h.burst(k)
		case x < 40:
			if len(h.devs) < 7 {
				h.authorize()
			}
		case x < 44:
			h.ban()
		case x < 50:
			h.stepImpact()
		case x < 57:
			if int64(drv.Clock())-int64(h.off) <= 3200 {
				h.tick()
			}
		case x < 61:
			h.restart(drv.Clock())
		default:
			h.randomQuery()
		}
		h.recheck(bigBurst)
		if h.r.NumViolations() > 12 {
			h.dead = true
		}
	}
}

// week drives the clock through the rest of the current window and ends with
// one of the week-end transitions.
func (h *hist) week(big bool) {
	h.walk(big)
	if h.dead {
		return
	}
	h.weekEnd(big)
}

// walk drives the clock through the rest of the current window, up to
// now-offset = 3200, with traffic at every stop.
func (h *hist) walk(big bool) {
	delta := int64(drv.Clock()) - int64(h.off)
	impLo, impHi := false, false
	for !h.dead {
		// a stop: some traffic at this clock value
		if delta < wmodel.Week && !impLo {
			h.burst(10 + h.rng.Intn(20))
			h.stepImpact()
			impLo = true
		}
		if delta >= wmodel.Week && !impHi {
			h.burst(10 + h.rng.Intn(20))
			h.stepImpact()
			impHi = true
		}
		nops := 2 + h.rng.Intn(3)
		if big {
			nops = 1
		}
		h.stopOps(nops, big)
		if delta >= 3200 {
			break
		}
		step := int64(150 + h.rng.Intn(650))
		if big {
			step = int64(700 + h.rng.Intn(500))
		}
		delta += step
		if delta > 3200 || (delta > 2900 && h.rng.Intn(2) == 0) {
			delta = 3200
		}
		h.setClock(h.off + uint32(delta))
	}
	if h.dead {
		return
	}
	if !impHi {
		h.stepImpact()
	}
}

// weekEnd: the boundary iteration at 3200 and one of the week-end transitions.
func (h *hist) weekEnd(big bool) {
	// boundary: at now-offset = 3200 the loop must not rotate
	if h.rng.Intn(2) == 0 || big {
		h.tick()
		h.recheck(big)
	}
	if h.dead {
		return
	}
	x := h.rng.Intn(100)
	switch {
	case x < 30:
		h.stepImpact()
		h.setClock(h.off + 3201)
		h.tick()
	case x < 45:
		h.setClock(h.off + 3202 + uint32(h.rng.Intn(798)))
		h.stepImpact()
		h.tick()
	case x < 65:
		c := h.off + 4000
		if h.rng.Intn(3) == 0 {
			c += uint32(h.rng.Intn(40))
		}
		h.restart(c)
	case x < 85:
		k := uint32(1 + h.rng.Intn(2))
		c := h.off + 4000 + wmodel.Week*k
		if h.rng.Intn(3) == 0 {
			c += uint32(h.rng.Intn(40))
		}
		h.restart(c)
	default:
		h.restart(h.off + 3999)
		if !h.dead {
			h.recheck(big)
			h.tick()
		}
	}
	h.newWeeks()
	h.recheck(big)
}

func childBase(b run.Batch, r *ev.Result) {
	installHook()
	switch b.Kind {
	case "diskfault":
		childDiskFault(b, r)
	case "diskfault-a":
		childFaultA(b, r)
	case "diskfault-b":
		childFaultB(b, r)
	case "deep":
		childDeep(b, r)
	case "concpoll":
		childConcPoll(b, r)
	case "longhist":
		childLongHist(b, r)
	case "tornlog":
		childTornLog(b, r)
	case "bigrot":
		var nd int
		fmt.Sscan(b.P("devices"), &nd)
		h := newHist(b, r, 0, nd)
		if h == nil {
			return
		}
		defer h.stop()
		for w := 0; w < 2 && !h.dead; w++ {
			h.week(true)
		}
		// one record of this many devices is larger than any read-ahead buffer: restart on it,
		// then every archived week once more
		if !h.dead {
			h.restart(drv.Clock())
		}
		h.recheck(false)
		for i := range h.arch {
			if h.dead {
				break
			}
			h.queryArchived(i, i%2 == 0)
		}
		h.recheck(false)
		r.Count("histories.big", 1)
		r.Sample(map[string]interface{}{"history": h.tag, "devices": nd, "archived_weeks": len(h.arch), "ops": len(h.ops), "last_ops": tailOps(h.ops, 6)})
	default:
		for i := 0; i < b.N; i++ {
			h := newHist(b, r, i, 2+rand.New(rand.NewSource(b.Seed+int64(i))).Intn(3))
			if h == nil {
				return
			}
			weeks := 2 + h.rng.Intn(2)
			for w := 0; w < weeks && !h.dead; w++ {
				h.week(false)
			}
			// a last round of queries over everything that was archived
			for i := range h.arch {
				if h.dead {
					break
				}
				h.queryArchived(i, true)
				h.queryArchived(i, false)
			}
			if !h.dead {
				if mf, sf := h.S.VerifTryLock(); !mf || !sf {
					time.Sleep(50 * time.Millisecond)
					if mf, sf = h.S.VerifTryLock(); !mf || !sf {
						r.Note("%s: a server mutex was busy twice in a row at the end of the history (main free=%v servers free=%v)", h.tag, mf, sf)
					}
				}
			}
			r.Count("histories", 1)
			r.Max("max.archived_weeks", int64(len(h.arch)))
			r.Max("max.ops_in_history", int64(len(h.ops)))
			r.Sample(map[string]interface{}{"history": h.tag, "archived_weeks": len(h.arch), "ops": len(h.ops), "last_ops": tailOps(h.ops, 6)})
			fatal := h.fatal
			h.stop()
			if fatal || r.NumViolations() > 12 {
				return
			}
		}
	}
}

// childTornLog: the append of a report to equipment-reports.dat was cut short
// (1..79 bytes of a valid report at the end of the file) while the server was
// down. A server that refuses to start on that file is accepted (counted). If
// it starts, the torn report was never accepted, and everything accepted
// afterwards must still be there after the following restarts: the usual
// restart and live-week oracles apply.
func childTornLog(b run.Batch, r *ev.Result) {
	h := newHist(b, r, 0, 3)
	if h == nil {
		return
	}
	defer h.stop()
	h.setClock(uint32(300 + h.rng.Intn(300)))
	h.burst(60 + h.rng.Intn(60))
	h.restart(drv.Clock())
	if h.dead {
		return
	}
	h.burst(30)
	ds := h.sortedDevs()
	d := ds[h.rng.Intn(len(ds))]
	n := []int{1, 4, 16, 37, 79, 1 + h.rng.Intn(79)}[h.rng.Intn(6)]
	torn := d.Report(drv.Clock()+400, 4242).Bytes()[:n]
	h.whileDown = func() {
		f, err := os.OpenFile(filepath.Join(h.Dir, "equipment-reports.dat"), os.O_APPEND|os.O_WRONLY, 0644)
		if err == nil {
			f.Write(torn)
			f.Close()
		}
	}
	h.op("while the server is down: %d bytes of a report appended to equipment-reports.dat", n)
	r.Count("tornlog.scenarios", 1)
	h.restart(drv.Clock())
	if h.dead {
		return
	}
	r.Count("tornlog.started_on_torn_file", 1)
	h.queryLive(0, false)
	for i := 0; i < 3 && !h.dead; i++ {
		h.burst(20 + h.rng.Intn(30)) // accepted after the torn write
		h.queryLive(0, false)
		h.restart(drv.Clock())
		if !h.dead {
			h.queryLive(0, false)
			h.queryLive(1, false)
		}
	}
	if !h.dead {
		h.week(false) // and the week is archived with them
	}
}

// childDeep: a dozen devices over many weeks, so that allDeviceStats.dat grows
// beyond 4 MiB while every single record stays small; more than a thousand
// accepted reports before the first restart; restarts (three catch-up
// rotations each) on the growing file, every rotation and every archived
// week judged as usual.
func childDeep(b run.Batch, r *ev.Result) {
	var nd, rounds int
	fmt.Sscan(b.P("devices"), &nd)
	fmt.Sscan(b.P("rounds"), &rounds)
	h := newHist(b, r, 0, nd)
	if h == nil {
		return
	}
	defer h.stop()
	h.setClock(uint32(440 + h.rng.Intn(100)))
	h.burst(1500)
	h.stepImpact()
	if !h.dead {
		h.restart(drv.Clock())
	}
	if !h.dead {
		h.queryLive(0, false)
		h.burst(200) // on top of the reloaded window
		h.queryLive(0, false)
	}
	for i := 0; i < rounds && !h.dead; i++ {
		h.burst(40 + h.rng.Intn(40))
		h.stepImpact()
		if h.dead {
			break
		}
		c := h.off + 4000 + 2*wmodel.Week
		if i%2 == 1 {
			c += uint32(h.rng.Intn(30))
		}
		h.restart(c) // three catch-up rotations, each judged by the rotation oracle
		h.newWeeks()
		h.recheck(true)
	}
	if !h.dead {
		h.restart(drv.Clock())
	}
	h.recheck(false)
	for i := range h.arch {
		if h.dead {
			break
		}
		h.queryArchived(i, i%3 == 0)
	}
	h.recheck(false)
	r.Count("histories.deep", 1)
	r.Max("max.archived_weeks", int64(len(h.arch)))
	r.Sample(map[string]interface{}{"history": h.tag, "devices": nd, "archived_weeks": len(h.arch), "archive_file_bytes": len(h.archB), "ops": len(h.ops), "last_ops": tailOps(h.ops, 4)})
}

func tailOps(ops []string, n int) []string {
	if len(ops) > n {
		return ops[len(ops)-n:]
	}
	return ops
}
