//go:build test

package main

// prodlife: next to the -tags test batches, a few short lives of a
// PRODUCTION-build server at the real clock (lib/prodwt/life.go); the
// problems that concern C03 are reported here.

import (
	"verifharness/lib/ev"
	"verifharness/lib/prodwt"
	"verifharness/lib/run"
)

func plan(tier string, seed int64) []run.Batch {
	bs := planBase(tier, seed)
	n := 2
	if tier == "thorough" {
		n = 8
	}
	return append(bs, run.Batch{Kind: "prodlife", Seed: seed*1000 + 991, N: n, TimeoutS: 400})
}

func child(b run.Batch, r *ev.Result) {
	if b.Kind == "prodlife" {
		prodwt.RunLife(r, b, b.Seed, "C03", b.N)
		prodwt.RunWeekRot(r, b, b.Seed+700, "C03", 2) // lib/prodwt/weekrot.go (only on some days of the week)
		return
	}
	childBase(b, r)
}
