//go:build test

package main

// concpoll: many statistics requests for the two live weeks and the archived
// weeks at the same time on a QUIESCENT server (no reports, no rotation, the
// impact job parked). Nothing changes the state meanwhile, so every response
// for a week has to be what a single request gets: labelled with its week,
// carrying the model's devices and values, and verifying under the server key
// over the reference signing bytes. (A response assembled in storage that a
// concurrent request reuses shows up as a mixed or unverifiable record.)

import (
	"fmt"
	"sync"

	"verifharness/lib/drv"
	"verifharness/lib/ev"
	"verifharness/lib/refenc"
	"verifharness/lib/run"
	"verifharness/lib/wmodel"
)

func childConcPoll(b run.Batch, r *ev.Result) {
	h := newHist(b, r, 0, 4+int(b.Seed%3))
	if h == nil {
		return
	}
	defer h.stop()
	h.week(false) // one archived week, reports in it
	if h.dead {
		return
	}
	h.burst(120)
	h.stepImpact()
	if h.dead {
		return
	}
	// reference answers taken one request at a time
	type ref struct {
		q    string
		want *refenc.Stats
	}
	var refs []ref
	for _, base := range []uint32{h.off, h.off + wmodel.Week} {
		q := fmt.Sprintf("timeslot_offset=%d", base)
		st, got, ok := h.getStats(q)
		if !ok || st != 200 {
			r.Inconc(fmt.Sprintf("concpoll: sequential reference request %s failed (status %d)", q, st))
			return
		}
		refs = append(refs, ref{q, got})
	}
	for i := range h.arch {
		q := fmt.Sprintf("timeslot_offset=%d", i*wmodel.Week)
		st, got, ok := h.getStats(q)
		if !ok || st != 200 {
			r.Inconc(fmt.Sprintf("concpoll: sequential reference request %s failed (status %d)", q, st))
			return
		}
		refs = append(refs, ref{q, got})
	}
	h.queryLive(0, false) // the sequential oracle once more, against the model
	h.queryLive(1, false)
	if h.dead {
		return
	}
	workers, per := 8, 40
	h.op("concurrent polls: %d workers x %d requests over %d weeks, state quiescent", workers, per, len(refs))
	type bad struct {
		key, msg, q string
	}
	var mu sync.Mutex
	var bads []bad
	var judged, transport int
	var wg sync.WaitGroup
	for w := 0; w < workers; w++ {
		wg.Add(1)
		go func(w int) {
			defer wg.Done()
			for i := 0; i < per; i++ {
				rf := refs[(w+i)%len(refs)]
				st, got, _, err := h.GetStats(rf.q)
				mu.Lock()
				if err != nil && st != 200 {
					transport++ // transport failure under load: not a verdict
					mu.Unlock()
					continue
				}
				judged++
				switch {
				case err != nil:
					bads = append(bads, bad{"stats-response-undecodable", fmt.Sprintf("status 200 but the body does not decode: %v", err), rf.q})
				case st != 200:
					bads = append(bads, bad{"concurrent-poll-refused", fmt.Sprintf("status %d although the same request was answered 200 a moment ago and nothing changed", st), rf.q})
				case got.Week != rf.want.Week:
					bads = append(bads, bad{"concurrent-poll-label", fmt.Sprintf("response is labelled %d, want %d", got.Week, rf.want.Week), rf.q})
				case !wmodel.SigValid(*got, h.Key.Pub):
					bads = append(bads, bad{"concurrent-poll-signature", "response does not verify under the server key over the reference signing bytes", rf.q})
				default:
					if d := wmodel.DescribeDiff(*rf.want, *got, true); d != "" {
						bads = append(bads, bad{"concurrent-poll-differs-from-sequential-answer", d, rf.q})
					}
				}
				mu.Unlock()
			}
		}(w)
	}
	wg.Wait()
	r.Eval(judged)
	r.Count("concpoll.responses_judged", int64(judged))
	r.Count("concpoll.transport_failures", int64(transport))
	r.Count("concpoll.runs", 1)
	r.Nontrivial(h.tag + "/concpoll")
	seen := map[string]bool{}
	for _, x := range bads {
		if seen[x.key] {
			continue
		}
		seen[x.key] = true
		h.viol(x.key, map[string]interface{}{"query": x.q, "workers": workers}, "concurrent statistics requests on a quiescent server: %s: %s", x.q, x.msg)
	}
	h.queryLive(0, false)
	h.recheck(true)
}

// longhist: an archive much longer than anything an in-memory bound would keep
// (> 104 weeks, i.e. more than two years of operation): week 0 holds reports,
// one of the two devices is banned afterwards so that the later records stay small, the
// server is down for W weeks and catches up at the start. Every archived week,
// the oldest ones included, must be served as it was first published.
func childLongHist(b run.Batch, r *ev.Result) {
	h := newHist(b, r, 0, 2)
	if h == nil {
		return
	}
	defer h.stop()
	h.week(false)
	h.ban() // one device stays: every later record carries one (empty) device block
	if h.dead {
		return
	}
	w := 106 + h.rng.Intn(24)
	// after the catch-up now-offset lies in [2100, 3100]: no rotation is due when the server is closed again
	// (a closing server's rotation loop leaves its gate and would rotate while now-offset > 3200)
	h.restart(h.off + uint32(w*wmodel.Week) + 2100 + uint32(h.rng.Intn(1001)))
	if h.dead {
		return
	}
	h.newWeeks() // every archived week once, each judged against the record taken at its rotation
	for _, i := range []int{0, 1, len(h.arch) - 106, len(h.arch) - 105, len(h.arch) - 104, len(h.arch) - 53, len(h.arch) - 1} {
		if i >= 0 && i < len(h.arch) && !h.dead {
			h.queryArchived(i, i%2 == 1)
		}
	}
	h.recheck(false)
	if !h.dead {
		h.restart(drv.Clock())
		h.recheck(false)
	}
	r.Count("longhist.runs", 1)
	r.Max("max.archived_weeks_longhist", int64(len(h.arch)))
	r.Nontrivial(h.tag + "/longhist")
}
