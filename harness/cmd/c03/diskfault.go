//go:build test

// Disk-fault scenario of C03: allDeviceStats.dat cannot be opened exactly
// while a rotation archives its week (a directory is put in its place while
// the rotation loop is parked at its gate).
//
// The unchanged server panics there by design ("failed to save all device
// stats"): fail-stop, nothing was written, the next start rebuilds everything
// from disk. That death, at that operation, is an accepted outcome. A server
// that survives the fault instead is held to the archive clauses of the
// property as usual: weeks archived contiguously (entry i labelled 2016·i,
// offset = 2016·entries), memory == file, every archived week identical
// forever (also across a restart in a fresh process).
//
// Three processes: the batch's child only orchestrates; process A runs the
// history up to and beyond the fault (and may die at the fault); process B
// starts a server on the same directory, checks the archive and continues
// the history with all usual oracles.
package main

import (
	"bytes"
	"encoding/json"
	"fmt"
	"math/rand"
	"os"
	"os/exec"
	"os/signal"
	"path/filepath"
	"strings"
	"syscall"
	"time"

	"github.com/glowlabs-org/gca-backend/server"

	"verifharness/lib/drv"
	"verifharness/lib/ev"
	"verifharness/lib/refenc"
	"verifharness/lib/run"
	"verifharness/lib/wmodel"
)

const (
	statsFile   = "allDeviceStats.dat"
	statsAside  = "allDeviceStats.dat.real"
	faultPanic  = "panic: failed to save all device stats"
	markFault   = "fault-installed"
	markCleared = "fault-removed"
)

type savedDev struct {
	ID   uint32
	Key  refenc.Key
	Auth refenc.Auth
}

type faultState struct {
	Clock     uint32
	ServerKey refenc.Key
	Temp      refenc.Key
	GCA       refenc.Key
	Devs      []savedDev
	Next      uint32
}

func (h *hist) saveState(aux string) {
	st := faultState{Clock: drv.Clock(), ServerKey: h.Key, Temp: h.Temp, GCA: h.GCA, Next: h.next}
	for _, d := range h.sortedDevs() {
		st.Devs = append(st.Devs, savedDev{d.ID, d.Key, d.Auth})
	}
	b, _ := json.Marshal(st)
	os.WriteFile(filepath.Join(aux, "state.json"), b, 0644)
}

// archiveBytes is the reference serialization of the archive held in memory.
func archiveBytes(s *server.VerifSnap) []byte {
	var out []byte
	for i := range s.History {
		out = append(out, wmodel.FromServer(s.History[i]).Bytes()...)
	}
	return out
}

// invariants: the archive clauses that hold for every state, whatever happened before.
func (h *hist) invariants(s *server.VerifSnap, when string) {
	h.r.Eval(1)
	h.r.Count("fault.invariant_checks", 1)
	extra := map[string]interface{}{"when": when}
	for i := range s.History {
		rec := wmodel.FromServer(s.History[i])
		if rec.Week != uint32(wmodel.Week*i) {
			h.viol("archive-not-contiguous", extra, "%s: archive index %d carries label %d, want %d (%d weeks in memory)", when, i, rec.Week, wmodel.Week*i, len(s.History))
			break
		}
		if !wmodel.SigValid(rec, h.Key.Pub) {
			h.viol("rotation-record-signature", extra, "%s: archived week %d does not verify under the server key", when, i)
		}
	}
	if s.Offset != uint32(wmodel.Week*len(s.History)) {
		h.viol("offset-differs-from-archive-length", extra, "%s: window offset %d with %d archived weeks", when, s.Offset, len(s.History))
	}
	if fi, err := os.Stat(filepath.Join(h.Dir, statsFile)); err == nil && fi.Mode().IsRegular() {
		if !bytes.Equal(h.ReadFile(statsFile), archiveBytes(s)) {
			h.viol("archive-memory-differs-from-file", extra, "%s: allDeviceStats.dat (%d bytes) is not the reference serialization of the %d weeks in memory", when, fi.Size(), len(s.History))
		}
	}
}

// adopt makes the observed state the baseline of the model (after the
// invariants have been judged), so that the usual oracles can go on.
func (h *hist) adopt(s *server.VerifSnap) {
	h.off = s.Offset
	h.arch = wmodel.HistoryOf(s)
	h.archB = archiveBytes(s)
	h.first = map[int]*refenc.Stats{}
	h.mdl = map[uint32]map[uint32]*cell{}
	for id, d := range h.devs {
		if _, ok := s.Equipment[id]; !ok {
			delete(h.devs, id)
			h.gone[id] = true
			continue
		}
		arr := s.Reports[id]
		if arr == nil {
			continue
		}
		m := map[uint32]*cell{}
		for i := range arr {
			switch arr[i].PowerOutput {
			case 0:
			case 1:
				m[s.Offset+uint32(i)] = &cell{state: 2, rep: drv.RefReport(arr[i])}
			default:
				m[s.Offset+uint32(i)] = &cell{state: 1, rep: drv.RefReport(arr[i])}
			}
		}
		h.mdl[d.ID] = m
	}
}

// ---------------------------------------------------------------- process A

func childFaultA(b run.Batch, r *ev.Result) {
	aux := b.P("aux")
	h := newHist(b, r, 0, 3)
	if h == nil {
		return
	}
	defer h.stop()
	h.week(false) // at least one week is archived normally
	if !h.dead {
		h.walk(false) // second week up to now-offset = 3200
	}
	if h.dead {
		return
	}
	h.recheck(false)
	h.newWeeks()
	if h.dead {
		return
	}
	// everything the follow-up process needs, then the fault
	h.saveState(aux)
	os.WriteFile(filepath.Join(aux, "prefault-archive.bin"), h.ReadFile(statsFile), 0644)
	real, aside := filepath.Join(h.Dir, statsFile), filepath.Join(h.Dir, statsAside)
	partial := b.P("mode") == "partial"
	var oldLimit syscall.Rlimit
	what := "a directory in its place"
	if partial {
		// "disk full" in the middle of the append: the kernel accepts only the first k bytes
		// of the record (file size limit = current size + k, SIGXFSZ ignored; process wide,
		// every other file of this process is far smaller)
		k := 1 + h.rng.Intn(30000)
		signal.Ignore(syscall.SIGXFSZ)
		syscall.Getrlimit(syscall.RLIMIT_FSIZE, &oldLimit)
		lim := oldLimit
		lim.Cur = uint64(len(h.archB) + k)
		if err := syscall.Setrlimit(syscall.RLIMIT_FSIZE, &lim); err != nil {
			r.Inconc("cannot install the disk fault: " + err.Error())
			return
		}
		what = fmt.Sprintf("only %d more bytes can be written", k)
	} else {
		if err := os.Rename(real, aside); err != nil {
			r.Inconc("cannot install the disk fault: " + err.Error())
			return
		}
		if err := os.Mkdir(real, 0755); err != nil {
			os.Rename(aside, real)
			r.Inconc("cannot install the disk fault: " + err.Error())
			return
		}
	}
	os.WriteFile(filepath.Join(aux, markFault), nil, 0644)
	h.setClock(h.off + 3201)
	h.saveState(aux)
	h.op("rotation-loop-iteration with allDeviceStats.dat unwritable (%s), clock=%d now-offset=3201", what, drv.Clock())
	got := drv.StepRotation() // the unchanged server dies in here
	// ---- the server survived the failed write
	if partial {
		syscall.Setrlimit(syscall.RLIMIT_FSIZE, &oldLimit)
	} else {
		os.Remove(real)
		os.Rename(aside, real)
	}
	os.WriteFile(filepath.Join(aux, markCleared), nil, 0644)
	r.Count("fault.survived", 1)
	r.Note("%s: server survived an unwritable allDeviceStats.dat during rotation (loop iteration reported %d completed rotations)", h.tag, got)
	if got < 0 {
		r.Inconc(h.tag + ": the gated rotation loop did not come round after the disk fault within the wall-clock watchdog")
		return
	}
	// (nothing is judged right after the failed write: what the server keeps pending there is not observable)
	// the loop's next pass, with the file writable again
	h.op("rotation-loop-iteration after the fault was removed, clock=%d", drv.Clock())
	if drv.StepRotation() < 0 {
		r.Inconc(h.tag + ": the gated rotation loop did not come round within the wall-clock watchdog")
		return
	}
	s := h.S.VerifSnapshot(true)
	h.invariants(s, "after the first rotation-loop pass following the fault")
	h.adopt(s)
	h.checkFile("after the disk fault")
	if int64(drv.Clock())-int64(h.off) > 3200 {
		h.tick() // it has not rotated yet although it is due: the usual trigger and rotation oracles apply
	}
	h.newWeeks()
	h.recheck(false)
	if !h.dead {
		h.week(false) // one more week with every usual oracle (rotation, queries, restarts)
	}
	if !h.dead {
		fin := h.S.VerifSnapshot(true)
		h.invariants(fin, "at the end of the surviving history")
		os.WriteFile(filepath.Join(aux, "a-memory-archive.bin"), archiveBytes(fin), 0644)
		if d := int64(drv.Clock()) - int64(fin.Offset); d > 3200 {
			r.Inconc(fmt.Sprintf("%s: harness error: history ended at now-offset=%d", h.tag, d))
		}
		h.saveState(aux)
	}
}

// ---------------------------------------------------------------- process B

func childFaultB(b run.Batch, r *ev.Result) {
	aux := b.P("aux")
	raw, err := os.ReadFile(filepath.Join(aux, "state.json"))
	var st faultState
	if err != nil || json.Unmarshal(raw, &st) != nil {
		r.Inconc("follow-up process cannot read the scenario state")
		return
	}
	rng := rand.New(rand.NewSource(b.Seed*1000 + 77))
	h := &hist{r: r, rng: rng, b: b, tag: fmt.Sprintf("s%d.restarted", b.Seed), devs: map[uint32]*drv.Dev{}, gone: map[uint32]bool{},
		pending: map[uint32]*drv.Dev{}, mdl: map[uint32]map[uint32]*cell{}, first: map[int]*refenc.Stats{}, next: st.Next, keepDir: true}
	h.World = &drv.World{Srv: &drv.Srv{Dir: b.P("srv"), Key: st.ServerKey, Temp: st.Temp}, GCA: st.GCA, Devs: map[uint32]*drv.Dev{}, Rng: rng}
	for _, d := range st.Devs {
		dev := &drv.Dev{ID: d.ID, Key: d.Key, Auth: d.Auth}
		h.devs[d.ID] = dev
		h.Devs[d.ID] = dev
	}
	drv.SetClock(st.Clock)
	drv.GateRotation(true)
	drv.GateImpact(true)
	h.op("start in a fresh process on the directory of the disk-fault scenario, clock=%d", st.Clock)
	hookArm()
	ra, ia := drv.RotationArrive.Load(), drv.ImpactArrive.Load()
	serr, pan := guarded(h.Start)
	pres := hookTake()
	if serr != nil || pan != nil {
		h.viol("restart-failed", nil, "starting on the directory left by the disk-fault scenario failed: err=%v panic=%v", serr, pan)
		return
	}
	defer h.stop()
	if !waitParked(ra, ia) {
		r.Inconc("background loops did not reach their gates within 20 s")
		return
	}
	r.Count("fault.restart_in_fresh_process", 1)
	s := h.S.VerifSnapshot(true)
	h.invariants(s, "after a restart in a fresh process")
	// weeks archived before the fault are still there, byte for byte
	pre, _ := os.ReadFile(filepath.Join(aux, "prefault-archive.bin"))
	file := h.ReadFile(statsFile)
	if len(file) < len(pre) || !bytes.Equal(file[:len(pre)], pre) {
		h.viol("archive-file-not-append-of-records", nil, "allDeviceStats.dat (%d bytes) no longer starts with the %d bytes it held before the disk fault", len(file), len(pre))
	}
	if mem, err := os.ReadFile(filepath.Join(aux, "a-memory-archive.bin")); err == nil {
		// the surviving server served these weeks; a restart must not change them
		if got := archiveBytes(s); len(pres) == 0 && !bytes.Equal(got, mem) {
			h.viol("archived-week-changed", map[string]interface{}{"by": "restart"}, "the archive loaded by a fresh process (%d bytes) differs from the archive the surviving server held in memory (%d bytes)", len(got), len(mem))
		}
	}
	if k := wmodel.CatchUps(st.Clock, s.Offset-uint32(wmodel.Week*len(pres))); len(pres) != k {
		h.viol("catchup-count-differs-from-model", nil, "start-up performed %d catch-up rotations, model says %d", len(pres), k)
		return
	}
	h.adopt(s)
	h.checkFile("after a restart in a fresh process")
	if int64(drv.Clock())-int64(h.off) > 3200 {
		h.tick() // the rotation that was due when the fault hit: judged by the full rotation oracle
	}
	h.newWeeks()
	h.recheck(false)
	if !h.dead {
		h.week(false)
	}
	for i := range h.arch {
		if h.dead {
			break
		}
		h.queryArchived(i, true)
		h.queryArchived(i, false)
	}
	if !h.dead {
		r.Count("fault.followup_completed", 1)
	}
}

// ---------------------------------------------------------------- orchestrator

type gcOut struct {
	exit     int
	timedOut bool
	stderr   string
	oplog    []string
	res      *ev.Result
}

func spawn(b run.Batch, kind, name, srv, aux string) gcOut {
	dir := filepath.Join(b.Dir, name)
	os.MkdirAll(dir, 0755)
	nb := run.Batch{Index: b.Index, Seed: b.Seed, Tier: b.Tier, Kind: kind, N: 1, Dir: dir, Params: map[string]string{"srv": srv, "aux": aux, "mode": b.P("mode")}}
	raw, _ := json.Marshal(nb)
	bf := filepath.Join(dir, "batch.json")
	os.WriteFile(bf, raw, 0644)
	self, _ := os.Executable()
	cmd := exec.Command(self, "child", bf)
	cmd.Dir = dir
	se, _ := os.Create(filepath.Join(dir, "stderr"))
	so, _ := os.Create(filepath.Join(dir, "stdout"))
	defer se.Close()
	defer so.Close()
	cmd.Stderr, cmd.Stdout = se, so
	cmd.Env = append(os.Environ(), "TMPDIR="+dir)
	cmd.SysProcAttr = &syscall.SysProcAttr{Setpgid: true}
	out := gcOut{exit: -1}
	if err := cmd.Start(); err != nil {
		out.stderr = err.Error()
		return out
	}
	done := make(chan error, 1)
	go func() { done <- cmd.Wait() }()
	select {
	case <-done:
	case <-time.After(250 * time.Second):
		out.timedOut = true
		syscall.Kill(-cmd.Process.Pid, syscall.SIGKILL)
		<-done
	}
	if cmd.ProcessState != nil {
		out.exit = cmd.ProcessState.ExitCode()
	}
	if sb, err := os.ReadFile(filepath.Join(dir, "stderr")); err == nil {
		if len(sb) > 20000 {
			sb = sb[:20000]
		}
		out.stderr = string(sb)
	}
	if ob, err := os.ReadFile(filepath.Join(dir, "oplog")); err == nil {
		l := strings.Split(strings.TrimSpace(string(ob)), "\n")
		if len(l) > 12 {
			l = l[len(l)-12:]
		}
		out.oplog = l
	}
	if res, err := ev.LoadResult(filepath.Join(dir, "result.json")); err == nil {
		out.res = res
	}
	return out
}

func merge(dst, src *ev.Result) {
	dst.Eval(int(src.Evaluations))
	for _, hsh := range src.Distinct {
		dst.Nontrivial(fmt.Sprintf("sub/%d", hsh))
	}
	for k, v := range src.Counters {
		if strings.HasPrefix(k, "max.") {
			dst.Max(k, v)
		} else {
			dst.Count(k, v)
		}
	}
	for _, v := range src.Violations {
		dst.Violation(v.Key, v.Desc, v.Replay)
	}
	for _, s := range src.Inconclusive {
		dst.Inconc(s)
	}
	for _, n := range src.Notes {
		dst.Note("%s", n)
	}
}

func childDiskFault(b run.Batch, r *ev.Result) {
	srv := filepath.Join(b.Dir, "srv")
	aux := filepath.Join(b.Dir, "aux")
	os.MkdirAll(aux, 0755)
	r.Count("fault.scenarios", 1)
	r.Count("fault.scenarios."+b.P("mode"), 1)
	replay := func(o gcOut) interface{} {
		st := o.stderr
		if len(st) > 3000 {
			st = st[:3000]
		}
		return map[string]interface{}{"batch": b, "oplog_tail": o.oplog, "stderr_head": st}
	}
	exists := func(n string) bool { _, err := os.Stat(filepath.Join(aux, n)); return err == nil }

	a := spawn(b, "diskfault-a", "a", srv, aux)
	if a.res != nil {
		merge(r, a.res)
	}
	if strings.Contains(a.stderr, "http: panic serving") {
		r.Violation("handler-panic:"+run.Normalize(run.CrashLine(a.stderr)), "an HTTP handler panicked in the disk-fault scenario: "+run.CrashLine(a.stderr), replay(a))
	}
	switch {
	case a.timedOut:
		r.Inconc("disk-fault scenario: first process hit its wall-clock watchdog")
		return
	case a.res != nil && a.exit == 0:
		// ran to completion: either it never reached the fault (reported by itself) or the server survived it
		if !exists(markFault) {
			return
		}
		r.Count("fault.outcome_observed", 1)
	default:
		line := run.CrashLine(a.stderr)
		last := ""
		if len(a.oplog) > 0 {
			last = a.oplog[len(a.oplog)-1]
		}
		if strings.HasPrefix(line, faultPanic) && exists(markFault) && !exists(markCleared) && strings.Contains(last, "unwritable") {
			// fail-stop at the unwritable history file: the accepted outcome
			r.Count("fault.crashed_on_unwritable_history", 1)
			r.Count("fault.outcome_observed", 1)
			r.Eval(1)
		} else if line != "" {
			r.Violation("crash:"+run.Normalize(line), fmt.Sprintf("server process died in the disk-fault scenario (exit %d, last op %q): %s", a.exit, last, line), replay(a))
			return
		} else {
			r.Inconc(fmt.Sprintf("disk-fault scenario: first process ended with exit %d and no result; stderr: %.300s", a.exit, a.stderr))
			return
		}
	}
	// the disk is fine again
	real, aside := filepath.Join(srv, statsFile), filepath.Join(srv, statsAside)
	if fi, err := os.Stat(real); err == nil && fi.IsDir() {
		os.Remove(real)
		os.Rename(aside, real)
	}
	bb := spawn(b, "diskfault-b", "b", srv, aux)
	if bb.res != nil {
		merge(r, bb.res)
	}
	switch {
	case bb.timedOut:
		r.Inconc("disk-fault scenario: follow-up process hit its wall-clock watchdog")
	case bb.res == nil || bb.exit != 0:
		if line := run.CrashLine(bb.stderr); line != "" {
			r.Violation("crash:"+run.Normalize(line), fmt.Sprintf("server process died after the disk-fault scenario's restart (exit %d): %s", bb.exit, line), replay(bb))
		} else {
			r.Inconc(fmt.Sprintf("disk-fault scenario: follow-up process ended with exit %d and no result; stderr: %.300s", bb.exit, bb.stderr))
		}
	}
	if strings.Contains(bb.stderr, "http: panic serving") {
		r.Violation("handler-panic:"+run.Normalize(run.CrashLine(bb.stderr)), "an HTTP handler panicked after the disk-fault scenario's restart: "+run.CrashLine(bb.stderr), replay(bb))
	}
	os.RemoveAll(srv)
}
