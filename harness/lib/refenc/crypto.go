// Package refenc contains reference encoders, decoders and signature helpers
// written from the documented byte layouts (DESIGN.md Appendix A). It never
// calls the repository's Serialize/SigningBytes/Deserialize/Sign/Verify, so
// that an encoding change in the repository is visible as a disagreement.
package refenc

import (
	"crypto/ecdsa"
	crand "crypto/rand"
	"math/big"
	"math/rand"

	"github.com/ethereum/go-ethereum/crypto"
)

// Key is a secp256k1 key pair whose compressed public key has prefix 0x02.
type Key struct {
	Pub  [32]byte
	Priv [32]byte
}

// GenKey derives a key pair from the PRNG (deterministic for a given stream).
func GenKey(rng *rand.Rand) Key {
	for {
		var d [32]byte
		for i := range d {
			d[i] = byte(rng.Intn(256))
		}
		k, err := crypto.ToECDSA(d[:])
		if err != nil {
			continue
		}
		c := crypto.CompressPubkey(&k.PublicKey)
		if c[0] != 0x02 {
			continue
		}
		var out Key
		copy(out.Pub[:], c[1:])
		copy(out.Priv[:], d[:])
		return out
	}
}

// Sign returns the deterministic (RFC 6979) signature r||s over Keccak-256 of msg.
func Sign(priv [32]byte, msg []byte) (sig [64]byte) {
	k, err := crypto.ToECDSA(priv[:])
	if err != nil {
		panic(err)
	}
	s, err := crypto.Sign(crypto.Keccak256(msg), k)
	if err != nil {
		panic(err)
	}
	copy(sig[:], s[:64])
	return sig
}

// SignRand returns a valid low-s signature with a random nonce, so two calls
// give two different valid signatures over the same message.
func SignRand(priv [32]byte, msg []byte) (sig [64]byte) {
	k, err := crypto.ToECDSA(priv[:])
	if err != nil {
		panic(err)
	}
	h := crypto.Keccak256(msg)
	r, s, err := ecdsa.Sign(crand.Reader, k, h)
	if err != nil {
		panic(err)
	}
	n := crypto.S256().Params().N
	half := new(big.Int).Rsh(n, 1)
	if s.Cmp(half) > 0 {
		s = new(big.Int).Sub(n, s)
	}
	r.FillBytes(sig[:32])
	s.FillBytes(sig[32:])
	return sig
}

// Verify checks sig (r||s) over Keccak-256 of msg under the x-only key pub
// (prefix 0x02), using go-ethereum directly.
func Verify(pub [32]byte, msg []byte, sig [64]byte) bool {
	c := append([]byte{0x02}, pub[:]...)
	pk, err := crypto.DecompressPubkey(c)
	if err != nil {
		return false
	}
	return crypto.VerifySignature(crypto.FromECDSAPub(pk), crypto.Keccak256(msg), sig[:])
}

// TwinSig returns the algebraic twin (r, N-s) of an ECDSA signature: it
// satisfies the raw ECDSA equation for the same message and key, but one of the
// two has a "high" s, which the protocol's verifier (go-ethereum
// VerifySignature) refuses. Nobody needs a key to compute it.
func TwinSig(sig [64]byte) (out [64]byte) {
	n := crypto.S256().Params().N
	s := new(big.Int).SetBytes(sig[32:])
	s.Sub(n, s)
	copy(out[:32], sig[:32])
	s.FillBytes(out[32:])
	return out
}
