package refenc

import (
	"encoding/binary"
	"errors"
	"fmt"
	"math"
	"strconv"
	"strings"
)

var le = binary.LittleEndian

// ---------------------------------------------------------------- report

type Report struct {
	ID    uint32
	Slot  uint32
	Power uint64
	Sig   [64]byte
}

func (r Report) body() []byte {
	b := make([]byte, 16)
	le.PutUint32(b[0:], r.ID)
	le.PutUint32(b[4:], r.Slot)
	le.PutUint64(b[8:], r.Power)
	return b
}

func (r Report) SigningBytes() []byte { return append([]byte("EquipmentReport"), r.body()...) }
func (r Report) Bytes() []byte        { return append(r.body(), r.Sig[:]...) }

func (r Report) Signed(priv [32]byte) Report {
	r.Sig = Sign(priv, r.SigningBytes())
	return r
}

func ParseReport(b []byte) (Report, error) {
	var r Report
	if len(b) != 80 {
		return r, errors.New("report must be 80 bytes")
	}
	r.ID = le.Uint32(b[0:])
	r.Slot = le.Uint32(b[4:])
	r.Power = le.Uint64(b[8:])
	copy(r.Sig[:], b[16:])
	return r, nil
}

// ---------------------------------------------------------------- authorization

type Auth struct {
	ID             uint32
	Pub            [32]byte
	Lat, Long      float64
	Capacity, Debt uint64
	Expiration     uint32
	Initialization uint32
	Fee            uint64
	Sig            [64]byte
}

func (a Auth) body() []byte {
	b := make([]byte, 84)
	le.PutUint32(b[0:], a.ID)
	copy(b[4:36], a.Pub[:])
	le.PutUint64(b[36:], math.Float64bits(a.Lat))
	le.PutUint64(b[44:], math.Float64bits(a.Long))
	le.PutUint64(b[52:], a.Capacity)
	le.PutUint64(b[60:], a.Debt)
	le.PutUint32(b[68:], a.Expiration)
	le.PutUint32(b[72:], a.Initialization)
	le.PutUint64(b[76:], a.Fee)
	return b
}

func (a Auth) SigningBytes() []byte { return append([]byte("EquipmentAuthorization"), a.body()...) }
func (a Auth) Bytes() []byte        { return append(a.body(), a.Sig[:]...) }
func (a Auth) Signed(priv [32]byte) Auth {
	a.Sig = Sign(priv, a.SigningBytes())
	return a
}

func ParseAuth(b []byte) (Auth, error) {
	var a Auth
	if len(b) != 148 {
		return a, errors.New("authorization must be 148 bytes")
	}
	a.ID = le.Uint32(b[0:])
	copy(a.Pub[:], b[4:36])
	a.Lat = math.Float64frombits(le.Uint64(b[36:]))
	a.Long = math.Float64frombits(le.Uint64(b[44:]))
	a.Capacity = le.Uint64(b[52:])
	a.Debt = le.Uint64(b[60:])
	a.Expiration = le.Uint32(b[68:])
	a.Initialization = le.Uint32(b[72:])
	a.Fee = le.Uint64(b[76:])
	copy(a.Sig[:], b[84:])
	return a, nil
}

func jsonBytes(b []byte) string {
	var sb strings.Builder
	sb.WriteByte('[')
	for i, x := range b {
		if i > 0 {
			sb.WriteByte(',')
		}
		sb.WriteString(strconv.Itoa(int(x)))
	}
	sb.WriteByte(']')
	return sb.String()
}

func jsonFloat(f float64) string {
	// shortest representation that round-trips; Go's decoder accepts it.
	return strconv.FormatFloat(f, 'g', -1, 64)
}

// JSON renders the authorization as the endpoint expects it (hand-built).
func (a Auth) JSON() []byte {
	return []byte(fmt.Sprintf(`{"ShortID":%d,"PublicKey":%s,"Latitude":%s,"Longitude":%s,"Capacity":%d,"Debt":%d,"Expiration":%d,"Initialization":%d,"ProtocolFee":%d,"Signature":%s}`,
		a.ID, jsonBytes(a.Pub[:]), jsonFloat(a.Lat), jsonFloat(a.Long), a.Capacity, a.Debt, a.Expiration, a.Initialization, a.Fee, jsonBytes(a.Sig[:])))
}

// SparseJSON is the same authorization as JSON() with every member whose value
// is zero left out (a JSON decoder gives an absent member its zero value), the
// members in another order and some white space: an equivalent request body.
func (a Auth) SparseJSON() []byte {
	var m []string
	add := func(name, val string, zero bool) {
		if !zero {
			m = append(m, fmt.Sprintf("%q : %s", name, val))
		}
	}
	add("Signature", string(jsonBytes(a.Sig[:])), false)
	add("ProtocolFee", fmt.Sprint(a.Fee), a.Fee == 0)
	add("Initialization", fmt.Sprint(a.Initialization), a.Initialization == 0)
	add("Expiration", fmt.Sprint(a.Expiration), a.Expiration == 0)
	add("Debt", fmt.Sprint(a.Debt), a.Debt == 0)
	add("Capacity", fmt.Sprint(a.Capacity), a.Capacity == 0)
	add("Longitude", string(jsonFloat(a.Long)), math.Float64bits(a.Long) == 0)
	add("Latitude", string(jsonFloat(a.Lat)), math.Float64bits(a.Lat) == 0)
	add("PublicKey", string(jsonBytes(a.Pub[:])), false)
	add("ShortID", fmt.Sprint(a.ID), a.ID == 0)
	return []byte("{ " + strings.Join(m, ",\n  ") + " }\n")
}

// ---------------------------------------------------------------- registration

type Registration struct {
	GCAKey [32]byte
	Sig    [64]byte
}

func (g Registration) SigningBytes() []byte { return append([]byte("GCARegistration"), g.GCAKey[:]...) }
func (g Registration) JSON() []byte {
	return []byte(fmt.Sprintf(`{"GCAKey":%s,"Signature":%s}`, jsonBytes(g.GCAKey[:]), jsonBytes(g.Sig[:])))
}

// ---------------------------------------------------------------- authorized server

type AuthServer struct {
	Pub      [32]byte
	Banned   bool
	Location string
	HTTP     uint16
	TCP      uint16
	UDP      uint16
	Sig      [64]byte
}

func (s AuthServer) body() []byte {
	l := len(s.Location)
	b := make([]byte, 40+l)
	copy(b[0:32], s.Pub[:])
	if s.Banned {
		b[32] = 1
	}
	b[33] = byte(l)
	copy(b[34:], s.Location)
	le.PutUint16(b[34+l:], s.HTTP)
	le.PutUint16(b[36+l:], s.TCP)
	le.PutUint16(b[38+l:], s.UDP)
	return b
}

func (s AuthServer) SigningBytes() []byte { return append([]byte("AuthorizedServer"), s.body()...) }
func (s AuthServer) Bytes() []byte        { return append(s.body(), s.Sig[:]...) }
func (s AuthServer) Signed(priv [32]byte) AuthServer {
	s.Sig = Sign(priv, s.SigningBytes())
	return s
}

func jsonString(s string) string {
	// Locations used by the harness are ASCII without quotes/backslashes/control bytes unless stated.
	return strconv.Quote(s)
}

func (s AuthServer) JSON() []byte {
	return []byte(fmt.Sprintf(`{"PublicKey":%s,"Banned":%v,"Location":%s,"HttpPort":%d,"TcpPort":%d,"UdpPort":%d,"GCAAuthorization":%s}`,
		jsonBytes(s.Pub[:]), s.Banned, jsonString(s.Location), s.HTTP, s.TCP, s.UDP, jsonBytes(s.Sig[:])))
}

// ParseAuthServers parses a concatenation of authorized-server records.
func ParseAuthServers(b []byte) ([]AuthServer, error) {
	var out []AuthServer
	for len(b) > 0 {
		if len(b) < 34 {
			return nil, errors.New("short server record")
		}
		var s AuthServer
		copy(s.Pub[:], b[:32])
		if b[32] > 1 {
			return nil, errors.New("ban flag is not 0/1")
		}
		s.Banned = b[32] == 1
		l := int(b[33])
		if len(b) < 104+l {
			return nil, errors.New("short server record")
		}
		s.Location = string(b[34 : 34+l])
		s.HTTP = le.Uint16(b[34+l:])
		s.TCP = le.Uint16(b[36+l:])
		s.UDP = le.Uint16(b[38+l:])
		copy(s.Sig[:], b[40+l:104+l])
		out = append(out, s)
		b = b[104+l:]
	}
	return out, nil
}

// ---------------------------------------------------------------- migration

type Migration struct {
	Equipment [32]byte
	NewGCA    [32]byte
	NewID     uint32
	Servers   []AuthServer
	Sig       [64]byte
}

func (m Migration) body() []byte {
	b := make([]byte, 68)
	copy(b[0:], m.Equipment[:])
	copy(b[32:], m.NewGCA[:])
	le.PutUint32(b[64:], m.NewID)
	for _, s := range m.Servers {
		b = append(b, s.Bytes()...)
	}
	return b
}

func (m Migration) SigningBytes() []byte { return append([]byte("EquipmentMigration"), m.body()...) }
func (m Migration) Bytes() []byte        { return append(m.body(), m.Sig[:]...) }
func (m Migration) Signed(priv [32]byte) Migration {
	m.Sig = Sign(priv, m.SigningBytes())
	return m
}

func (m Migration) JSON() []byte {
	var sb strings.Builder
	sb.WriteString(fmt.Sprintf(`{"Equipment":%s,"NewGCA":%s,"NewShortID":%d,"NewServers":[`, jsonBytes(m.Equipment[:]), jsonBytes(m.NewGCA[:]), m.NewID))
	for i, s := range m.Servers {
		if i > 0 {
			sb.WriteByte(',')
		}
		sb.Write(s.JSON())
	}
	sb.WriteString(fmt.Sprintf(`],"Signature":%s}`, jsonBytes(m.Sig[:])))
	return []byte(sb.String())
}

// ---------------------------------------------------------------- weekly statistics

type DevStats struct {
	Pub    [32]byte
	Power  [2016]uint64
	Impact [2016]uint64 // IEEE bits, so NaN payloads compare exactly
}

type Stats struct {
	Devices []DevStats
	Week    uint32
	Sig     [64]byte
}

const devStatsLen = 32 + 2016*8*2

func (s Stats) body() []byte {
	b := make([]byte, 4+len(s.Devices)*devStatsLen+4)
	le.PutUint32(b[0:], uint32(len(s.Devices)))
	i := 4
	for _, d := range s.Devices {
		copy(b[i:], d.Pub[:])
		i += 32
		for _, p := range d.Power {
			le.PutUint64(b[i:], p)
			i += 8
		}
		for _, p := range d.Impact {
			le.PutUint64(b[i:], p)
			i += 8
		}
	}
	le.PutUint32(b[i:], s.Week)
	return b
}

func (s Stats) SigningBytes() []byte { return append([]byte("AllDeviceStats"), s.body()...) }
func (s Stats) Bytes() []byte        { return append(s.body(), s.Sig[:]...) }

// ParseStatsStream parses a concatenation of weekly records (the history file).
func ParseStatsStream(b []byte) ([]Stats, error) {
	var out []Stats
	for len(b) > 0 {
		if len(b) < 4 {
			return nil, errors.New("short stats record")
		}
		n := int(le.Uint32(b))
		need := 4 + n*devStatsLen + 4 + 64
		if n > 1<<20 || len(b) < need {
			return nil, fmt.Errorf("short stats record: need %d have %d", need, len(b))
		}
		var s Stats
		i := 4
		s.Devices = make([]DevStats, n)
		for d := 0; d < n; d++ {
			copy(s.Devices[d].Pub[:], b[i:])
			i += 32
			for k := 0; k < 2016; k++ {
				s.Devices[d].Power[k] = le.Uint64(b[i:])
				i += 8
			}
			for k := 0; k < 2016; k++ {
				s.Devices[d].Impact[k] = le.Uint64(b[i:])
				i += 8
			}
		}
		s.Week = le.Uint32(b[i:])
		i += 4
		copy(s.Sig[:], b[i:i+64])
		i += 64
		out = append(out, s)
		b = b[i:]
	}
	return out, nil
}

// ---------------------------------------------------------------- sync reply

type SyncReply struct {
	DevKey     [32]byte
	Offset     uint32
	Bitfield   [504]byte
	NewGCA     [32]byte
	NewID      uint32
	Servers    []AuthServer
	MigSig     [64]byte
	Unix       uint64
	ServerSig  [64]byte
	SignedPart []byte // body without the last 64 bytes
}

func (r SyncReply) Bit(i int) bool { return r.Bitfield[i/8]&(1<<(uint(i)%8)) != 0 }

// ParseSyncReply parses everything the server wrote for one sync request
// (including the 2-byte length prefix). A single zero byte is a refusal.
func ParseSyncReply(raw []byte) (rep SyncReply, refused bool, err error) {
	if len(raw) == 1 && raw[0] == 0 {
		return rep, true, nil
	}
	if len(raw) < 2 {
		return rep, false, errors.New("reply shorter than its length prefix")
	}
	n := int(le.Uint16(raw))
	body := raw[2:]
	if n != len(body) {
		return rep, false, fmt.Errorf("length prefix %d but %d bytes follow", n, len(body))
	}
	if n < 712 {
		return rep, false, fmt.Errorf("reply body of %d bytes is shorter than the 712 byte minimum", n)
	}
	copy(rep.DevKey[:], body[0:32])
	rep.Offset = le.Uint32(body[32:])
	copy(rep.Bitfield[:], body[36:540])
	copy(rep.NewGCA[:], body[540:572])
	rep.NewID = le.Uint32(body[572:])
	end := n - 136
	rep.Servers, err = ParseAuthServers(body[576:end])
	if err != nil {
		return rep, false, err
	}
	copy(rep.MigSig[:], body[end:end+64])
	rep.Unix = le.Uint64(body[end+64:])
	copy(rep.ServerSig[:], body[end+72:])
	rep.SignedPart = append([]byte(nil), body[:n-64]...)
	return rep, false, nil
}

// BuildSyncReply produces the wire bytes (with prefix) for the given fields,
// signed by the server key. If mig is true the migration signature is kept as
// given, otherwise it is zero.
func BuildSyncReply(r SyncReply, serverPriv [32]byte) []byte {
	body := make([]byte, 576)
	copy(body[0:], r.DevKey[:])
	le.PutUint32(body[32:], r.Offset)
	copy(body[36:], r.Bitfield[:])
	copy(body[540:], r.NewGCA[:])
	le.PutUint32(body[572:], r.NewID)
	for _, s := range r.Servers {
		body = append(body, s.Bytes()...)
	}
	body = append(body, r.MigSig[:]...)
	var t [8]byte
	le.PutUint64(t[:], r.Unix)
	body = append(body, t[:]...)
	sig := Sign(serverPriv, body)
	body = append(body, sig[:]...)
	out := make([]byte, 2, 2+len(body))
	le.PutUint16(out, uint16(len(body)))
	return append(out, body...)
}

// ---------------------------------------------------------------- client server map

type MapEntry struct {
	Pub      [32]byte
	Banned   bool
	Location string
	HTTP     uint16
	TCP      uint16
	UDP      uint16
}

func (e MapEntry) Bytes() []byte {
	l := len(e.Location)
	b := make([]byte, 41+l)
	copy(b[0:], e.Pub[:])
	if e.Banned {
		b[32] = 1
	}
	le.PutUint16(b[33:], uint16(l))
	copy(b[35:], e.Location)
	le.PutUint16(b[35+l:], e.HTTP)
	le.PutUint16(b[37+l:], e.TCP)
	le.PutUint16(b[39+l:], e.UDP)
	return b
}

func EncodeServerMap(es []MapEntry) []byte {
	var b []byte
	for _, e := range es {
		b = append(b, e.Bytes()...)
	}
	return b
}

func ParseServerMap(b []byte) (map[[32]byte]MapEntry, error) {
	out := make(map[[32]byte]MapEntry)
	for len(b) > 0 {
		if len(b) < 35 {
			return nil, errors.New("short map entry")
		}
		var e MapEntry
		copy(e.Pub[:], b[:32])
		e.Banned = b[32] != 0
		l := int(le.Uint16(b[33:]))
		if len(b) < 41+l {
			return nil, errors.New("short map entry")
		}
		e.Location = string(b[35 : 35+l])
		e.HTTP = le.Uint16(b[35+l:])
		e.TCP = le.Uint16(b[37+l:])
		e.UDP = le.Uint16(b[39+l:])
		out[e.Pub] = e
		b = b[41+l:]
	}
	return out, nil
}

// KeyFile is the 96-byte pub||priv||zero layout of server.keys / clientKeys.dat.
func KeyFile(k Key) []byte {
	b := make([]byte, 96)
	copy(b[0:], k.Pub[:])
	copy(b[32:], k.Priv[:])
	return b
}
