//go:build test

// Package wmodel is the window/archive model of DESIGN.md §3 (used by C03 and
// C04): what one rotation of the two-week window must do to a snapshot, and
// comparers for weekly records that treat the device list as a set (the
// order inside a record follows Go map iteration and is unspecified).
//
// Everything here works on deep-copied snapshots (server.VerifSnap) and on
// the reference structs of lib/refenc; no encoder, signer or decoder of the
// repository is called.
package wmodel

import (
	"bytes"
	"fmt"
	"math"
	"sort"

	"github.com/glowlabs-org/gca-backend/glow"
	"github.com/glowlabs-org/gca-backend/server"

	"verifharness/lib/refenc"
)

const Week = 2016

// FromServer converts a record held by the server into the reference struct,
// keeping the order of the device list.
func FromServer(a server.AllDeviceStats) refenc.Stats {
	out := refenc.Stats{Week: a.TimeslotOffset, Sig: a.Signature}
	out.Devices = make([]refenc.DevStats, len(a.Devices))
	for i := range a.Devices {
		d := &out.Devices[i]
		d.Pub = a.Devices[i].PublicKey
		d.Power = a.Devices[i].PowerOutputs
		for k := 0; k < Week; k++ {
			d.Impact[k] = math.Float64bits(a.Devices[i].ImpactRates[k])
		}
	}
	return out
}

// HistoryOf converts the whole archive of a snapshot.
func HistoryOf(s *server.VerifSnap) []refenc.Stats {
	out := make([]refenc.Stats, len(s.History))
	for i := range s.History {
		out[i] = FromServer(s.History[i])
	}
	return out
}

// Canon returns the device list sorted by (key, power, impact); two records
// hold the same set (multiset) of devices iff their Canon lists are equal.
func Canon(devs []refenc.DevStats) []*refenc.DevStats {
	out := make([]*refenc.DevStats, len(devs))
	for i := range devs {
		out[i] = &devs[i]
	}
	sort.SliceStable(out, func(i, j int) bool {
		if c := bytes.Compare(out[i].Pub[:], out[j].Pub[:]); c != 0 {
			return c < 0
		}
		for k := 0; k < Week; k++ {
			if out[i].Power[k] != out[j].Power[k] {
				return out[i].Power[k] < out[j].Power[k]
			}
		}
		for k := 0; k < Week; k++ {
			if out[i].Impact[k] != out[j].Impact[k] {
				return out[i].Impact[k] < out[j].Impact[k]
			}
		}
		return false
	})
	return out
}

// EqualOrdered compares two records exactly (device order, power, impact
// bits, label, signature).
func EqualOrdered(a, b refenc.Stats) bool {
	if a.Week != b.Week || a.Sig != b.Sig || len(a.Devices) != len(b.Devices) {
		return false
	}
	for i := range a.Devices {
		if a.Devices[i] != b.Devices[i] {
			return false
		}
	}
	return true
}

// DescribeDiff explains the first difference between two records compared as
// sets of devices ("" if none). withImpact=false leaves impact rates out.
func DescribeDiff(want, got refenc.Stats, withImpact bool) string {
	if want.Week != got.Week {
		return fmt.Sprintf("label %d, want %d", got.Week, want.Week)
	}
	if len(want.Devices) != len(got.Devices) {
		return fmt.Sprintf("%d devices, want %d", len(got.Devices), len(want.Devices))
	}
	cw, cg := Canon(want.Devices), Canon(got.Devices)
	// (the sort order depends on impact only among entries with equal key and
	// power, so it cannot disturb a comparison that leaves impact out)
	for i := range cw {
		if cw[i].Pub != cg[i].Pub {
			return fmt.Sprintf("device set differs: have key %x, want key %x", cg[i].Pub[:6], cw[i].Pub[:6])
		}
		for k := 0; k < Week; k++ {
			if cw[i].Power[k] != cg[i].Power[k] {
				return fmt.Sprintf("device %x slot %d: power %d, want %d", cw[i].Pub[:6], k, cg[i].Power[k], cw[i].Power[k])
			}
		}
		if withImpact {
			for k := 0; k < Week; k++ {
				if cw[i].Impact[k] != cg[i].Impact[k] {
					return fmt.Sprintf("device %x slot %d: impact bits %x, want %x", cw[i].Pub[:6], k, cg[i].Impact[k], cw[i].Impact[k])
				}
			}
		}
	}
	return ""
}

// SigValid checks the record's signature under pub over the reference signing
// bytes of the record exactly as given (device order as given).
func SigValid(r refenc.Stats, pub [32]byte) bool {
	return refenc.Verify(pub, r.SigningBytes(), r.Sig)
}

// RecordOf is the record a rotation of snapshot s must archive: one entry per
// device in s.Equipment (authorized and not banned), first week of power and
// impact, labelled with the window offset. Unsigned; devices sorted by id.
func RecordOf(s *server.VerifSnap) refenc.Stats {
	ids := make([]uint32, 0, len(s.Equipment))
	for id := range s.Equipment {
		ids = append(ids, id)
	}
	sort.Slice(ids, func(i, j int) bool { return ids[i] < ids[j] })
	out := refenc.Stats{Week: s.Offset, Devices: make([]refenc.DevStats, len(ids))}
	for n, id := range ids {
		d := &out.Devices[n]
		d.Pub = s.Equipment[id].PublicKey
		if r := s.Reports[id]; r != nil {
			for k := 0; k < Week; k++ {
				d.Power[k] = r[k].PowerOutput
			}
		}
		if im := s.Impact[id]; im != nil {
			for k := 0; k < Week; k++ {
				d.Impact[k] = math.Float64bits(im[k])
			}
		}
	}
	return out
}

// CheckShift compares the live window after a rotation (post) with the one
// before (pre): second week moved down unchanged (full records and impact
// bits), upper week blank, offset advanced by one week, same devices.
func CheckShift(pre, post *server.VerifSnap, withImpact bool) string {
	if post.Offset != pre.Offset+Week {
		return fmt.Sprintf("offset %d after rotation, want %d", post.Offset, pre.Offset+Week)
	}
	if len(post.Reports) != len(pre.Reports) || len(post.Impact) != len(pre.Impact) {
		return fmt.Sprintf("device arrays changed: %d/%d report arrays, %d/%d impact arrays", len(post.Reports), len(pre.Reports), len(post.Impact), len(pre.Impact))
	}
	var blank glow.EquipmentReport
	for id, a := range pre.Reports {
		b, ok := post.Reports[id]
		if !ok || a == nil || b == nil {
			return fmt.Sprintf("report array of device %d missing", id)
		}
		for k := 0; k < Week; k++ {
			if b[k] != a[Week+k] {
				return fmt.Sprintf("device %d: live slot %d after rotation holds %+v, want former slot %d = %+v", id, k, short(b[k]), Week+k, short(a[Week+k]))
			}
			if b[Week+k] != blank {
				return fmt.Sprintf("device %d: live slot %d after rotation is not blank: %+v", id, Week+k, short(b[Week+k]))
			}
		}
	}
	if withImpact {
		for id, a := range pre.Impact {
			b, ok := post.Impact[id]
			if !ok || a == nil || b == nil {
				return fmt.Sprintf("impact array of device %d missing", id)
			}
			for k := 0; k < Week; k++ {
				if math.Float64bits(b[k]) != math.Float64bits(a[Week+k]) {
					return fmt.Sprintf("device %d: impact slot %d after rotation is %v, want former slot %d = %v", id, k, b[k], Week+k, a[Week+k])
				}
				if math.Float64bits(b[Week+k]) != 0 {
					return fmt.Sprintf("device %d: impact slot %d after rotation is not blank: %v", id, Week+k, b[Week+k])
				}
			}
		}
	}
	return ""
}

type shortRep struct {
	ID, Slot uint32
	Power    uint64
	Sig8     string
}

func short(r glow.EquipmentReport) shortRep {
	return shortRep{r.ShortID, r.Timeslot, r.PowerOutput, fmt.Sprintf("%x", r.Signature[:8])}
}

// Rotate applies one model rotation to the snapshot in place (shift, blank,
// offset) and returns the record that has to be archived for it. The archive
// list of the snapshot is not touched.
func Rotate(s *server.VerifSnap) refenc.Stats {
	rec := RecordOf(s)
	for _, r := range s.Reports {
		if r == nil {
			continue
		}
		var blank [Week]glow.EquipmentReport
		copy(r[:Week], r[Week:])
		copy(r[Week:], blank[:])
	}
	for _, im := range s.Impact {
		if im == nil {
			continue
		}
		var blank [Week]float64
		copy(im[:Week], im[Week:])
		copy(im[Week:], blank[:])
	}
	s.Offset += Week
	return rec
}

// CatchUps is the number of rotations the start-up loop must perform for the
// given clock and offset (rotate while now − offset ≥ 4000).
func CatchUps(now, offset uint32) int {
	n := 0
	for int64(now)-int64(offset) >= 4000 {
		n++
		offset += Week
	}
	return n
}

// NonZero reports whether the slice range of a device's power / impact has a
// non-zero entry (used to count non-trivial rotations).
func NonZero(s *server.VerifSnap, lo, hi int) (power, impact bool) {
	for _, r := range s.Reports {
		if r == nil {
			continue
		}
		for k := lo; k < hi; k++ {
			if r[k].PowerOutput != 0 {
				power = true
				break
			}
		}
	}
	for _, im := range s.Impact {
		if im == nil {
			continue
		}
		for k := lo; k < hi; k++ {
			if math.Float64bits(im[k]) != 0 {
				impact = true
				break
			}
		}
	}
	return
}
