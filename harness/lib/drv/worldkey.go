//go:build test

package drv

import (
	"fmt"
	"math/rand"

	"verifharness/lib/refenc"
)

// GenKeyEnding draws key pairs until the PUBLIC key ends in byte b (about 256
// draws): key files are raw bytes, and a loader that trims or interprets the
// tail of a file (line endings, NUL padding, hex) meets such keys once in a
// few hundred installations.
func GenKeyEnding(rng *rand.Rand, b byte) refenc.Key {
	for i := 0; i < 20000; i++ {
		if k := refenc.GenKey(rng); k.Pub[31] == b {
			return k
		}
	}
	return refenc.GenKey(rng)
}

// NewWorldGCA is NewWorld with a chosen GCA key.
func NewWorldGCA(dir string, rng *rand.Rand, gca refenc.Key) (*World, error) {
	e, err := NewServerDir(dir, rng, true)
	if err != nil {
		return nil, err
	}
	if err := e.Start(); err != nil {
		return nil, fmt.Errorf("server start: %v", err)
	}
	w := &World{Srv: e, GCA: gca, Devs: map[uint32]*Dev{}, Rng: rng}
	st, body, err := e.Register(w.GCA.Pub, e.Temp.Priv)
	if err != nil || st != 200 {
		e.Close()
		return nil, fmt.Errorf("GCA registration failed: status %d err %v body %s", st, err, body)
	}
	return w, nil
}
