//go:build test

// Package drv drives the real server and client from /repo in-process (build
// tags "test verif"): directory set-up, start/stop, HTTP/TCP/UDP access,
// gates on the background jobs, fault-injecting network peers.
package drv

import (
	"bytes"
	"encoding/hex"
	"encoding/json"
	"fmt"
	"io"
	"math/rand"
	"net"
	"net/http"
	"os"
	"path/filepath"
	"strings"
	"sync"
	"sync/atomic"
	"time"

	"github.com/glowlabs-org/gca-backend/glow"
	"github.com/glowlabs-org/gca-backend/server"

	"verifharness/lib/refenc"
)

// ---------------------------------------------------------------- gates on background jobs

var (
	rotationGated  atomic.Bool
	impactGated    atomic.Bool
	rotationTokens atomic.Int64
	impactTokens   atomic.Int64
	RotationArrive atomic.Int64 // times the rotation loop reached its head
	ImpactArrive   atomic.Int64
	RotationsDone  atomic.Int64 // migrate.done events
	rotationPasses atomic.Int64 // tokens consumed
	impactPasses   atomic.Int64
	rotationPassAt atomic.Int64 // arrival number of the visit that consumed the last token
	impactPassAt   atomic.Int64
	closingMu      sync.Mutex
	closing        = map[*server.GCAServer]bool{}
	gatesOnce      sync.Once
)

func isClosing(s *server.GCAServer) bool {
	closingMu.Lock()
	defer closingMu.Unlock()
	return closing[s]
}

func gate(s *server.GCAServer, gated *atomic.Bool, tokens, passes, passAt *atomic.Int64, visit int64) {
	for gated.Load() && !isClosing(s) {
		if t := tokens.Load(); t > 0 {
			if tokens.CompareAndSwap(t, t-1) {
				passAt.Store(visit)
				passes.Add(1)
				return
			}
			continue
		}
		time.Sleep(500 * time.Microsecond)
	}
}

// InstallGates installs the loop-head hooks of the rotation and impact jobs.
// While a job is gated its loop waits at the head, so the job performs no
// action; tokens let exactly one iteration through.
func InstallGates() {
	gatesOnce.Do(func() {
		server.VerifSetHook("migrate.loop", func(s *server.GCAServer) {
			gate(s, &rotationGated, &rotationTokens, &rotationPasses, &rotationPassAt, RotationArrive.Add(1))
		})
		server.VerifSetHook("wt.loop", func(s *server.GCAServer) {
			gate(s, &impactGated, &impactTokens, &impactPasses, &impactPassAt, ImpactArrive.Add(1))
		})
		server.VerifSetHook("migrate.done", func(s *server.GCAServer) {
			RotationsDone.Add(1)
		})
	})
}

func GateRotation(on bool) { InstallGates(); rotationGated.Store(on); rotationTokens.Store(0) }
func GateImpact(on bool)   { InstallGates(); impactGated.Store(on); impactTokens.Store(0) }

// step hands one token to a gated loop, waits until a visit has consumed it and
// then until the loop is back at its head (the iteration is over). It returns
// false if that did not happen within a generous wall-clock bound.
func step(tokens, passes, passAt, arrive *atomic.Int64) bool {
	p := passes.Load()
	tokens.Add(1)
	deadline := time.Now().Add(40 * time.Second)
	for passes.Load() == p {
		if time.Now().After(deadline) {
			return false
		}
		time.Sleep(200 * time.Microsecond)
	}
	visit := passAt.Load()
	for arrive.Load() <= visit {
		if time.Now().After(deadline) {
			return false
		}
		time.Sleep(200 * time.Microsecond)
	}
	return true
}

// StepRotation lets the gated rotation loop run exactly one iteration and
// waits until it is back at its head. Returns the number of rotations the
// iteration performed (0 or 1), or -1 if the loop did not come round in time
// (wall-clock watchdog: treat as inconclusive).
func StepRotation() int {
	before := RotationsDone.Load()
	if !step(&rotationTokens, &rotationPasses, &rotationPassAt, &RotationArrive) {
		return -1
	}
	return int(RotationsDone.Load() - before)
}

// StepImpact lets the impact job run one round and waits until it is over.
func StepImpact() bool {
	return step(&impactTokens, &impactPasses, &impactPassAt, &ImpactArrive)
}

// ---------------------------------------------------------------- server environment

type Srv struct {
	S       *server.GCAServer
	Dir     string
	Temp    refenc.Key // temporary GCA key installed on disk
	Key     refenc.Key // the server's own key (pre-seeded server.keys)
	HTTP    uint16
	TCP     uint16
	UDP     uint16
	hc      *http.Client
	udpConn net.Conn
}

// NewServerDir prepares a directory the way a technician would, plus a
// pre-seeded server.keys so the harness knows the server's key.
func NewServerDir(dir string, rng *rand.Rand, seedServerKey bool) (*Srv, error) {
	if err := os.MkdirAll(filepath.Join(dir, "watttime_data"), 0755); err != nil {
		return nil, err
	}
	e := &Srv{Dir: dir}
	e.Temp = refenc.GenKey(rng)
	e.Key = refenc.GenKey(rng)
	if err := os.WriteFile(filepath.Join(dir, "gcaTempPubKey.dat"), e.Temp.Pub[:], 0644); err != nil {
		return nil, err
	}
	os.WriteFile(filepath.Join(dir, "watttime_data", "username"), []byte("hi"), 0644)
	os.WriteFile(filepath.Join(dir, "watttime_data", "password"), []byte("ih"), 0644)
	if seedServerKey {
		if err := os.WriteFile(filepath.Join(dir, "server.keys"), refenc.KeyFile(e.Key), 0644); err != nil {
			return nil, err
		}
	}
	return e, nil
}

// Start launches the real server on the directory.
func (e *Srv) Start() error {
	InstallGates()
	s, err := server.NewGCAServer(e.Dir)
	if err != nil {
		return err
	}
	e.S = s
	e.HTTP, e.TCP, e.UDP = s.Ports()
	e.hc = &http.Client{Timeout: 20 * time.Second, Transport: &http.Transport{MaxIdleConnsPerHost: 64, IdleConnTimeout: 1 * time.Second}} // idle timeout below the test server's 2.5 s keep-alive limit
	return nil
}

// Close shuts the server down (releasing any gate it is parked in).
func (e *Srv) Close() error {
	if e.S == nil {
		return nil
	}
	closingMu.Lock()
	closing[e.S] = true
	closingMu.Unlock()
	if e.udpConn != nil {
		e.udpConn.Close()
		e.udpConn = nil
	}
	if e.hc != nil {
		e.hc.CloseIdleConnections()
	}
	err := e.S.Close()
	closingMu.Lock()
	delete(closing, e.S)
	closingMu.Unlock()
	e.S = nil
	return err
}

// CloseNoInvariants stops the server without going through CheckInvariants'
// panic (used when the harness wants to observe the invariant itself).
func (e *Srv) Restart() error {
	if err := e.Close(); err != nil && !SlowShutdown(err) {
		return fmt.Errorf("close: %v", err)
	}
	return e.Start()
}

// SlowShutdown reports whether a Close error is only the HTTP server's own
// shutdown time limit (5 s in test builds) expiring, which happens on a
// heavily loaded machine and says nothing about the state: everything else has
// been stopped by then. Whether shutdown is bounded is C12's subject.
func SlowShutdown(err error) bool {
	return err != nil && strings.Contains(err.Error(), "error shutting down the http server")
}

func (e *Srv) url(path string) string {
	return fmt.Sprintf("http://127.0.0.1:%d%s", e.HTTP, path)
}

// Do issues an HTTP request and returns status and body.
func (e *Srv) Do(method, path string, body []byte, ctype string) (int, []byte, error) {
	st, b, err := e.do(method, path, body, ctype)
	// A GET is idempotent: a transport-level failure (the test server drops idle or slow
	// connections after 2.5 s, which a starved machine can hit) is retried, never judged.
	for i := 0; i < 4 && err != nil && method == "GET"; i++ {
		time.Sleep(time.Duration(20*(i+1)) * time.Millisecond)
		st, b, err = e.do(method, path, body, ctype)
	}
	return st, b, err
}

func (e *Srv) do(method, path string, body []byte, ctype string) (int, []byte, error) {
	var rd io.Reader
	if body != nil {
		rd = bytes.NewReader(body)
	}
	req, err := http.NewRequest(method, e.url(path), rd)
	if err != nil {
		return 0, nil, err
	}
	if ctype != "" {
		req.Header.Set("Content-Type", ctype)
	}
	resp, err := e.hc.Do(req)
	if err != nil {
		return 0, nil, err
	}
	defer resp.Body.Close()
	b, err := io.ReadAll(resp.Body)
	return resp.StatusCode, b, err
}

func (e *Srv) Get(path string) (int, []byte, error) { return e.Do("GET", path, nil, "") }
func (e *Srv) Post(path string, body []byte) (int, []byte, error) {
	return e.Do("POST", path, body, "application/json")
}

// Register submits a GCA registration for key gca signed by priv.
func (e *Srv) Register(gca [32]byte, signer [32]byte) (int, []byte, error) {
	r := refenc.Registration{GCAKey: gca}
	r.Sig = refenc.Sign(signer, r.SigningBytes())
	return e.Post("/api/v1/register-gca", r.JSON())
}

func (e *Srv) Authorize(a refenc.Auth) (int, []byte, error) {
	return e.Post("/api/v1/authorize-equipment", a.JSON())
}

// AuthorizeSparse posts the same authorization as an equivalent JSON body
// (zero-valued members absent, other member order, white space).
func (e *Srv) AuthorizeSparse(a refenc.Auth) (int, []byte, error) {
	return e.Post("/api/v1/authorize-equipment", a.SparseJSON())
}

func (e *Srv) PostServer(s refenc.AuthServer) (int, []byte, error) {
	return e.Post("/api/v1/authorized-servers", s.JSON())
}

func (e *Srv) PostMigration(m refenc.Migration) (int, []byte, error) {
	return e.Post("/api/v1/equipment-migrate", m.JSON())
}

// Inject delivers a datagram synchronously through the listener's handler.
func (e *Srv) Inject(b []byte) { e.S.VerifInject(b) }

// SendUDP sends a datagram through the real socket and waits (logically) until
// the listener has finished with it.
func (e *Srv) SendUDP(b []byte) error {
	if e.udpConn == nil {
		c, err := net.Dial("udp", fmt.Sprintf("127.0.0.1:%d", e.UDP))
		if err != nil {
			return err
		}
		e.udpConn = c
	}
	before := server.VerifUDPHandled()
	if _, err := e.udpConn.Write(b); err != nil {
		return err
	}
	deadline := time.Now().Add(5 * time.Second)
	for server.VerifUDPHandled() == before {
		if time.Now().After(deadline) {
			return fmt.Errorf("datagram was not processed within 5s (lost on loopback?)")
		}
		time.Sleep(50 * time.Microsecond)
	}
	return nil
}

// SyncRaw performs a raw TCP sync request and returns every byte the server
// wrote before closing the connection.
func (e *Srv) SyncRaw(req []byte) ([]byte, error) {
	c, err := net.DialTimeout("tcp", fmt.Sprintf("127.0.0.1:%d", e.TCP), 5*time.Second)
	if err != nil {
		return nil, err
	}
	defer c.Close()
	c.SetDeadline(time.Now().Add(10 * time.Second))
	if _, err := c.Write(req); err != nil {
		return nil, err
	}
	return io.ReadAll(c)
}

func (e *Srv) Sync(id uint32) (refenc.SyncReply, bool, error) {
	var b [4]byte
	b[0], b[1], b[2], b[3] = byte(id), byte(id>>8), byte(id>>16), byte(id>>24)
	raw, err := e.SyncRaw(b[:])
	if err != nil {
		return refenc.SyncReply{}, false, err
	}
	return refenc.ParseSyncReply(raw)
}

// StatsJSON is the decoded all-device-stats response.
type StatsJSON struct {
	Devices []struct {
		PublicKey    [32]byte
		PowerOutputs []int64
		ImpactRates  []float64
	}
	TimeslotOffset uint32
	Signature      [64]byte
}

// Key arrays are rendered by encoding/json as arrays of numbers; decode helper.
func decodeKeyArray(v interface{}, out []byte) bool {
	arr, ok := v.([]interface{})
	if !ok || len(arr) != len(out) {
		return false
	}
	for i, x := range arr {
		f, ok := x.(float64)
		if !ok {
			return false
		}
		out[i] = byte(f)
	}
	return true
}

// GetStats fetches and decodes a week of statistics into the reference struct.
func (e *Srv) GetStats(query string) (int, *refenc.Stats, []byte, error) {
	st, body, err := e.Get("/api/v1/all-device-stats?" + query)
	if err != nil || st != 200 {
		return st, nil, body, err
	}
	var raw struct {
		Devices []struct {
			PublicKey    []int
			PowerOutputs []int64
			ImpactRates  []float64
		}
		TimeslotOffset uint32
		Signature      []int
	}
	if err := json.Unmarshal(body, &raw); err != nil {
		return st, nil, body, fmt.Errorf("stats body does not decode: %v", err)
	}
	out := &refenc.Stats{Week: raw.TimeslotOffset}
	if len(raw.Signature) != 64 {
		return st, nil, body, fmt.Errorf("signature has %d elements", len(raw.Signature))
	}
	for i, x := range raw.Signature {
		out.Sig[i] = byte(x)
	}
	for _, d := range raw.Devices {
		var ds refenc.DevStats
		if len(d.PublicKey) != 32 || len(d.PowerOutputs) != 2016 || len(d.ImpactRates) != 2016 {
			return st, nil, body, fmt.Errorf("device entry has wrong array lengths")
		}
		for i, x := range d.PublicKey {
			ds.Pub[i] = byte(x)
		}
		for i, x := range d.PowerOutputs {
			ds.Power[i] = uint64(x)
		}
		for i, x := range d.ImpactRates {
			ds.Impact[i] = mathFloat64bits(x)
		}
		out.Devices = append(out.Devices, ds)
	}
	return st, out, body, nil
}

// RecentReports fetches the recent-reports array for a device key.
func (e *Srv) RecentReports(pub [32]byte) (int, []refenc.Report, error) {
	st, body, err := e.Get("/api/v1/recent-reports?publicKey=" + hex.EncodeToString(pub[:]))
	if err != nil || st != 200 {
		return st, nil, err
	}
	var raw struct {
		Reports []struct {
			ShortID     uint32
			Timeslot    uint32
			PowerOutput uint64
			Signature   []int
		}
	}
	if err := json.Unmarshal(body, &raw); err != nil {
		return st, nil, err
	}
	out := make([]refenc.Report, len(raw.Reports))
	for i, r := range raw.Reports {
		out[i] = refenc.Report{ID: r.ShortID, Slot: r.Timeslot, Power: r.PowerOutput}
		for k, x := range r.Signature {
			if k < 64 {
				out[i].Sig[k] = byte(x)
			}
		}
	}
	return st, out, nil
}

// Equipment fetches GET /equipment as reference structs.
func (e *Srv) Equipment() (int, map[uint32]refenc.Auth, error) {
	st, body, err := e.Get("/api/v1/equipment")
	if err != nil || st != 200 {
		return st, nil, err
	}
	var raw struct {
		EquipmentDetails map[string]struct {
			ShortID        uint32
			PublicKey      []int
			Latitude       float64
			Longitude      float64
			Capacity       uint64
			Debt           uint64
			Expiration     uint32
			Initialization uint32
			ProtocolFee    uint64
			Signature      []int
		}
	}
	if err := json.Unmarshal(body, &raw); err != nil {
		return st, nil, err
	}
	out := map[uint32]refenc.Auth{}
	for k, v := range raw.EquipmentDetails {
		var id uint32
		fmt.Sscanf(k, "%d", &id)
		a := refenc.Auth{ID: v.ShortID, Lat: v.Latitude, Long: v.Longitude, Capacity: v.Capacity, Debt: v.Debt, Expiration: v.Expiration, Initialization: v.Initialization, Fee: v.ProtocolFee}
		for i, x := range v.PublicKey {
			if i < 32 {
				a.Pub[i] = byte(x)
			}
		}
		for i, x := range v.Signature {
			if i < 64 {
				a.Sig[i] = byte(x)
			}
		}
		out[id] = a
	}
	return st, out, nil
}

// AuthorizedServers fetches GET /authorized-servers.
func (e *Srv) AuthorizedServers() (int, []refenc.AuthServer, error) {
	st, body, err := e.Get("/api/v1/authorized-servers")
	if err != nil || st != 200 {
		return st, nil, err
	}
	var raw struct {
		AuthorizedServers []struct {
			PublicKey        []int
			Banned           bool
			Location         string
			HttpPort         uint16
			TcpPort          uint16
			UdpPort          uint16
			GCAAuthorization []int
		}
	}
	if err := json.Unmarshal(body, &raw); err != nil {
		return st, nil, err
	}
	var out []refenc.AuthServer
	for _, v := range raw.AuthorizedServers {
		a := refenc.AuthServer{Banned: v.Banned, Location: v.Location, HTTP: v.HttpPort, TCP: v.TcpPort, UDP: v.UdpPort}
		for i, x := range v.PublicKey {
			if i < 32 {
				a.Pub[i] = byte(x)
			}
		}
		for i, x := range v.GCAAuthorization {
			if i < 64 {
				a.Sig[i] = byte(x)
			}
		}
		out = append(out, a)
	}
	return st, out, nil
}

// SetClock sets the process-global protocol clock (test builds).
func SetClock(slot uint32) { glow.SetCurrentTimeslot(slot) }
func Clock() uint32        { return glow.CurrentTimeslot() }

// ReadFile reads a file of the server directory.
func (e *Srv) ReadFile(name string) []byte {
	b, _ := os.ReadFile(filepath.Join(e.Dir, name))
	return b
}
