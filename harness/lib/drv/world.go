//go:build test

package drv

import (
	"fmt"
	"math/rand"

	"verifharness/lib/refenc"
)

// Dev is a device known to the harness (its key is held by the harness).
type Dev struct {
	ID   uint32
	Key  refenc.Key
	Auth refenc.Auth
}

// World is a started server with a registered GCA whose key the harness holds.
type World struct {
	*Srv
	GCA  refenc.Key
	Devs map[uint32]*Dev
	Rng  *rand.Rand
}

// NewWorld prepares dir, starts the server and registers a GCA.
func NewWorld(dir string, rng *rand.Rand) (*World, error) {
	e, err := NewServerDir(dir, rng, true)
	if err != nil {
		return nil, err
	}
	if err := e.Start(); err != nil {
		return nil, fmt.Errorf("server start: %v", err)
	}
	w := &World{Srv: e, GCA: refenc.GenKey(rng), Devs: map[uint32]*Dev{}, Rng: rng}
	st, body, err := e.Register(w.GCA.Pub, e.Temp.Priv)
	if err != nil || st != 200 {
		e.Close()
		return nil, fmt.Errorf("GCA registration failed: status %d err %v body %s", st, err, body)
	}
	return w, nil
}

// MkAuth builds a GCA-signed authorization with plain field values.
func (w *World) MkAuth(id uint32, pub [32]byte, capacity uint64) refenc.Auth {
	a := refenc.Auth{ID: id, Pub: pub, Lat: float64(w.Rng.Intn(120)-60) + float64(w.Rng.Intn(1000))/1000, Long: float64(w.Rng.Intn(300)-150) + float64(w.Rng.Intn(1000))/1000, Capacity: capacity, // three decimals, as the README asks for: emission rates are fractional
		Debt: uint64(w.Rng.Intn(1000)), Expiration: 100000 + uint32(w.Rng.Intn(1000)), Initialization: uint32(w.Rng.Intn(100)), Fee: uint64(w.Rng.Intn(100000))}
	return a.Signed(w.GCA.Priv)
}

// AddDevice authorizes a fresh device through the real endpoint.
func (w *World) AddDevice(id uint32, capacity uint64) (*Dev, error) {
	k := refenc.GenKey(w.Rng)
	a := w.MkAuth(id, k.Pub, capacity)
	st, body, err := w.Authorize(a)
	if err != nil || st != 200 {
		return nil, fmt.Errorf("authorization of device %d failed: status %d err %v body %s", id, st, err, body)
	}
	d := &Dev{ID: id, Key: k, Auth: a}
	w.Devs[id] = d
	return d, nil
}

// BanDevice submits a conflicting authorization (different debt) for the id.
func (w *World) BanDevice(id uint32) (int, error) {
	d := w.Devs[id]
	a := d.Auth
	a.Debt++
	a = a.Signed(w.GCA.Priv)
	st, _, err := w.Authorize(a)
	return st, err
}

// Report builds a signed report of the device.
func (d *Dev) Report(slot uint32, power uint64) refenc.Report {
	return refenc.Report{ID: d.ID, Slot: slot, Power: power}.Signed(d.Key.Priv)
}
