//go:build test

package drv

import (
	"bytes"
	"fmt"
	"net"
	"os"
	"path/filepath"
	"time"

	"github.com/glowlabs-org/gca-backend/server"
)

// StrictUDP is a socket to a started server with a completion barrier that is
// not fooled by datagrams of OTHER processes. Many servers run on this machine
// at the same time and ephemeral ports are reused: a client of another check
// may still be sending to the port our server just received, and every such
// datagram increments the udp.done counter that (*Srv).SendUDP waits for.
// The server (DEBUG log level in test builds) logs every datagram it refuses;
// StrictUDP subtracts those refusals from the completion count. It is meant
// for callers that send ACCEPTABLE reports only (a refused datagram of the
// caller itself makes the barrier wait until its watchdog expires -> false).
type StrictUDP struct {
	conn net.Conn
	logF *os.File
	buf  []byte
	// Foreign counts the refused datagrams seen so far.
	Foreign int
}

var refusalMarks = [][]byte{
	[]byte("Report decoding failed"),
	[]byte("Received out of bounds timeslot"),
	[]byte("Received report with a sentinel power output"),
	[]byte("Received an incorrectly sized packet"),
}

// NewStrictUDP opens a UDP socket to the running server and a cursor at the
// current end of its log. Open a new one after every (re)start.
func (e *Srv) NewStrictUDP() (*StrictUDP, error) {
	c, err := net.Dial("udp", fmt.Sprintf("127.0.0.1:%d", e.UDP))
	if err != nil {
		return nil, err
	}
	f, err := os.Open(filepath.Join(e.Dir, "server.log"))
	if err != nil {
		c.Close()
		return nil, err
	}
	s := &StrictUDP{conn: c, logF: f}
	s.Refusals() // skip what is already there
	return s, nil
}

func (s *StrictUDP) Close() {
	s.conn.Close()
	s.logF.Close()
}

// Refusals returns how many datagrams the server refused since the last call.
func (s *StrictUDP) Refusals() int {
	tmp := make([]byte, 1<<16)
	for {
		k, err := s.logF.Read(tmp)
		s.buf = append(s.buf, tmp[:k]...)
		if k == 0 || err != nil {
			break
		}
	}
	n := 0
	for {
		i := bytes.IndexByte(s.buf, '\n')
		if i < 0 {
			break
		}
		line := s.buf[:i]
		for _, m := range refusalMarks {
			if bytes.Contains(line, m) {
				n++
				break
			}
		}
		s.buf = s.buf[i+1:]
	}
	return n
}

// Begin marks the start of a group of sends and returns the completion count.
func (s *StrictUDP) Begin() uint64 {
	s.Refusals()
	return server.VerifUDPHandled()
}

// Write sends a datagram without waiting.
func (s *StrictUDP) Write(b []byte) error {
	_, err := s.conn.Write(b)
	return err
}

// Barrier waits until the listener has completed k datagrams that it did not
// refuse since Begin returned start. False: watchdog (10 s) expired – a
// datagram was lost on loopback or one of the caller's own was refused.
func (s *StrictUDP) Barrier(start uint64, k int) bool {
	foreign := 0
	deadline := time.Now().Add(10 * time.Second)
	for {
		done := server.VerifUDPHandled()
		foreign += s.Refusals()
		if int64(done-start)-int64(foreign) >= int64(k) {
			s.Foreign += foreign
			return true
		}
		if time.Now().After(deadline) {
			s.Foreign += foreign
			return false
		}
		time.Sleep(50 * time.Microsecond)
	}
}

// Send sends one acceptable datagram and waits for its completion.
func (s *StrictUDP) Send(b []byte) bool {
	start := s.Begin()
	if s.Write(b) != nil {
		return false
	}
	return s.Barrier(start, 1)
}
