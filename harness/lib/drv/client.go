//go:build test

package drv

import (
	"encoding/binary"
	"fmt"
	"io"
	"math/rand"
	"net"
	"os"
	"path/filepath"
	"sync"
	"time"

	"github.com/glowlabs-org/gca-backend/client"

	"verifharness/lib/refenc"
)

// ClientEnv describes a client directory as a technician would provision it.
type ClientEnv struct {
	Dir           string
	Key           refenc.Key
	GCA           [32]byte
	ShortID       uint32
	Servers       []refenc.MapEntry
	HistoryOrigin uint32
	CTSettings    *string // nil: no file
	Energy        *string // nil: no file
	LastSync      *string // nil: no file ("0" forces a sync on the first ticks; fresh unix time suppresses it)
}

// Write creates (or overwrites) the provisioning files. history.dat is only
// created if it does not exist yet.
func (e *ClientEnv) Write() error {
	if err := os.MkdirAll(e.Dir, 0755); err != nil {
		return err
	}
	w := func(name string, b []byte) error { return os.WriteFile(filepath.Join(e.Dir, name), b, 0644) }
	if err := w(client.ClientKeyFile, refenc.KeyFile(e.Key)); err != nil {
		return err
	}
	if err := w(client.GCAPubKeyFile, e.GCA[:]); err != nil {
		return err
	}
	if err := w(client.GCAServerMapFile, refenc.EncodeServerMap(e.Servers)); err != nil {
		return err
	}
	var id [4]byte
	binary.LittleEndian.PutUint32(id[:], e.ShortID)
	if err := w(client.ShortIDFile, id[:]); err != nil {
		return err
	}
	// bin/gca-admin leaves the equipment authorization it submitted next to the
	// other files (for later re-submission) and never rewrites it: the client
	// does not use it. Written once, like the admin tool does; without the
	// GCA's private key the signature bytes are arbitrary.
	ap := filepath.Join(e.Dir, client.AuthorizationFile)
	if _, err := os.Stat(ap); os.IsNotExist(err) {
		a := refenc.Auth{ID: e.ShortID, Pub: e.Key.Pub, Lat: 38.123, Long: -77.456, Capacity: 12341234, Debt: 11223344, Expiration: 100000 + e.ShortID, Initialization: e.HistoryOrigin, Fee: 500}
		copy(a.Sig[:], e.GCA[:])
		copy(a.Sig[32:], e.Key.Pub[:])
		if err := os.WriteFile(ap, a.JSON(), 0644); err != nil {
			return err
		}
	}
	hp := filepath.Join(e.Dir, client.HistoryFile)
	if _, err := os.Stat(hp); os.IsNotExist(err) {
		var o [4]byte
		binary.LittleEndian.PutUint32(o[:], e.HistoryOrigin)
		if err := os.WriteFile(hp, o[:], 0644); err != nil {
			return err
		}
	}
	if e.CTSettings != nil {
		if err := w(client.CTSettingsFile, []byte(*e.CTSettings)); err != nil {
			return err
		}
	}
	if e.Energy != nil {
		if err := e.WriteEnergy(*e.Energy); err != nil {
			return err
		}
	}
	if e.LastSync != nil {
		if err := w(client.LastSyncFile, []byte(*e.LastSync)); err != nil {
			return err
		}
	}
	return nil
}

// WriteEnergy replaces the energy file atomically (rename), as the meter does.
func (e *ClientEnv) WriteEnergy(content string) error {
	p := filepath.Join(e.Dir, client.EnergyFile)
	tmp := p + ".tmp"
	if err := os.WriteFile(tmp, []byte(content), 0644); err != nil {
		return err
	}
	return os.Rename(tmp, p)
}

func FreshSyncStamp() *string {
	s := fmt.Sprintf("%d", time.Now().Unix())
	return &s
}

func StaleSyncStamp() *string { s := "0"; return &s }

// StartClient launches the real client on the directory.
func StartClient(dir string) (*client.Client, error) { return client.NewClient(dir) }

// ---------------------------------------------------------------- UDP sink

// UDPSink records every datagram it receives.
type UDPSink struct {
	conn *net.UDPConn
	Port uint16
	mu   sync.Mutex
	pkts [][]byte
	done chan struct{}
}

func NewUDPSink() (*UDPSink, error) {
	c, err := net.ListenUDP("udp", &net.UDPAddr{IP: net.ParseIP("127.0.0.1")})
	if err != nil {
		return nil, err
	}
	s := &UDPSink{conn: c, Port: uint16(c.LocalAddr().(*net.UDPAddr).Port), done: make(chan struct{})}
	go func() {
		defer close(s.done)
		buf := make([]byte, 2048)
		for {
			n, _, err := c.ReadFromUDP(buf)
			if err != nil {
				return
			}
			p := append([]byte(nil), buf[:n]...)
			s.mu.Lock()
			s.pkts = append(s.pkts, p)
			s.mu.Unlock()
		}
	}()
	return s, nil
}

func (s *UDPSink) Packets() [][]byte {
	s.mu.Lock()
	defer s.mu.Unlock()
	return append([][]byte(nil), s.pkts...)
}

func (s *UDPSink) Count() int {
	s.mu.Lock()
	defer s.mu.Unlock()
	return len(s.pkts)
}

func (s *UDPSink) Close() { s.conn.Close(); <-s.done }

// ---------------------------------------------------------------- rogue sync server

// RogueSync is a TCP listener that answers sync requests with whatever the
// Reply callback returns. Returning nil closes the connection without a byte.
type RogueSync struct {
	ln      net.Listener
	Port    uint16
	Key     refenc.Key
	mu      sync.Mutex
	Accepts int
	Reply   func(req []byte, n int) (reply []byte, closeAfter int) // closeAfter<0: send all
	wg      sync.WaitGroup
}

func NewRogueSync(rng *rand.Rand, reply func(req []byte, n int) ([]byte, int)) (*RogueSync, error) {
	ln, err := net.Listen("tcp", "127.0.0.1:0")
	if err != nil {
		return nil, err
	}
	r := &RogueSync{ln: ln, Port: uint16(ln.Addr().(*net.TCPAddr).Port), Key: refenc.GenKey(rng), Reply: reply}
	r.wg.Add(1)
	go func() {
		defer r.wg.Done()
		for {
			c, err := ln.Accept()
			if err != nil {
				return
			}
			r.mu.Lock()
			r.Accepts++
			n := r.Accepts
			reply := r.Reply
			r.mu.Unlock()
			r.wg.Add(1)
			go func() {
				defer r.wg.Done()
				defer c.Close()
				c.SetDeadline(time.Now().Add(10 * time.Second))
				req := make([]byte, 4)
				if _, err := io.ReadFull(c, req); err != nil {
					return
				}
				if reply == nil {
					return
				}
				out, closeAfter := reply(req, n)
				if closeAfter >= 0 && closeAfter < len(out) {
					out = out[:closeAfter]
				}
				c.Write(out)
			}()
		}
	}()
	return r, nil
}

func (r *RogueSync) SetReply(f func(req []byte, n int) ([]byte, int)) {
	r.mu.Lock()
	r.Reply = f
	r.mu.Unlock()
}

func (r *RogueSync) AcceptCount() int {
	r.mu.Lock()
	defer r.mu.Unlock()
	return r.Accepts
}

func (r *RogueSync) Close() { r.ln.Close(); r.wg.Wait() }

// Entry returns the client-map entry that points at this rogue server.
func (r *RogueSync) Entry(udpPort uint16, banned bool) refenc.MapEntry {
	return refenc.MapEntry{Pub: r.Key.Pub, Banned: banned, Location: "127.0.0.1", HTTP: 0, TCP: r.Port, UDP: udpPort}
}
