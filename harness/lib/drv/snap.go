//go:build test

package drv

import (
	"fmt"
	"math"
	"sort"

	"github.com/glowlabs-org/gca-backend/glow"
	"github.com/glowlabs-org/gca-backend/server"

	"verifharness/lib/refenc"
)

// SlotDiff names one changed slot.
type SlotDiff struct {
	Dev   uint32
	Index int
}

// Diff lists the sections in which two snapshots differ. Slot-level
// differences of the report arrays are listed individually (up to 16).
type Diff struct {
	Sections []string
	Slots    []SlotDiff
}

func (d Diff) Empty() bool { return len(d.Sections) == 0 }
func (d Diff) String() string {
	return fmt.Sprintf("sections=%v slots=%v", d.Sections, d.Slots)
}

// OnlySlot reports whether the only difference is exactly the given slot.
func (d Diff) OnlySlot(dev uint32, index int) bool {
	if len(d.Sections) != 1 || d.Sections[0] != fmt.Sprintf("reports[%d]", dev) {
		return false
	}
	return len(d.Slots) == 1 && d.Slots[0] == SlotDiff{dev, index}
}

func statsEqual(a, b server.AllDeviceStats) bool {
	if a.TimeslotOffset != b.TimeslotOffset || a.Signature != b.Signature || len(a.Devices) != len(b.Devices) {
		return false
	}
	for i := range a.Devices {
		if a.Devices[i].PublicKey != b.Devices[i].PublicKey || a.Devices[i].PowerOutputs != b.Devices[i].PowerOutputs {
			return false
		}
		for k := range a.Devices[i].ImpactRates {
			if math.Float64bits(a.Devices[i].ImpactRates[k]) != math.Float64bits(b.Devices[i].ImpactRates[k]) {
				return false
			}
		}
	}
	return true
}

func authEqual(a, b glow.EquipmentAuthorization) bool {
	return a.ShortID == b.ShortID && a.PublicKey == b.PublicKey &&
		math.Float64bits(a.Latitude) == math.Float64bits(b.Latitude) &&
		math.Float64bits(a.Longitude) == math.Float64bits(b.Longitude) &&
		a.Capacity == b.Capacity && a.Debt == b.Debt && a.Expiration == b.Expiration &&
		a.Initialization == b.Initialization && a.ProtocolFee == b.ProtocolFee && a.Signature == b.Signature
}

// DiffSnap compares two heavy snapshots section by section.
func DiffSnap(a, b *server.VerifSnap) Diff {
	var d Diff
	add := func(s string) { d.Sections = append(d.Sections, s) }
	if a.GCAKey != b.GCAKey || a.GCAAvailable != b.GCAAvailable || a.TempKey != b.TempKey || a.ServerPubKey != b.ServerPubKey {
		add("gca")
	}
	eq := len(a.Equipment) == len(b.Equipment)
	if eq {
		for k, v := range a.Equipment {
			w, ok := b.Equipment[k]
			if !ok || !authEqual(v, w) {
				eq = false
				break
			}
		}
	}
	if !eq {
		add("equipment")
	}
	eq = len(a.ShortIDs) == len(b.ShortIDs)
	if eq {
		for k, v := range a.ShortIDs {
			if w, ok := b.ShortIDs[k]; !ok || w != v {
				eq = false
				break
			}
		}
	}
	if !eq {
		add("pkindex")
	}
	eq = len(a.Bans) == len(b.Bans)
	if eq {
		for k := range a.Bans {
			if !b.Bans[k] {
				eq = false
				break
			}
		}
	}
	if !eq {
		add("bans")
	}
	if a.Offset != b.Offset || a.HistoryOffset != b.HistoryOffset {
		add("offset")
	}
	eq = len(a.History) == len(b.History)
	if eq {
		for i := range a.History {
			if !statsEqual(a.History[i], b.History[i]) {
				eq = false
				break
			}
		}
	}
	if !eq {
		add("archive")
	}
	eq = len(a.Migrations) == len(b.Migrations)
	if eq {
		for k, v := range a.Migrations {
			w, ok := b.Migrations[k]
			if !ok || string(v.Serialize()) != string(w.Serialize()) {
				eq = false
				break
			}
		}
	}
	if !eq {
		add("migrations")
	}
	eq = len(a.Servers) == len(b.Servers)
	if eq {
		for i := range a.Servers {
			if a.Servers[i] != b.Servers[i] {
				eq = false
				break
			}
		}
	}
	if !eq {
		add("serverlist")
	}
	if len(a.RecentReports) != len(b.RecentReports) {
		add("recentlist")
	} else {
		for i := range a.RecentReports {
			if a.RecentReports[i] != b.RecentReports[i] {
				add("recentlist")
				break
			}
		}
	}
	// per device arrays
	ids := map[uint32]bool{}
	for k := range a.Reports {
		ids[k] = true
	}
	for k := range b.Reports {
		ids[k] = true
	}
	for k := range a.Impact {
		ids[k] = true
	}
	for k := range b.Impact {
		ids[k] = true
	}
	var idl []uint32
	for k := range ids {
		idl = append(idl, k)
	}
	sort.Slice(idl, func(i, j int) bool { return idl[i] < idl[j] })
	for _, id := range idl {
		ra, oka := a.Reports[id]
		rb, okb := b.Reports[id]
		if oka != okb || (ra == nil) != (rb == nil) {
			add(fmt.Sprintf("reports[%d]", id))
		} else if ra != nil && *ra != *rb {
			add(fmt.Sprintf("reports[%d]", id))
			for i := range ra {
				if ra[i] != rb[i] && len(d.Slots) < 16 {
					d.Slots = append(d.Slots, SlotDiff{id, i})
				}
			}
		}
		ia, oka := a.Impact[id]
		ib, okb := b.Impact[id]
		if oka != okb || (ia == nil) != (ib == nil) {
			add(fmt.Sprintf("impact[%d]", id))
		} else if ia != nil {
			for i := range ia {
				if math.Float64bits(ia[i]) != math.Float64bits(ib[i]) {
					add(fmt.Sprintf("impact[%d]", id))
					break
				}
			}
		}
	}
	return d
}

// RefReport converts a stored record into the reference struct.
func RefReport(r glow.EquipmentReport) refenc.Report {
	return refenc.Report{ID: r.ShortID, Slot: r.Timeslot, Power: r.PowerOutput, Sig: r.Signature}
}

// RefAuth converts a stored authorization into the reference struct.
func RefAuth(a glow.EquipmentAuthorization) refenc.Auth {
	return refenc.Auth{ID: a.ShortID, Pub: a.PublicKey, Lat: a.Latitude, Long: a.Longitude, Capacity: a.Capacity, Debt: a.Debt,
		Expiration: a.Expiration, Initialization: a.Initialization, Fee: a.ProtocolFee, Sig: a.Signature}
}
