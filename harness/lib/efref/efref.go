// Package efref is the independent reference for "energy file -> report
// values" (property C16; reused by C09). It is written from the property text
// and DESIGN.md §4 C16, not from the repository's reader: its own CSV record
// splitter (the RFC-4180 subset the deployed reader accepts: comma separator,
// double-quote quoting with "" escapes, quoted fields may span lines, \r\n is
// \n, blank lines are no records, the first record fixes the field count, a
// bare quote / a quote followed by junk / an unterminated quote / a different
// field count is a CSV-level error), its own integer syntax, and the value
// rule. The only shared trusted base is strconv.ParseFloat as the definition
// of "field 1 is a float".
package efref

import (
	"fmt"
	"math"
	"math/big"
	"strconv"
	"strings"
)

// Rec is one (timeslot, report value) record.
type Rec struct {
	Slot  uint32
	Value uint64
}

// Exp is what the rule says about one row.
type Exp struct {
	Row      int    // index of the CSV record / candidate line
	Text     string // the row's first two fields, for diagnostics
	Must     bool   // exactly one record must be yielded for this row
	Alts     []Rec  // admissible records
	AnyValue bool   // only the slot is fixed (reading outside the value-rule domain)
	Class    string
}

// Parsed is the reference reading of a whole file.
type Parsed struct {
	Exps       []Exp
	Rows       int    // CSV records before the first CSV-level error
	CSVError   string // "" when the file is well-formed CSV throughout
	ErrRow     int
	FieldCount int
	Classes    map[string]int
}

// AllMust reports whether the expectation is a plain list (no optional entry).
func (p *Parsed) AllMust() bool {
	for _, e := range p.Exps {
		if !e.Must || e.AnyValue || len(e.Alts) != 1 {
			return false
		}
	}
	return true
}

// MustList returns the records of the Must entries, in order.
func (p *Parsed) MustList() []Rec {
	var out []Rec
	for _, e := range p.Exps {
		if e.Must && !e.AnyValue && len(e.Alts) == 1 {
			out = append(out, e.Alts[0])
		}
	}
	return out
}

// ---------------------------------------------------------------- CSV records

type Row struct {
	Fields []string
}

// lines splits data the way the record reader sees it: every line keeps its
// "\n"; "\r\n" is "\n"; a "\r" right before the end of input is dropped.
func lines(data []byte) []string {
	var out []string
	s := string(data)
	for len(s) > 0 {
		i := strings.IndexByte(s, '\n')
		var ln string
		if i < 0 {
			ln = s
			s = ""
			if strings.HasSuffix(ln, "\r") {
				ln = ln[:len(ln)-1]
			}
		} else {
			ln = s[:i+1]
			s = s[i+1:]
			if len(ln) >= 2 && ln[len(ln)-2] == '\r' {
				ln = ln[:len(ln)-2] + "\n"
			}
		}
		out = append(out, ln)
	}
	return out
}

func stripNL(s string) string {
	if strings.HasSuffix(s, "\n") {
		return s[:len(s)-1]
	}
	return s
}

// SplitCSV returns the records before the first CSV-level error, the error
// ("" if none), the record that carried a field-count error (nil otherwise)
// and the index of the first physical line of the failing record.
func SplitCSV(data []byte) (rows []Row, csvErr string, errRow *Row, errLine int) {
	ls := lines(data)
	want := -1
	li := 0
	for li < len(ls) {
		start := li
		line := ls[li]
		li++
		if line == "\n" || line == "" {
			continue // blank line: no record
		}
		var fields []string
		bad := ""
	fieldLoop:
		for {
			if len(line) == 0 || line[0] != '"' {
				i := strings.IndexByte(line, ',')
				var f string
				if i >= 0 {
					f = line[:i]
				} else {
					f = stripNL(line)
				}
				if strings.IndexByte(f, '"') >= 0 {
					bad = "bare quote in unquoted field"
					break fieldLoop
				}
				fields = append(fields, f)
				if i >= 0 {
					line = line[i+1:]
					continue fieldLoop
				}
				break fieldLoop
			}
			// quoted field
			line = line[1:]
			var sb strings.Builder
			for {
				i := strings.IndexByte(line, '"')
				if i >= 0 {
					sb.WriteString(line[:i])
					line = line[i+1:]
					switch {
					case strings.HasPrefix(line, `"`):
						sb.WriteByte('"')
						line = line[1:]
					case strings.HasPrefix(line, ","):
						line = line[1:]
						fields = append(fields, sb.String())
						continue fieldLoop
					case line == "" || line == "\n":
						fields = append(fields, sb.String())
						break fieldLoop
					default:
						bad = "quote followed by other text"
						break fieldLoop
					}
				} else if len(line) > 0 {
					sb.WriteString(line)
					if li < len(ls) {
						line = ls[li]
						li++
					} else {
						line = ""
					}
				} else {
					bad = "unterminated quoted field"
					break fieldLoop
				}
			}
		}
		if bad != "" {
			return rows, bad, nil, start
		}
		if want < 0 {
			want = len(fields)
		} else if len(fields) != want {
			r := Row{Fields: fields}
			return rows, fmt.Sprintf("record with %d fields, first record has %d", len(fields), want), &r, start
		}
		rows = append(rows, Row{Fields: fields})
	}
	return rows, "", nil, len(ls)
}

// candidates returns lenient row readings of the physical lines from line
// index from on: what any reader that skips bad rows could make of them.
func candidates(data []byte, from int) [][]Row {
	ls := lines(data)
	var out [][]Row
	for i := from; i < len(ls); i++ {
		ln := stripNL(ls[i])
		if ln == "" {
			continue
		}
		raw := strings.Split(ln, ",")
		unq := make([]string, len(raw))
		for k, f := range raw {
			g := strings.TrimSuffix(f, "\r")
			if len(g) >= 2 && g[0] == '"' && g[len(g)-1] == '"' {
				g = strings.ReplaceAll(g[1:len(g)-1], `""`, `"`)
			}
			unq[k] = g
		}
		out = append(out, []Row{{Fields: raw}, {Fields: unq}})
	}
	return out
}

// ---------------------------------------------------------------- field rules

// ParseInt64 is the decimal integer syntax: optional sign, one or more ASCII
// digits, value representable in 64 signed bits.
func ParseInt64(s string) (int64, bool) {
	if s == "" {
		return 0, false
	}
	neg := false
	if s[0] == '+' || s[0] == '-' {
		neg = s[0] == '-'
		s = s[1:]
	}
	if s == "" {
		return 0, false
	}
	for i := 0; i < len(s); i++ {
		if s[i] < '0' || s[i] > '9' {
			return 0, false
		}
	}
	s = strings.TrimLeft(s, "0")
	if len(s) > 19 {
		return 0, false // more than 19 significant digits never fit
	}
	if s == "" {
		return 0, true
	}
	v := new(big.Int)
	v.SetString(s, 10)
	if neg {
		v.Neg(v)
	}
	if !v.IsInt64() {
		return 0, false
	}
	return v.Int64(), true
}

// Value classes of a reading.
const (
	ValRule = iota // value fixed by the rule
	ValFree        // outside the value-rule domain: NaN, Inf, overflow, bad calibration
)

// Value applies the value rule to the text of field 1.
func Value(field string, mult, div float64) (v uint64, kind int, class string) {
	if math.IsNaN(mult) || math.IsNaN(div) || math.IsInf(mult, 0) || math.IsInf(div, 0) || div == 0 {
		return 0, ValFree, "calibration-outside-domain"
	}
	x, err := strconv.ParseFloat(field, 64)
	if err != nil {
		if ne, ok := err.(*strconv.NumError); ok && ne.Err == strconv.ErrRange {
			return 0, ValFree, "reading-overflows-float64"
		}
		return 3, ValRule, "unparseable"
	}
	if math.IsNaN(x) || math.IsInf(x, 0) {
		return 0, ValFree, "reading-nan-inf"
	}
	if math.Abs(x) < 24 {
		return 2, ValRule, "below-24"
	}
	s := mult * x
	s = s / div
	if math.IsNaN(s) || math.IsInf(s, 0) {
		return 0, ValFree, "scaled-not-finite"
	}
	// exact truncation toward zero, independent of the language's conversion rules
	bi, _ := new(big.Float).SetFloat64(s).Int(nil)
	if bi.BitLen() > 63 {
		return 0, ValFree, "scaled-exceeds-63-bits"
	}
	return uint64(bi.Int64()), ValRule, "scaled"
}

const two32 = int64(1) << 32

// rowExp classifies one row. ok=false: the row yields nothing (skipped).
func rowExp(idx int, f []string, genesis int64, mult, div float64, must bool) (Exp, bool, string) {
	if len(f) < 2 {
		return Exp{}, false, "row.too-few-fields"
	}
	ts, ok := ParseInt64(f[0])
	if !ok {
		return Exp{}, false, "ts.not-an-int64"
	}
	if ts < genesis {
		return Exp{}, false, "ts.before-genesis"
	}
	d := ts - genesis
	e := Exp{Row: idx, Text: fmt.Sprintf("%.40q,%.40q", f[0], f[1]), Must: must}
	var slots []uint32
	tsClass := "ts.in-range"
	if d < two32 {
		slots = []uint32{uint32(d / 300)}
	} else {
		// Seconds since genesis do not fit 32 bits. The property leaves open
		// whether such a row is "unusable" (skipped) or lands in the slot that
		// contains it; the deployed arithmetic wraps. All three are accepted.
		e.Must = false
		tsClass = "ts.beyond-32-bit-seconds"
		if d/300 < two32 {
			slots = append(slots, uint32(d/300))
		}
		slots = append(slots, uint32(d%two32)/300)
	}
	v, kind, vclass := Value(f[1], mult, div)
	if kind == ValFree {
		e.Must = false
		e.AnyValue = true
	}
	for _, s := range slots {
		e.Alts = append(e.Alts, Rec{Slot: s, Value: v})
	}
	e.Class = tsClass + "/" + vclass
	return e, true, e.Class
}

// Reference reads a whole energy file.
func Reference(data []byte, genesis int64, mult, div float64) *Parsed {
	p := &Parsed{Classes: map[string]int{}}
	rows, cerr, errRow, errLine := SplitCSV(data)
	p.Rows = len(rows)
	p.CSVError = cerr
	p.ErrRow = len(rows)
	if len(rows) > 0 {
		p.FieldCount = len(rows[0].Fields)
	}
	for i, r := range rows {
		e, ok, class := rowExp(i, r.Fields, genesis, mult, div, true)
		p.Classes[class]++
		if ok {
			p.Exps = append(p.Exps, e)
		}
	}
	if cerr == "" {
		return p
	}
	p.Classes["csv-error"]++
	// Rows from the failing record on: optional, any lenient reading.
	idx := len(rows)
	if errRow != nil {
		if e, ok, _ := rowExp(idx, errRow.Fields, genesis, mult, div, false); ok {
			e.Class = "after-csv-error/" + e.Class
			p.Exps = append(p.Exps, e)
		}
	}
	for _, alt := range candidates(data, errLine) {
		idx++
		var merged *Exp
		for _, r := range alt {
			e, ok, _ := rowExp(idx, r.Fields, genesis, mult, div, false)
			if !ok {
				continue
			}
			if merged == nil {
				c := e
				merged = &c
			} else {
				merged.Alts = append(merged.Alts, e.Alts...)
				merged.AnyValue = merged.AnyValue || e.AnyValue
			}
		}
		if merged != nil {
			merged.Class = "after-csv-error/" + merged.Class
			p.Exps = append(p.Exps, *merged)
		}
	}
	return p
}

func matches(e *Exp, r Rec) bool {
	for _, a := range e.Alts {
		if a.Slot == r.Slot && (e.AnyValue || a.Value == r.Value) {
			return true
		}
	}
	return false
}

// Match decides whether got is an admissible reading: every Must entry is
// matched by exactly one record, optional entries by at most one, in order,
// nothing else.
func Match(p *Parsed, got []Rec) (ok bool, why string, class string) {
	E := p.Exps
	if p.AllMust() {
		for i := 0; i < len(E) || i < len(got); i++ {
			switch {
			case i >= len(got):
				return false, fmt.Sprintf("record %d missing: row %d (%s) must yield slot %d value %d; got %d records, want %d", i, E[i].Row, E[i].Text, E[i].Alts[0].Slot, E[i].Alts[0].Value, len(got), len(E)), "missing:" + E[i].Class
			case i >= len(E):
				return false, fmt.Sprintf("record %d (slot %d value %d) corresponds to no row; want %d records, got %d", i, got[i].Slot, got[i].Value, len(E), len(got)), "record-without-row"
			case !matches(&E[i], got[i]):
				return false, fmt.Sprintf("record %d is (slot %d, value %d); row %d (%s, %s) must yield (slot %d, value %d)", i, got[i].Slot, got[i].Value, E[i].Row, E[i].Text, E[i].Class, E[i].Alts[0].Slot, E[i].Alts[0].Value), "differs:" + E[i].Class
			}
		}
		return true, "", ""
	}
	n, m := len(got), len(E)
	cur := make([]bool, m+1)
	// cur[j]: got[:i] can be produced by E[:j]
	cur[0] = true
	for j := 0; j < m; j++ {
		cur[j+1] = cur[j] && !E[j].Must
	}
	far := 0
	for i := 0; i < n; i++ {
		next := make([]bool, m+1)
		any := false
		for j := 0; j < m; j++ {
			if cur[j] && matches(&E[j], got[i]) {
				next[j+1] = true
			}
			if next[j] && !E[j].Must {
				next[j+1] = true
			}
			if next[j+1] {
				any = true
			}
		}
		if !any {
			return false, fmt.Sprintf("record %d (slot %d, value %d) cannot be attributed to any row in file order (records 0..%d could); %d expectations", i, got[i].Slot, got[i].Value, far-1, m), "record-without-row"
		}
		far = i + 1
		cur = next
	}
	if !cur[m] {
		// find the first Must entry that cannot be reached
		for j := m; j >= 0; j-- {
			if cur[j] {
				for k := j; k < m; k++ {
					if E[k].Must {
						return false, fmt.Sprintf("no record for row %d (%s, %s): must yield (slot %d, value %d); got %d records", E[k].Row, E[k].Text, E[k].Class, E[k].Alts[0].Slot, E[k].Alts[0].Value, n), "missing:" + E[k].Class
					}
				}
			}
		}
		return false, "records do not cover all rows that must yield one", "missing"
	}
	return true, "", ""
}
