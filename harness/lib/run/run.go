// Package run is the parent/child process discipline of the harness: the
// parent never hosts code under test; every batch runs in a child process
// whose oplog, stderr, exit status and goroutine dump survive its death.
package run

import (
	"bufio"
	"bytes"
	"encoding/json"
	"fmt"
	"os"
	"os/exec"
	"path/filepath"
	"regexp"
	"sort"
	"strings"
	"sync"
	"syscall"
	"time"

	"verifharness/lib/ev"
)

// Batch is one unit of work executed in a child process.
type Batch struct {
	Index    int               `json:"index"`
	Seed     int64             `json:"seed"`
	Tier     string            `json:"tier"`
	Kind     string            `json:"kind"`
	N        int               `json:"n"`
	Params   map[string]string `json:"params,omitempty"`
	Variant  string            `json:"variant,omitempty"` // "", "race", "cover", "asan"
	TimeoutS int               `json:"timeout_s,omitempty"`
	Dir      string            `json:"dir,omitempty"` // scratch directory (set by the parent)
	Env      []string          `json:"env,omitempty"`
	Wrapper  []string          `json:"wrapper,omitempty"` // e.g. strace ... --
}

func (b Batch) P(k string) string { return b.Params[k] }

// Outcome is what the parent learned about one batch.
type Outcome struct {
	Batch     Batch
	Result    *ev.Result
	ExitCode  int
	TimedOut  bool
	Stderr    string // tail
	Stdout    string // tail
	OplogTail []string
	Dir       string
	Races     []RaceReport
	WallS     float64
}

// Spec describes a check.
type Spec struct {
	ID          string
	Level       string
	Rule        string
	Pkg         string // e.g. ./cmd/c01
	Assumptions []string
	Plan        func(tier string, seed int64) []Batch
	Child       func(b Batch, r *ev.Result)
	// Post lets the parent add cross-batch judgements.
	Post func(c *ev.Check, outs []*Outcome)
	// ClassifyDeath turns a dead/hung child into a verdict. Return handled=true
	// if the default classification must be skipped.
	ClassifyDeath func(c *ev.Check, o *Outcome) (handled bool)
	// RaceIsViolation makes every deduplicated race report a violation.
	RaceIsViolation bool
	Parallel        int
}

// ---------------------------------------------------------------- child side

var (
	oplog   *os.File
	oplogMu sync.Mutex
	opN     int
)

// Op appends an intent line to the oplog before the operation is issued.
func Op(format string, a ...interface{}) {
	oplogMu.Lock()
	defer oplogMu.Unlock()
	opN++
	if oplog != nil {
		fmt.Fprintf(oplog, "%d %s\n", opN, fmt.Sprintf(format, a...))
	}
}

// ScratchDir returns the batch's private directory in a child.
var scratch string

func ScratchDir() string { return scratch }

// Main dispatches between parent and child role.
func Main(spec Spec) {
	if len(os.Args) >= 3 && os.Args[1] == "child" {
		childMain(spec, os.Args[2])
		return
	}
	parentMain(spec)
}

func childMain(spec Spec, batchFile string) {
	raw, err := os.ReadFile(batchFile)
	if err != nil {
		fmt.Fprintln(os.Stderr, "child: cannot read batch:", err)
		os.Exit(2)
	}
	var b Batch
	if err := json.Unmarshal(raw, &b); err != nil {
		fmt.Fprintln(os.Stderr, "child: bad batch:", err)
		os.Exit(2)
	}
	scratch = b.Dir
	oplog, _ = os.OpenFile(filepath.Join(b.Dir, "oplog"), os.O_CREATE|os.O_WRONLY|os.O_APPEND, 0644)
	r := ev.NewResult()
	spec.Child(b, r)
	if err := r.Save(filepath.Join(b.Dir, "result.json")); err != nil {
		fmt.Fprintln(os.Stderr, "child: cannot save result:", err)
		os.Exit(2)
	}
	os.Exit(0)
}

// ---------------------------------------------------------------- parent side

func workDir() string {
	w := os.Getenv("VERIF_WORK")
	if w == "" {
		w, _ = os.MkdirTemp("", "verif-work-")
		os.Setenv("VERIF_WORK", w)
	}
	return w
}

func harnessDir() string {
	h := os.Getenv("VERIF_HARNESS")
	if h == "" {
		h = filepath.Join(ev.Root(), "harness")
	}
	return h
}

var (
	variantMu   sync.Mutex
	variantBins = map[string]string{}
)

// VariantBinary builds (once) and returns the child binary for a build variant.
func VariantBinary(spec Spec, variant string) (string, error) {
	variantMu.Lock()
	defer variantMu.Unlock()
	if p, ok := variantBins[variant]; ok {
		return p, nil
	}
	if variant == "" || variant == "plain" {
		self, err := os.Executable()
		if err != nil {
			return "", err
		}
		variantBins[variant] = self
		return self, nil
	}
	out := filepath.Join(workDir(), strings.ToLower(spec.ID)+"-"+variant)
	args := []string{"build", "-tags", "test verif"}
	if mf := os.Getenv("VERIF_MODFILE"); mf != "" {
		args = append(args, "-modfile="+mf)
	}
	switch variant {
	case "race":
		args = append(args, "-race")
	case "asan":
		args = append(args, "-asan")
	case "cover":
		args = append(args, "-cover", "-coverpkg=github.com/glowlabs-org/gca-backend/server,github.com/glowlabs-org/gca-backend/client,github.com/glowlabs-org/gca-backend/glow,verifharness/"+strings.TrimPrefix(spec.Pkg, "./"))
	case "racecover":
		args = append(args, "-race", "-cover", "-coverpkg=github.com/glowlabs-org/gca-backend/server,github.com/glowlabs-org/gca-backend/client,github.com/glowlabs-org/gca-backend/glow,verifharness/"+strings.TrimPrefix(spec.Pkg, "./"))
	default:
		return "", fmt.Errorf("unknown variant %q", variant)
	}
	args = append(args, "-o", out, spec.Pkg)
	cmd := exec.Command("go", args...)
	cmd.Dir = harnessDir()
	cmd.Env = append(os.Environ(), "GOFLAGS=-mod=mod", "GOPROXY=off", "GOSUMDB=off", "GOTOOLCHAIN=local")
	if b, err := cmd.CombinedOutput(); err != nil {
		return "", fmt.Errorf("building variant %s: %v\n%s", variant, err, b)
	}
	variantBins[variant] = out
	return out, nil
}

func tail(path string, max int) string {
	b, err := os.ReadFile(path)
	if err != nil {
		return ""
	}
	if len(b) > max {
		b = b[len(b)-max:]
	}
	return string(b)
}

func head(path string, max int) string {
	b, err := os.ReadFile(path)
	if err != nil {
		return ""
	}
	if len(b) > max {
		b = b[:max]
	}
	return string(b)
}

func tailLines(path string, n int) []string {
	f, err := os.Open(path)
	if err != nil {
		return nil
	}
	defer f.Close()
	var lines []string
	sc := bufio.NewScanner(f)
	sc.Buffer(make([]byte, 1<<20), 1<<24)
	for sc.Scan() {
		lines = append(lines, sc.Text())
		if len(lines) > 4*n {
			lines = lines[len(lines)-n:]
		}
	}
	if len(lines) > n {
		lines = lines[len(lines)-n:]
	}
	return lines
}

// RunBatch executes one batch in a child process and collects everything.
func RunBatch(spec Spec, b Batch) *Outcome {
	start := time.Now()
	dir := filepath.Join(workDir(), fmt.Sprintf("b%04d-%s", b.Index, b.Kind))
	os.RemoveAll(dir)
	os.MkdirAll(dir, 0755)
	b.Dir = dir
	o := &Outcome{Batch: b, Dir: dir, ExitCode: -1}
	bin, err := VariantBinary(spec, b.Variant)
	if err != nil {
		o.Stderr = err.Error()
		return o
	}
	bf := filepath.Join(dir, "batch.json")
	raw, _ := json.Marshal(b)
	os.WriteFile(bf, raw, 0644)
	argv := append([]string{}, b.Wrapper...)
	argv = append(argv, bin, "child", bf)
	cmd := exec.Command(argv[0], argv[1:]...)
	cmd.Dir = dir
	so, _ := os.Create(filepath.Join(dir, "stdout"))
	se, _ := os.Create(filepath.Join(dir, "stderr"))
	defer so.Close()
	defer se.Close()
	cmd.Stdout = so
	cmd.Stderr = se
	cmd.Env = append(os.Environ(), "GOTRACEBACK=all", "TMPDIR="+dir)
	if strings.Contains(b.Variant, "race") {
		cmd.Env = append(cmd.Env, "GORACE=halt_on_error=0 history_size=4 log_path="+filepath.Join(dir, "race"))
	}
	if strings.Contains(b.Variant, "cover") {
		cd := filepath.Join(dir, "cov")
		os.MkdirAll(cd, 0755)
		cmd.Env = append(cmd.Env, "GOCOVERDIR="+cd)
	}
	cmd.Env = append(cmd.Env, b.Env...)
	cmd.SysProcAttr = &syscall.SysProcAttr{Setpgid: true}
	if err := cmd.Start(); err != nil {
		o.Stderr = "cannot start child: " + err.Error()
		return o
	}
	timeout := time.Duration(b.TimeoutS) * time.Second
	if timeout == 0 {
		timeout = 100 * time.Second
	}
	done := make(chan error, 1)
	go func() { done <- cmd.Wait() }()
	select {
	case err = <-done:
	case <-time.After(timeout):
		o.TimedOut = true
		// Ask for a goroutine dump, then make sure the whole group dies.
		syscall.Kill(cmd.Process.Pid, syscall.SIGQUIT)
		select {
		case err = <-done:
		case <-time.After(8 * time.Second):
			syscall.Kill(-cmd.Process.Pid, syscall.SIGKILL)
			err = <-done
		}
	}
	syscall.Kill(-cmd.Process.Pid, syscall.SIGKILL) // stray grandchildren
	if cmd.ProcessState != nil {
		o.ExitCode = cmd.ProcessState.ExitCode()
	}
	_ = err
	o.Stderr = head(filepath.Join(dir, "stderr"), 24000)
	if len(o.Stderr) == 24000 {
		o.Stderr += "\n...[cut]...\n" + tail(filepath.Join(dir, "stderr"), 4000)
	}
	o.Stdout = tail(filepath.Join(dir, "stdout"), 4000)
	o.OplogTail = tailLines(filepath.Join(dir, "oplog"), 25)
	if r, err := ev.LoadResult(filepath.Join(dir, "result.json")); err == nil {
		o.Result = r
	}
	if strings.Contains(b.Variant, "race") {
		o.Races = ParseRaceLogs(dir)
	}
	o.WallS = time.Since(start).Seconds()
	return o
}

// RunAll runs the batches with bounded parallelism, in index order of start.
func RunAll(spec Spec, batches []Batch) []*Outcome {
	par := spec.Parallel
	if par <= 0 {
		par = 16
	}
	outs := make([]*Outcome, len(batches))
	sem := make(chan struct{}, par)
	var wg sync.WaitGroup
	for i := range batches {
		wg.Add(1)
		sem <- struct{}{}
		go func(i int) {
			defer wg.Done()
			defer func() { <-sem }()
			outs[i] = RunBatch(spec, batches[i])
		}(i)
	}
	wg.Wait()
	return outs
}

var panicRe = regexp.MustCompile(`(?m)^(panic: .*|fatal error: .*|.*http: panic serving.*)$`)

// CrashLine extracts the first panic / fatal error line of a stderr capture.
func CrashLine(stderr string) string {
	m := panicRe.FindString(stderr)
	return strings.TrimSpace(m)
}

var handlerPanicRe = regexp.MustCompile(`(?m)^.*http: panic serving.*$`)

var numRe = regexp.MustCompile(`0x[0-9a-f]+|\d+`)

// Normalize strips numbers so that the same crash gives the same key.
func Normalize(s string) string {
	s = numRe.ReplaceAllString(s, "N")
	if len(s) > 160 {
		s = s[:160]
	}
	return s
}

// DefaultClassify turns the outcome of a batch into merged results,
// violations or inconclusive marks.
func DefaultClassify(spec Spec, c *ev.Check, o *Outcome) {
	if o.Result != nil {
		c.Merge(o.Result)
	}
	// Handler panics are swallowed by net/http: the stderr line is the witness.
	if o.Result != nil && o.ExitCode == 0 && !o.TimedOut {
		if line := CrashLine(o.Stderr); line != "" && strings.Contains(line, "http: panic serving") {
			c.Violation("handler-panic:"+Normalize(afterColon(line)), "an HTTP handler panicked: "+line, replayOf(o))
		}
		return
	}
	// A handler panic swallowed by net/http is a violation however the child ended afterwards
	// (a panic while holding a lock typically ends in a hang and the watchdog).
	if m := handlerPanicRe.FindString(o.Stderr); m != "" {
		c.Violation("handler-panic:"+Normalize(afterColon(m)), "an HTTP handler panicked (the child later ended abnormally: exit "+fmt.Sprint(o.ExitCode)+", timed out "+fmt.Sprint(o.TimedOut)+"): "+strings.TrimSpace(m), replayOf(o))
	}
	if spec.ClassifyDeath != nil && spec.ClassifyDeath(c, o) {
		return
	}
	if o.TimedOut {
		c.Inconc(fmt.Sprintf("batch %d (%s) hit the %ds wall-clock watchdog; last ops: %v", o.Batch.Index, o.Batch.Kind, o.Batch.TimeoutS, lastN(o.OplogTail, 3)))
		return
	}
	line := CrashLine(o.Stderr)
	if strings.Contains(line, "lived for longer than 120 seconds") || strings.Contains(line, "client was not closed during testing") {
		// the test build's own watchdog: an instance outlived 120 s because the machine was too slow
		c.Inconc(fmt.Sprintf("batch %d (%s): a test-mode instance outlived its built-in 120 s limit (machine too loaded): %s", o.Batch.Index, o.Batch.Kind, line))
		return
	}
	if line != "" {
		c.Violation("crash:"+Normalize(line), fmt.Sprintf("child process died (exit %d): %s", o.ExitCode, line), replayOf(o))
		return
	}
	c.Inconc(fmt.Sprintf("batch %d (%s) ended with exit %d and no result; stderr: %.300s", o.Batch.Index, o.Batch.Kind, o.ExitCode, o.Stderr))
}

func afterColon(s string) string {
	if i := strings.Index(s, "panic serving"); i >= 0 {
		s = s[i:]
		if j := strings.Index(s, ": "); j >= 0 {
			return s[j+2:]
		}
	}
	return s
}

func lastN(l []string, n int) []string {
	if len(l) > n {
		return l[len(l)-n:]
	}
	return l
}

func replayOf(o *Outcome) interface{} {
	st := o.Stderr
	if len(st) > 6000 {
		st = st[:6000]
	}
	return map[string]interface{}{"batch": o.Batch, "oplog_tail": o.OplogTail, "stderr_head": st}
}

func parentMain(spec Spec) {
	c := ev.NewCheck(spec.ID, spec.Level, spec.Rule)
	c.Assumptions = spec.Assumptions
	own := os.Getenv("VERIF_WORK") == ""
	w := workDir()
	if own {
		defer os.RemoveAll(w)
	}
	var batches []Batch
	if rp := os.Getenv("VERIF_REPLAY"); rp != "" {
		raw, err := os.ReadFile(rp)
		if err != nil {
			fmt.Fprintln(os.Stderr, "cannot read replay file:", err)
			os.Exit(2)
		}
		var f struct {
			Replay struct {
				Batch *Batch `json:"batch"`
			} `json:"replay"`
		}
		json.Unmarshal(raw, &f)
		if f.Replay.Batch == nil {
			fmt.Fprintln(os.Stderr, "replay file carries no batch; it documents the witness only")
			os.Exit(2)
		}
		batches = []Batch{*f.Replay.Batch}
	} else {
		batches = spec.Plan(c.Tier, c.Seed)
	}
	for i := range batches {
		batches[i].Index = i
		if batches[i].Tier == "" {
			batches[i].Tier = c.Tier
		}
	}
	outs := RunAll(spec, batches)
	raceSeen := map[string]RaceReport{}
	for _, o := range outs {
		DefaultClassify(spec, c, o)
		for _, rr := range o.Races {
			if _, ok := raceSeen[rr.Key]; !ok {
				raceSeen[rr.Key] = rr
			}
		}
	}
	if len(raceSeen) > 0 {
		keys := make([]string, 0, len(raceSeen))
		for k := range raceSeen {
			keys = append(keys, k)
		}
		sort.Strings(keys)
		c.SetExtra("race_reports_dedup", keys)
		if spec.RaceIsViolation {
			for _, k := range keys {
				c.Violation("race:"+k, "data race reported by the Go race detector: "+k, map[string]interface{}{"report": raceSeen[k].Text})
			}
		}
	}
	c.AddCounter("race_reports_dedup", int64(len(raceSeen)))
	c.AddCounter("batches", int64(len(outs)))
	if spec.Post != nil {
		spec.Post(c, outs)
	}
	if own {
		os.RemoveAll(w)
	}
	c.Finish()
}

// ---------------------------------------------------------------- race logs

type RaceReport struct {
	Key  string
	Text string
}

var frameRe = regexp.MustCompile(`^\s+([A-Za-z0-9_./()*\-]+)\(`)

// ParseRaceLogs reads race.* files written by GORACE log_path and returns
// reports deduplicated by the two top repository frames.
func ParseRaceLogs(dir string) []RaceReport {
	files, _ := filepath.Glob(filepath.Join(dir, "race.*"))
	var out []RaceReport
	seen := map[string]bool{}
	for _, f := range files {
		b, err := os.ReadFile(f)
		if err != nil {
			continue
		}
		for _, blk := range bytes.Split(b, []byte("==================")) {
			if !bytes.Contains(blk, []byte("WARNING: DATA RACE")) {
				continue
			}
			key := raceKey(string(blk))
			if seen[key] {
				continue
			}
			seen[key] = true
			t := string(blk)
			if len(t) > 5000 {
				t = t[:5000]
			}
			out = append(out, RaceReport{Key: key, Text: t})
		}
	}
	return out
}

func raceKey(blk string) string {
	// first repository frame of each of the two access stacks
	var keys []string
	sections := regexp.MustCompile(`(?m)^(Write at|Read at|Previous write at|Previous read at).*$`).FindAllStringIndex(blk, -1)
	for i, loc := range sections {
		end := len(blk)
		if i+1 < len(sections) {
			end = sections[i+1][0]
		}
		sec := blk[loc[0]:end]
		if j := strings.Index(sec, "Goroutine "); j >= 0 {
			sec = sec[:j]
		}
		first := ""
		for _, ln := range strings.Split(sec, "\n") {
			m := frameRe.FindStringSubmatch(ln)
			if m == nil {
				continue
			}
			fn := m[1]
			if strings.Contains(fn, "gca-backend/") || strings.Contains(fn, "verifharness/") {
				first = fn[strings.LastIndex(fn, "/")+1:]
				break
			}
			if first == "" {
				first = fn[strings.LastIndex(fn, "/")+1:]
			}
		}
		keys = append(keys, first)
	}
	sort.Strings(keys)
	return strings.Join(keys, " <-> ")
}
