// Package ev carries results from child processes to the parent, matches
// violations against the committed known-findings file, writes the evidence
// file and prints the verdict lines required by the interface.
package ev

import (
	"encoding/json"
	"fmt"
	"hash/fnv"
	"os"
	"path/filepath"
	"sort"
	"strconv"
	"sync"
	"time"
)

// Root is the verification directory.
func Root() string {
	if r := os.Getenv("VERIF_ROOT"); r != "" {
		return r
	}
	return "/verif"
}

// Violation is one refuting observation.
type Violation struct {
	Key    string      `json:"key"`    // stable class of the failing input / site / history
	Desc   string      `json:"desc"`   // human readable
	Replay interface{} `json:"replay"` // enough to re-run it
}

// Result is what one child batch reports.
type Result struct {
	mu           sync.Mutex
	Evaluations  int64                  `json:"evaluations"`
	Distinct     []uint64               `json:"distinct"`
	Counters     map[string]int64       `json:"counters"`
	Samples      []interface{}          `json:"samples"`
	Violations   []Violation            `json:"violations"`
	Inconclusive []string               `json:"inconclusive"`
	Notes        []string               `json:"notes"`
	Extra        map[string]interface{} `json:"extra,omitempty"`
	seen         map[uint64]struct{}
}

func NewResult() *Result {
	return &Result{Counters: map[string]int64{}, seen: map[uint64]struct{}{}, Extra: map[string]interface{}{}}
}

func hash(s string) uint64 {
	h := fnv.New64a()
	h.Write([]byte(s))
	return h.Sum64()
}

// Eval counts n judged executions.
func (r *Result) Eval(n int) {
	r.mu.Lock()
	r.Evaluations += int64(n)
	r.mu.Unlock()
}

// Nontrivial records a case that is non-trivial by the check's rule; key
// identifies the case so that distinct ones can be counted.
func (r *Result) Nontrivial(key string) {
	h := hash(key)
	r.mu.Lock()
	if _, ok := r.seen[h]; !ok {
		r.seen[h] = struct{}{}
		r.Distinct = append(r.Distinct, h)
	}
	r.mu.Unlock()
}

func (r *Result) Count(name string, n int64) {
	r.mu.Lock()
	r.Counters[name] += n
	r.mu.Unlock()
}

// Max keeps the maximum of a counter.
func (r *Result) Max(name string, v int64) {
	r.mu.Lock()
	if v > r.Counters[name] {
		r.Counters[name] = v
	}
	r.mu.Unlock()
}

// Sample keeps up to 4 written-out cases per child.
func (r *Result) Sample(v interface{}) {
	r.mu.Lock()
	if len(r.Samples) < 4 {
		r.Samples = append(r.Samples, v)
	}
	r.mu.Unlock()
}

func (r *Result) Violation(key, desc string, replay interface{}) {
	r.mu.Lock()
	if len(r.Violations) < 50 {
		r.Violations = append(r.Violations, Violation{Key: key, Desc: desc, Replay: replay})
	}
	r.mu.Unlock()
}

func (r *Result) Violationf(key string, replay interface{}, format string, a ...interface{}) {
	r.Violation(key, fmt.Sprintf(format, a...), replay)
}

func (r *Result) NumViolations() int {
	r.mu.Lock()
	defer r.mu.Unlock()
	return len(r.Violations)
}

func (r *Result) Inconc(reason string) {
	r.mu.Lock()
	r.Inconclusive = append(r.Inconclusive, reason)
	r.mu.Unlock()
}

func (r *Result) Note(format string, a ...interface{}) {
	r.mu.Lock()
	if len(r.Notes) < 40 {
		r.Notes = append(r.Notes, fmt.Sprintf(format, a...))
	}
	r.mu.Unlock()
}

func (r *Result) SetExtra(k string, v interface{}) {
	r.mu.Lock()
	r.Extra[k] = v
	r.mu.Unlock()
}

func (r *Result) Save(path string) error {
	r.mu.Lock()
	defer r.mu.Unlock()
	b, err := json.Marshal(r)
	if err != nil {
		return err
	}
	tmp := path + ".tmp"
	if err := os.WriteFile(tmp, b, 0644); err != nil {
		return err
	}
	return os.Rename(tmp, path)
}

func LoadResult(path string) (*Result, error) {
	b, err := os.ReadFile(path)
	if err != nil {
		return nil, err
	}
	r := NewResult()
	if err := json.Unmarshal(b, r); err != nil {
		return nil, err
	}
	if r.Counters == nil {
		r.Counters = map[string]int64{}
	}
	return r, nil
}

// ---------------------------------------------------------------- known findings

type KnownFinding struct {
	Property string `json:"property"`
	Key      string `json:"key"`
	What     string `json:"what"`
}

type FixedFinding struct {
	Property string `json:"property"`
	Commit   string `json:"commit"`
	What     string `json:"what"`
}

type KnownFile struct {
	Known []KnownFinding `json:"known"`
	Fixed []FixedFinding `json:"fixed"`
}

func LoadKnown() KnownFile {
	var k KnownFile
	b, err := os.ReadFile(filepath.Join(Root(), "known_findings.json"))
	if err == nil {
		if err := json.Unmarshal(b, &k); err != nil {
			fmt.Fprintf(os.Stderr, "known_findings.json unreadable: %v\n", err)
		}
	}
	return k
}

// ---------------------------------------------------------------- parent side

type Check struct {
	ID          string
	Level       string
	Rule        string
	Tier        string
	Seed        int64
	Start       time.Time
	Assumptions []string
	Exhaustive  bool

	evaluations  int64
	distinct     map[uint64]struct{}
	counters     map[string]int64
	samples      []interface{}
	violations   []Violation
	inconclusive []string
	notes        []string
	extra        map[string]interface{}
}

func Tier() string {
	t := os.Getenv("VERIF_TIER")
	if t != "thorough" {
		t = "quick"
	}
	return t
}

func Seed() int64 {
	s, err := strconv.ParseInt(os.Getenv("VERIF_SEED"), 10, 64)
	if err != nil {
		return 1
	}
	return s
}

func NewCheck(id, level, rule string) *Check {
	return &Check{ID: id, Level: level, Rule: rule, Tier: Tier(), Seed: Seed(), Start: time.Now(),
		distinct: map[uint64]struct{}{}, counters: map[string]int64{}, extra: map[string]interface{}{}}
}

func (c *Check) Merge(r *Result) {
	if r == nil {
		return
	}
	c.evaluations += r.Evaluations
	for _, h := range r.Distinct {
		c.distinct[h] = struct{}{}
	}
	for k, v := range r.Counters {
		if len(k) > 4 && k[:4] == "max." {
			if v > c.counters[k] {
				c.counters[k] = v
			}
		} else {
			c.counters[k] += v
		}
	}
	for _, s := range r.Samples {
		if len(c.samples) < 8 {
			c.samples = append(c.samples, s)
		}
	}
	c.violations = append(c.violations, r.Violations...)
	c.inconclusive = append(c.inconclusive, r.Inconclusive...)
	for _, n := range r.Notes {
		if len(c.notes) < 60 {
			c.notes = append(c.notes, n)
		}
	}
	for k, v := range r.Extra {
		c.extra[k] = v
	}
}

func (c *Check) Violation(key, desc string, replay interface{}) {
	c.violations = append(c.violations, Violation{Key: key, Desc: desc, Replay: replay})
}
func (c *Check) Inconc(reason string)             { c.inconclusive = append(c.inconclusive, reason) }
func (c *Check) SetExtra(k string, v interface{}) { c.extra[k] = v }
func (c *Check) Counter(name string) int64        { return c.counters[name] }
func (c *Check) AddCounter(name string, n int64)  { c.counters[name] += n }
func (c *Check) Evaluations() int64               { return c.evaluations }
func (c *Check) DistinctCount() int               { return len(c.distinct) }
func (c *Check) Note(f string, a ...interface{})  { c.notes = append(c.notes, fmt.Sprintf(f, a...)) }
func (c *Check) NumViolations() int               { return len(c.violations) }

// Require marks the run inconclusive unless the named counter reached min: a
// monitor that observed nothing decides nothing.
func (c *Check) Require(counter string, min int64) {
	if c.counters[counter] < min {
		c.Inconc(fmt.Sprintf("monitor observed too little: %s=%d < %d", counter, c.counters[counter], min))
	}
}

// Finish writes the evidence file, prints verdict lines and exits:
// 0 held on what was observed, 1 violated, 3 inconclusive.
func (c *Check) Finish() {
	known := LoadKnown()
	knownKeys := map[string]KnownFinding{}
	for _, k := range known.Known {
		if k.Property == c.ID {
			knownKeys[k.Key] = k
		}
	}
	var fresh []Violation
	knownSeen := map[string]int{}
	for _, v := range c.violations {
		if _, ok := knownKeys[v.Key]; ok {
			knownSeen[v.Key]++
			continue
		}
		fresh = append(fresh, v)
	}
	keys := make([]string, 0, len(knownSeen))
	for k := range knownSeen {
		keys = append(keys, k)
	}
	sort.Strings(keys)
	for _, k := range keys {
		fmt.Printf("KNOWN-FINDING: property=%s %s (%s; observed %d times this run)\n", c.ID, knownKeys[k].What, k, knownSeen[k])
	}

	// Replays for fresh violations (deduplicated by key, first witness of each).
	os.MkdirAll(filepath.Join(Root(), "replays"), 0755)
	printed := map[string]bool{}
	n := 0
	for _, v := range fresh {
		if printed[v.Key] || n >= 10 {
			continue
		}
		printed[v.Key] = true
		path := filepath.Join(Root(), "replays", fmt.Sprintf("%s-%d-%d.json", c.ID, c.Seed, n))
		b, _ := json.MarshalIndent(map[string]interface{}{"property": c.ID, "tier": c.Tier, "seed": c.Seed, "key": v.Key, "desc": v.Desc, "replay": v.Replay}, "", " ")
		os.WriteFile(path, b, 0644)
		fmt.Printf("VIOLATION property=%s replay=%s\n", c.ID, path)
		fmt.Printf("  %s: %s\n", v.Key, v.Desc)
		n++
	}

	verdict := "held"
	if len(fresh) > 0 {
		verdict = "violated"
	} else if len(c.inconclusive) > 0 {
		verdict = "inconclusive"
	}

	if len(c.samples) == 0 {
		c.samples = append(c.samples, "no sample recorded")
	}
	cov := map[string]interface{}{
		"evaluations":         c.evaluations,
		"distinct_nontrivial": len(c.distinct),
		"rule":                c.Rule,
		"samples":             c.samples,
		"observed":            c.counters,
		"verdict":             verdict,
	}
	if c.Exhaustive {
		cov["exhaustive"] = true
	}
	if len(c.inconclusive) > 0 {
		cov["inconclusive_reasons"] = c.inconclusive
	}
	if len(c.notes) > 0 {
		cov["notes"] = c.notes
	}
	if len(knownSeen) > 0 {
		cov["known_findings_observed"] = knownSeen
	}
	if len(fresh) > 0 {
		vk := map[string]int{}
		for _, v := range fresh {
			vk[v.Key]++
		}
		cov["violation_keys"] = vk
	}
	for k, v := range c.extra {
		cov[k] = v
	}
	evd := map[string]interface{}{
		"property_id": c.ID,
		"tier":        c.Tier,
		"seed":        c.Seed,
		"level":       c.Level,
		"coverage":    cov,
		"assumptions": c.Assumptions,
		"wall_s":      time.Since(c.Start).Seconds(),
		"violations":  len(fresh),
	}
	if c.Assumptions == nil {
		evd["assumptions"] = []string{}
	}
	b, _ := json.MarshalIndent(evd, "", " ")
	os.MkdirAll(filepath.Join(Root(), "evidence"), 0755)
	path := filepath.Join(Root(), "evidence", c.ID+".json")
	if os.Getenv("VERIF_REPLAY") != "" {
		path = filepath.Join(os.TempDir(), c.ID+"-replay-evidence.json")
	}
	if os.Getenv("VERIF_MODFILE") != "" {
		// experiment against a scratch copy (VERIF_REPO): never overwrite the
		// evidence of /repo itself
		path = filepath.Join(os.TempDir(), c.ID+"-scratch-evidence.json")
	}
	if err := os.WriteFile(path, b, 0644); err != nil {
		fmt.Fprintf(os.Stderr, "cannot write evidence: %v\n", err)
	}

	fmt.Printf("%s %s seed=%d: %s; evaluations=%d distinct_nontrivial=%d wall=%.1fs\n", c.ID, c.Tier, c.Seed, verdict, c.evaluations, len(c.distinct), time.Since(c.Start).Seconds())
	switch verdict {
	case "violated":
		os.Exit(1)
	case "inconclusive":
		for _, r := range c.inconclusive {
			fmt.Printf("INCONCLUSIVE %s: %s\n", c.ID, r)
		}
		os.Exit(3)
	}
	os.Exit(0)
}
