package prodwt

// Driver side (runs inside a check's child process, any build tags): builds
// cmd/c12prod WITHOUT the test tag, runs episodes each in a fresh network
// namespace (the production server listens on fixed ports) and turns what the
// episode printed - or how it died - into evidence counters and violations.

import (
	"bufio"
	"bytes"
	"context"
	"encoding/json"
	"fmt"
	"os"
	"os/exec"
	"path/filepath"
	"strings"
	"syscall"
	"time"

	"verifharness/lib/ev"
	"verifharness/lib/run"
)

func harnessDir() string {
	if h := os.Getenv("VERIF_HARNESS"); h != "" {
		return h
	}
	return filepath.Join(ev.Root(), "harness")
}

// Build compiles the production-tag episode binary into $VERIF_WORK (once).
func Build() (string, error) { return build(false) }

func build(race bool) (string, error) {
	w := os.Getenv("VERIF_WORK")
	if w == "" {
		return "", fmt.Errorf("VERIF_WORK is not set")
	}
	p := filepath.Join(w, "c12prod")
	if race {
		p += "-race"
	}
	if _, err := os.Stat(p); err == nil {
		return p, nil
	}
	tmp := fmt.Sprintf("%s.%d.tmp", p, os.Getpid())
	args := []string{"build", "-tags", "verif"}
	if race {
		args = append(args, "-race")
	}
	if mf := os.Getenv("VERIF_MODFILE"); mf != "" {
		args = append(args, "-modfile="+mf)
	}
	args = append(args, "-o", tmp, "./cmd/c12prod")
	cmd := exec.Command("go", args...)
	cmd.Dir = harnessDir()
	cmd.Env = append(os.Environ(), "GOFLAGS=-mod=mod", "GOPROXY=off", "GOSUMDB=off", "GOTOOLCHAIN=local")
	if out, err := cmd.CombinedOutput(); err != nil {
		os.Remove(tmp)
		return "", fmt.Errorf("production-tag build failed: %v\n%s", err, out)
	}
	if err := os.Rename(tmp, p); err != nil {
		return "", err
	}
	return p, nil
}

// The episodes' own outgoing connections must not take the fixed production
// ports (35015/35030/35045 lie inside the default ephemeral range 32768-60999:
// a client socket that was given 35030 as its source port makes the
// restarted server's bind fail with "address already in use"), so the
// namespace's ephemeral range is moved above them before the episode starts.

// canUnshare: a private network namespace is available (root in the sandbox).
func canUnshare() bool {
	return exec.Command("unshare", "-n", "--", "true").Run() == nil
}

func tailStr(s string, n int) string {
	if len(s) > n {
		return s[len(s)-n:]
	}
	return s
}

// RunEpisodes runs one episode per scenario and records the outcome in r
// under counters prefixed "prodwt.". Violation keys: crash-production-build:…
// for a process that died with a Go panic / fatal error, production-build:<class>
// for a problem the episode judged itself.
func RunEpisodes(r *ev.Result, b run.Batch, seed int64, scenarios []string) {
	runEpisodes(r, b, seed, scenarios, "")
}

// RunLife runs n "life" episodes (lib/prodwt/life.go: one short life of a
// production-build server at the real clock, judged against a slice of several
// properties) and reports the problems that belong to property prop; problems
// of other properties are left to their own checks (counted only).
func RunLife(r *ev.Result, b run.Batch, seed int64, prop string, n int) {
	var sc []string
	for i := 0; i < n; i++ {
		if i%2 == 1 {
			sc = append(sc, "life-wtdown") // the same life with a WattTime service that answers 503 to everything
		} else {
			sc = append(sc, "life")
		}
	}
	runEpisodes(r, b, seed, sc, prop+":")
}

// RunClientLife runs n "clientlife" episodes (lib/prodwt/clientlife.go: a production-build client
// in a private mount + network namespace) and reports the problems that belong to property prop.
func RunClientLife(r *ev.Result, b run.Batch, seed int64, prop string, n int) {
	if exec.Command("unshare", "-n", "-m", "--", "sh", "-c", "mount -t tmpfs tmpfs /opt").Run() != nil {
		r.Count("prodwt.no_mount_namespace", 1)
		r.Note("production client episodes need a private mount namespace (the production energy file path is fixed); skipped")
		return
	}
	var sc []string
	for i := 0; i < n; i++ {
		sc = append(sc, "clientlife")
	}
	runEpisodes(r, b, seed, sc, prop+":")
}

// RunWeekRot runs n "weekrot" episodes (lib/prodwt/weekrot.go: a week rotation of a production-build
// server with devices while the start-up's weekly WattTime job is still waiting; possible only on some
// days of the week, otherwise the episode reports that it was skipped).
func RunWeekRot(r *ev.Result, b run.Batch, seed int64, prop string, n int) {
	var sc []string
	for i := 0; i < n; i++ {
		sc = append(sc, "weekrot")
	}
	runEpisodes(r, b, seed, sc, prop+":")
}

// RunRace runs the given scenarios with the episode binary built with -race (production build under
// the race detector: the code no -tags test run compiles). Every report whose two stacks lie in the
// repository's packages is a violation of C13 (race:production-build:<top frames>); nothing else of the
// episode is reported here.
func RunRace(r *ev.Result, b run.Batch, seed int64, scenarios []string) {
	raceMode = true
	defer func() { raceMode = false }()
	runEpisodes(r, b, seed, scenarios, "C13-race-only:")
}

var raceMode bool

func runEpisodes(r *ev.Result, b run.Batch, seed int64, scenarios []string, only string) {
	bin, err := build(raceMode)
	if err != nil {
		r.Inconc(err.Error())
		return
	}
	ns := canUnshare()
	var lock *os.File
	if !ns {
		// no private namespace: the fixed production ports are shared by everything on this host,
		// episodes of concurrently running checks take turns
		r.Count("prodwt.no_network_namespace", 1)
		lock, err = os.OpenFile(filepath.Join(os.TempDir(), "verif-prodwt.lock"), os.O_CREATE|os.O_RDWR, 0644)
		if err == nil {
			syscall.Flock(int(lock.Fd()), syscall.LOCK_EX)
			defer func() { syscall.Flock(int(lock.Fd()), syscall.LOCK_UN); lock.Close() }()
		}
	}
	for i, sc := range scenarios {
		work := filepath.Join(b.Dir, fmt.Sprintf("prodwt%d", i))
		os.MkdirAll(work, 0755)
		es := seed*1000 + int64(i)
		run.Op("production-build episode scenario=%s seed=%d namespace=%v", sc, es, ns)
		ctx, cancel := context.WithTimeout(context.Background(), 150*time.Second)
		var cmd *exec.Cmd
		if sc == "clientlife" {
			cmd = exec.CommandContext(ctx, "unshare", "-n", "-m", "--", "sh", "-c", `ip link set lo up && { echo "40000 60999" > /proc/sys/net/ipv4/ip_local_port_range; } 2>/dev/null; mount -t tmpfs tmpfs /opt && mount -t tmpfs tmpfs /dev/shm && exec "$0" "$@"`, bin, work, fmt.Sprint(es), sc)
		} else if ns {
			cmd = exec.CommandContext(ctx, "unshare", "-n", "--", "sh", "-c", `ip link set lo up && { echo "40000 60999" > /proc/sys/net/ipv4/ip_local_port_range; } 2>/dev/null; exec "$0" "$@"`, bin, work, fmt.Sprint(es), sc)
		} else {
			cmd = exec.CommandContext(ctx, bin, work, fmt.Sprint(es), sc)
		}
		for _, kv := range os.Environ() {
			k := strings.ToUpper(kv[:strings.Index(kv+"=", "=")])
			if strings.HasSuffix(k, "_PROXY") || k == "SSL_CERT_FILE" || k == "SSL_CERT_DIR" {
				continue
			}
			cmd.Env = append(cmd.Env, kv)
		}
		if raceMode {
			cmd.Env = append(cmd.Env, "GORACE=halt_on_error=0 log_path="+filepath.Join(work, "race"))
		}
		var so, se bytes.Buffer
		cmd.Stdout, cmd.Stderr = &so, &se
		rerr := cmd.Run()
		timedOut := ctx.Err() != nil
		cancel()
		if raceMode {
			n := 0
			for _, rr := range run.ParseRaceLogs(work) {
				if strings.Contains(rr.Key, "verifharness") && !strings.Contains(rr.Text, "gca-backend/server.") && !strings.Contains(rr.Text, "gca-backend/glow.") {
					continue // a race inside the episode program itself would be a harness bug, not a finding
				}
				n++
				r.Violationf("race:production-build:"+rr.Key, map[string]interface{}{"scenario": sc, "seed": es, "report": rr.Text}, "data race reported by the Go race detector in the production build (scenario %s): %s", sc, rr.Key)
			}
			r.Count("prodwt.race_episodes", 1)
			r.Count("prodwt.race_reports", int64(n))
		}
		os.RemoveAll(work)
		r.Eval(1)
		var events []map[string]interface{}
		var result map[string]interface{}
		scn := bufio.NewScanner(bytes.NewReader(so.Bytes()))
		scn.Buffer(make([]byte, 1<<20), 1<<20)
		for scn.Scan() {
			var e map[string]interface{}
			if json.Unmarshal(scn.Bytes(), &e) != nil {
				continue
			}
			if _, ok := e["result"]; ok {
				result = e
			} else {
				events = append(events, e)
			}
		}
		replay := map[string]interface{}{"scenario": sc, "seed": es, "batch": b, "events": events, "stderr_tail": tailStr(se.String(), 3000)}
		if line := run.CrashLine(se.String()); line != "" {
			r.Violationf("crash-production-build:"+run.Normalize(line), replay, "production-tag server process died in scenario %s: %s", sc, line)
			continue
		}
		if timedOut {
			r.Inconc(fmt.Sprintf("production-build episode %s did not finish within 150 s", sc))
			continue
		}
		if result == nil {
			r.Inconc(fmt.Sprintf("production-build episode %s left no result: %v; stderr: %.300s", sc, rerr, se.String()))
			continue
		}
		switch result["result"] {
		case "held":
		case "violated":
			ps, _ := result["problems"].([]interface{})
			mine := 0
			for _, p := range ps {
				txt := fmt.Sprint(p)
				if only != "" {
					// "C02:equivocation-not-banned: ..." - class = property id + first word
					if !strings.HasPrefix(txt, only) {
						r.Count("prodwt.life_problems_left_to_other_checks", 1)
						continue
					}
					txt = txt[len(only):]
				}
				mine++
				class := txt
				if j := strings.Index(txt, ":"); j > 0 {
					class = txt[:j]
				}
				r.Violationf("production-build:"+class, replay, "scenario %s: %s", sc, txt)
			}
			if mine > 0 || only == "" {
				continue
			}
		default:
			r.Inconc(fmt.Sprintf("production-build episode %s: %v", sc, result["why"]))
			continue
		}
		num := func(k string) int64 {
			f, _ := result[k].(float64)
			return int64(f)
		}
		r.Count("prodwt.episodes", 1)
		r.Count("prodwt.scenario."+sc, 1)
		if strings.HasPrefix(sc, "life") || sc == "clientlife" || sc == "weekrot" {
			for k, v := range result {
				if f, ok := v.(float64); ok {
					r.Count("prodwt."+strings.TrimSuffix(sc, "-wtdown")+"."+k, int64(f))
				}
			}
			r.Nontrivial(fmt.Sprintf("prodwt/%s/%d", sc, es))
			if i == 0 {
				r.Sample(map[string]interface{}{"production_build_episode": sc, "result": result})
			}
			continue
		}
		r.Count("prodwt.bans_during_week_job", num("bans"))
		r.Count("prodwt.week_data_requests", num("week_requests"))
		r.Count("prodwt.watttime_logins", num("logins"))
		r.Count("prodwt.impact_values_written_by_week_job", num("impact_values_written"))
		r.Nontrivial(fmt.Sprintf("prodwt/%s/devices=%d/bans=%d", sc, num("devices"), num("bans")))
		if i == 0 {
			r.Sample(map[string]interface{}{"production_build_episode": sc, "result": result, "events_head": firstN(events, 8)})
		}
	}
}

func firstN(l []map[string]interface{}, n int) []map[string]interface{} {
	if len(l) > n {
		return l[:n]
	}
	return l
}

// RunCrash: n times: a production-build server is started in its own network
// namespace, builds up state, reports "ready" and keeps writing; the driver
// SIGKILLs it a moment later (the delay varies with the seed) and a second
// process starts a production server on the directory and judges it (C05).
func RunCrash(r *ev.Result, b run.Batch, seed int64, n int) {
	bin, err := Build()
	if err != nil {
		r.Inconc(err.Error())
		return
	}
	if !canUnshare() {
		r.Count("prodwt.no_network_namespace", 1)
		r.Note("production crash episodes need a private network namespace (fixed ports); skipped")
		return
	}
	wrap := func(args ...string) *exec.Cmd {
		a := append([]string{"-n", "--", "sh", "-c", `ip link set lo up && { echo "40000 60999" > /proc/sys/net/ipv4/ip_local_port_range; } 2>/dev/null; exec "$0" "$@"`, bin}, args...)
		cmd := exec.Command("unshare", a...)
		for _, kv := range os.Environ() {
			k := strings.ToUpper(kv[:strings.Index(kv+"=", "=")])
			if strings.HasSuffix(k, "_PROXY") || k == "SSL_CERT_FILE" || k == "SSL_CERT_DIR" {
				continue
			}
			cmd.Env = append(cmd.Env, kv)
		}
		return cmd
	}
	for i := 0; i < n; i++ {
		work := filepath.Join(b.Dir, fmt.Sprintf("prodcrash%d", i))
		os.MkdirAll(work, 0755)
		es := seed*1000 + int64(i)
		run.Op("production-build crash episode seed=%d", es)
		serve := wrap(work, fmt.Sprint(es), "crash-serve")
		var se bytes.Buffer
		serve.Stderr = &se
		out, err := serve.StdoutPipe()
		if err != nil || serve.Start() != nil {
			r.Inconc("cannot start the production server process")
			return
		}
		ready := make(chan map[string]interface{}, 1)
		go func() {
			sc := bufio.NewScanner(out)
			for sc.Scan() {
				var e map[string]interface{}
				if json.Unmarshal(sc.Bytes(), &e) == nil && (e["ev"] == "ready" || e["result"] != nil) {
					ready <- e
					return
				}
			}
			ready <- nil
		}()
		var rd map[string]interface{}
		select {
		case rd = <-ready:
		case <-time.After(90 * time.Second):
		}
		if rd != nil && rd["ev"] == "ready" {
			time.Sleep(time.Duration(5+es%9*7) * time.Millisecond) // the kill lands somewhere in the running workload
		}
		serve.Process.Kill()
		serve.Wait()
		r.Eval(1)
		if rd == nil || rd["ev"] != "ready" {
			if line := run.CrashLine(se.String()); line != "" {
				r.Violationf("crash-production-build:"+run.Normalize(line), map[string]interface{}{"seed": es, "stderr_tail": tailStr(se.String(), 3000)}, "production-tag server process died before it was killed: %s", line)
			} else {
				r.Inconc(fmt.Sprintf("production crash episode: the serving process never became ready: %v; stderr %.300s", rd, se.String()))
			}
			os.RemoveAll(work)
			continue
		}
		acked, _ := rd["acked_reports"].(float64)
		now0, _ := rd["now"].(float64)
		rec := wrap(work, fmt.Sprint(es), fmt.Sprintf("crash-recover:%d:%d", int(acked), uint32(now0)))
		var so, se2 bytes.Buffer
		rec.Stdout, rec.Stderr = &so, &se2
		done := make(chan error, 1)
		go func() { done <- rec.Run() }()
		select {
		case <-done:
		case <-time.After(150 * time.Second):
			rec.Process.Kill()
			r.Inconc("production crash episode: the recovering process did not finish within 150 s")
			os.RemoveAll(work)
			continue
		}
		os.RemoveAll(work)
		replay := map[string]interface{}{"seed": es, "ready": rd, "stderr_tail": tailStr(se2.String(), 3000), "batch": b}
		if line := run.CrashLine(se2.String()); line != "" {
			r.Violationf("crash-production-build:"+run.Normalize(line), replay, "production-tag server process died while recovering from a SIGKILL: %s", line)
			continue
		}
		var result map[string]interface{}
		for _, ln := range strings.Split(so.String(), "\n") {
			var e map[string]interface{}
			if json.Unmarshal([]byte(ln), &e) == nil && e["result"] != nil {
				result = e
			}
		}
		switch {
		case result == nil:
			r.Inconc(fmt.Sprintf("production crash episode: no result from the recovering process; stderr %.300s", se2.String()))
		case result["result"] == "violated":
			ps, _ := result["problems"].([]interface{})
			for _, p := range ps {
				txt := strings.TrimPrefix(fmt.Sprint(p), "C05:")
				class := txt
				if j := strings.Index(txt, ":"); j > 0 {
					class = txt[:j]
				}
				r.Violationf("production-build:"+class, replay, "after SIGKILL of a production server: %s", txt)
			}
		case result["result"] == "held":
			r.Count("prodwt.crash.recovered", 1)
			if f, ok := result["reports_recovered"].(float64); ok {
				r.Count("prodwt.crash.reports_recovered", int64(f))
			}
			r.Nontrivial(fmt.Sprintf("prodwt/crash/%d", es))
		default:
			r.Inconc(fmt.Sprintf("production crash episode: %v", result["why"]))
		}
	}
}
