package prodwt

// weekrot: a week rotation of a PRODUCTION-build server with devices, while
// the weekly WattTime job of the start-up is still waiting for an answer.
// The real clock decides whether a rotation can be made due: the window
// offset is a multiple of 2016 from genesis, the background loop rotates when
// now-offset > 3200 and the start-up catch-up when >= 4000, so a restart with
// a rotation due and the API up is possible only while now mod 2016 lies in
// (1184, 1984) - from Thursday 02:40 UTC to Saturday 21:20 UTC of every week.
// Outside that range the episode reports "skipped" (nothing is judged).
//
// Inside it: first life of the server (catch-up, registration, devices),
// shutdown, the last (device-less) weekly record is cut off the history file,
// restart: now-offset is in (3200, 4000), the background loop rotates at once
// - after running the weekly WattTime job itself - while the start-up's own
// job is held at its first request until the window has moved. Judged: every
// non-zero impact value of the live window and of the archived week sits at
// the timeslot it was answered for (the fake's values are a function of
// device and absolute time); the week archived by that rotation carries the
// values the rotation's own job had just written (also when the live week had
// been queried before).

import (
	"fmt"
	"math"
	"math/rand"
	"os"
	"path/filepath"
	"time"

	"github.com/glowlabs-org/gca-backend/glow"
	"github.com/glowlabs-org/gca-backend/server"

	"verifharness/lib/refenc"
)

func fakeValue(id uint32, slot int64) float64 {
	return float64(id%1000) + float64(slot%4096)/8 + 0.25
}

func weekRotEpisode(work string, seed int64, f *fake) event {
	rng := rand.New(rand.NewSource(seed))
	dir := filepath.Join(work, "srv")
	os.MkdirAll(filepath.Join(dir, "watttime_data"), 0755)
	temp := refenc.GenKey(rng)
	f.gca = refenc.GenKey(rng)
	os.WriteFile(filepath.Join(dir, "gcaTempPubKey.dat"), temp.Pub[:], 0644)
	os.WriteFile(filepath.Join(dir, "watttime_data", "username"), []byte("user\n"), 0644)
	os.WriteFile(filepath.Join(dir, "watttime_data", "password"), []byte("pass\n"), 0644)
	s, err := server.NewGCAServer(dir)
	if err != nil {
		fatal("first start failed: %v", err)
	}
	var now, off uint32
	for i := 0; i < 600; i++ { // the rotation due right after the catch-up happens first
		now, off = glow.CurrentTimeslot(), s.VerifSnapshot(false).Offset
		if int64(now)-int64(off) <= 3200 {
			break
		}
		time.Sleep(50 * time.Millisecond)
	}
	x := int64(now) - int64(off)
	if x <= 1184+6 || x >= 1984-6 || off%2016 != 0 {
		s.Close()
		return event{"result": "held", "scenario": "weekrot", "skipped_no_rotation_can_be_made_due_at_this_time_of_the_week": 1, "now_minus_offset": x}
	}
	reg := refenc.Registration{GCAKey: f.gca.Pub}
	reg.Sig = refenc.Sign(temp.Priv, reg.SigningBytes())
	if code, body, err := post("/api/v1/register-gca", reg.JSON()); err != nil || code != 200 {
		fatal("registration failed: %d %v %s", code, err, body)
	}
	nDev := 2 + rng.Intn(2)
	var order []*dev
	for i := 0; i < nDev; i++ {
		k := refenc.GenKey(rng)
		id := uint32(1000*(i+1) + rng.Intn(900))
		a := refenc.Auth{ID: id, Pub: k.Pub, Lat: float64(i+1) * 1.5, Long: float64(i+1) * -2.25, Capacity: 1000000, Debt: 1, Expiration: math.MaxUint32, Fee: 1}.Signed(f.gca.Priv)
		if code, body, err := post("/api/v1/authorize-equipment", a.JSON()); err != nil || code != 200 {
			fatal("authorization failed: %d %v %s", code, err, body)
		}
		d := &dev{id: id, auth: a, key: k}
		f.devs[fmt.Sprintf("R%d", id)] = d
		f.byLat[fmt.Sprintf("%.6f", a.Lat)] = d
		order = append(order, d)
	}
	if err := s.Close(); err != nil {
		fatal("close failed: %v", err)
	}
	// the last weekly record (no devices: 72 bytes) is cut off: the window goes back one week
	hp := filepath.Join(dir, "allDeviceStats.dat")
	fi, err := os.Stat(hp)
	if err != nil || fi.Size()%72 != 0 || fi.Size() < 144 {
		return event{"result": "inconclusive", "why": fmt.Sprintf("history file is not a sequence of device-less records (%v, %v)", fi, err)}
	}
	if err := os.Truncate(hp, fi.Size()-72); err != nil {
		return event{"result": "inconclusive", "why": err.Error()}
	}
	offB := off - 2016
	f.holdOffset.Store(offB)
	f.holdJob.Store(f.logins.Load() + 1) // the next login: normally the start-up's own job (launched first)
	f.armed.Store(true)
	emit(event{"ev": "weekrot.restart", "offset_after_cut": offB, "now_minus_offset": int64(now) - int64(offB)})
	s, err = server.NewGCAServer(dir)
	if err != nil {
		return event{"result": "violated", "problems": []string{fmt.Sprintf("C04:restart-failed: %v", err)}}
	}
	f.srv.Store(s)
	// the first live week is queried right away (whatever the server keeps from building this answer
	// must not end up in the archive in place of what the rotation's own WattTime job writes next)
	get(fmt.Sprintf("/api/v1/all-device-stats?timeslot_offset=%d", offB))
	// quiescence: window rotated, no week-data request for 1.5 s
	deadline := time.Now().Add(60 * time.Second)
	for time.Now().Before(deadline) {
		if s.VerifSnapshot(false).Offset == off && f.hist.Load() > 0 && time.Since(time.Unix(0, f.lastHist.Load())) > 1500*time.Millisecond {
			break
		}
		time.Sleep(50 * time.Millisecond)
	}
	res := event{"scenario": "weekrot", "devices": nDev, "overlap": f.overlap.Load(), "week_requests": f.weekReq.Load()}
	var problems []string
	sn := s.VerifSnapshot(true)
	if sn.Offset != off {
		s.Close()
		return event{"result": "inconclusive", "why": fmt.Sprintf("the rotation that was due (now-offset=%d) did not happen within 60 s", int64(now)-int64(offB))}
	}
	for look := 0; look < 4; look++ {
		problems = nil
		sn = s.VerifSnapshot(true)
		placed, archivedOK := 0, 0
		for _, d := range order {
			imp := sn.Impact[d.id]
			if imp == nil {
				problems = append(problems, fmt.Sprintf("C13:device-lost: id %d has no impact window", d.id))
				continue
			}
			for i, v := range imp {
				if v == 0 {
					continue
				}
				if math.Float64bits(v) != math.Float64bits(fakeValue(d.id, int64(sn.Offset)+int64(i))*lbToG) {
					problems = append(problems, fmt.Sprintf("C13:impact-value-at-wrong-timeslot: device %d: the live window (offset %d) holds at index %d a value that WattTime did not answer for timeslot %d (a job that waited across the rotation stored data of the former window position?)", d.id, sn.Offset, i, int64(sn.Offset)+int64(i)))
					break
				}
				placed++
			}
		}
		if n := len(sn.History); n == 0 || sn.History[n-1].TimeslotOffset != offB {
			problems = append(problems, fmt.Sprintf("C03:rotation-record-missing: the last archived week is not the one starting at %d", offB))
		} else {
			rec := sn.History[n-1]
			for _, dv := range rec.Devices {
				var id uint32
				for _, d := range order {
					if dv.PublicKey == glow.PublicKey(d.key.Pub) {
						id = d.id
					}
				}
				// the rotation's own job fetched this week right before rotating: every slot of the week that lies before the clock
				miss := 0
				for i := 0; i < 2016 && int64(offB)+int64(i) < int64(now)-3; i++ {
					if math.Float64bits(dv.ImpactRates[i]) != math.Float64bits(fakeValue(id, int64(offB)+int64(i))*lbToG) {
						miss++
					}
				}
				if miss > 0 {
					problems = append(problems, fmt.Sprintf("C03:archived-week-lacks-impact-values-written-before-rotation: device %d: %d of the archived week's impact rates differ from what the weekly job had stored for those timeslots right before the rotation", id, miss))
				} else {
					archivedOK++
				}
			}
			if len(rec.Devices) != nDev {
				problems = append(problems, fmt.Sprintf("C03:rotation-record-device-set: %d devices archived, %d authorized", len(rec.Devices), nDev))
			}
		}
		res["impact_values_at_their_timeslot"] = placed
		res["archived_devices_with_week_data"] = archivedOK
		if len(problems) == 0 {
			break
		}
		time.Sleep(1500 * time.Millisecond)
	}
	if err := s.Close(); err != nil {
		problems = append(problems, "C12:close-failed: "+err.Error())
	}
	res["result"] = "held"
	res["rotations_with_devices"] = 1
	if len(problems) > 0 {
		res["result"], res["problems"] = "violated", problems
	}
	return res
}
