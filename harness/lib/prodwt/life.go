package prodwt

// life: one short life of a PRODUCTION-build server at the real wall clock,
// judged against a slice of several properties. Every other check of this
// harness runs -tags test builds (small constants, settable clock); the files
// consts_p.go, glow/timeslot.go and every `if !testMode` branch are only
// compiled here and in C20's probe. What is judged (problem classes carry the
// property id as prefix):
//
//	C07  of several concurrent validly signed registrations exactly one is
//	     acknowledged; memory, key file and the restarted server hold its key
//	C01  datagrams that must be refused leave snapshot, recent-reports list and
//	     report log as they were; acceptable ones are recorded (margins of 12
//	     slots around the ±432 rule: the real clock may tick during the episode)
//	C02  replay keeps the value, a second different report bans the slot, 135 %
//	     of capacity is the limit, a banned slot stays banned
//	C06  a conflicting authorization bans exactly that id
//	C10  the raw sync reply parses (reference parser) to key, offset, bitfield
//	     of the recorded slots and verifies under the server key
//	C08  a burst of valid re-sends from one source address is recorded completely
//	C12  hundreds of idle / half-sent sync connections do not stop the sync service
//	C20  the start-up catch-up of a fresh server ends with the clock inside the window
//	C17  GCA-signed server records are listed (GET and sync reply) exactly as
//	     signed, zero ports and empty locations included
//	C03  the live week is served with the recorded values and a valid signature
//	C04  a restart (production catch-up rules, 100000-entry recent list) yields
//	     the same equipment, bans, window and archive
//	C14  the archive holds record-aligned public files, no private key, and the
//	     configured production rate limit (VerifConsts: 3 per 3 s) admits no
//	     limit+1-th archive within one window

import (
	"archive/zip"
	"bytes"
	"encoding/binary"
	"encoding/json"
	"fmt"
	"io"
	"math"
	"math/rand"
	"net"
	"os"
	"path/filepath"
	"sync"
	"syscall"
	"time"

	"github.com/glowlabs-org/gca-backend/glow"
	"github.com/glowlabs-org/gca-backend/server"

	"verifharness/lib/refenc"
)

const (
	tcpPort = 35030
	udpPort = 35045
)

type lifeRun struct {
	s        *server.GCAServer
	dir      string
	problems []string
	counts   map[string]int
}

func (l *lifeRun) bad(f string, a ...interface{}) {
	l.problems = append(l.problems, fmt.Sprintf(f, a...))
}

func (l *lifeRun) sendUDP(b []byte) bool {
	before := server.VerifUDPHandled()
	c, err := net.Dial("udp", fmt.Sprintf("127.0.0.1:%d", udpPort))
	if err != nil {
		return false
	}
	defer c.Close()
	if _, err := c.Write(b); err != nil {
		return false
	}
	for i := 0; i < 4000; i++ { // logical barrier: the listener's own completion counter
		if server.VerifUDPHandled() > before {
			return true
		}
		time.Sleep(500 * time.Microsecond)
	}
	return false
}

func syncRaw(id uint32) ([]byte, error) {
	c, err := net.DialTimeout("tcp", fmt.Sprintf("127.0.0.1:%d", tcpPort), 5*time.Second)
	if err != nil {
		return nil, err
	}
	defer c.Close()
	c.SetDeadline(time.Now().Add(20 * time.Second))
	var b [4]byte
	binary.LittleEndian.PutUint32(b[:], id)
	if _, err := c.Write(b[:]); err != nil {
		return nil, err
	}
	return io.ReadAll(c)
}

type liveStats struct {
	Devices []struct {
		PublicKey    []int
		PowerOutputs []int64
		ImpactRates  []float64
	}
	TimeslotOffset uint32
	Signature      []int
}

func getStats(week uint32) (*refenc.Stats, int, error) {
	code, body, err := get(fmt.Sprintf("/api/v1/all-device-stats?timeslot_offset=%d", week))
	if err != nil || code != 200 {
		return nil, code, err
	}
	var raw liveStats
	if err := json.Unmarshal(body, &raw); err != nil {
		return nil, code, err
	}
	out := &refenc.Stats{Week: raw.TimeslotOffset}
	if len(raw.Signature) != 64 {
		return nil, code, fmt.Errorf("signature has %d elements", len(raw.Signature))
	}
	for i, x := range raw.Signature {
		out.Sig[i] = byte(x)
	}
	for _, d := range raw.Devices {
		var ds refenc.DevStats
		if len(d.PublicKey) != 32 || len(d.PowerOutputs) != 2016 || len(d.ImpactRates) != 2016 {
			return nil, code, fmt.Errorf("device entry has wrong array lengths")
		}
		for i, x := range d.PublicKey {
			ds.Pub[i] = byte(x)
		}
		for i, x := range d.PowerOutputs {
			ds.Power[i] = uint64(x)
		}
		for i, x := range d.ImpactRates {
			ds.Impact[i] = math.Float64bits(x)
		}
		out.Devices = append(out.Devices, ds)
	}
	return out, code, nil
}

// fingerprint of everything a refused datagram must leave alone
func (l *lifeRun) fingerprint() string {
	sn := l.s.VerifSnapshot(true)
	h := fmt.Sprintf("off=%d eq=%d bans=%d recent=%d;", sn.Offset, len(sn.Equipment), len(sn.Bans), len(sn.RecentReports))
	ids := make([]uint32, 0, len(sn.Reports))
	for id := range sn.Reports {
		ids = append(ids, id)
	}
	for i := range ids { // insertion sort, few ids
		for j := i; j > 0 && ids[j] < ids[j-1]; j-- {
			ids[j], ids[j-1] = ids[j-1], ids[j]
		}
	}
	for _, id := range ids {
		n, sum := 0, uint64(0)
		for k, r := range sn.Reports[id] {
			if r.PowerOutput != 0 {
				n++
				sum += r.PowerOutput*31 + uint64(k)*7 + uint64(r.Signature[0])
			}
		}
		h += fmt.Sprintf("%d:%d:%d;", id, n, sum)
	}
	if fi, err := os.Stat(filepath.Join(l.dir, "equipment-reports.dat")); err == nil {
		h += fmt.Sprintf("log=%d", fi.Size())
	}
	return h
}

func lifeEpisode(work string, seed int64, f *fake) event {
	rng := rand.New(rand.NewSource(seed))
	l := &lifeRun{counts: map[string]int{}}
	dir := filepath.Join(work, "srv")
	l.dir = dir
	os.MkdirAll(filepath.Join(dir, "watttime_data"), 0755)
	temp, srvKey := refenc.GenKey(rng), refenc.GenKey(rng)
	f.gca = refenc.GenKey(rng)
	os.WriteFile(filepath.Join(dir, "gcaTempPubKey.dat"), temp.Pub[:], 0644)
	os.WriteFile(filepath.Join(dir, "server.keys"), refenc.KeyFile(srvKey), 0644)
	os.WriteFile(filepath.Join(dir, "watttime_data", "username"), []byte("user\n"), 0644)
	os.WriteFile(filepath.Join(dir, "watttime_data", "password"), []byte("pass\n"), 0644)
	s, err := server.NewGCAServer(dir)
	if err != nil {
		fatal("first start failed: %v", err)
	}
	l.s = s
	// NewGCAServer reported success: the server serves (whatever WattTime does)
	serving := false
	for i := 0; i < 30 && !serving; i++ {
		if code, _, err := get("/api/v1/equipment"); err == nil && code == 200 {
			serving = true
		} else {
			time.Sleep(100 * time.Millisecond)
		}
	}
	if !serving {
		for _, p := range []string{"C12", "C13"} {
			l.bad("%s:start-reported-success-but-server-not-serving: NewGCAServer returned a server and no error, yet GET /api/v1/equipment is not answered within 3 s (WattTime down=%v)", p, f.down.Load())
		}
		s.Close()
		return l.result()
	}
	if f.down.Load() {
		l.counts["wattime_down_episodes"] = 1
	}
	// ---- C07: several validly signed registrations with different keys at the same time: exactly one
	// is acknowledged, and that one is the key in memory, in the key file and after the restart
	cands := make([]refenc.Key, 6+rng.Intn(6))
	regCodes := make([]int, len(cands))
	var rwg sync.WaitGroup
	for i := range cands {
		cands[i] = refenc.GenKey(rng)
	}
	regErrs := make([]string, len(cands))
	for attempt := 0; attempt < 2; attempt++ {
		for i := range cands {
			rwg.Add(1)
			go func(i int) {
				defer rwg.Done()
				reg := refenc.Registration{GCAKey: cands[i].Pub}
				reg.Sig = refenc.Sign(temp.Priv, reg.SigningBytes())
				time.Sleep(time.Duration(i*60) * time.Microsecond)
				var err error
				if regCodes[i], _, err = post("/api/v1/register-gca", reg.JSON()); err != nil {
					regErrs[i] = err.Error()
				}
			}(i)
		}
		rwg.Wait()
		anyAnswer := false
		for _, c := range regCodes {
			anyAnswer = anyAnswer || c != 0
		}
		// every request failed at transport level (starved machine) and the server is still
		// unregistered: nothing has happened yet, the slice is repeated once
		if anyAnswer || s.VerifSnapshot(false).GCAAvailable {
			break
		}
		l.counts["c07_registration_slice_repeated"]++
	}
	winner := -1
	n200 := 0
	for i, c := range regCodes {
		if c == 200 {
			n200++
			winner = i
		}
	}
	if n200 != 1 {
		if n200 == 0 {
			fatal("no registration was accepted: %v %v", regCodes, regErrs)
		}
		l.bad("C07:more-than-one-registration-accepted: %d of %d concurrent registrations with different keys were answered 200: %v", n200, len(cands), regCodes)
	}
	f.gca = cands[winner]
	if sn := s.VerifSnapshot(false); !sn.GCAAvailable || sn.GCAKey != glow.PublicKey(f.gca.Pub) {
		l.bad("C07:server-key-differs-from-winner: the registration answered 200 carried key %x, the server holds %x (available=%v)", f.gca.Pub[:6], sn.GCAKey[:6], sn.GCAAvailable)
	}
	if b, err := os.ReadFile(filepath.Join(dir, "gcaPubKey.dat")); err != nil || !bytes.Equal(b, f.gca.Pub[:]) {
		l.bad("C07:key-file-differs-from-winner: gcaPubKey.dat holds %x (err %v), the acknowledged registration carried %x", b, err, f.gca.Pub[:])
	}
	l.counts["c07_concurrent_registrations"] = len(cands)
	type devT struct {
		id   uint32
		key  refenc.Key
		auth refenc.Auth
	}
	mk := func(id uint32, capacity uint64, lat float64) devT {
		k := refenc.GenKey(rng)
		a := refenc.Auth{ID: id, Pub: k.Pub, Lat: lat, Long: -lat, Capacity: capacity, Debt: 1, Expiration: math.MaxUint32, Fee: 1}.Signed(f.gca.Priv)
		if code, body, err := post("/api/v1/authorize-equipment", a.JSON()); err != nil || code != 200 {
			fatal("authorization failed: %d %v %s", code, err, body)
		}
		d := devT{id, k, a}
		f.mu.Lock()
		f.devs[fmt.Sprintf("R%d", id)] = &dev{id: id, auth: a, key: k}
		f.byLat[fmt.Sprintf("%.6f", lat)] = f.devs[fmt.Sprintf("R%d", id)]
		f.mu.Unlock()
		return d
	}
	A := mk(uint32(100+rng.Intn(100)), 1000000, 1.5)
	B := mk(uint32(300+rng.Intn(100)), 1000, 3.0)
	X := mk(uint32(500+rng.Intn(100)), 1000000, 4.5)
	U := devT{id: uint32(700 + rng.Intn(100)), key: refenc.GenKey(rng)}
	report := func(d devT, slot uint32, power uint64) []byte {
		return refenc.Report{ID: d.id, Slot: slot, Power: power}.Signed(d.key.Priv).Bytes()
	}
	// The start-up catch-up leaves now-offset below 4000; when it is above 3200 the background loop rotates
	// once more on its own (after a WattTime round trip). The episode begins when no rotation is due, and is
	// not run at all on the few hours of a week in which one would become due while it runs.
	var now, off uint32
	settle := func() bool {
		for i := 0; i < 600; i++ {
			now, off = glow.CurrentTimeslot(), l.s.VerifSnapshot(false).Offset
			if int64(now)-int64(off) <= 3200 {
				return true
			}
			time.Sleep(50 * time.Millisecond)
		}
		return false
	}
	if now0, off0 := glow.CurrentTimeslot(), l.s.VerifSnapshot(false).Offset; int64(now0)-int64(off0) >= 4000 || now0 < off0 {
		// NewGCAServer has returned: the blocking catch-up is over, and it ends only when now-offset < 4000
		l.bad("C20:startup-leaves-current-slot-outside-window: after the start-up of a fresh production server the clock is at timeslot %d and the window starts at %d (%d weeks behind): no report near the clock can be stored", now0, off0, (int64(now0)-int64(off0))/2016)
		s.Close()
		return l.result()
	}
	if !settle() {
		return l.inconc(fmt.Sprintf("the rotation due after start-up (now-offset=%d) did not happen within 30 s", int64(now)-int64(off)))
	}
	if int64(now)-int64(off) > 3190 || now < off {
		s.Close()
		return event{"result": "held", "scenario": "life", "skipped_rotation_imminent": 1}
	}
	slotOf := func(d devT, slot uint32) (glow.EquipmentReport, bool) {
		rep, _, o, present := l.s.VerifSlot(d.id, int(int64(slot)-int64(off)))
		return rep, present && o == off
	}

	// ---- C06: a conflicting authorization bans X (and only X)
	cf := X.auth
	cf.Debt++
	cf = cf.Signed(f.gca.Priv)
	code, _, err := post("/api/v1/authorize-equipment", cf.JSON())
	sn := s.VerifSnapshot(false)
	if err != nil || code == 200 || !sn.Bans[X.id] || len(sn.Equipment) != 2 {
		l.bad("C06:conflict-did-not-ban-exactly-one-id: status %d err %v banned=%v devices=%d", code, err, sn.Bans[X.id], len(sn.Equipment))
	}
	l.counts["conflict_bans"]++
	// ... also when the conflicting record differs in nothing but coordinates that are not on the globe
	// (any finite value is a legal field value; the ban rules do not depend on what WattTime can map)
	Y := mk(uint32(900+rng.Intn(50)), 1000000, 6.0)
	cy := Y.auth
	cy.Lat, cy.Long = 95+float64(rng.Intn(1000)), -200
	cy = cy.Signed(f.gca.Priv)
	code, _, err = post("/api/v1/authorize-equipment", cy.JSON())
	sn = s.VerifSnapshot(false)
	if _, still := sn.Equipment[Y.id]; err != nil || code == 200 || !sn.Bans[Y.id] || still || len(sn.Equipment) != 2 {
		l.bad("C06:conflict-with-off-globe-coordinates-did-not-ban: status %d err %v banned=%v still listed=%v devices=%d", code, err, sn.Bans[Y.id], still, len(sn.Equipment))
	}
	l.counts["conflict_bans"]++

	inWin := func(s int64) bool { return s >= int64(off) && s < int64(off)+4032 && s >= 0 }
	// ---- C08 (server side): a device's paced or bunched re-sends that ARRIVE are recorded, all of them.
	// (First, before anything else was sent from this address.) The record itself is the barrier: a datagram
	// counts as not recorded only if its slot is still empty 15 s later while the server answers requests.
	nb := 0
	for k := 0; k < 40; k++ {
		sl := int64(now) - 60 - int64(k)
		if !inWin(sl) {
			continue
		}
		p := uint64(3000 + k)
		l.sendUDP(report(A, uint32(sl), p))
		rep, ok := slotOf(A, uint32(sl))
		for i := 0; i < 150 && !(ok && rep.PowerOutput == p); i++ {
			time.Sleep(100 * time.Millisecond)
			rep, ok = slotOf(A, uint32(sl))
		}
		if !(ok && rep.PowerOutput == p) {
			if code, _, err := get("/api/v1/equipment"); err == nil && code == 200 {
				l.bad("C08:delivered-retransmission-not-recorded: report %d of a burst of valid re-sends from one source address (slot now-%d, power %d) is not recorded 15 s after it was sent over loopback: slot holds %d", k, 60+k, p, rep.PowerOutput)
			}
			break
		}
		nb++
	}
	l.counts["c08_burst_recorded"] = nb

	// ---- C01: refused datagrams change nothing
	okSlot := int64(now) - 7
	var refused []struct {
		class string
		b     []byte
	}
	addR := func(class string, b []byte) {
		refused = append(refused, struct {
			class string
			b     []byte
		}{class, b})
	}
	good := report(A, uint32(okSlot), 5000)
	for _, d := range []int64{-445, 445, -2000, 3000} {
		if sl := int64(now) + d; sl >= 0 {
			addR(fmt.Sprintf("time_window%+d", d), report(A, uint32(sl), 5000))
		}
	}
	addR("sentinel0", report(A, uint32(okSlot), 0))
	addR("sentinel1", report(A, uint32(okSlot), 1))
	fl := append([]byte(nil), good...)
	fl[20+rng.Intn(60)] ^= 1 << uint(rng.Intn(8))
	addR("signature_bitflip", fl)
	fl2 := append([]byte(nil), good...)
	fl2[8] ^= 1
	addR("power_bitflip", fl2)
	addR("signed_by_other_device", refenc.Report{ID: A.id, Slot: uint32(okSlot), Power: 5000}.Signed(B.key.Priv).Bytes())
	addR("signed_by_gca", refenc.Report{ID: A.id, Slot: uint32(okSlot), Power: 5000}.Signed(f.gca.Priv).Bytes())
	addR("signed_by_server", refenc.Report{ID: A.id, Slot: uint32(okSlot), Power: 5000}.Signed(srvKey.Priv).Bytes())
	addR("unknown_device", report(U, uint32(okSlot), 5000))
	addR("banned_device", report(X, uint32(okSlot), 5000))
	addR("short79", good[:79])
	addR("short0", []byte{})
	if !inWin(int64(off) - 1) {
		// nothing: below zero
	} else {
		addR("before_window", report(A, off-1, 5000))
	}
	fp := l.fingerprint()
	for _, c := range refused {
		if len(c.b) == 0 {
			continue // a zero-length datagram cannot be awaited through the counter reliably
		}
		if !l.sendUDP(c.b) {
			return l.inconc("datagram " + c.class + " was not taken off the socket within 2 s")
		}
		l.counts["c01_refused_delivered"]++
		if fp2 := l.fingerprint(); fp2 != fp {
			l.bad("C01:unacceptable-datagram-changed-state:%s: %s -> %s", c.class, fp, fp2)
			fp = fp2
		}
	}
	// acceptable ones are recorded
	for _, d := range []int64{-7, -420, 420, 0} {
		sl := int64(now) + d
		if !inWin(sl) {
			continue
		}
		p := uint64(2000 + rng.Intn(5000))
		if !l.sendUDP(report(A, uint32(sl), p)) {
			return l.inconc("acceptable datagram was not taken off the socket within 2 s")
		}
		if rep, ok := slotOf(A, uint32(sl)); !ok || rep.PowerOutput != p {
			l.bad("C01:acceptable-report-not-recorded: slot now%+d holds %d want %d (offset %d now %d)", d, rep.PowerOutput, p, off, now)
		}
		l.counts["c01_accepted"]++
	}

	// ---- C02: one report per slot; equivocation and over-capacity ban the slot
	s1 := uint32(int64(now) - 20)
	v := report(A, s1, 700)
	l.sendUDP(v)
	l.sendUDP(v) // exact replay
	if rep, _ := slotOf(A, s1); rep.PowerOutput != 700 {
		l.bad("C02:replay-changed-slot: slot holds %d want 700", rep.PowerOutput)
	}
	l.sendUDP(report(A, s1, 701))
	if rep, _ := slotOf(A, s1); rep.PowerOutput != 1 {
		l.bad("C02:equivocation-not-banned: slot holds %d want 1", rep.PowerOutput)
	}
	l.sendUDP(v)
	if rep, _ := slotOf(A, s1); rep.PowerOutput != 1 {
		l.bad("C02:ban-lifted: slot holds %d want 1", rep.PowerOutput)
	}
	s2, s3 := uint32(int64(now)-21), uint32(int64(now)-22)
	l.sendUDP(report(B, s2, 1350)) // exactly 135 % of capacity 1000
	if rep, _ := slotOf(B, s2); rep.PowerOutput != 1350 {
		l.bad("C02:within-capacity-report-banned: slot holds %d want 1350", rep.PowerOutput)
	}
	l.sendUDP(report(B, s3, 1351))
	if rep, _ := slotOf(B, s3); rep.PowerOutput != 1 {
		l.bad("C02:over-capacity-not-banned: slot holds %d want 1", rep.PowerOutput)
	}
	l.counts["c02_sequences"] += 3

	// ---- C12: many idle / abandoned sync connections, then sync requests are still answered
	{
		var rl syscall.Rlimit
		if syscall.Getrlimit(syscall.RLIMIT_NOFILE, &rl) == nil && rl.Cur < rl.Max {
			rl.Cur = rl.Max
			syscall.Setrlimit(syscall.RLIMIT_NOFILE, &rl)
		}
		var conns []net.Conn
		for i := 0; i < 640; i++ {
			c, err := net.DialTimeout("tcp", fmt.Sprintf("127.0.0.1:%d", tcpPort), 2*time.Second)
			if err != nil {
				break
			}
			if i%3 == 0 {
				c.Write([]byte{1, 2}) // half a request
			}
			conns = append(conns, c)
		}
		l.counts["c12_idle_sync_connections"] = len(conns)
		for _, c := range conns {
			c.Close()
		}
		answered := 0
		for i := 0; i < 6; i++ {
			if raw, err := syncRaw(A.id); err == nil && len(raw) > 100 {
				answered++
			} else {
				time.Sleep(300 * time.Millisecond)
			}
		}
		if len(conns) >= 300 && answered == 0 {
			l.bad("C12:liveness:sync-not-answered-after-idle-connections: after %d idle or half-sent sync connections were opened and closed, none of 6 sync requests of an authorized device was answered", len(conns))
		}
		if code, _, err := get("/api/v1/equipment"); err != nil || code != 200 {
			l.bad("C12:liveness:equipment-not-answered: status %d err %v after the idle sync connections", code, err)
		}
		l.counts["c12_sync_answered_after_idle"] = answered
	}

	// ---- C17 (server side): GCA-signed server records enter the list exactly as signed
	posted := map[[32]byte]refenc.AuthServer{}
	for i, rec := range []refenc.AuthServer{
		{Location: " no-such-host-a", HTTP: 0, TCP: 0, UDP: 0},
		{Location: " no-such-host-b", HTTP: 8080, TCP: 0, UDP: 9},
		{Location: " no-such-host-c", HTTP: 1, TCP: 2, UDP: 3, Banned: true},
		{Location: "", HTTP: 35015, TCP: 35030, UDP: 35045},
	} {
		rec.Pub = refenc.GenKey(rng).Pub
		rec = rec.Signed(f.gca.Priv)
		if code, body, err := post("/api/v1/authorized-servers", rec.JSON()); err != nil || code != 200 {
			l.bad("C17:valid-server-record-refused: record %d status %d err %v %s", i, code, err, body)
			continue
		}
		posted[rec.Pub] = rec
	}
	if code, body, err := get("/api/v1/authorized-servers"); err != nil || code != 200 {
		l.bad("C17:server-list-not-served: status %d err %v", code, err)
	} else {
		var raw struct {
			AuthorizedServers []struct {
				PublicKey        []int
				Banned           bool
				Location         string
				HttpPort         uint16
				TcpPort          uint16
				UdpPort          uint16
				GCAAuthorization []int
			}
		}
		if err := json.Unmarshal(body, &raw); err != nil {
			l.bad("C17:server-list-undecodable: %v", err)
		}
		seen := 0
		for _, v := range raw.AuthorizedServers {
			a := refenc.AuthServer{Banned: v.Banned, Location: v.Location, HTTP: v.HttpPort, TCP: v.TcpPort, UDP: v.UdpPort}
			for i, x := range v.PublicKey {
				if i < 32 {
					a.Pub[i] = byte(x)
				}
			}
			for i, x := range v.GCAAuthorization {
				if i < 64 {
					a.Sig[i] = byte(x)
				}
			}
			if !refenc.Verify(f.gca.Pub, a.SigningBytes(), a.Sig) {
				l.bad("C17:server-entry-does-not-verify: listed entry %x (banned=%v loc=%q ports %d/%d/%d) carries no valid GCA signature over its content", a.Pub[:4], a.Banned, a.Location, a.HTTP, a.TCP, a.UDP)
			}
			if want, ok := posted[a.Pub]; !ok {
				l.bad("C17:server-entered-without-record: %x", a.Pub[:4])
			} else {
				seen++
				if a.Banned != want.Banned || a.Location != want.Location || a.HTTP != want.HTTP || a.TCP != want.TCP || a.UDP != want.UDP || a.Sig != want.Sig {
					l.bad("C17:server-entry-altered: %x listed as banned=%v loc=%q ports %d/%d/%d, posted banned=%v loc=%q ports %d/%d/%d", a.Pub[:4], a.Banned, a.Location, a.HTTP, a.TCP, a.UDP, want.Banned, want.Location, want.HTTP, want.TCP, want.UDP)
				}
			}
		}
		if seen != len(posted) {
			l.bad("C17:server-entry-missing: %d of %d accepted records are listed", seen, len(posted))
		}
		l.counts["c17_server_records"] += seen
	}

	// ---- C10: the raw sync reply
	sn = s.VerifSnapshot(true)
	raw, err := syncRaw(A.id)
	if err != nil {
		return l.inconc("raw sync failed: " + err.Error())
	}
	rep, refusedReply, perr := refenc.ParseSyncReply(raw)
	switch {
	case perr != nil || refusedReply:
		l.bad("C10:reply-malformed: refused=%v err=%v (%d bytes)", refusedReply, perr, len(raw))
	case rep.DevKey != A.key.Pub || rep.Offset != sn.Offset:
		l.bad("C10:reply-header-mismatch: key ok=%v offset %d want %d", rep.DevKey == A.key.Pub, rep.Offset, sn.Offset)
	case !refenc.Verify(srvKey.Pub, rep.SignedPart, rep.ServerSig):
		l.bad("C10:reply-signature-invalid")
	default:
		for i := 0; i < 4032; i++ {
			want := sn.Reports[A.id][i].PowerOutput != 0
			got := rep.Bitfield[i/8]&(1<<(uint(i)%8)) != 0
			if want != got {
				l.bad("C10:reply-bitfield-mismatch: index %d bit=%v record=%v", i, got, want)
				break
			}
		}
		for _, e := range rep.Servers {
			if want, ok := posted[e.Pub]; !ok || e.Banned != want.Banned || e.Location != want.Location || e.HTTP != want.HTTP || e.TCP != want.TCP || e.UDP != want.UDP || e.Sig != want.Sig {
				l.bad("C10:reply-serverlist-mismatch: entry %x in the sync reply is not the record the GCA posted", e.Pub[:4])
			}
		}
		if len(rep.Servers) != len(posted) {
			l.bad("C10:reply-serverlist-mismatch: %d entries in the reply, %d records accepted", len(rep.Servers), len(posted))
		}
		l.counts["c10_replies"]++
	}
	if r2, err := syncRaw(U.id); err == nil {
		if _, ref, perr := refenc.ParseSyncReply(r2); perr != nil || !ref {
			l.bad("C10:unknown-device-not-refused: %d bytes err %v", len(r2), perr)
		}
	}

	// ---- C03: the live week that holds the clock
	week := off
	if int64(now)-int64(off) >= 2016 {
		week = off + 2016
	}
	if st, code, err := getStats(week); err != nil || code != 200 {
		l.bad("C03:live-week-refused: week %d status %d err %v", week, code, err)
	} else {
		if st.Week != week {
			l.bad("C03:live-week-label: %d want %d", st.Week, week)
		}
		if !refenc.Verify(srvKey.Pub, st.SigningBytes(), st.Sig) {
			l.bad("C03:live-week-signature: does not verify under the server key over the reference signing bytes")
		}
		if len(st.Devices) != 2 {
			l.bad("C03:live-week-device-set: %d devices want 2 (A, B; X is banned)", len(st.Devices))
		}
		for _, d := range st.Devices {
			id := A.id
			if d.Pub == B.key.Pub {
				id = B.id
			} else if d.Pub != A.key.Pub {
				l.bad("C03:live-week-device-set: unknown key %x", d.Pub[:6])
				continue
			}
			for k := 0; k < 2016; k++ {
				if want := sn.Reports[id][int(week-off)+k].PowerOutput; d.Power[k] != want {
					l.bad("C03:live-week-power: device %d index %d published %d recorded %d", id, k, d.Power[k], want)
					break
				}
			}
		}
		l.counts["c03_live_weeks"]++
	}

	// ---- C14: archive and the production rate limit (3 per 3 s)
	priv := l.s.VerifPrivateKey()
	consts := server.VerifConsts()
	limit, window := consts.ApiArchiveLimit, consts.ApiArchiveRate
	t0 := time.Now()
	var codes []int
	var firstZip []byte
	nreq := limit + 1
	if nreq > 40 {
		nreq = 4 // a very generous configured limit is not driven to its end here
	}
	for i := 0; i < nreq; i++ {
		code, body, err := get("/api/v1/archive")
		if err != nil {
			return l.inconc("archive request failed: " + err.Error())
		}
		codes = append(codes, code)
		if code == 200 && firstZip == nil {
			firstZip = body
		}
	}
	// only a certain conclusion counts: all requests sent and answered within less than one configured window
	if el := time.Since(t0); nreq == limit+1 && el < window*8/10 {
		n200 := 0
		for _, c := range codes {
			if c == 200 {
				n200++
			}
		}
		if n200 > limit {
			l.bad("C14:rate-limit-exceeded: %d archives served within %v (configured production limit %d per %v): %v", n200, el, limit, window, codes)
		}
		l.counts["c14_rate_judged"]++
	}
	if firstZip == nil {
		l.bad("C14:archive-not-served: statuses %v", codes)
	} else if zr, err := zip.NewReader(bytes.NewReader(firstZip), int64(len(firstZip))); err != nil {
		l.bad("C14:archive-unreadable: %v", err)
	} else {
		names := map[string][]byte{}
		for _, zf := range zr.File {
			rc, err := zf.Open()
			if err != nil {
				continue
			}
			b, _ := io.ReadAll(rc)
			rc.Close()
			names[zf.Name] = b
			if bytes.Contains(b, priv[:]) {
				l.bad("C14:private-key-in-archive: entry %s", zf.Name)
			}
		}
		if b, ok := names["equipment-reports.dat"]; !ok || len(b)%80 != 0 {
			l.bad("C14:unaligned-entry:equipment-reports.dat: present=%v len=%d", ok, len(b))
		}
		if b, ok := names["equipment-authorizations.dat"]; !ok || len(b)%148 != 0 || len(b) != 6*148 {
			l.bad("C14:unaligned-entry:equipment-authorizations.dat: present=%v len=%d want %d", ok, len(b), 6*148)
		}
		if b, ok := names["gcaPubKey.dat"]; !ok || !bytes.Equal(b, f.gca.Pub[:]) {
			l.bad("C14:archive-gca-key: present=%v", ok)
		}
		if _, ok := names["server.keys"]; ok {
			l.bad("C14:private-key-in-archive: server.keys is an entry")
		}
		l.counts["c14_archives"]++
	}

	// ---- C04: restart
	before := s.VerifSnapshot(true)
	if err := s.Close(); err != nil {
		l.bad("C12:close-failed: %v", err)
	}
	s, err = server.NewGCAServer(dir)
	if err != nil {
		l.bad("C04:restart-failed: %v", err)
		return l.result()
	}
	l.s = s
	after := s.VerifSnapshot(true)
	if after.Offset != before.Offset {
		l.bad("C04:restart-changed-state:offset: %d -> %d", before.Offset, after.Offset)
	}
	if !after.GCAAvailable || after.GCAKey != glow.PublicKey(f.gca.Pub) {
		l.bad("C07:server-key-differs-from-winner: after the restart the server holds GCA key %x (available=%v), the acknowledged registration carried %x", after.GCAKey[:6], after.GCAAvailable, f.gca.Pub[:6])
	}
	if len(after.Equipment) != len(before.Equipment) || len(after.Bans) != len(before.Bans) || !after.Bans[X.id] {
		l.bad("C04:restart-changed-state:equipment: %d/%d devices, %d/%d bans", len(before.Equipment), len(after.Equipment), len(before.Bans), len(after.Bans))
	}
	if len(after.History) < len(before.History) {
		l.bad("C04:restart-changed-state:archive: %d -> %d weeks", len(before.History), len(after.History))
	}
	if after.Offset == before.Offset {
		for _, d := range []devT{A, B} {
			for k := 0; k < 4032; k++ {
				if before.Reports[d.id][k] != after.Reports[d.id][k] {
					l.bad("C04:restart-changed-state:reports: device %d index %d: %d -> %d", d.id, k, before.Reports[d.id][k].PowerOutput, after.Reports[d.id][k].PowerOutput)
					break
				}
			}
		}
		l.counts["c04_restarts"]++
	}
	if err := s.Close(); err != nil {
		l.bad("C12:close-failed: %v", err)
	}
	return l.result()
}

// inconc: the episode cannot go on; what was already found is not thrown away.
func (l *lifeRun) inconc(why string) event {
	if len(l.problems) > 0 {
		return l.result()
	}
	return event{"result": "inconclusive", "why": why}
}

func (l *lifeRun) result() event {
	res := event{"result": "held", "scenario": "life"}
	for k, v := range l.counts {
		res[k] = v
	}
	if len(l.problems) > 0 {
		res["result"] = "violated"
		res["problems"] = l.problems
	}
	return res
}
