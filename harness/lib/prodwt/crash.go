package prodwt

// crash: SIGKILL of a running PRODUCTION-build server, then a start on the
// directory it leaves behind (property C05 in the build that no -tags test
// run compiles: production-only start-up and shutdown code, production
// constants). Two roles of the same binary, run one after the other by the
// driver (RunCrash): "crash-serve" builds up state, prints a ready line and
// then keeps appending reports until it is killed; "crash-recover" starts on
// the directory and judges what it finds against what the first role had
// acknowledged when it printed the ready line.

import (
	"fmt"
	"math"
	"math/rand"
	"os"
	"path/filepath"
	"time"

	"github.com/glowlabs-org/gca-backend/glow"
	"github.com/glowlabs-org/gca-backend/server"

	"verifharness/lib/refenc"
)

type crashWorld struct {
	temp, srvKey, gca refenc.Key
	devs              []struct {
		id   uint32
		key  refenc.Key
		auth refenc.Auth
	}
}

// newCrashWorld derives every key from the seed, so that both roles know them.
func newCrashWorld(seed int64) *crashWorld {
	rng := rand.New(rand.NewSource(seed))
	w := &crashWorld{temp: refenc.GenKey(rng), srvKey: refenc.GenKey(rng), gca: refenc.GenKey(rng)}
	for i := 0; i < 3; i++ {
		k := refenc.GenKey(rng)
		id := uint32(100*(i+1) + rng.Intn(90))
		a := refenc.Auth{ID: id, Pub: k.Pub, Lat: float64(i + 1), Long: float64(-i - 1), Capacity: 1000000, Debt: 1, Expiration: math.MaxUint32, Fee: 1}.Signed(w.gca.Priv)
		w.devs = append(w.devs, struct {
			id   uint32
			key  refenc.Key
			auth refenc.Auth
		}{id, k, a})
	}
	return w
}

func crashServe(work string, seed int64) {
	w := newCrashWorld(seed)
	dir := filepath.Join(work, "srv")
	os.MkdirAll(filepath.Join(dir, "watttime_data"), 0755)
	os.WriteFile(filepath.Join(dir, "gcaTempPubKey.dat"), w.temp.Pub[:], 0644)
	os.WriteFile(filepath.Join(dir, "server.keys"), refenc.KeyFile(w.srvKey), 0644)
	os.WriteFile(filepath.Join(dir, "watttime_data", "username"), []byte("user\n"), 0644)
	os.WriteFile(filepath.Join(dir, "watttime_data", "password"), []byte("pass\n"), 0644)
	s, err := server.NewGCAServer(dir)
	if err != nil {
		fatal("first start failed: %v", err)
	}
	reg := refenc.Registration{GCAKey: w.gca.Pub}
	reg.Sig = refenc.Sign(w.temp.Priv, reg.SigningBytes())
	if code, body, err := post("/api/v1/register-gca", reg.JSON()); err != nil || code != 200 {
		fatal("registration failed: %d %v %s", code, err, body)
	}
	for _, d := range w.devs[:2] {
		if code, body, err := post("/api/v1/authorize-equipment", d.auth.JSON()); err != nil || code != 200 {
			fatal("authorization failed: %d %v %s", code, err, body)
		}
	}
	l := &lifeRun{s: s, dir: dir}
	now := glow.CurrentTimeslot()
	acked := 0
	for k := 0; k < 10; k++ {
		rep := refenc.Report{ID: w.devs[0].id, Slot: now - uint32(10+k), Power: uint64(1000 + k)}.Signed(w.devs[0].key.Priv)
		if l.sendUDP(rep.Bytes()) {
			acked++
		}
	}
	emit(event{"ev": "ready", "acked_reports": acked, "now": now, "offset": s.VerifSnapshot(false).Offset})
	// keep the disk busy until the kill: more reports, one more device
	go func() {
		time.Sleep(time.Duration(seed%7) * 3 * time.Millisecond)
		post("/api/v1/authorize-equipment", w.devs[2].auth.JSON())
	}()
	for k := 0; ; k++ {
		rep := refenc.Report{ID: w.devs[1].id, Slot: now - uint32(k%400), Power: uint64(2000 + k%400)}.Signed(w.devs[1].key.Priv)
		l.sendUDP(rep.Bytes())
	}
}

func crashRecover(work string, seed int64, acked int, now0 uint32) event {
	w := newCrashWorld(seed)
	dir := filepath.Join(work, "srv")
	var problems []string
	bad := func(f string, a ...interface{}) { problems = append(problems, fmt.Sprintf(f, a...)) }
	res := event{"scenario": "crash-recover"}
	s, err := server.NewGCAServer(dir)
	if err != nil {
		bad("C05:restart-failed: the production server does not start on the directory left by SIGKILL: %v", err)
		res["result"], res["problems"] = "violated", problems
		return res
	}
	sn := s.VerifSnapshot(true)
	if !sn.GCAAvailable || sn.GCAKey != glow.PublicKey(w.gca.Pub) {
		bad("C05:recovered-state-not-a-prefix:gca: registration was acknowledged before the kill, recovered available=%v", sn.GCAAvailable)
	}
	for _, d := range w.devs[:2] {
		if _, ok := sn.Equipment[d.id]; !ok {
			bad("C05:recovered-state-not-a-prefix:equipment: device %d was acknowledged before the kill and is not authorized after recovery", d.id)
		}
	}
	if n := len(sn.Equipment); n != 2 && n != 3 {
		bad("C05:recovered-state-not-a-prefix:equipment: %d devices after recovery, want 2 or 3", n)
	}
	if reps := sn.Reports[w.devs[0].id]; reps != nil && int64(now0)-int64(sn.Offset) < 4000 {
		got := 0
		for k := 0; k < 10; k++ {
			idx := int64(now0) - int64(10+k) - int64(sn.Offset)
			if idx >= 0 && idx < 4032 && reps[idx].PowerOutput == uint64(1000+k) {
				got++
			}
		}
		if got < acked {
			bad("C05:recovered-state-not-a-prefix:reports: %d of the %d reports handled before the ready line are in the window after recovery", got, acked)
		}
		res["reports_recovered"] = got
	}
	// a second registration must be refused, a new device accepted
	w2 := refenc.GenKey(rand.New(rand.NewSource(seed + 1)))
	reg := refenc.Registration{GCAKey: w2.Pub}
	reg.Sig = refenc.Sign(w.temp.Priv, reg.SigningBytes())
	if code, _, err := post("/api/v1/register-gca", reg.JSON()); err == nil && code == 200 {
		bad("C05:second-registration-accepted-after-crash")
	}
	if code, body, err := post("/api/v1/authorize-equipment", w.devs[2].auth.JSON()); err != nil || code != 200 {
		bad("C05:probe-authorization-refused-after-crash: status %d err %v %s", code, err, body)
	}
	if err := s.Close(); err != nil {
		bad("C05:close-failed-after-recovery: %v", err)
	}
	s, err = server.NewGCAServer(dir)
	if err != nil {
		bad("C05:second-restart-failed: %v", err)
	} else {
		if n := len(s.VerifSnapshot(false).Equipment); n != 3 {
			bad("C05:second-restart-differs:equipment: %d devices, want 3", n)
		}
		s.Close()
	}
	res["result"] = "held"
	res["recovered"] = 1
	if len(problems) > 0 {
		res["result"], res["problems"] = "violated", problems
	}
	return res
}
