package prodwt

// clientlife: a PRODUCTION-build client (client/consts_p.go: energy file at
// /opt/halki/energy_data.csv, calibration -2000/1000, 270 s report period, the
// real clock; every `if !testMode` branch of package client) in a private
// mount + network namespace (tmpfs over /opt and /dev/shm). Judged:
//
//	C16  the reader's records for an energy file of several MiB equal the
//	     reference reader's (lib/efref), first row to last
//	C09  a reading saved for any timeslot the history covers - two weeks old,
//	     two years old, current - reads back, and a different value for the
//	     same slot is refused afterwards
//	C11  a client whose servers are all banned, and one whose only server
//	     answers garbage, keep their mutex free and can be closed

import (
	"encoding/binary"
	"fmt"
	"math/rand"
	"net"
	"os"
	"path/filepath"
	"strings"
	"sync/atomic"
	"time"

	"github.com/glowlabs-org/gca-backend/client"
	"github.com/glowlabs-org/gca-backend/glow"

	"verifharness/lib/efref"
	"verifharness/lib/refenc"
)

func writeClientDir(dir string, key refenc.Key, gca [32]byte, id uint32, servers []refenc.MapEntry, origin uint32) error {
	if err := os.MkdirAll(dir, 0755); err != nil {
		return err
	}
	w := func(name string, b []byte) error { return os.WriteFile(filepath.Join(dir, name), b, 0644) }
	var idb, ob [4]byte
	binary.LittleEndian.PutUint32(idb[:], id)
	binary.LittleEndian.PutUint32(ob[:], origin)
	for _, e := range []error{
		w(client.ClientKeyFile, refenc.KeyFile(key)), w(client.GCAPubKeyFile, gca[:]), w(client.GCAServerMapFile, refenc.EncodeServerMap(servers)),
		w(client.ShortIDFile, idb[:]), w(client.HistoryFile, ob[:]), w(client.LastSyncFile, []byte(fmt.Sprint(time.Now().Unix()))),
	} {
		if e != nil {
			return e
		}
	}
	return nil
}

func closeWithin(c *client.Client, d time.Duration) bool {
	done := make(chan struct{})
	go func() { c.Close(); close(done) }()
	select {
	case <-done:
		return true
	case <-time.After(d):
		return false
	}
}

func lockFree(c *client.Client) bool {
	for i := 0; i < 100; i++ {
		if c.VerifTryLock() {
			return true
		}
		time.Sleep(20 * time.Millisecond)
	}
	return false
}

func clientLifeEpisode(work string, seed int64) event {
	rng := rand.New(rand.NewSource(seed))
	var problems []string
	bad := func(f string, a ...interface{}) { problems = append(problems, fmt.Sprintf(f, a...)) }
	counts := map[string]int{}
	consts := client.VerifConsts()
	if consts.TestMode || !strings.HasPrefix(consts.EnergyFile, "/") {
		return event{"result": "inconclusive", "why": "not a production build of package client"}
	}
	if err := os.MkdirAll(filepath.Dir(consts.EnergyFile), 0755); err != nil {
		return event{"result": "inconclusive", "why": "cannot create the directory of the production energy file (no private mount namespace?): " + err.Error()}
	}
	// a UDP sink and a sync server that answers garbage
	sink, err := net.ListenPacket("udp", "127.0.0.1:0")
	if err != nil {
		return event{"result": "inconclusive", "why": err.Error()}
	}
	defer sink.Close()
	go func() {
		buf := make([]byte, 2048)
		for {
			if _, _, err := sink.ReadFrom(buf); err != nil {
				return
			}
		}
	}()
	var served atomic.Int64
	ln, err := net.Listen("tcp", "127.0.0.1:0")
	if err != nil {
		return event{"result": "inconclusive", "why": err.Error()}
	}
	defer ln.Close()
	go func() {
		for {
			c, err := ln.Accept()
			if err != nil {
				return
			}
			go func(c net.Conn) {
				defer c.Close()
				defer served.Add(1)
				c.SetDeadline(time.Now().Add(5 * time.Second))
				var req [4]byte
				c.Read(req[:])
				junk := make([]byte, 2+700+rng.Intn(200))
				rand.New(rand.NewSource(time.Now().UnixNano())).Read(junk)
				binary.LittleEndian.PutUint16(junk, uint16(len(junk)-2))
				c.Write(junk)
			}(c)
		}
	}()
	port := func(a net.Addr) uint16 {
		_, p, _ := net.SplitHostPort(a.String())
		var n int
		fmt.Sscan(p, &n)
		return uint16(n)
	}
	srvKey, gca := refenc.GenKey(rng), refenc.GenKey(rng)
	entry := refenc.MapEntry{Pub: srvKey.Pub, Location: "127.0.0.1", HTTP: 1, TCP: port(ln.Addr()), UDP: port(sink.LocalAddr())}

	// ---- C16: a long energy file (one row per 5 minutes since genesis, a few gaps and bad rows)
	now := glow.CurrentTimeslot()
	var sb strings.Builder
	sb.WriteString("timestamp,energy (mWh)\n")
	gaps := map[uint32]bool{}
	for k := uint32(0); k <= now; k++ {
		if k%977 == 13 || k+5000 == now || k+4040 == now || k+10 == now {
			gaps[k] = true // no row: the slot stays empty in the history
			continue
		}
		ts := int64(glow.GenesisTime) + int64(k)*300 + int64(k%7)
		switch {
		case k%5003 == 11:
			fmt.Fprintf(&sb, "%d,oops\n", ts)
		case k%4001 == 17:
			fmt.Fprintf(&sb, "%d,%d\n", ts, k%20) // magnitude below 24
		default:
			fmt.Fprintf(&sb, "%d,%d.%d\n", ts, 100+k%9000, k%10)
		}
	}
	content := sb.String()
	if err := os.WriteFile(consts.EnergyFile, []byte(content), 0644); err != nil {
		return event{"result": "inconclusive", "why": err.Error()}
	}
	counts["energy_file_bytes"] = len(content)
	dir := filepath.Join(work, "client")
	key := refenc.GenKey(rng)
	if err := writeClientDir(dir, key, gca.Pub, 4242, []refenc.MapEntry{entry}, 0); err != nil {
		return event{"result": "inconclusive", "why": err.Error()}
	}
	t0 := time.Now()
	c, err := client.NewClient(dir)
	if err != nil {
		return event{"result": "inconclusive", "why": "production client does not start: " + err.Error()}
	}
	counts["client_start_ms"] = int(time.Since(t0).Milliseconds())
	got, err := c.VerifReadEnergyFile()
	st := c.VerifState()
	ref := efref.Reference([]byte(content), int64(glow.GenesisTime), st.Multiplier, st.Divider)
	want := ref.MustList()
	if err != nil {
		bad("C16:reader-error-on-well-formed-file: %v", err)
	} else if !ref.AllMust() || ref.CSVError != "" {
		return event{"result": "inconclusive", "why": "the generated energy file is not plain for the reference reader: " + ref.CSVError}
	} else {
		if len(got) != len(want) {
			bad("C16:rule-mismatch:record-count: the production reader returned %d records for a well-formed file of %d rows (%d bytes), the reference reader %d", len(got), ref.Rows, len(content), len(want))
		}
		for i := 0; i < len(got) && i < len(want); i++ {
			if got[i].Timeslot != want[i].Slot || got[i].Energy != want[i].Value {
				bad("C16:rule-mismatch:differs: record %d is (slot %d, value %d), the reference says (slot %d, value %d); calibration %v/%v", i, got[i].Timeslot, got[i].Energy, want[i].Slot, want[i].Value, st.Multiplier, st.Divider)
				break
			}
		}
		counts["c16_records_compared"] = len(want)
	}

	// ---- C09: the history store at production distances from the clock
	for _, slot := range []uint32{now - 10, now - 4040, now - 5000, 13, 990, now/2 - now/2%977 + 13} {
		if !gaps[slot] {
			continue
		}
		v := uint32(1000 + rng.Intn(100000))
		if err := c.VerifSaveReading(slot, v); err != nil {
			bad("C09:save-refused: first reading for the empty slot %d (now %d) refused: %v", slot, now, err)
			continue
		}
		if r, err := c.VerifLoadReading(slot); err != nil || r != v {
			bad("C09:stored-reading-changed: slot %d (now-%d): saved %d, read back %d (err %v)", slot, now-slot, v, r, err)
		}
		if err := c.VerifSaveReading(slot, v+1); err == nil {
			if r, _ := c.VerifLoadReading(slot); r != v {
				bad("C09:overwrite-accepted: slot %d (now-%d): a second, different reading replaced %d by %d", slot, now-slot, v, r)
			} else {
				bad("C09:overwrite-accepted: slot %d (now-%d): a second, different reading for an occupied slot was reported as saved", slot, now-slot)
			}
		}
		counts["c09_slots_probed"]++
	}
	// a slot that got its reading from the energy file at start-up reads back unchanged as well
	for _, i := range []int{0, len(want) / 2, len(want) - 1} {
		if i < len(want) && want[i].Value != 0 {
			if r, err := c.VerifLoadReading(want[i].Slot); err != nil || r != uint32(want[i].Value) {
				bad("C09:history-differs-from-first-reading: slot %d holds %d after start-up, the file's row says %d (err %v)", want[i].Slot, r, uint32(want[i].Value), err)
			}
		}
	}

	// ---- C11: the running production client (report loop started, first pass done): mutex free, Close returns.
	// (A production sync round sleeps 270 s before its first attempt, so rounds are not driven here; the
	// reply parser is the same code in both builds and is driven by the -tags test batches.)
	_ = served.Load()
	time.Sleep(300 * time.Millisecond)
	if !lockFree(c) {
		bad("C11:client-lock-held: the mutex of the running production client is held at rest (2 s of probing)")
	}
	if !closeWithin(c, 30*time.Second) {
		bad("C11:close-blocked: Close() of the production client did not return within 30 s")
	}
	counts["c11_clients_closed"]++

	// ---- C11: a client whose servers are all banned
	dir2 := filepath.Join(work, "client2")
	b1, b2 := entry, entry
	b1.Banned, b2.Banned = true, true
	b2.Pub = refenc.GenKey(rng).Pub
	os.WriteFile(consts.EnergyFile, []byte("timestamp,energy (mWh)\n"), 0644)
	if err := writeClientDir(dir2, refenc.GenKey(rng), gca.Pub, 4243, []refenc.MapEntry{b1, b2}, now-100); err != nil {
		return event{"result": "inconclusive", "why": err.Error()}
	}
	started := make(chan *client.Client, 1)
	go func() {
		c2, err := client.NewClient(dir2)
		if err != nil {
			c2 = nil
		}
		started <- c2
	}()
	select {
	case c2 := <-started:
		if c2 == nil {
			counts["c11_all_banned_start_refused"]++ // refusing to start without a usable server is not a wedge
		} else {
			time.Sleep(1500 * time.Millisecond) // the report loop has made its first pass over the all-banned map
			if !lockFree(c2) {
				bad("C11:client-lock-held: all servers banned: the client mutex is held at rest (2 s of probing)")
			}
			if !closeWithin(c2, 30*time.Second) {
				bad("C11:close-blocked: all servers banned: Close() did not return within 30 s")
			}
			counts["c11_all_banned_clients"]++
		}
	case <-time.After(60 * time.Second):
		bad("C11:start-blocked: NewClient on a directory whose servers are all banned has not returned after 60 s")
	}
	res := event{"result": "held", "scenario": "clientlife"}
	for k, v := range counts {
		res[k] = v
	}
	if len(problems) > 0 {
		res["result"], res["problems"] = "violated", problems
	}
	return res
}
