// Package prodwt hosts the PRODUCTION build (no `test` tag) of the GCA server
// next to a fake WattTime service, so that the WattTime code paths that every
// -tags test build skips (`if testMode { return }`) really execute:
// staticGetWattTimeToken, getBalancingAuthority, getWattTimeHistoricalDataRaw,
// getWattTimeWeeklyData and the body of managedGetWattTimeWeekData (start-up
// call, the call in front of every rotation).
//
// How the real HTTPS client code is pointed at the fake service without
// touching it: the URLs are hard coded (https://api.watttime.org/...), but Go's
// default transport honours HTTPS_PROXY and the system certificate pool honours
// SSL_CERT_FILE. The process sets both before the first request: the proxy is a
// CONNECT relay in this process that hands every tunnel to a local TLS server
// whose certificate for api.watttime.org is signed by a CA generated for the
// run and written to the file SSL_CERT_FILE names.
//
// The production server listens on fixed ports (35015/35030/35045), so the
// caller starts this program in its own network namespace (unshare -n).
//
// Output: one JSON object per line on stdout ("ev" lines as things happen, a
// final "result" line). The process dying with a Go panic is the main
// observable of the ban scenarios; the parent reads it from stderr.
package prodwt

import (
	"bytes"
	"crypto/ecdsa"
	"crypto/elliptic"
	crand "crypto/rand"
	"crypto/tls"
	"crypto/x509"
	"crypto/x509/pkix"
	"encoding/json"
	"encoding/pem"
	"fmt"
	"io"
	"math"
	"math/big"
	"math/rand"
	"net"
	"net/http"
	"os"
	"path/filepath"
	"strconv"
	"strings"
	"sync"
	"sync/atomic"
	"time"

	"github.com/glowlabs-org/gca-backend/glow"
	"github.com/glowlabs-org/gca-backend/server"

	"verifharness/lib/refenc"
)

const (
	httpPort = 35015
	lbToG    = 453.59237
)

type event map[string]interface{}

var outMu sync.Mutex

func emit(e event) {
	outMu.Lock()
	defer outMu.Unlock()
	b, _ := json.Marshal(e)
	os.Stdout.Write(append(b, '\n'))
}

func fatal(f string, a ...interface{}) {
	emit(event{"result": "inconclusive", "why": fmt.Sprintf(f, a...)})
	os.Exit(3)
}

// ---------------------------------------------------------------- fake WattTime

type fake struct {
	scenario   string
	gca        refenc.Key
	mu         sync.Mutex
	devs       map[string]*dev // region name -> device
	byLat      map[string]*dev // latitude as the server formats it -> device
	targets    map[uint32]bool // weekban: devices banned while their own request is pending
	lastHist   atomic.Int64    // unix nanoseconds of the last historical request
	down       atomic.Bool     // every request is answered 503
	holdJob    atomic.Int64    // weekrot: the job (login number) whose first week-data request is held
	held       atomic.Bool
	overlap    atomic.Bool // the window rotated while that request was held
	holdOffset atomic.Uint32
	srv        atomic.Pointer[server.GCAServer]
	armed      atomic.Bool // phase B: act on week-data requests
	logins     atomic.Int64
	regions    atomic.Int64
	hist       atomic.Int64
	weekReq    atomic.Int64 // week-data requests answered while armed
	bans       atomic.Int64
	rng        *rand.Rand
}

type dev struct {
	id     uint32
	auth   refenc.Auth
	key    refenc.Key
	banned bool
	values []float64 // what the fake answered for the week request (pounds per MWh)
	start  int64
	asked  int
}

func post(path string, body []byte) (int, string, error) {
	c := &http.Client{Timeout: 20 * time.Second, Transport: &http.Transport{Proxy: nil}}
	resp, err := c.Post(fmt.Sprintf("http://127.0.0.1:%d%s", httpPort, path), "application/json", bytes.NewReader(body))
	if err != nil {
		return 0, "", err
	}
	defer resp.Body.Close()
	b, _ := io.ReadAll(resp.Body)
	return resp.StatusCode, string(b), nil
}

func get(path string) (int, []byte, error) {
	c := &http.Client{Timeout: 20 * time.Second, Transport: &http.Transport{Proxy: nil}}
	resp, err := c.Get(fmt.Sprintf("http://127.0.0.1:%d%s", httpPort, path))
	if err != nil {
		return 0, nil, err
	}
	defer resp.Body.Close()
	b, _ := io.ReadAll(resp.Body)
	return resp.StatusCode, b, nil
}

// ban submits a second, different, validly signed authorization for d.
func (f *fake) ban(d *dev, why string) {
	c := d.auth
	c.Debt++
	c = c.Signed(f.gca.Priv)
	emit(event{"ev": "ban.begin", "id": d.id, "why": why})
	code, body, err := post("/api/v1/authorize-equipment", c.JSON())
	emit(event{"ev": "ban.end", "id": d.id, "status": code, "err": fmt.Sprint(err), "body": strings.TrimSpace(body)})
	if err == nil && code != 200 {
		d.banned = true
		f.bans.Add(1)
	}
}

func (f *fake) ServeHTTP(w http.ResponseWriter, r *http.Request) {
	if f.down.Load() {
		http.Error(w, "service unavailable", 503)
		return
	}
	switch r.URL.Path {
	case "/login":
		fmt.Fprintf(w, `{"token":"tok%d"}`, f.logins.Add(1))
	case "/v3/region-from-loc":
		f.regions.Add(1)
		f.mu.Lock()
		d := f.byLat[r.URL.Query().Get("latitude")]
		f.mu.Unlock()
		if d == nil {
			http.Error(w, "unknown location", 404)
			return
		}
		fmt.Fprintf(w, `{"region":"R%d"}`, d.id)
	case "/v3/historical":
		f.hist.Add(1)
		f.lastHist.Store(time.Now().UnixNano())
		q := r.URL.Query()
		f.mu.Lock()
		d := f.devs[q.Get("region")]
		f.mu.Unlock()
		start, err1 := time.Parse("2006-01-02T15:04:05Z", q.Get("start"))
		end, err2 := time.Parse("2006-01-02T15:04:05Z", q.Get("end"))
		if d == nil || err1 != nil || err2 != nil {
			// the index job's request (minute resolution, other layout) or an unknown region: one current point
			now := time.Now().UTC().Truncate(5 * time.Minute)
			fmt.Fprintf(w, `{"data":[{"point_time":"%s","value":1.5}],"meta":{}}`, now.Format("2006-01-02T15:04:05+00:00"))
			return
		}
		if f.holdJob.Load() != 0 && strings.TrimPrefix(r.Header.Get("Authorization"), "Bearer ") == fmt.Sprintf("tok%d", f.holdJob.Load()) && f.held.CompareAndSwap(false, true) {
			// weekrot: the first week-data request of one job waits until the window has rotated (or 6 s)
			emit(event{"ev": "weekrot.hold", "job": f.holdJob.Load(), "id": d.id})
			t0 := time.Now()
			for time.Since(t0) < 6*time.Second {
				if sp := f.srv.Load(); sp != nil && sp.VerifSnapshot(false).Offset != f.holdOffset.Load() {
					f.overlap.Store(true)
					break
				}
				time.Sleep(20 * time.Millisecond)
			}
			emit(event{"ev": "weekrot.release", "rotated_meanwhile": f.overlap.Load()})
		}
		if f.armed.Load() {
			f.weekReq.Add(1)
			f.mu.Lock()
			d.asked++
			first := d.asked == 1
			f.mu.Unlock()
			emit(event{"ev": "week.request", "id": d.id, "start": start.Unix(), "end": end.Unix()})
			if first {
				switch f.scenario {
				case "weekban":
					// the device whose data is being fetched is banned before the answer arrives
					if f.targets[d.id] {
						f.ban(d, "device of the pending week-data request")
					}
				case "weekban-other":
					// a device further down the job's list is banned meanwhile
					f.mu.Lock()
					var o *dev
					for _, x := range f.devs {
						if x != d && !x.banned && x.asked == 0 && (o == nil || x.id < o.id) {
							o = x
						}
					}
					f.mu.Unlock()
					if o != nil {
						f.ban(o, "device not yet visited by the week-data job")
					}
				}
			}
		}
		// one point per 5 minutes from start to end (at most 2016), value a function of device and index
		var sb strings.Builder
		sb.WriteString(`{"data":[`)
		var vals []float64
		n := 0
		for t := start; !t.After(end) && n < 2016; t = t.Add(5 * time.Minute) {
			// a function of device and absolute time: concurrent jobs (start-up call, rotation) write the same value for a slot
			v := fakeValue(d.id, (t.Unix()-glow.GenesisTime)/300)
			if n > 0 {
				sb.WriteByte(',')
			}
			fmt.Fprintf(&sb, `{"point_time":"%s","value":%s}`, t.Format("2006-01-02T15:04:05+00:00"), strconv.FormatFloat(v, 'g', -1, 64))
			vals = append(vals, v)
			n++
		}
		sb.WriteString(`],"meta":{"data_point_period_seconds":300,"region":"x","signal_type":"co2_moer","units":"lbs_co2_per_mwh"}}`)
		if f.armed.Load() {
			f.mu.Lock()
			d.values, d.start = vals, start.Unix()
			f.mu.Unlock()
		}
		io.WriteString(w, sb.String())
	default:
		http.Error(w, "no such endpoint", 404)
	}
}

// startFake: TLS service for api.watttime.org + CONNECT relay; sets the
// environment that routes the server's requests there.
func startFake(work string, f *fake) {
	caKey, err := ecdsa.GenerateKey(elliptic.P256(), crand.Reader)
	if err != nil {
		fatal("keygen: %v", err)
	}
	caT := &x509.Certificate{SerialNumber: big.NewInt(1), Subject: pkix.Name{CommonName: "verif test CA"}, NotBefore: time.Now().Add(-time.Hour), NotAfter: time.Now().Add(24 * time.Hour),
		IsCA: true, BasicConstraintsValid: true, KeyUsage: x509.KeyUsageCertSign | x509.KeyUsageDigitalSignature}
	caDER, err := x509.CreateCertificate(crand.Reader, caT, caT, &caKey.PublicKey, caKey)
	if err != nil {
		fatal("ca cert: %v", err)
	}
	caCert, _ := x509.ParseCertificate(caDER)
	leafKey, _ := ecdsa.GenerateKey(elliptic.P256(), crand.Reader)
	leafT := &x509.Certificate{SerialNumber: big.NewInt(2), Subject: pkix.Name{CommonName: "api.watttime.org"}, DNSNames: []string{"api.watttime.org"}, NotBefore: time.Now().Add(-time.Hour), NotAfter: time.Now().Add(24 * time.Hour),
		KeyUsage: x509.KeyUsageDigitalSignature, ExtKeyUsage: []x509.ExtKeyUsage{x509.ExtKeyUsageServerAuth}}
	leafDER, err := x509.CreateCertificate(crand.Reader, leafT, caCert, &leafKey.PublicKey, caKey)
	if err != nil {
		fatal("leaf cert: %v", err)
	}
	caPath := filepath.Join(work, "ca.pem")
	if err := os.WriteFile(caPath, pem.EncodeToMemory(&pem.Block{Type: "CERTIFICATE", Bytes: caDER}), 0644); err != nil {
		fatal("write ca: %v", err)
	}
	tlsLn, err := tls.Listen("tcp", "127.0.0.1:0", &tls.Config{Certificates: []tls.Certificate{{Certificate: [][]byte{leafDER}, PrivateKey: leafKey}}})
	if err != nil {
		fatal("tls listen: %v", err)
	}
	go http.Serve(tlsLn, f)
	proxyLn, err := net.Listen("tcp", "127.0.0.1:0")
	if err != nil {
		fatal("proxy listen: %v", err)
	}
	go http.Serve(proxyLn, http.HandlerFunc(func(w http.ResponseWriter, r *http.Request) {
		if r.Method != http.MethodConnect || r.Host != "api.watttime.org:443" {
			emit(event{"ev": "proxy.unexpected", "method": r.Method, "host": r.Host})
			http.Error(w, "only api.watttime.org", 502)
			return
		}
		up, err := net.Dial("tcp", tlsLn.Addr().String())
		if err != nil {
			http.Error(w, err.Error(), 502)
			return
		}
		hj, ok := w.(http.Hijacker)
		if !ok {
			up.Close()
			return
		}
		conn, _, err := hj.Hijack()
		if err != nil {
			up.Close()
			return
		}
		conn.Write([]byte("HTTP/1.1 200 Connection established\r\n\r\n"))
		go func() { io.Copy(up, conn); up.Close() }()
		go func() { io.Copy(conn, up); conn.Close() }()
	}))
	os.Setenv("SSL_CERT_FILE", caPath)
	os.Setenv("SSL_CERT_DIR", filepath.Join(work, "no-such-dir"))
	os.Setenv("HTTPS_PROXY", "http://"+proxyLn.Addr().String())
	os.Setenv("https_proxy", "http://"+proxyLn.Addr().String())
	os.Unsetenv("NO_PROXY")
	os.Unsetenv("no_proxy")
}

// ---------------------------------------------------------------- episode

// Main runs one episode: prodwt <workdir> <seed> <scenario>
// scenarios: control | weekban | weekban-other | life (see life.go)
func Main() {
	if len(os.Args) != 4 {
		fmt.Fprintln(os.Stderr, "usage: c12prod <workdir> <seed> <control|weekban|weekban-other>")
		os.Exit(2)
	}
	work := os.Args[1]
	seed, _ := strconv.ParseInt(os.Args[2], 10, 64)
	scenario := os.Args[3]
	rng := rand.New(rand.NewSource(seed))
	consts := server.VerifConsts()
	emit(event{"ev": "start", "scenario": scenario, "seed": seed, "consts": consts})

	if scenario == "clientlife" {
		emit(clientLifeEpisode(work, seed))
		return
	}
	f := &fake{scenario: scenario, devs: map[string]*dev{}, byLat: map[string]*dev{}, rng: rng}
	startFake(work, f)
	if scenario == "life" || scenario == "life-wtdown" {
		f.down.Store(scenario == "life-wtdown") // WattTime answers 503 to everything: nothing else may depend on it
		emit(lifeEpisode(work, seed, f))
		return
	}
	if scenario == "weekrot" {
		emit(weekRotEpisode(work, seed, f))
		return
	}
	if scenario == "crash-serve" {
		crashServe(work, seed) // never returns: the driver kills the process
	}
	if strings.HasPrefix(scenario, "crash-recover:") {
		var acked int
		var now0 uint32
		fmt.Sscanf(scenario, "crash-recover:%d:%d", &acked, &now0)
		emit(crashRecover(work, seed, acked, now0))
		return
	}

	dir := filepath.Join(work, "srv")
	if err := os.MkdirAll(filepath.Join(dir, "watttime_data"), 0755); err != nil {
		fatal("mkdir: %v", err)
	}
	temp := refenc.GenKey(rng)
	f.gca = refenc.GenKey(rng)
	os.WriteFile(filepath.Join(dir, "gcaTempPubKey.dat"), temp.Pub[:], 0644)
	os.WriteFile(filepath.Join(dir, "watttime_data", "username"), []byte("user\n"), 0644)
	os.WriteFile(filepath.Join(dir, "watttime_data", "password"), []byte("pass\n"), 0644)

	// ---- phase A: first start (catch-up from genesis to the wall clock with an empty fleet), registration, devices
	t0 := time.Now()
	emit(event{"ev": "phaseA.start"})
	s, err := server.NewGCAServer(dir)
	if err != nil {
		fatal("first start failed: %v", err)
	}
	snap := s.VerifSnapshot(false)
	emit(event{"ev": "phaseA.started", "ms": time.Since(t0).Milliseconds(), "offset": snap.Offset, "logins": f.logins.Load()})
	reg := refenc.Registration{GCAKey: f.gca.Pub}
	reg.Sig = refenc.Sign(temp.Priv, reg.SigningBytes())
	if code, body, err := post("/api/v1/register-gca", reg.JSON()); err != nil || code != 200 {
		fatal("registration failed: %d %v %s", code, err, body)
	}
	nDev := 3 + rng.Intn(3)
	var order []*dev
	for i := 0; i < nDev; i++ {
		k := refenc.GenKey(rng)
		id := uint32(1000*(i+1) + rng.Intn(900))
		a := refenc.Auth{ID: id, Pub: k.Pub, Lat: float64(i+1) * 1.5, Long: float64(i+1) * -2.25, Capacity: 1000000, Debt: 1, Expiration: math.MaxUint32, Initialization: 0, Fee: 1}.Signed(f.gca.Priv)
		if code, body, err := post("/api/v1/authorize-equipment", a.JSON()); err != nil || code != 200 {
			fatal("authorization failed: %d %v %s", code, err, body)
		}
		d := &dev{id: id, auth: a, key: k}
		f.devs[fmt.Sprintf("R%d", id)] = d
		f.byLat[strconv.FormatFloat(a.Lat, 'f', 6, 64)] = d
		order = append(order, d)
	}
	f.targets = map[uint32]bool{order[rng.Intn(nDev)].id: true}
	for _, d := range order {
		if rng.Intn(2) == 0 {
			f.targets[d.id] = true
		}
	}
	emit(event{"ev": "phaseA.devices", "n": nDev})
	if err := s.Close(); err != nil {
		fatal("close after phase A failed: %v", err)
	}

	// ---- phase B: restart; the start-up week-data job runs against the fake service, which interferes
	f.armed.Store(true)
	emit(event{"ev": "phaseB.start"})
	s, err = server.NewGCAServer(dir)
	if err != nil {
		fatal("restart failed: %v", err)
	}
	emit(event{"ev": "phaseB.started"})
	// The week-data job runs at start-up and, when a rotation is due (that depends on the day of the week
	// of the wall clock), once more in front of the rotation; each visits every listed device 250 ms apart.
	// Quiescence = every device was asked for at least once and no request arrived for 1.2 s. Because that
	// is a wall-clock criterion, a disagreement is only final when it persists over several later looks.
	res := event{"scenario": scenario, "devices": nDev}
	var problems []string
	var snap2 *server.VerifSnap
	for look := 0; look < 5; look++ {
		deadline := time.Now().Add(40 * time.Second)
		for time.Now().Before(deadline) {
			if f.weekReq.Load() >= int64(nDev) && time.Since(time.Unix(0, f.lastHist.Load())) > 1200*time.Millisecond {
				break
			}
			time.Sleep(50 * time.Millisecond)
		}
		if f.weekReq.Load() < int64(nDev) {
			fatal("the week-data jobs asked for %d of %d devices within 40 s", f.weekReq.Load(), nDev)
		}
		problems = nil
		mainFree, listFree := false, false
		for i := 0; i < 50 && !(mainFree && listFree); i++ {
			mainFree, listFree = s.VerifTryLock()
			if !(mainFree && listFree) {
				time.Sleep(20 * time.Millisecond)
			}
		}
		if !mainFree || !listFree {
			problems = append(problems, fmt.Sprintf("lock-held-after-week-job: main free=%v list free=%v over 1 s of probing", mainFree, listFree))
		}
		if code, _, err := get("/api/v1/equipment"); err != nil || code != 200 {
			problems = append(problems, fmt.Sprintf("liveness: GET equipment after the job: status %d err %v", code, err))
		}
		snap2 = s.VerifSnapshot(true)
		written, expected := 0, 0
		f.mu.Lock()
		for _, d := range order {
			imp := snap2.Impact[d.id]
			_, listed := snap2.Equipment[d.id]
			if d.banned {
				if listed || imp != nil {
					problems = append(problems, fmt.Sprintf("banned-device-still-tracked: id %d listed=%v impact=%v", d.id, listed, imp != nil))
				}
				continue
			}
			if !listed || imp == nil {
				problems = append(problems, fmt.Sprintf("device-lost: id %d listed=%v impact array=%v", d.id, listed, imp != nil))
				continue
			}
			// positive control: the values the fake answered are in the window at the positions of their times
			startSlot := (d.start - glow.GenesisTime) / 300
			for i, v := range d.values {
				idx := startSlot + int64(i) - int64(snap2.Offset)
				if idx < 0 || idx >= 4032 {
					continue
				}
				expected++
				if math.Float64bits(imp[idx]) == math.Float64bits(v*lbToG) {
					written++
				}
			}
		}
		f.mu.Unlock()
		res["impact_values_expected"] = expected
		res["impact_values_written"] = written
		res["looks"] = look + 1
		if expected > 0 && written != expected {
			problems = append(problems, fmt.Sprintf("week-data-not-written: %d of %d values answered for devices that stayed authorized are in the impact window", written, expected))
		}
		if len(problems) == 0 {
			break
		}
		time.Sleep(1500 * time.Millisecond)
	}
	res["result"] = "held"
	res["offset"] = snap2.Offset
	res["bans"] = f.bans.Load()
	res["logins"] = f.logins.Load()
	res["region_requests"] = f.regions.Load()
	res["historical_requests"] = f.hist.Load()
	res["week_requests"] = f.weekReq.Load()
	tc := time.Now()
	cerr := s.Close()
	res["close_ms"] = time.Since(tc).Milliseconds()
	if cerr != nil {
		problems = append(problems, "close: "+cerr.Error())
	}
	if len(problems) > 0 {
		res["result"] = "violated"
		res["problems"] = problems
	}
	emit(res)
}
