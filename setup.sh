#!/bin/bash
# Run once after a fresh restore, offline: warms the Go build cache for the
# harness (plain and race) so that the first check does not pay for it.
export GOFLAGS=-mod=mod GOPROXY=off GOSUMDB=off GOTOOLCHAIN=local
cd "$(dirname "$0")/harness" || exit 1
cp -n /repo/go.sum go.sum 2>/dev/null
go build -tags "test verif" -o /dev/null ./lib/... || exit 1
for d in cmd/*/; do
  go build -tags "test verif" -o /dev/null "./$d" || exit 1
done
go build -race -tags "test verif" -o /dev/null ./cmd/c01 || exit 1
echo setup ok
