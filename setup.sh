#!/bin/bash
# Run once after a fresh restore, offline: warms the Go build cache for the
# harness (plain and race variants) for every check registered in MANIFEST.json,
# so that the first check does not pay for compiling /repo and its dependencies.
export GOFLAGS=-mod=mod GOPROXY=off GOSUMDB=off GOTOOLCHAIN=local
ROOT=$(cd "$(dirname "$0")" && pwd)
cd "$ROOT/harness" || exit 1
go build -tags "test verif" -o /dev/null ./lib/... || exit 1
ids=$(jq -r '.checks[].property_id' "$ROOT/MANIFEST.json" | tr 'A-Z' 'a-z')
first=""
for id in $ids; do
  [ -d "cmd/$id" ] || { echo "missing cmd/$id"; exit 1; }
  go build -tags "test verif" -o /dev/null "./cmd/$id" || exit 1
  [ -z "$first" ] && first=$id
done
# production-tag builds (no test tag) used by C12/C13 (c12prod) and C20 (c20prod)
go build -tags verif -o /dev/null ./cmd/c12prod ./cmd/c20prod || exit 1
go build -race -tags verif -o /dev/null ./cmd/c12prod || exit 1
# race runtime + instrumented dependencies (shared by all race-variant children)
[ -n "$first" ] && { go build -race -tags "test verif" -o /dev/null "./cmd/$first" || exit 1; }
echo setup ok
