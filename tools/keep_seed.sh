#!/bin/bash
# usage: tools/keep_seed.sh <mutdir> <worktree> <seed-name>   (confirms, then stores under /verif/seeded/<seed-name>/)
set -u
M=$(readlink -f "$1"); WT=$2; NAME=$3
line=$(/verif/tools/confirm_seed.sh "$M" "$WT" | head -1)
echo "$line"
case "$line" in
  *"clean[pinned=ok demo=pass] patched[build=ok pinned=ok demo=fail]"*) ;;
  *) echo "NOT CONFIRMED - not kept"; exit 1;;
esac
D=/verif/seeded/$NAME
mkdir -p "$D"
cp "$M/patch.diff" "$D/patch.diff"
for f in "$M"/*; do case "$(basename $f)" in patch.diff|meta.json) ;; *) cp -r "$f" "$D/";; esac; done
jq --arg c "$line" --arg w "$WT" '. + {confirmed: $c, confirmed_how: ("tools/confirm_seed.sh in scratch worktree " + $w + ": clean tree -> pinned suite (go test ./glow) ok and demo passes; patched tree -> go build with no tags / -tags test / -tags \"test verif\" ok, pinned suite ok, demo fails"), demo_note: "demo_cmd paths refer to the scratch worktree used at confirmation time; substitute any clean worktree of /repo"}' "$M/meta.json" > "$D/meta.json"
echo "kept $D"
