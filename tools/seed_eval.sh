#!/bin/bash
# usage: tools/seed_eval.sh <seed-name> [check ids…]   default check = the seed's own property
# Runs the checks' quick tier against the seeded change and stores the outcome in seeded/<name>/eval.txt
N=$1; shift
D=/verif/seeded/$N
prop=$(jq -r .property $D/meta.json)
[ $# -eq 0 ] && set -- $prop
out=$(/verif/tools/seedrun.sh $D/patch.diff "$@" 2>&1)
echo "$out" | sed "s/^/$N: /"
{ echo "# $(date -u +%FT%TZ) repo=$(git -C /repo rev-parse --short HEAD) verif=$(git -C /verif rev-parse --short HEAD)"; echo "$out"; } >> $D/eval.txt
