#!/usr/bin/env python3
"""Per round: how many seeded changes were caught by the check of their own property at its FIRST
evaluation, how many by any check at any time, how many are caught now (latest result per check)."""
import os, re, glob, collections
def rnd(name):
    s=name.split('-')[1]
    return {'B':2,'C':3,'D':4,'E':5}.get(s[0],1)
st=collections.defaultdict(lambda: collections.Counter())
miss=collections.defaultdict(list)
for d in sorted(glob.glob('/verif/seeded/*/')):
    name=os.path.basename(d.rstrip('/')); own=name.split('-')[0]; r=rnd(name)
    first_own=None; last={}
    if os.path.exists(d+'eval.txt'):
        for l in open(d+'eval.txt'):
            m=re.match(r'^(C\d+) rc=(\d+) ', l)
            if not m: continue
            c,rc=m.group(1),m.group(2)
            if c==own and first_own is None: first_own=rc
            last[c]=rc
    st[r]['seeds']+=1
    st[r]['own_first']+= first_own=='1'
    st[r]['own_now']+= last.get(own)=='1'
    anyc = any(v=='1' for v in last.values())
    st[r]['any_now']+= anyc
    if not anyc: miss[r].append(name)
for r in sorted(st):
    s=st[r]; print(f"round {r}: {s['seeds']} seeds; own check at first evaluation {s['own_first']}; own check now {s['own_now']}; some check now {s['any_now']}; not caught: {' '.join(miss[r]) or '-'}")
