#!/usr/bin/env python3
"""Regenerates /verif/MANIFEST.json from the table below (single source of truth)."""
import json, os, subprocess
ROOT = os.path.dirname(os.path.dirname(os.path.abspath(__file__)))
ALL = ["C%02d" % i for i in range(1, 21)]

# id -> (category, technique, level text, level note, design ref)
CHECKS = {
 "C01": ("exploration", "runtime monitor: snapshot-diff oracle + reference acceptability predicate and slot model over generated datagrams x (clock, window) configurations, real server in child processes",
         "Every generated datagram (classes: random, bit flips, field swaps, re-signings under every other key, wrong signing bytes, boundary slots, sentinels, unknown/banned ids, truncated/padded, positive controls) is delivered to the real server at each (now, offset) configuration; a full state snapshot under the server's own lock before and after plus the report log bytes are compared with what an independent reference predicate and slot model allow. Held = no unacceptable datagram changed any observable and every acceptable one had exactly the model's effect, on the executions run.",
         "Trusts go-ethereum's secp256k1 verification, the verif-tag snapshot accessor (cross-checked against the public sync/recent-reports/stats surfaces), and that gated background jobs do nothing. Sampled input space, not exhaustive.",
         "DESIGN.md §4 C01"),
}
NOT_YET = "check not built yet in this round (planned, see DESIGN.md §4); not claimed until it exists and is silent on the unchanged tree"

def main():
    hooks_commit = subprocess.run(["git", "-C", "/repo", "log", "--format=%H", "--grep=^verif:", "-n", "5"], capture_output=True, text=True).stdout.split()
    checks = []
    for cid in ALL:
        if cid not in CHECKS:
            continue
        cat, tech, text, note, ref = CHECKS[cid]
        checks.append({
            "property_id": cid,
            "quick_cmd": "./check %s quick" % cid,
            "thorough_cmd": "./check %s thorough" % cid,
            "evidence_file": "/verif/evidence/%s.json" % cid,
            "replay_cmd_template": "./check %s --replay {path}" % cid,
            "engine": "vcheck",
            "level_claimed": {"category": cat, "text": text, "design_ref": ref},
            "level_note": note,
            "technique": tech,
        })
    m = {
        "version": 1,
        "setup_cmd": "./setup.sh",
        "hooks": {
            "guard": "verif",
            "enable": "go build -tags 'test verif' (children of every check; C20 additionally builds with -tags verif only); the harness module replaces github.com/glowlabs-org/gca-backend with /repo, so every check rebuilds from /repo's working tree",
            "baseline_off_cmd": "cd /repo && GOFLAGS=-mod=mod GOPROXY=off GOSUMDB=off go test -json -vet=off -count=1 -timeout 25m ./...",
            "source_commits": hooks_commit,
            "add_only": True,
        },
        "engines": [{"name": "vcheck", "path": "/verif/harness", "serves_properties": sorted(CHECKS), "kind_free_text": "Go harness: one main package per property under harness/cmd; parent spawns child processes hosting the real server/client built from /repo with tags 'test verif' (race/asan/cover variants where stated); oracles = reference models, snapshot differ, porcupine, race detector, process-level observation"}],
        "checks": checks,
        "not_applicable": [{"property_id": c, "reason": NOT_YET} for c in ALL if c not in CHECKS],
        "notes": "Verdicts are three-valued: exit 0 held on what was observed, exit 1 + VIOLATION line, exit 3 inconclusive (a monitor observed too little / watchdog) - never folded into the other two. Known findings: /verif/known_findings.json.",
    }
    json.dump(m, open(os.path.join(ROOT, "MANIFEST.json"), "w"), indent=1)
    print("wrote MANIFEST.json with", len(checks), "checks")

if __name__ == "__main__":
    main()
