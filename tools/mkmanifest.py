#!/usr/bin/env python3
"""Regenerates /verif/MANIFEST.json from the table below (single source of truth)."""
import json, os, subprocess
ROOT = os.path.dirname(os.path.dirname(os.path.abspath(__file__)))
ALL = ["C%02d" % i for i in range(1, 21)]

# id -> (category, technique, level text, level note, design ref)
CHECKS = {
 "C01": ("exploration", "runtime monitor: snapshot-diff oracle + reference acceptability predicate and slot model over generated datagrams x (clock, window) configurations, real server in child processes",
         "Every generated datagram (classes: random, bit flips, field swaps, re-signings under every other key, wrong signing bytes, boundary slots, sentinels, unknown/banned ids, truncated/padded, positive controls) is delivered to the real server at each (now, offset) configuration; a full state snapshot under the server's own lock before and after plus the report log bytes are compared with what an independent reference predicate and slot model allow. Held = no unacceptable datagram changed any observable and every acceptable one had exactly the model's effect, on the executions run.",
         "Trusts go-ethereum's secp256k1 verification, the verif-tag snapshot accessor (cross-checked against the public sync/recent-reports/stats surfaces), and that gated background jobs do nothing. Sampled input space, not exhaustive.",
         "DESIGN.md §4 C01"),
 "C02": ("exploration", "runtime monitor: exhaustive short report sequences + permutation classes + random interleavings + socket bursts on a live server, judged by a set-valued slot model and the snapshot differ",
         "Every sequence of acceptable reports of length <= 4 (thorough <= 5) over 6 (7) letters (value, re-signed same content, other value, capacity limit, limit+1, 2^63-1, 2^63) is run on a fresh slot of the real server and judged after every delivery against a model that is a function of the SET of 80-byte reports (a re-signed copy is a distinct report); all permutations of all multisets <= 4 over 10 letters must coincide; random interleavings over 3 devices x 6 slots, back-to-back socket bursts under concurrent load and one -race batch judge final values and 'nothing else changed' (stats, recent-reports, sync bit, snapshot). Exhaustive only for the stated short-sequence space; capacities >= 2^64/135 are out of the input domain.",
         "Trusts lib/refenc and go-ethereum crypto, the VerifSlot/VerifSnapshot accessors (cross-checked against stats, recent-reports and sync on a sample), gated background jobs.",
         "DESIGN.md §4 C02"),
 "C06": ("exploration", "runtime monitor: model-based operation sequences through the JSON endpoint with per-operation full-state, file and surface comparison",
         "64 (thorough 3000) random sequences of about 36 authorizations (valid, 8 bad-signature kinds, duplicates, conflicts in each field, conflicts carrying a fresh / another device's / a banned device's / the GCA key, banned ids), reports and restarts per server; after every operation the device table, public-key index, ban set, slots, the append-only authorization file, GET /equipment (bit-exact floats), sync, live stats and the archived week are compared with a reference model, and CheckInvariants runs under recover. By-key recent-reports lookups are complete after restarts and at sequence end, sampled otherwise. Re-signed duplicates may be treated as duplicate or conflict (both accepted, counted).",
         "Trusts refenc encoders and crypto, the snapshot accessor, HTTP status classes as stated in the evidence assumptions.",
         "DESIGN.md §4 C06"),
 "C03": ("exploration", "runtime monitor: gated real rotations + snapshot / reference-encoding oracles over generated report/ban/rotation/restart/query histories",
         "Every rotation executed (background and 1-3 week start-up catch-up) is judged slot- and bit-exactly against a snapshot taken at the hook just before it and an independent report model; label, contiguity from week 0, signature and allDeviceStats.dat are checked against reference encodings. Every archived week is re-fetched after every later operation of every kind and must stay identical to its first response (also after insert_false_negatives requests). Live, future and misaligned weeks and insert_false_negatives responses are judged per request. Histories are sampled (40 quick / 1500 thorough, up to 200 devices and 8 weeks).",
         "Trusts the hooks VerifSnapshot, migrate.beforeLock/migrate.done and gates, lib/refenc layouts, go-ethereum crypto, the test-mode clock. Impact values are only conserved, never predicted; the WattTime week-data path is dead in test builds.",
         "DESIGN.md §4 C03"),
 "C04": ("exploration", "runtime monitor: restart-after-every-prefix snapshot equivalence with model catch-up rotations",
         "After every prefix of generated and scripted histories the real server is closed and started twice; both post-states must equal R(pre-state) on all persisted sections incl. full 80-byte slot records and the ordered archive; catch-up records are judged against the model record and the archive file against reference bytes; public endpoints are cross-checked against the snapshot. 0/1/2/3 catch-up rotations, a never-registered server, a banned device with reports on disk and every conflict kind are required to occur. Histories are sampled.",
         "Restart = Close + NewGCAServer in one process (crash recovery is C05). Impact, server list, migration orders and recent lists are excluded as not persisted by design.",
         "DESIGN.md §4 C04"),
 "C05": ("fault_enumeration", "fault enumeration: strace syscall-entry SIGKILL at every file-syscall boundary of every operation, op-boundary and random-instant SIGKILL, kill aimed inside the stats-record write; restart oracle in a fresh process against reference load and operation models",
         "For generated histories (first start, registration, authorizations incl. conflicts, reports incl. equivocation/over-capacity, rotations, restarts) the real server in a victim process is killed at every boundary between system calls on its five files (enumerated from a traced census; the achieved point is read back from the strace log), at every operation boundary, at PRNG instants of a concurrent workload, and inside the multi-page write of a statistics record. After each crash a fresh process restarts the server and requires: start succeeds; state = state decoded from the files = model(P) for acked <= P <= acked + in-flight; no partial registration/authorization/ban/rotation; registration possible iff absent and the registered key honoured; probe ops work; further restarts idempotent. Kills inside an 80/148-byte record write straddling a page boundary are not reachable.",
         "Process-crash model only (kernel keeps completed syscalls; power loss out of scope). Trusts strace/ptrace SIGKILL-at-syscall-entry semantics, the verif snapshot accessor, go-ethereum verification.",
         "DESIGN.md §4 C05"),
 "C07": ("exploration", "runtime monitoring: sequential model + porcupine linearizability on client-boundary histories; race detector with delay injection at the handlers that read the GCA key",
         "On every executed history - 30/400 sequential histories with restarts and crash-residue starts, 40/2000 concurrent batches of 2-32 competing valid registrations (overlap measured; half held at a barrier inside the handler) and 6/30 delay-injection cells - the answers of register-gca, authorize-equipment, authorized-servers and equipment-migrate must be linearizable with respect to the model state in {unset, K}; exactly one registration is answered 200; gcaPubKey.dat, the in-memory key and every listed equipment/server/migration match that key, also across restarts; the race detector must report nothing on the GCA key. Histories and schedules are sampled; the race verdict holds only for the interleavings the hooks and stress produced; durability at crash points is C05's.",
         "Trusts go-ethereum secp256k1 verify, refenc encodings, porcupine v1.3.0 with a partition function argued in the code and cross-checked against the unpartitioned model, VerifSnapshot under the server's own lock, Go's race detector (cgo calls act as global sync points, so a read->Verify->write ordering cannot be reported; the opposite direction is).",
         "DESIGN.md §4 C07"),
 "C09": ("exploration", "runtime monitor: wire capture at a UDP sink + history.dat byte monitor over random energy-file edit/restart histories (logical tick clock); model-based test of the history store with direct 64-bit-offset file reads",
         "For every generated scenario (sequence of energy-file versions produced by random edits, with client restarts) all datagrams captured per timeslot with power outside {0,1} must be byte-identical, verify under the device key and carry the reference value of the slot's first accepted reading; history.dat is read after every step (header constant, non-zero cells immutable and equal to a first reading). The history store is driven with (timeslot, value) pairs up to 2^32-1 incl. the 32-bit-offset wrap zone against a map model with header, touched-cell, alias-cell and whole-file checks. Held = no violation other than the two registered 32-bit-history findings on the executions run; only emitted datagrams are judged, sync retransmission is C08's.",
         "Trusts lib/efref (independent reference of the energy-file rule, its CSV splitter validated offline against encoding/csv on 4.7M inputs), go-ethereum signature verification, loopback UDP (a lost datagram is simply unjudged), client.VerifTicks as the logical clock.",
         "DESIGN.md §4 C09"),
 "C16": ("exploration", "runtime monitor: differential oracle of the real energy-file reader and the datagrams of free-running clients against an independent reference (own CSV splitter, exact big-number truncation) over generated files x calibration files",
         "On every generated (calibration, file) pair the real client's reader output is compared with an independent reference: exact list equality for well-formed CSV, exact prefix + soundness after a CSV-level error, crash-freedom only for NaN/Inf/overflow/zero divider. Calibration files: read-back bit-equality, malformed -> error not crash. Every datagram the free-running clients emit must verify under the client key and carry a rule-derived (slot, value). Rows 2^32 s or more after genesis must be skipped or land in their true slot. ~16k files quick, ~300k thorough; sampled by class.",
         "Trusts strconv.ParseFloat as the definition of 'is a float', go-ethereum verification, verif-tag accessors, amd64 float->uint64 semantics for negatives.",
         "DESIGN.md §4 C16"),
 "C18": ("exploration", "model-based runtime monitoring of generated op histories on the real EventLogger + race-detector stress batch",
         "Each of ~19k (quick) / ~212k (thorough) generated histories of Printf / ExpireLogs / DumpLogEntries is replayed against the real EventLogger; after each operation the dump is compared with an independent reference model: size bound, truncation, newest-line retention, no eviction when the line fits (accounting after expiry), exact least-recently-updated-prefix eviction, dump order. Expiration cuts are placed relative to timestamps learned from the dump, no clock value is predicted. Concurrent use by 8 goroutines is checked for bound, panics and data races only. Sampled histories; equal-timestamp ties are handled soundly but did not occur.",
         "Trusts fmt.Sprintf, time.Time comparisons / Go monotonic clock, the Go race detector, and the harness model (validated on 15 mutants incl. the revert of the event-log fix).",
         "DESIGN.md §4 C18"),
 "C19": ("exploration", "interval-arithmetic runtime monitoring of concurrent schedules on the real RateLimiter (race and plain builds) + the real /archive endpoint",
         "For all 24 (limit, window) configurations, six arrival patterns and 1-64 callers every Allow() call is bracketed by monotonic clock reads and judged with interval arithmetic: only certain over-admission (limit+1 admitted calls certainly inside one window) and certain starvation (a rejection with fewer than limit possibly-preceding admissions under the widest reading of 'window') are reported; ~98% of decisions were certain. Boundary effects smaller than the call intervals are undecidable by construction. Schedules are sampled.",
         "Trusts CLOCK_MONOTONIC to be consistent across CPUs within 2 us, the race detector, lib/drv for the endpoint sub-check.",
         "DESIGN.md §4 C19"),
 "C08": ("fault_enumeration", "runtime monitor: lossy UDP relay + faulty TCP proxy between the real client and the real server, bounded-eventually oracle on snapshot, sync bitfield and wire bytes",
         "Every sampled fault scenario (per-datagram drop/deliver/duplicate/delay/reorder, per-connection sync failures refuse/reset/short/garble, decoy servers, rotation, server restart) and, in thorough, exhaustively all 4096 original-loss x retransmission-loss patterns for 6 slots, must end after one completed fault-free round with a server record for every in-window, in-range slot the client's history holds, byte-identical datagrams per slot as seen on the wire, and no banned slot. 'Eventually' is decided in this bounded form only; readings beyond 32 signed bits and conflicting rows are out of scope (C09).",
         "Trusts the harness relay/proxy accounting, the refenc reply parser, history.dat read by layout, the server snapshot accessor; loopback UDP loss makes a scenario inconclusive, never violated.",
         "DESIGN.md §4 C08"),
 "C10": ("exploration", "runtime monitor: independent reply parser vs server snapshot on real TCP replies; relay that rewrites replies into the real client parser; state/file diff around full sync rounds",
         "For each generated server state (window-edge and banned slots, offsets 0/2016/4032 by real rotations, 0..6 GCA-signed servers, optional migration order with 0..4 servers) the reply bytes are parsed by an independent decoder and compared bit-exactly with the server snapshot and the posted data, and the real client parser must return the same parse; unknown/banned ids must get the one-byte refusal. Every rewritten reply (bit flips, truncations, extensions, foreign re-signings, and altered content validly re-signed with the contacted server's own key incl. timestamps at 24h +- 10min) is judged by rules written from the property text; sampled classes also run a full round with client state and files compared. Exhaustive bit flips only in thorough for replies <= 2000 bytes; the 24 h bound is decided only outside +-10 min.",
         "Trusts go-ethereum secp256k1/Keccak, the verif snapshot and VerifServerSync wrapper, gated background jobs, the parked client report loop.",
         "DESIGN.md §4 C10"),
 "C11": ("fault_enumeration", "runtime monitor: rogue sync servers holding real keys, enumeration of per-attempt outcomes, validly re-signed reply mutations, goroutine-snapshot lock probe, block coverage of the client's locking code",
         "All 3905 outcome assignments {refused, reset, short read, bad signature, success} for 1..5 servers plus all-banned configurations (thorough; 200 sampled in quick) and ~24000 reply byte strings (750 quick) including validly re-signed malformed replies must never crash the client, never leave its mutex held after a round, never stop report emission or later sync attempts (tick-bounded), never produce a dial to a server the client has been told is banned, and never lose a ban in memory, on disk or across restart. Lock-path claims hold for the executed blocks (67 of 77; the rest are listed error paths). Servers that hold a connection open forever are not covered.",
         "Trusts the rogue's dial accounting by request id, the Go runtime's goroutine dump as holder-existence evidence, refenc map/reply parsers, go tool covdata.",
         "DESIGN.md §4 C11"),
 "C12": ("exploration", "runtime monitor: process-death / handler-panic witness + per-input liveness triple + lock probe + goroutine-dump-judged shutdown over generated datagram/TCP/HTTP inputs x clock values x peer faults; race and asan child variants",
         "Every generated input is delivered to the real server in child processes: C01 datagram classes plus window-edge reports at every now-offset in 3568..4032 and beyond two windows, the same during start-up catch-up (hook migrate.catchup), sync requests of all length/id/idle classes, the route x method x query x body matrix incl. GCA-signed extremes and unserializable values, authorizations with peers down/resetting/garbling, shutdown with held connections. Held = no process death, no 'http: panic serving', no AddressSanitizer report (thorough), the liveness triple answered after every input, both mutexes free at quiescence, every Close() returned. A blocked shutdown is a violation only for the idle-sync-reader pattern seen in two goroutine dumps. Sampled input space.",
         "Trusts the verif hooks, the refenc sync parser, Go's goroutine dump. Never executed: the weekly WattTime job (no-op in test builds), geo-stats past its external fetch, peers that accept and never answer.",
         "DESIGN.md §4 C12"),
 "C13": ("exploration", "race-detector delay-injection matrix + gap interleavings against a sequential model + porcupine linearizability + lock probe / goroutine-dump classification, on the real server under -race",
         "For every hook site x operation cell (22 sites x 17 operations) the interfering operation runs to completion while the hooked goroutine stands still without synchronising; the Go race detector must report nothing on the real server. An operation injected synchronously into each of 10 between-critical-section gaps must leave the process alive, both mutexes free, the invariants intact and the state equal to the sequential model in the imposed order. Recorded concurrent histories incl. rotation must be linearizable (porcupine), and all 171 operation-kind pairs overlap under 8-64 goroutines with the real rotation and impact jobs running. Only executed paths are decided (159 of 203 blocks of the locking functions, listed in evidence); lock ORDER is seen only through deadlock; the weekly WattTime job is never executed.",
         "Trusts the Go race detector (happens-before; blind where a later correct lock orders the accesses, and across cgo calls), porcupine v1.3.0, lib/refenc with go-ethereum signatures, the Verif* accessors and hook sites of server/verif_on.go.",
         "DESIGN.md §4 C13"),
 "C15": ("exploration", "differential runtime check: real encoders/decoders/Sign/Verify and real JSON endpoints vs independent reference encodings and go-ethereum; generated and boundary values, all-bit-flip Verify sweeps",
         "Every generated value of the seven structures is encoded, decoded and reduced to signing bytes by the repository's functions and compared byte-exactly with encodings written from the documented layouts; wrong lengths, single-field perturbations and cross-type collisions are judged on the actual bytes. Sign is compared with go-ethereum's deterministic signature, twice in-process and across two processes; every bit of signing bytes, signature and key is flipped for a sample of messages. Authorizations travel through the real POST/GET endpoints, the server's own forwarding to a peer, the file and a restart, bit-exact for all finite float classes. The value space is sampled.",
         "Trusts lib/refenc (DESIGN Appendix A), go-ethereum crypto, Go's strconv/encoding/json. The stats decoder is never fed a garbage device count (out of domain, DESIGN §6).",
         "DESIGN.md §4 C15"),
 "C17": ("exploration", "runtime monitor: per-post list differ against GCA-signature rules on a real server; set-valued merge/migration model over sync rounds of a real client fed by a harness-held trusted server; state-vs-files and restart equality",
         "Generated post sequences (new, changed duplicate, re-signed, ban, second ban, three un-ban forms, eight bad-signature forms, pre-registration) are observed through GET and the snapshot after every post; generated reply sequences (lists, duplicates inside a list, bad entries, unauthentic replies, migration orders valid/outer-invalid/inner-wrong/other-device/to-current-GCA with 0..4 servers) drive a real client whose state accessor and three files must agree with each other and with the allowed-state model, also across restarts. The order of 'write files' and 'adopt' is not observable without crashes and is not claimed.",
         "Trusts go-ethereum crypto, VerifState/VerifSyncOnce, the parked report loop, unreachable locations by construction.",
         "DESIGN.md §4 C17"),
 "C20": ("exploration", "production-tag probe binary (exhaustive conversion sweep, constants, clock bracketing) + behavioural measurement of window constants on the real server with gated jobs + integer-rule oracle at uint32 extremes",
         "A binary built WITHOUT the test tag runs the production genesis, CurrentTimeslot and conversion code: every unix time in [G, G+2^32-1] (thorough: exhaustive; quick: boundary and stride sweep) is compared with integer arithmetic on the documented genesis, pre-genesis times must be refused, production constants are exported. On the test build half-width, window, rotation trigger and start-up threshold are measured from accept/rotate behaviour and every probe, incl. offsets near 2^32 reached by a pre-seeded signed record, must equal |slot-now| <= 432 and offset <= slot < offset+4032 over the integers. The parent checks trigger + ceil(production period/300 s) + half-width < window.",
         "Behavioural numbers come from the test-tag build (same arithmetic source files, different clock/constants files); a gated loop iteration is assumed equal to an ungated one; high offsets are reached through trusted disk state; trusts verif accessors.",
         "DESIGN.md §4 C20"),
}
NOT_YET = "check not built yet in this round (planned, see DESIGN.md §4); not claimed until it exists and is silent on the unchanged tree"

def main():
    hooks_commit = subprocess.run(["git", "-C", "/repo", "log", "--format=%H", "--grep=^verif:", "-n", "5"], capture_output=True, text=True).stdout.split()
    checks = []
    for cid in ALL:
        if cid not in CHECKS:
            continue
        cat, tech, text, note, ref = CHECKS[cid]
        checks.append({
            "property_id": cid,
            "quick_cmd": "./check %s quick" % cid,
            "thorough_cmd": "./check %s thorough" % cid,
            "evidence_file": "/verif/evidence/%s.json" % cid,
            "replay_cmd_template": "./check %s --replay {path}" % cid,
            "engine": "vcheck",
            "level_claimed": {"category": cat, "text": text, "design_ref": ref},
            "level_note": note,
            "technique": tech,
        })
    m = {
        "version": 1,
        "setup_cmd": "./setup.sh",
        "hooks": {
            "guard": "verif",
            "enable": "go build -tags 'test verif' (children of every check; C20 additionally builds with -tags verif only); the harness module replaces github.com/glowlabs-org/gca-backend with /repo, so every check rebuilds from /repo's working tree",
            "baseline_off_cmd": "cd /repo && GOFLAGS=-mod=mod GOPROXY=off GOSUMDB=off go test -json -vet=off -count=1 -timeout 25m ./...",
            "source_commits": hooks_commit,
            "add_only": True,
        },
        "engines": [{"name": "vcheck", "path": "/verif/harness", "serves_properties": sorted(CHECKS), "kind_free_text": "Go harness: one main package per property under harness/cmd; parent spawns child processes hosting the real server/client built from /repo with tags 'test verif' (race/asan/cover variants where stated); oracles = reference models, snapshot differ, porcupine, race detector, process-level observation"}],
        "checks": checks,
        "not_applicable": [{"property_id": c, "reason": NOT_YET} for c in ALL if c not in CHECKS],
        "notes": "Verdicts are three-valued: exit 0 held on what was observed, exit 1 + VIOLATION line, exit 3 inconclusive (a monitor observed too little / watchdog) - never folded into the other two. Known findings: /verif/known_findings.json.",
    }
    json.dump(m, open(os.path.join(ROOT, "MANIFEST.json"), "w"), indent=1)
    print("wrote MANIFEST.json with", len(checks), "checks")

if __name__ == "__main__":
    main()
