#!/usr/bin/env python3
"""Regenerates /verif/MANIFEST.json from the table below (single source of truth)."""
import json, os, subprocess
ROOT = os.path.dirname(os.path.dirname(os.path.abspath(__file__)))
ALL = ["C%02d" % i for i in range(1, 21)]

# id -> (category, technique, level text, level note, design ref)
CHECKS = {
 "C01": ("exploration", "runtime monitor: snapshot-diff oracle + reference acceptability predicate and slot model over generated datagrams x (clock, window) configurations, real server in child processes",
         "Every generated datagram (classes: random, bit flips, field swaps, re-signings under every other key, wrong signing bytes, boundary slots, sentinels, unknown/banned ids, truncated/padded, positive controls) is delivered to the real server at each (now, offset) configuration; a full state snapshot under the server's own lock before and after plus the report log bytes are compared with what an independent reference predicate and slot model allow. Held = no unacceptable datagram changed any observable and every acceptable one had exactly the model's effect, on the executions run.",
         "Trusts go-ethereum's secp256k1 verification, the verif-tag snapshot accessor (cross-checked against the public sync/recent-reports/stats surfaces), and that gated background jobs do nothing. Sampled input space, not exhaustive.",
         "DESIGN.md §4 C01"),
 "C09": ("exploration", "runtime monitor: wire capture at a UDP sink + history.dat byte monitor over random energy-file edit/restart histories (logical tick clock); model-based test of the history store with direct 64-bit-offset file reads",
         "For every generated scenario (sequence of energy-file versions produced by random edits, with client restarts) all datagrams captured per timeslot with power outside {0,1} must be byte-identical, verify under the device key and carry the reference value of the slot's first accepted reading; history.dat is read after every step (header constant, non-zero cells immutable and equal to a first reading). The history store is driven with (timeslot, value) pairs up to 2^32-1 incl. the 32-bit-offset wrap zone against a map model with header, touched-cell, alias-cell and whole-file checks. Held = no violation other than the two registered 32-bit-history findings on the executions run; only emitted datagrams are judged, sync retransmission is C08's.",
         "Trusts lib/efref (independent reference of the energy-file rule, its CSV splitter validated offline against encoding/csv on 4.7M inputs), go-ethereum signature verification, loopback UDP (a lost datagram is simply unjudged), client.VerifTicks as the logical clock.",
         "DESIGN.md §4 C09"),
 "C16": ("exploration", "runtime monitor: differential oracle of the real energy-file reader and the datagrams of free-running clients against an independent reference (own CSV splitter, exact big-number truncation) over generated files x calibration files",
         "On every generated (calibration, file) pair the real client's reader output is compared with an independent reference: exact list equality for well-formed CSV, exact prefix + soundness after a CSV-level error, crash-freedom only for NaN/Inf/overflow/zero divider. Calibration files: read-back bit-equality, malformed -> error not crash. Every datagram the free-running clients emit must verify under the client key and carry a rule-derived (slot, value). Rows 2^32 s or more after genesis must be skipped or land in their true slot. ~16k files quick, ~300k thorough; sampled by class.",
         "Trusts strconv.ParseFloat as the definition of 'is a float', go-ethereum verification, verif-tag accessors, amd64 float->uint64 semantics for negatives.",
         "DESIGN.md §4 C16"),
 "C18": ("exploration", "model-based runtime monitoring of generated op histories on the real EventLogger + race-detector stress batch",
         "Each of ~19k (quick) / ~212k (thorough) generated histories of Printf / ExpireLogs / DumpLogEntries is replayed against the real EventLogger; after each operation the dump is compared with an independent reference model: size bound, truncation, newest-line retention, no eviction when the line fits (accounting after expiry), exact least-recently-updated-prefix eviction, dump order. Expiration cuts are placed relative to timestamps learned from the dump, no clock value is predicted. Concurrent use by 8 goroutines is checked for bound, panics and data races only. Sampled histories; equal-timestamp ties are handled soundly but did not occur.",
         "Trusts fmt.Sprintf, time.Time comparisons / Go monotonic clock, the Go race detector, and the harness model (validated on 15 mutants incl. the revert of the event-log fix).",
         "DESIGN.md §4 C18"),
 "C19": ("exploration", "interval-arithmetic runtime monitoring of concurrent schedules on the real RateLimiter (race and plain builds) + the real /archive endpoint",
         "For all 24 (limit, window) configurations, six arrival patterns and 1-64 callers every Allow() call is bracketed by monotonic clock reads and judged with interval arithmetic: only certain over-admission (limit+1 admitted calls certainly inside one window) and certain starvation (a rejection with fewer than limit possibly-preceding admissions under the widest reading of 'window') are reported; ~98% of decisions were certain. Boundary effects smaller than the call intervals are undecidable by construction. Schedules are sampled.",
         "Trusts CLOCK_MONOTONIC to be consistent across CPUs within 2 us, the race detector, lib/drv for the endpoint sub-check.",
         "DESIGN.md §4 C19"),
}
NOT_YET = "check not built yet in this round (planned, see DESIGN.md §4); not claimed until it exists and is silent on the unchanged tree"

def main():
    hooks_commit = subprocess.run(["git", "-C", "/repo", "log", "--format=%H", "--grep=^verif:", "-n", "5"], capture_output=True, text=True).stdout.split()
    checks = []
    for cid in ALL:
        if cid not in CHECKS:
            continue
        cat, tech, text, note, ref = CHECKS[cid]
        checks.append({
            "property_id": cid,
            "quick_cmd": "./check %s quick" % cid,
            "thorough_cmd": "./check %s thorough" % cid,
            "evidence_file": "/verif/evidence/%s.json" % cid,
            "replay_cmd_template": "./check %s --replay {path}" % cid,
            "engine": "vcheck",
            "level_claimed": {"category": cat, "text": text, "design_ref": ref},
            "level_note": note,
            "technique": tech,
        })
    m = {
        "version": 1,
        "setup_cmd": "./setup.sh",
        "hooks": {
            "guard": "verif",
            "enable": "go build -tags 'test verif' (children of every check; C20 additionally builds with -tags verif only); the harness module replaces github.com/glowlabs-org/gca-backend with /repo, so every check rebuilds from /repo's working tree",
            "baseline_off_cmd": "cd /repo && GOFLAGS=-mod=mod GOPROXY=off GOSUMDB=off go test -json -vet=off -count=1 -timeout 25m ./...",
            "source_commits": hooks_commit,
            "add_only": True,
        },
        "engines": [{"name": "vcheck", "path": "/verif/harness", "serves_properties": sorted(CHECKS), "kind_free_text": "Go harness: one main package per property under harness/cmd; parent spawns child processes hosting the real server/client built from /repo with tags 'test verif' (race/asan/cover variants where stated); oracles = reference models, snapshot differ, porcupine, race detector, process-level observation"}],
        "checks": checks,
        "not_applicable": [{"property_id": c, "reason": NOT_YET} for c in ALL if c not in CHECKS],
        "notes": "Verdicts are three-valued: exit 0 held on what was observed, exit 1 + VIOLATION line, exit 3 inconclusive (a monitor observed too little / watchdog) - never folded into the other two. Known findings: /verif/known_findings.json.",
    }
    json.dump(m, open(os.path.join(ROOT, "MANIFEST.json"), "w"), indent=1)
    print("wrote MANIFEST.json with", len(checks), "checks")

if __name__ == "__main__":
    main()
