#!/bin/bash
# usage: tools_mut.sh <check-id> <file> <sed-expr>  -- applies a mutation to /repo, runs the quick check, restores.
ID=$1; F=$2; E=$3
cd /repo && git diff --quiet || { echo "repo dirty"; exit 9; }
sed -i "$E" "$F"
if git diff --quiet; then echo "MUTATION DID NOT APPLY"; exit 9; fi
cd /verif && ./check $ID quick 2>&1 | grep -v "^  " | tail -${LINES_OUT:-6}
rc=${PIPESTATUS[0]}
git -C /repo checkout -- .
echo "rc=$rc"
