#!/bin/bash
# usage: tools/port_seed.sh <seed-name>   -- re-bases a seed made on 366a273 onto /repo HEAD (after fix 79f2a8c)
set -u
n=$1; W=/tmp/port-$n
export GOFLAGS=-mod=mod GOPROXY=off GOSUMDB=off GOTOOLCHAIN=local
git -C /repo worktree add -q --detach $W 366a273 || exit 9
trap 'git -C /repo worktree remove --force $W >/dev/null 2>&1' EXIT
src=/verif/seeded/$n/patch.diff; [ -f /verif/seeded/$n/patch.orig-366a273.diff ] && src=/verif/seeded/$n/patch.orig-366a273.diff
git -C $W apply $src || { echo "$n: does not apply on 366a273"; exit 1; }
python3 - $W <<'PY'
import re,sys
p=sys.argv[1]+'/server/report_listener_udp.go'
s=open(p).read()
m=re.search(r'\n(\t+)if report\.PowerOutput > server\.equipment\[report\.ShortID\]\.Capacity\*MaxCapacityBuffer/100 && report\.PowerOutput <= math\.MaxInt64 \{', s)
if m:
    ind=m.group(1)
    new=f'''
{ind}// The products are computed in 128 bits, a capacity above 2^64/135 must
{ind}// not wrap around into a small limit.
{ind}capHi, capLo := bits.Mul64(server.equipment[report.ShortID].Capacity, MaxCapacityBuffer)
{ind}powHi, powLo := bits.Mul64(report.PowerOutput, 100)
{ind}if (powHi > capHi || (powHi == capHi && powLo > capLo)) && report.PowerOutput <= math.MaxInt64 {{'''
    s=s[:m.start()]+new+s[m.end():]
    if '"math/bits"' not in s:
        s=s.replace('\t"math"\n','\t"math"\n\t"math/bits"\n',1)
    open(p,'w').write(s)
PY
git -C $W diff 79f2a8c -- . > /tmp/ported-$n.diff
(cd $W && go build ./... && go build -tags "test verif" ./...) || { echo "$n: ported tree does not build"; exit 1; }
git -C $W reset -q --hard; git -C $W checkout -q --detach 79f2a8c
git -C $W apply --check /tmp/ported-$n.diff || { echo "$n: ported patch does not apply on HEAD"; exit 1; }
[ -f /verif/seeded/$n/patch.orig-366a273.diff ] || cp /verif/seeded/$n/patch.diff /verif/seeded/$n/patch.orig-366a273.diff
cp /tmp/ported-$n.diff /verif/seeded/$n/patch.diff; rm -f /tmp/ported-$n.diff
jq '. + {ported_2: "re-based by hand onto 79f2a8c (fix: capacity limit in 128 bits): the change itself is unchanged; where it did not touch the capacity comparison the fixed comparison is kept, where it replaced the comparison the replacement is kept; original in patch.orig-366a273.diff"}' /verif/seeded/$n/meta.json > /tmp/m-$n.json && mv /tmp/m-$n.json /verif/seeded/$n/meta.json
echo "$n ported"
