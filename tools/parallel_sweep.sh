#!/bin/bash
# usage: tools/parallel_sweep.sh <seed>   -- runs ALL quick checks at the same time (contention test)
SEED=$1
cd "$(dirname "$0")/.."
for id in $(jq -r '.checks[].property_id' MANIFEST.json); do
  ( t0=$(date +%s); out=$(VERIF_SEED=$SEED ./check $id quick 2>&1); rc=$?; echo "$id seed=$SEED par rc=$rc $(( $(date +%s)-t0 ))s :: $(echo "$out" | grep -E 'VIOLATION|INCONCLUSIVE' | head -2 | cut -c1-200 | tr '\n' ' ')" ) &
done
wait
