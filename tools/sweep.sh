#!/bin/bash
# usage: tools/sweep.sh <tier> <seed> [ids…]  -- runs the checks sequentially, prints one line each
TIER=$1; SEED=$2; shift 2
[ $# -eq 0 ] && set -- $(jq -r '.checks[].property_id' MANIFEST.json)
cd "$(dirname "$0")/.."
for id in "$@"; do
  t0=$(date +%s)
  out=$(VERIF_SEED=$SEED ./check $id $TIER 2>&1); rc=$?
  echo "$id seed=$SEED $TIER rc=$rc $(( $(date +%s)-t0 ))s :: $(echo "$out" | grep -E 'VIOLATION|INCONCLUSIVE|KNOWN-FINDING' | head -3 | cut -c1-160 | tr '\n' ' ')"
done
