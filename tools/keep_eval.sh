#!/bin/bash
# usage: tools/keep_eval.sh <Cxx> <round letter, e.g. C or D> [extra check ids…]
# keeps /tmp/mut/<Cxx>_mut<L><k> (k=1..3) as seeded/<Cxx>-<L><k> and evaluates each against its own check (+ extras)
P=$1; L=$2; shift 2
wt=/tmp/mut/$(echo $P | tr A-Z a-z)
for k in 1 2 3; do
  d=/tmp/mut/${P}_mut${L}$k
  [ -d $d ] || continue
  [ -d /verif/seeded/$P-$L$k ] && { echo "$P-$L$k exists"; continue; }
  /verif/tools/keep_seed.sh $d $wt $P-$L$k 2>&1 | tail -1
  [ -d /verif/seeded/$P-$L$k ] && /verif/tools/seed_eval.sh $P-$L$k $P "$@" | cut -c1-260
done
