#!/usr/bin/env python3
"""Rewrites DESIGN.md §10.6 (between the markers) from seeded/*/eval.txt via seed_table.py."""
import subprocess, re
tab = subprocess.run(['python3', '/verif/tools/seed_table.py'], capture_output=True, text=True).stdout
p = '/verif/DESIGN.md'
s = open(p).read()
begin, end = '<!-- SEED-TABLE-BEGIN -->', '<!-- SEED-TABLE-END -->'
block = begin + '\n' + tab + end
if begin in s:
    s = re.sub(re.escape(begin) + '.*?' + re.escape(end), lambda m: block, s, flags=re.S)
else:
    s += '\n' + block + '\n'
open(p, 'w').write(s)
print('table rows:', tab.count('\n') - 2)
