#!/bin/bash
# usage: tools/confirm_seed.sh <mutdir> <worktree>
# Confirms a seeded change independently: clean tree -> pinned suite ok + demo passes;
# patched tree -> builds in both tag modes, pinned suite ok, demo fails. Leaves the worktree clean.
set -u
export GOFLAGS=-mod=mod GOPROXY=off GOSUMDB=off GOTOOLCHAIN=local
M=$(readlink -f "$1"); WT=$(readlink -f "$2")
demo=$(jq -r .demo_cmd "$M/meta.json")
# demo commands often end in '; rm …' so the exit status alone is not trusted
verdict() { if grep -qE '^(--- FAIL|FAIL|panic:|fatal error:)' "$1" || [ "$2" -ne 0 ]; then echo fail; elif grep -qE '^(ok|PASS)' "$1"; then echo pass; elif [ "$2" -eq 0 ]; then echo pass; else echo unknown; fi; }
clean() { git -C "$WT" checkout -q -- . ; git -C "$WT" clean -fdq; }
pinned() { (cd "$WT" && for i in 1 2 3 4 5 6 7 8 9 10; do chrt -f 50 go test -vet=off -count=1 ./glow/ >/dev/null 2>&1 && { echo ok; return; }; done; echo FAIL); }
clean
p0=$(pinned)
bash -c "$demo" >/tmp/confirm.$$.log 2>&1; rc=$?
d0=$(verdict /tmp/confirm.$$.log $rc)
clean
git -C "$WT" apply "$M/patch.diff" || { echo "patch does not apply"; exit 1; }
b1=$( (cd "$WT" && go build ./... && go build -tags test ./... && go build -tags "test verif" ./...) >/dev/null 2>&1 && echo ok || echo FAIL)
p1=$(pinned)
bash -c "$demo" >/tmp/confirm.$$.log2 2>&1; rc=$?
d1=$(verdict /tmp/confirm.$$.log2 $rc)
git -C "$WT" apply "$M/patch.diff" 2>/dev/null # demo cmds may have cleaned; ignore
clean
echo "$(basename $M): clean[pinned=$p0 demo=$d0] patched[build=$b1 pinned=$p1 demo=$d1]"
tail -3 /tmp/confirm.$$.log2 | cut -c1-200
rm -f /tmp/confirm.$$.log /tmp/confirm.$$.log2
