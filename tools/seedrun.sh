#!/bin/bash
# usage: tools/seedrun.sh <patch.diff> <CHECK-ID> [more check ids…]
# Applies the patch to a throw-away worktree of /repo (never to /repo itself),
# runs the named checks' quick tier against it and prints one line per check.
# (The official protocol - apply to /repo, run, git checkout - gives the same
# result; this variant allows several evaluations to run at the same time.)
set -u
PATCH=$(readlink -f "$1"); shift
WT=$(mktemp -d /tmp/seedrun-XXXXXX)
rmdir "$WT"
git -C /repo worktree add -q "$WT" HEAD || exit 9
trap 'git -C /repo worktree remove --force "$WT" >/dev/null 2>&1; rm -rf "$WT"' EXIT
if ! git -C "$WT" apply "$PATCH"; then echo "PATCH DOES NOT APPLY: $PATCH"; exit 9; fi
cd /verif
for id in "$@"; do
  out=$(VERIF_REPO="$WT" VERIF_ROOT_EVIDENCE=skip ./check "$id" ${TIER:-quick} 2>&1); rc=$?
  key=$(echo "$out" | grep -A1 '^VIOLATION' | grep '^  ' | head -1 | cut -c1-150)
  echo "$id rc=$rc $(echo "$out" | tail -1 | cut -c1-100) | $key"
done
