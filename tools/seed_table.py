#!/usr/bin/env python3
"""Prints a markdown table: seeded change -> last evaluation result per check (from seeded/*/eval.txt)."""
import json, os, re, glob
rows=[]
for d in sorted(glob.glob('/verif/seeded/*/')):
    name=os.path.basename(d.rstrip('/'))
    meta=json.load(open(d+'meta.json'))
    res={}
    if os.path.exists(d+'eval.txt'):
        for l in open(d+'eval.txt'):
            m=re.match(r'^(C\d+) rc=(\d+) .*?\|\s*(.*)$', l)
            if m:
                key=m.group(3).split(':')[0].strip() if m.group(2)=='1' else ''
                if ':' in m.group(3) and m.group(2)=='1':
                    key=m.group(3).strip().split(': ')[0]
                res[m.group(1)]=(m.group(2),key)
    title=meta.get('title') or meta.get('what_it_breaks','')[:70]
    needs=meta.get('needs_to_manifest','')
    caught=[f"{c}: `{k[:70]}`" for c,(rc,k) in res.items() if rc=='1']
    missed=[c for c,(rc,k) in res.items() if rc=='0']
    rows.append((name,title,caught,missed))
print('| seed | change | caught by (violation key) | not caught by |')
print('|---|---|---|---|')
for name,title,caught,missed in rows:
    print(f"| {name} | {title[:110]} | {'; '.join(caught) or '-'} | {', '.join(missed) or '-'} |")
