#!/bin/bash
# Re-evaluates every seeded change against the check of its own property, 4 at a time.
cd /verif
ls seeded | xargs -P 4 -I{} ./tools/seed_eval.sh {} 2>&1 | cut -c1-200
